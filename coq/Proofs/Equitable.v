(* Equitable.v -- the partition-refinement loop (canonicalization.refine_partitions) stops at an
   equitable partition, and it always stops within its fuel.

   1. rank facts: the class values handed out by one partition_by round are exactly 0 .. d-1
   2. one round refines the partition it starts from
   3. atoms in one final class have the same invariant code
   4. the final partition is equitable (stable under one more round)
   5. the fuel S (number of atoms) always suffices; labels, bonds, identity data are untouched
   6. ethanol as a non-vacuity witness *)
From Coq Require Import List NArith ZArith Bool Lia Permutation Sorting.Sorted.
Require Import Base Mol Partition SortProofs.
Import ListNotations.

(* well-formed graph: distinct node labels, no self loops, bond ends are nodes *)
Definition wfg {P B} (m : mol P B) : Prop :=
  NoDup (labels m) /\
  forall b, In b (bonds m) ->
    fst (ends b) <> snd (ends b) /\ In (fst (ends b)) (labels m) /\ In (snd (ends b)) (labels m).

(* ------------------------------------------------------------------------------------------ *)
(* small list facts                                                                            *)
(* ------------------------------------------------------------------------------------------ *)
Lemma NoDup_map_inj_on {A C} (f : A -> C) l :
  NoDup (map f l) -> forall x y, In x l -> In y l -> f x = f y -> x = y.
Proof.
  induction l as [|a t IH]; simpl; intros ND x y Hx Hy E; [contradiction|].
  inversion ND as [|? ? Hn ND']; subst.
  destruct Hx as [->|Hx], Hy as [->|Hy]; auto.
  - exfalso. apply Hn. rewrite E. apply in_map, Hy.
  - exfalso. apply Hn. rewrite <- E. apply in_map, Hx.
Qed.

Lemma maxN_list_spec l v : maxN_list l = Some v -> In v l /\ forall z, In z l -> (z <= v)%N.
Proof.
  revert v. induction l as [|a t IH]; simpl; intros v H; [discriminate|].
  destruct (maxN_list t) as [w|] eqn:E.
  - inversion H; subst. destruct (IH w eq_refl) as [Hin Hle]. split.
    + destruct (N.max_spec a w) as [[_ ->]|[_ ->]]; auto.
    + intros z [->|Hz]; [lia|]. specialize (Hle z Hz). lia.
  - inversion H; subst. destruct t as [|b t'].
    + split; [left; reflexivity|]. intros z [->|[]]. lia.
    + simpl in E. destruct (maxN_list t'); discriminate.
Qed.
Lemma maxN_list_some l : l <> [] -> exists v, maxN_list l = Some v.
Proof. destruct l as [|a t]; [congruence|]. intros _. simpl. destruct (maxN_list t); eauto. Qed.

(* the values 0 .. d-1 *)
Definition vals (d : nat) : list N := map N.of_nat (seq 0 d).
Lemma vals_in d v : In v (vals d) <-> (v < N.of_nat d)%N.
Proof.
  unfold vals. rewrite in_map_iff. split.
  - intros [i [<- Hi]]. apply in_seq in Hi. lia.
  - intros H. exists (N.to_nat v). split; [apply N2Nat.id|]. apply in_seq. lia.
Qed.
Lemma vals_length d : length (vals d) = d.
Proof. unfold vals. rewrite map_length. apply seq_length. Qed.
Lemma vals_NoDup d : NoDup (vals d).
Proof.
  unfold vals. apply FinFun.Injective_map_NoDup; [|apply seq_NoDup].
  intros x y. apply Nat2N.inj.
Qed.

(* ------------------------------------------------------------------------------------------ *)
(* 1. rank facts                                                                               *)
(* ------------------------------------------------------------------------------------------ *)
Section RankFacts.
  Variable K : Type.
  Variable kle : K -> K -> bool.
  Hypothesis kle_total : forall x y, kle x y = true \/ kle y x = true.
  Hypothesis kle_trans : forall x y z, kle x y = true -> kle y z = true -> kle x z = true.
  Hypothesis kle_antisym : forall x y, kle x y = true -> kle y x = true -> x = y.

  Lemma kle_refl x : kle x x = true.
  Proof. destruct (kle_total x x); assumption. Qed.
  Lemma keqb_eq x y : keqb kle x y = true <-> x = y.
  Proof.
    unfold keqb. rewrite andb_true_iff. split.
    - intros [H1 H2]. apply kle_antisym; assumption.
    - intros ->. split; apply kle_refl.
  Qed.
  Lemma keqb_neq x y : keqb kle x y = false <-> x <> y.
  Proof.
    split.
    - intros H E. apply keqb_eq in E. congruence.
    - intros H. destruct (keqb kle x y) eqn:E; [|reflexivity]. apply keqb_eq in E. contradiction.
  Qed.

  Definition ssorted := StronglySorted (fun x y => kle x y = true).

  Lemma isort_ssorted l : ssorted (isort kle l).
  Proof.
    apply Sorted_StronglySorted.
    - intros x y z. apply kle_trans.
    - apply isort_sorted; assumption.
  Qed.

  Lemma dedup_cons2 x y t :
    dedup kle (x :: y :: t) = if keqb kle x y then dedup kle (y :: t) else x :: dedup kle (y :: t).
  Proof. reflexivity. Qed.

  Lemma dedup_incl l z : In z (dedup kle l) -> In z l.
  Proof.
    induction l as [|x t IH]; [simpl; auto|].
    destruct t as [|y t']; [simpl; auto|].
    rewrite dedup_cons2. destruct (keqb kle x y).
    - intros H. right. apply IH, H.
    - intros [->|H]; [left; reflexivity|]. right. apply IH, H.
  Qed.
  Lemma dedup_in l z : In z l -> In z (dedup kle l).
  Proof.
    induction l as [|x t IH]; [simpl; auto|].
    destruct t as [|y t']; [simpl; auto|].
    rewrite dedup_cons2. destruct (keqb kle x y) eqn:E.
    - apply keqb_eq in E. subst y. intros [->|H]; apply IH; [left; reflexivity | exact H].
    - intros [->|H]; [left; reflexivity|]. right. apply IH, H.
  Qed.
  Lemma dedup_length l : (length (dedup kle l) <= length l)%nat.
  Proof.
    induction l as [|x t IH]; [simpl; lia|].
    destruct t as [|y t']; [simpl; lia|].
    rewrite dedup_cons2. destruct (keqb kle x y); simpl in *; lia.
  Qed.
  Lemma dedup_ssorted l : ssorted l -> ssorted (dedup kle l).
  Proof.
    induction l as [|x t IH]; [simpl; auto|].
    destruct t as [|y t']; [simpl; auto|].
    intros HS. inversion HS as [|? ? HS' HF]; subst.
    rewrite dedup_cons2. destruct (keqb kle x y).
    - apply IH, HS'.
    - constructor; [apply IH, HS'|].
      rewrite Forall_forall in *. intros z Hz. apply HF, dedup_incl, Hz.
  Qed.
  Lemma dedup_NoDup l : ssorted l -> NoDup (dedup kle l).
  Proof.
    induction l as [|x t IH]; [simpl; constructor|].
    destruct t as [|y t']; [simpl; repeat constructor; simpl; tauto|].
    intros HS. inversion HS as [|? ? HS' HF]; subst.
    rewrite dedup_cons2. destruct (keqb kle x y) eqn:E.
    - apply IH, HS'.
    - constructor; [|apply IH, HS'].
      intros Hin. apply dedup_incl in Hin. apply keqb_neq in E. apply E.
      rewrite Forall_forall in HF.
      destruct Hin as [->|Hin]; [reflexivity|].
      apply kle_antisym; [apply HF; left; reflexivity|].
      inversion HS' as [|? ? _ HF']; subst. rewrite Forall_forall in HF'. apply HF', Hin.
  Qed.

  (* the distinct keys in increasing order: sorted(set(keys)) *)
  Definition distinct (keys : list K) : list K := dedup kle (isort kle keys).
  Lemma distinct_in keys k : In k (distinct keys) <-> In k keys.
  Proof.
    unfold distinct. split; intros H.
    - apply dedup_incl in H. apply isort_in in H. exact H.
    - apply dedup_in. apply isort_in. exact H.
  Qed.
  Lemma distinct_NoDup keys : NoDup (distinct keys).
  Proof. apply dedup_NoDup, isort_ssorted. Qed.
  Lemma distinct_ssorted keys : ssorted (distinct keys).
  Proof. apply dedup_ssorted, isort_ssorted. Qed.
  Lemma distinct_length keys : (length (distinct keys) <= length keys)%nat.
  Proof. unfold distinct. rewrite <- (isort_length _ kle keys). apply dedup_length. Qed.

  Lemma index_of_lt k l : In k l -> (index_of kle k l < N.of_nat (length l))%N.
  Proof.
    induction l as [|a t IH]; simpl; [contradiction|].
    intros H. destruct (keqb kle a k) eqn:E; [lia|].
    apply keqb_neq in E. destruct H as [H|H]; [contradiction|].
    specialize (IH H). lia.
  Qed.
  Lemma index_of_nth k l : In k l -> nth_error l (N.to_nat (index_of kle k l)) = Some k.
  Proof.
    induction l as [|a t IH]; simpl; [contradiction|].
    intros H. destruct (keqb kle a k) eqn:E.
    - apply keqb_eq in E. subst. reflexivity.
    - apply keqb_neq in E. destruct H as [H|H]; [contradiction|].
      rewrite N2Nat.inj_succ. simpl. apply IH, H.
  Qed.
  Lemma index_of_nth_inv l : NoDup l -> forall i k, nth_error l i = Some k -> index_of kle k l = N.of_nat i.
  Proof.
    induction l as [|a t IH]; intros ND i k H; [destruct i; discriminate|].
    inversion ND as [|? ? Hn ND']; subst.
    destruct i as [|i]; simpl in *.
    - inversion H; subst. rewrite (proj2 (keqb_eq k k) eq_refl). reflexivity.
    - assert (Hin : In k t) by (eapply nth_error_In; exact H).
      assert (Hne : a <> k) by (intros ->; contradiction).
      apply keqb_neq in Hne. rewrite Hne. rewrite (IH ND' i k H). lia.
  Qed.
  Lemma index_of_mono l k k' :
    ssorted l -> In k l -> In k' l -> kle k k' = true -> (index_of kle k l <= index_of kle k' l)%N.
  Proof.
    induction l as [|a t IH]; simpl; [contradiction|].
    intros HS Hk Hk' Hle. inversion HS as [|? ? HS' HF]; subst. rewrite Forall_forall in HF.
    destruct (keqb kle a k) eqn:E; [lia|].
    apply keqb_neq in E. destruct Hk as [Hk|Hk]; [contradiction|].
    destruct (keqb kle a k') eqn:E'.
    - apply keqb_eq in E'. subst k'. exfalso. apply E. apply kle_antisym; [apply HF, Hk | exact Hle].
    - apply keqb_neq in E'. destruct Hk' as [Hk'|Hk']; [contradiction|].
      specialize (IH HS' Hk Hk' Hle). lia.
  Qed.

  (* number of distinct keys *)
  Definition ndistinct (keys : list K) : nat := length (distinct keys).

  Theorem rank_lt keys k : In k keys -> (rank kle keys k < N.of_nat (ndistinct keys))%N.
  Proof. intros H. apply index_of_lt. apply distinct_in, H. Qed.
  Theorem rank_lt' keys k :
    In k keys -> (rank kle keys k < N.of_nat (length (dedup kle (isort kle keys))))%N.
  Proof. apply rank_lt. Qed.
  Theorem rank_inj keys k k' : In k keys -> In k' keys -> rank kle keys k = rank kle keys k' -> k = k'.
  Proof.
    intros H H' E. apply distinct_in in H. apply distinct_in in H'.
    apply index_of_nth in H. apply index_of_nth in H'.
    unfold rank in E. fold (distinct keys) in E. rewrite E in H. congruence.
  Qed.
  Theorem rank_mono keys k k' :
    In k keys -> In k' keys -> kle k k' = true -> (rank kle keys k <= rank kle keys k')%N.
  Proof.
    intros H H' Hle. apply index_of_mono; try assumption.
    - apply distinct_ssorted.
    - apply distinct_in, H.
    - apply distinct_in, H'.
  Qed.
  Theorem rank_strict_mono keys k k' :
    In k keys -> In k' keys -> kle k k' = true -> k <> k' -> (rank kle keys k < rank kle keys k')%N.
  Proof.
    intros H H' Hle Hne. pose proof (rank_mono _ _ _ H H' Hle) as Hm.
    assert (rank kle keys k <> rank kle keys k') by (intros E; apply Hne; eapply rank_inj; eauto).
    lia.
  Qed.
  Theorem rank_attained keys n :
    (n < N.of_nat (ndistinct keys))%N -> exists k, In k keys /\ rank kle keys k = n.
  Proof.
    intros H. unfold ndistinct in H.
    destruct (nth_error (distinct keys) (N.to_nat n)) as [k|] eqn:E.
    - exists k. split.
      + apply distinct_in. eapply nth_error_In; exact E.
      + unfold rank. fold (distinct keys).
        rewrite (index_of_nth_inv _ (distinct_NoDup keys) _ _ E). apply N2Nat.id.
    - apply nth_error_None in E. lia.
  Qed.
  (* the set of ranks of the present keys is exactly {0, .., d-1} *)
  Theorem rank_contiguous keys n :
    In n (map (rank kle keys) keys) <-> (n < N.of_nat (ndistinct keys))%N.
  Proof.
    rewrite in_map_iff. split.
    - intros [k [<- Hk]]. apply rank_lt, Hk.
    - intros H. destruct (rank_attained _ _ H) as [k [Hk E]]. exists k. auto.
  Qed.
  Lemma ndistinct_le keys : (ndistinct keys <= length keys)%nat.
  Proof. apply distinct_length. Qed.
  Lemma ndistinct_pos keys : keys <> [] -> (0 < ndistinct keys)%nat.
  Proof.
    destruct keys as [|k t]; [congruence|]. intros _.
    assert (H : In k (distinct (k :: t))) by (apply distinct_in; left; reflexivity).
    unfold ndistinct. destruct (distinct (k :: t)); [contradiction|simpl; lia].
  Qed.
End RankFacts.

(* ------------------------------------------------------------------------------------------ *)
(* find_atom / set_part bookkeeping                                                            *)
(* ------------------------------------------------------------------------------------------ *)
Lemma find_atom_in {P} (l : list (atom P)) n x : find_atom l n = Some x -> In x l.
Proof.
  induction l as [|a t IH]; simpl; [discriminate|].
  destruct (N.eqb (lbl a) n); [intros H; inversion H; auto | auto].
Qed.
Lemma find_atom_lbl {P} (l : list (atom P)) n x : find_atom l n = Some x -> lbl x = n.
Proof.
  induction l as [|a t IH]; simpl; [discriminate|].
  destruct (N.eqb (lbl a) n) eqn:E; [|auto].
  intros H; inversion H; subst. apply N.eqb_eq, E.
Qed.
Lemma find_atom_map_set_part {P} (c : atom P -> N) (l : list (atom P)) n :
  find_atom (map (fun x => set_part (c x) x) l) n = option_map (fun x => set_part (c x) x) (find_atom l n).
Proof.
  induction l as [|a t IH]; simpl; [reflexivity|].
  destruct (N.eqb (lbl a) n); [reflexivity | exact IH].
Qed.
Lemma map_part_set_part {P} (c : atom P -> N) (l : list (atom P)) :
  map (@part P) (map (fun x => set_part (c x) x) l) = map c l.
Proof. rewrite map_map. reflexivity. Qed.

(* a partition is contiguous with d classes: its class values are exactly 0 .. d-1 *)
Definition contig {P B} (m : mol P B) (d : nat) : Prop :=
  forall v, In v (map (@part P) (atoms m)) <-> (v < N.of_nat d)%N.

Lemma contig_nparts {P B} (m : mol P B) d :
  contig m d -> atoms m <> [] -> (0 < d)%nat /\ nparts m = Some (N.of_nat d - 1)%N.
Proof.
  intros HC Hne.
  assert (Hne' : map (@part P) (atoms m) <> []) by (destruct (atoms m); simpl; congruence).
  destruct (maxN_list_some _ Hne') as [v Hv]. unfold nparts. rewrite Hv.
  destruct (maxN_list_spec _ _ Hv) as [Hin Hmax].
  apply HC in Hin.
  assert (Hd : (0 < d)%nat) by lia. split; [exact Hd|].
  assert (Hin' : In (N.of_nat d - 1)%N (map (@part P) (atoms m))) by (apply HC; lia).
  apply Hmax in Hin'. f_equal. lia.
Qed.
Lemma contig_le_atoms {P B} (m : mol P B) d : contig m d -> (d <= length (atoms m))%nat.
Proof.
  intros HC. rewrite <- (map_length (@part P) (atoms m)), <- (vals_length d).
  apply NoDup_incl_length; [apply vals_NoDup|].
  intros v Hv. apply HC. apply vals_in, Hv.
Qed.

(* ------------------------------------------------------------------------------------------ *)
(* 2. one round of partition_by: contiguous class values; refines the value it partitions by   *)
(* ------------------------------------------------------------------------------------------ *)
Section PartFacts.
  Variable V : Type.
  Variable leb : V -> V -> bool.
  Variable nleb : V -> V -> bool.
  Hypothesis leb_total : forall x y, leb x y = true \/ leb y x = true.
  Hypothesis leb_trans : forall x y z, leb x y = true -> leb y z = true -> leb x z = true.
  Hypothesis leb_antisym : forall x y, leb x y = true -> leb y x = true -> x = y.
  Variables P B : Type.
  Variable val : atom P -> V.

  Notation kl := (kleb leb).
  Lemma kleb_total : forall x y, kl x y = true \/ kl y x = true.
  Proof. exact (lex_total _ leb leb_total). Qed.
  Lemma kleb_trans : forall x y z, kl x y = true -> kl y z = true -> kl x z = true.
  Proof. exact (lex_trans _ leb leb_trans). Qed.
  Lemma kleb_antisym : forall x y, kl x y = true -> kl y x = true -> x = y.
  Proof. exact (lex_antisym _ leb leb_antisym). Qed.
  Local Hint Resolve kleb_total kleb_trans kleb_antisym : core.

  Notation pby := (partition_by leb nleb val).
  Notation cls := (class_of leb nleb val).
  Notation kOf m x := (keyL nleb val m (lv_of val x)).

  (* number of classes made by one round *)
  Definition nclasses (m : mol P B) : nat := ndistinct _ kl (keys_of nleb val m).

  Lemma key_present (m : mol P B) x : In x (atoms m) -> In (kOf m x) (keys_of nleb val m).
  Proof. intros H. unfold keys_of. apply (in_map (fun x => kOf m x)), H. Qed.

  Lemma atoms_partition_by (m : mol P B) :
    atoms (pby m) = map (fun x => set_part (cls m x) x) (atoms m).
  Proof. reflexivity. Qed.
  Lemma bonds_partition_by (m : mol P B) : bonds (pby m) = bonds m.
  Proof. reflexivity. Qed.
  Lemma labels_partition_by (m : mol P B) : labels (pby m) = labels m.
  Proof. unfold labels. rewrite atoms_partition_by, map_map. reflexivity. Qed.
  Lemma length_partition_by (m : mol P B) : length (atoms (pby m)) = length (atoms m).
  Proof. rewrite atoms_partition_by. apply map_length. Qed.
  Lemma ident_partition_by (m : mol P B) :
    map (fun x => (lbl x, zn x, mass x, rad x, pay x)) (atoms (pby m)) =
    map (fun x => (lbl x, zn x, mass x, rad x, pay x)) (atoms m).
  Proof. rewrite atoms_partition_by, map_map. reflexivity. Qed.
  Lemma parts_partition_by (m : mol P B) : map (@part P) (atoms (pby m)) = map (cls m) (atoms m).
  Proof. rewrite atoms_partition_by. apply map_part_set_part. Qed.
  Lemma in_partition_by (m : mol P B) x' :
    In x' (atoms (pby m)) <-> exists x, In x (atoms m) /\ x' = set_part (cls m x) x.
  Proof.
    rewrite atoms_partition_by, in_map_iff. split; intros [x [H1 H2]]; exists x; auto.
  Qed.

  Theorem class_lt (m : mol P B) x : In x (atoms m) -> (cls m x < N.of_nat (nclasses m))%N.
  Proof. intros H. apply (rank_lt _ kl kleb_total kleb_antisym). apply key_present, H. Qed.

  Theorem class_eq_iff (m : mol P B) x y :
    In x (atoms m) -> In y (atoms m) -> (cls m x = cls m y <-> kOf m x = kOf m y).
  Proof.
    intros Hx Hy. split.
    - apply (rank_inj _ kl kleb_total kleb_antisym); auto using key_present.
    - unfold class_of. intros ->. reflexivity.
  Qed.
  Theorem class_mono (m : mol P B) x y :
    In x (atoms m) -> In y (atoms m) -> kl (kOf m x) (kOf m y) = true -> (cls m x <= cls m y)%N.
  Proof. intros Hx Hy. apply (rank_mono _ kl kleb_total kleb_trans kleb_antisym); auto using key_present. Qed.

  (* the class values of one round are exactly 0 .. nclasses-1 *)
  Theorem partition_by_contig (m : mol P B) : contig (pby m) (nclasses m).
  Proof.
    intros v. rewrite parts_partition_by. rewrite in_map_iff. split.
    - intros [x [<- Hx]]. apply class_lt, Hx.
    - intros H. destruct (rank_attained _ kl kleb_total kleb_trans kleb_antisym _ _ H) as [k [Hk E]].
      unfold keys_of in Hk. apply in_map_iff in Hk. destruct Hk as [x [<- Hx]].
      exists x. split; [exact E | exact Hx].
  Qed.
  Theorem partition_by_nparts (m : mol P B) :
    atoms m <> [] -> (0 < nclasses m)%nat /\ nparts (pby m) = Some (N.of_nat (nclasses m) - 1)%N.
  Proof.
    intros Hne. apply contig_nparts; [apply partition_by_contig|].
    rewrite atoms_partition_by. destruct (atoms m); simpl; congruence.
  Qed.
  Lemma nclasses_le (m : mol P B) : (nclasses m <= length (atoms m))%nat.
  Proof.
    unfold nclasses. etransitivity; [apply ndistinct_le|].
    unfold keys_of. rewrite map_length. reflexivity.
  Qed.

  (* one round refines: two atoms get the same new class iff their attribute sequences agree *)
  Theorem partition_by_refines (m : mol P B) x y :
    In x (atoms m) -> In y (atoms m) ->
    (part (set_part (cls m x) x) = part (set_part (cls m y) y) <-> kOf m x = kOf m y).
  Proof. simpl. apply class_eq_iff. Qed.
  Theorem partition_by_refines_parts (m : mol P B) x y :
    In x (atoms m) -> In y (atoms m) ->
    part (set_part (cls m x) x) = part (set_part (cls m y) y) ->
    val x = val y /\ isort nleb (nbr_vals val m (lbl x)) = isort nleb (nbr_vals val m (lbl y)).
  Proof.
    intros Hx Hy H. apply partition_by_refines in H; auto.
    unfold keyL, lv_of in H. simpl in H. inversion H. auto.
  Qed.
  (* the same, for atoms of the output molecule *)
  Theorem partition_by_refines' (m : mol P B) x' y' :
    In x' (atoms (pby m)) -> In y' (atoms (pby m)) -> part x' = part y' ->
    exists x y, In x (atoms m) /\ In y (atoms m) /\
      x' = set_part (cls m x) x /\ y' = set_part (cls m y) y /\
      val x = val y /\ isort nleb (nbr_vals val m (lbl x)) = isort nleb (nbr_vals val m (lbl y)).
  Proof.
    intros Hx Hy E. apply in_partition_by in Hx. apply in_partition_by in Hy.
    destruct Hx as [x [Hx ->]], Hy as [y [Hy ->]]. exists x, y.
    repeat (split; [assumption || reflexivity|]).
    apply partition_by_refines_parts; assumption.
  Qed.
End PartFacts.
Arguments nclasses {V} leb nleb {P B} val m.

(* the order of invariant codes *)
Lemma inv_leb_total x y : inv_leb x y = true \/ inv_leb y x = true.
Proof. exact (lex_total _ Zleb Zleb_total x y). Qed.
Lemma inv_leb_trans x y z : inv_leb x y = true -> inv_leb y z = true -> inv_leb x z = true.
Proof. exact (lex_trans _ Zleb Zleb_trans x y z). Qed.
Lemma inv_leb_antisym x y : inv_leb x y = true -> inv_leb y x = true -> x = y.
Proof. exact (lex_antisym _ Zleb Zleb_antisym x y). Qed.

(* ------------------------------------------------------------------------------------------ *)
(* 3-5. the refinement loop                                                                    *)
(* ------------------------------------------------------------------------------------------ *)
Section RefineFacts.
  Variables P B : Type.
  Notation pbp := (@partition_by_part P B).
  Notation pbi := (@partition_by_inv P B).
  Notation pcls := (class_of Nleb Ngeb (@part P)).

  (* k further rounds *)
  Fixpoint iterp (n : nat) (m : mol P B) : mol P B :=
    match n with O => m | S n' => iterp n' (pbp m) end.

  Lemma iterp_ind (Q : mol P B -> Prop) :
    (forall m, Q m -> Q (pbp m)) -> forall n m, Q m -> Q (iterp n m).
  Proof. intros HQ. induction n as [|n IH]; simpl; intros m H; [exact H|]. apply IH, HQ, H. Qed.

  (* where the loop stops: after some rounds, one more round left the class count unchanged *)
  Lemma refine_stop f (m r : mol P B) :
    refine f m = Some r ->
    exists n k, r = pbp (iterp n m) /\ nparts r = Some k /\ nparts (iterp n m) = Some k.
  Proof.
    revert m. induction f as [|f IH]; intros m H; [discriminate|].
    simpl in H.
    destruct (nparts (pbp m)) as [k'|] eqn:E'; [|discriminate].
    destruct (nparts m) as [k|] eqn:E; [|discriminate].
    destruct (N.eqb k' k) eqn:Ek.
    - inversion H; subst. apply N.eqb_eq in Ek. subst k'. exists O, k. simpl. auto.
    - destruct (IH _ H) as [n [k0 [H1 [H2 H3]]]]. exists (S n), k0. simpl. auto.
  Qed.
  Lemma classes_stop (m r : mol P B) :
    classes m = Some r ->
    exists n k, r = pbp (iterp n (pbi m)) /\ nparts r = Some k /\ nparts (iterp n (pbi m)) = Some k.
  Proof. apply refine_stop. Qed.

  (* anything true after the first round and kept by every further round holds of the result *)
  Lemma classes_ind (Q : mol P B -> Prop) (m r : mol P B) :
    Q (pbi m) -> (forall m', Q m' -> Q (pbp m')) -> classes m = Some r -> Q r.
  Proof.
    intros H0 HS H. destruct (classes_stop _ _ H) as [n [k [-> _]]].
    apply HS. apply iterp_ind; assumption.
  Qed.

  (* ---- structure: the loop touches nothing but the partition attribute ---- *)
  Theorem classes_bonds (m r : mol P B) : classes m = Some r -> bonds r = bonds m.
  Proof.
    apply (classes_ind (fun r => bonds r = bonds m)); [reflexivity|].
    intros m' H. exact H.
  Qed.
  Theorem classes_labels (m r : mol P B) : classes m = Some r -> labels r = labels m.
  Proof.
    apply (classes_ind (fun r => labels r = labels m)).
    - apply labels_partition_by.
    - intros m' H. unfold partition_by_part. rewrite labels_partition_by. exact H.
  Qed.
  Theorem classes_length (m r : mol P B) : classes m = Some r -> length (atoms r) = length (atoms m).
  Proof.
    apply (classes_ind (fun r => length (atoms r) = length (atoms m))).
    - apply length_partition_by.
    - intros m' H. unfold partition_by_part. rewrite length_partition_by. exact H.
  Qed.
  Theorem classes_ident (m r : mol P B) :
    classes m = Some r ->
    map (fun x => (lbl x, zn x, mass x, rad x, pay x)) (atoms r) =
    map (fun x => (lbl x, zn x, mass x, rad x, pay x)) (atoms m).
  Proof.
    apply (classes_ind (fun r => map (fun x => (lbl x, zn x, mass x, rad x, pay x)) (atoms r) =
                                 map (fun x => (lbl x, zn x, mass x, rad x, pay x)) (atoms m))).
    - apply ident_partition_by.
    - intros m' H. unfold partition_by_part. rewrite ident_partition_by. exact H.
  Qed.
  Theorem classes_wfg (m r : mol P B) : classes m = Some r -> wfg m -> wfg r.
  Proof.
    intros H [H1 H2]. unfold wfg. rewrite (classes_labels _ _ H), (classes_bonds _ _ H). auto.
  Qed.

  (* ---- 3. atoms of one final class have the same invariant code ---- *)
  Definition same_inv (m : mol P B) : Prop :=
    forall x y, In x (atoms m) -> In y (atoms m) -> part x = part y -> inv_code x = inv_code y.

  Lemma same_inv_first (m : mol P B) : same_inv (pbi m).
  Proof.
    intros x' y' Hx Hy E.
    destruct (partition_by_refines' _ inv_leb inv_geb inv_leb_total inv_leb_antisym _ _ _ _ _ _ Hx Hy E)
      as [x [y [_ [_ [-> [-> [Hv _]]]]]]].
    exact Hv.
  Qed.
  Lemma same_inv_step (m : mol P B) : same_inv m -> same_inv (pbp m).
  Proof.
    intros HI x' y' Hx Hy E.
    destruct (partition_by_refines' _ Nleb Ngeb Nleb_total Nleb_antisym _ _ _ _ _ _ Hx Hy E)
      as [x [y [Hx0 [Hy0 [-> [-> [Hv _]]]]]]].
    exact (HI x y Hx0 Hy0 Hv).
  Qed.
  Theorem classes_same_invariant (m r : mol P B) :
    classes m = Some r ->
    forall x y, In x (atoms r) -> In y (atoms r) -> part x = part y -> inv_code x = inv_code y.
  Proof.
    intros H. apply (classes_ind same_inv m r); auto using same_inv_first, same_inv_step.
  Qed.
End RefineFacts.
Arguments iterp {P B} n m.
Arguments same_inv {P B} m.

(* ------------------------------------------------------------------------------------------ *)
(* 4. equitability, 5. termination                                                             *)
(* ------------------------------------------------------------------------------------------ *)
Section Equitable.
  Variables P B : Type.
  Notation pbp := (@partition_by_part P B).
  Notation pbi := (@partition_by_inv P B).
  Notation pcls := (class_of Nleb Ngeb (@part P)).
  Notation pvals := (nbr_vals (@part P)).

  (* a function on class values read off a representative atom: v = f b  |->  g b *)
  Definition rep (f g : atom P -> N) (l : list (atom P)) (v : N) : N :=
    match find (fun b => N.eqb (f b) v) l with Some b => g b | None => 0%N end.
  Lemma rep_spec (f g : atom P -> N) l :
    (forall a b, In a l -> In b l -> f a = f b -> g a = g b) ->
    forall a, In a l -> rep f g l (f a) = g a.
  Proof.
    intros H a Ha. unfold rep. destruct (find (fun b => N.eqb (f b) (f a)) l) as [b|] eqn:E.
    - apply find_some in E. destruct E as [Hb Eb]. apply N.eqb_eq in Eb. apply H; auto.
    - pose proof (find_none _ _ E a Ha) as Hn. simpl in Hn. rewrite N.eqb_refl in Hn. discriminate.
  Qed.

  Lemma pbp_atoms (m : mol P B) : atoms (pbp m) = map (fun x => set_part (pcls m x) x) (atoms m).
  Proof. reflexivity. Qed.
  Lemma pbp_parts (m : mol P B) : map (@part P) (atoms (pbp m)) = map (pcls m) (atoms m).
  Proof. rewrite pbp_atoms. apply map_part_set_part. Qed.
  Lemma pbp_in (m : mol P B) x' :
    In x' (atoms (pbp m)) <-> exists x, In x (atoms m) /\ x' = set_part (pcls m x) x.
  Proof. apply in_partition_by. Qed.
  Lemma pbp_contig (m : mol P B) : contig (pbp m) (nclasses Nleb Ngeb (@part P) m).
  Proof. apply partition_by_contig; [apply Nleb_total | apply Nleb_trans | apply Nleb_antisym]. Qed.
  Lemma pbi_contig (m : mol P B) : contig (pbi m) (nclasses inv_leb inv_geb (@inv_code P) m).
  Proof. apply partition_by_contig; [apply inv_leb_total | apply inv_leb_trans | apply inv_leb_antisym]. Qed.

  (* a round refines the partition it starts from *)
  Lemma pbp_refines (m : mol P B) a b :
    In a (atoms m) -> In b (atoms m) -> pcls m a = pcls m b ->
    part a = part b /\ isort Ngeb (pvals m (lbl a)) = isort Ngeb (pvals m (lbl b)).
  Proof.
    intros Ha Hb E.
    apply (partition_by_refines_parts _ Nleb Ngeb Nleb_total Nleb_antisym _ _ _ m a b Ha Hb). exact E.
  Qed.

  (* every old class contains a new class: new-value |-> old-value is onto *)
  Lemma cover (m : mol P B) d d' :
    contig m d -> contig (pbp m) d' ->
    incl (vals d) (map (rep (pcls m) (@part P) (atoms m)) (vals d')).
  Proof.
    intros HC HC' v Hv. apply vals_in in Hv. apply HC in Hv. apply in_map_iff in Hv.
    destruct Hv as [a [<- Ha]]. apply in_map_iff. exists (pcls m a). split.
    - apply rep_spec; auto. intros x y Hx Hy E. exact (proj1 (pbp_refines m x y Hx Hy E)).
    - apply vals_in. apply HC'. rewrite pbp_parts. apply in_map, Ha.
  Qed.

  (* so the number of classes never drops *)
  Lemma classes_grow (m : mol P B) d d' : contig m d -> contig (pbp m) d' -> (d <= d')%nat.
  Proof.
    intros HC HC'.
    assert (H : (length (vals d) <= length (map (rep (pcls m) (@part P) (atoms m)) (vals d')))%nat).
    { apply NoDup_incl_length; [apply vals_NoDup | apply cover; assumption]. }
    rewrite map_length, !vals_length in H. exact H.
  Qed.

  (* and when it does not grow, the round changed nothing: old-equal atoms stay together *)
  Lemma stable_inj (m : mol P B) d :
    contig m d -> contig (pbp m) d ->
    forall a b, In a (atoms m) -> In b (atoms m) -> part a = part b -> pcls m a = pcls m b.
  Proof.
    intros HC HC' a b Ha Hb E.
    set (phi := rep (pcls m) (@part P) (atoms m)).
    assert (ND : NoDup (map phi (vals d))).
    { apply (@NoDup_incl_NoDup _ (vals d)).
      - apply vals_NoDup.
      - rewrite map_length. apply Nat.le_refl.
      - apply cover; assumption. }
    assert (Hphi : forall x, In x (atoms m) -> phi (pcls m x) = part x).
    { intros x Hx. apply rep_spec; auto. intros u w Hu Hw Eu. exact (proj1 (pbp_refines m u w Hu Hw Eu)). }
    assert (Hin : forall x, In x (atoms m) -> In (pcls m x) (vals d)).
    { intros x Hx. apply vals_in, HC'. rewrite pbp_parts. apply in_map, Hx. }
    apply (NoDup_map_inj_on phi (vals d) ND); auto.
    rewrite !Hphi; assumption.
  Qed.

  (* neighbour class lists after a round are the image of those before *)
  Lemma nbr_vals_map (psi : N -> N) (c : atom P -> N) (m : mol P B) l :
    (forall a, In a (atoms m) -> c a = psi (part a)) ->
    pvals (mkMol (map (fun x => set_part (c x) x) (atoms m)) (bonds m)) l = map psi (pvals m l).
  Proof.
    intros H. unfold nbr_vals, nbrs. simpl.
    induction (flat_map (fun b => nb1 l (ends b)) (bonds m)) as [|n ns IH]; simpl; [reflexivity|].
    rewrite map_app, IH. f_equal.
    rewrite find_atom_map_set_part.
    destruct (find_atom (atoms m) n) as [x|] eqn:E; simpl; [|reflexivity].
    f_equal. apply H. eapply find_atom_in; exact E.
  Qed.

  (* a partition is equitable: atoms of one class see the same multiset of classes around them *)
  Definition equitable (r : mol P B) : Prop :=
    forall x y, In x (atoms r) -> In y (atoms r) -> part x = part y ->
      isort Ngeb (pvals r (lbl x)) = isort Ngeb (pvals r (lbl y)).

  Theorem stable_equitable (m : mol P B) d : contig m d -> contig (pbp m) d -> equitable (pbp m).
  Proof.
    intros HC HC' x' y' Hx Hy E.
    apply pbp_in in Hx. apply pbp_in in Hy.
    destruct Hx as [x [Hx ->]], Hy as [y [Hy ->]]. simpl in E. simpl lbl.
    destruct (pbp_refines m x y Hx Hy E) as [_ HS].
    assert (HP : Permutation (pvals m (lbl x)) (pvals m (lbl y))).
    { rewrite (isort_perm _ Ngeb (pvals m (lbl x))), HS. apply Permutation_sym, isort_perm. }
    set (psi := rep (@part P) (pcls m) (atoms m)).
    assert (Hpsi : forall a, In a (atoms m) -> pcls m a = psi (part a)).
    { intros a Ha. symmetry. apply rep_spec; auto. apply (stable_inj m d HC HC'). }
    change (pbp m) with (mkMol (map (fun x => set_part (pcls m x) x) (atoms m)) (bonds m)).
    rewrite !(nbr_vals_map psi (pcls m) m _ Hpsi).
    apply isort_perm_invariant; [apply Ngeb_total | apply Ngeb_trans | apply Ngeb_antisym|].
    apply Permutation_map, HP.
  Qed.

  (* equitable = stable under one more round *)
  Theorem equitable_stable (r : mol P B) :
    equitable r ->
    forall x y, In x (atoms r) -> In y (atoms r) -> (part x = part y <-> pcls r x = pcls r y).
  Proof.
    intros HE x y Hx Hy.
    rewrite (class_eq_iff _ Nleb Ngeb Nleb_total Nleb_antisym _ _ _ r x y Hx Hy).
    unfold keyL, lv_of. simpl. split.
    - intros E. rewrite E, (HE x y Hx Hy E). reflexivity.
    - intros E. inversion E. reflexivity.
  Qed.

  Lemma nparts_nonempty (m : mol P B) k : nparts m = Some k -> atoms m <> [].
  Proof. intros H E. unfold nparts in H. rewrite E in H. discriminate. Qed.
  Lemma nparts_some (m : mol P B) : atoms m <> [] -> exists k, nparts m = Some k.
  Proof.
    intros H. apply maxN_list_some. destruct (atoms m); simpl; congruence.
  Qed.

  Lemma iterp_contig n (m : mol P B) : exists d, contig (iterp n (pbi m)) d.
  Proof.
    apply (iterp_ind _ _ (fun m' => exists d, contig m' d)).
    - intros m' _. eexists. apply pbp_contig.
    - eexists. apply pbi_contig.
  Qed.

  Theorem classes_equitable_nowf (m r : mol P B) : classes m = Some r -> equitable r.
  Proof.
    intros H. destruct (classes_stop _ _ _ _ H) as [n [k [-> [Hk' Hk]]]].
    destruct (iterp_contig n m) as [d HC].
    set (mk := iterp n (pbi m)) in *.
    pose proof (pbp_contig mk) as HC'.
    pose proof (nparts_nonempty _ _ Hk) as Hne.
    pose proof (nparts_nonempty _ _ Hk') as Hne'.
    destruct (contig_nparts _ _ HC Hne) as [Hd E]. destruct (contig_nparts _ _ HC' Hne') as [Hd' E'].
    rewrite Hk in E. rewrite Hk' in E'.
    assert (Hdd : nclasses Nleb Ngeb (@part P) mk = d).
    { inversion E. inversion E'. lia. }
    rewrite Hdd in HC'. exact (stable_equitable _ _ HC HC').
  Qed.

  (* ---- 4. the main theorem ---- *)
  Theorem classes_equitable (m r : mol P B) :
    wfg m -> classes m = Some r ->
    forall x y, In x (atoms r) -> In y (atoms r) -> part x = part y ->
      isort Ngeb (nbr_vals (@part P) r (lbl x)) = isort Ngeb (nbr_vals (@part P) r (lbl y)).
  Proof. intros _ H. exact (classes_equitable_nowf _ _ H). Qed.

  Theorem classes_stable (m r : mol P B) :
    wfg m -> classes m = Some r ->
    forall x y, In x (atoms r) -> In y (atoms r) ->
      (part x = part y <-> class_of Nleb Ngeb (@part P) r x = class_of Nleb Ngeb (@part P) r y).
  Proof. intros _ H. apply equitable_stable. exact (classes_equitable_nowf _ _ H). Qed.

  (* one more round on the result hands out the same number of classes *)
  Theorem classes_contig (m r : mol P B) : classes m = Some r -> exists d, (0 < d)%nat /\ contig r d.
  Proof.
    intros H. destruct (classes_stop _ _ _ _ H) as [n [k [-> [Hk' _]]]].
    eexists. split; [|apply pbp_contig].
    exact (proj1 (contig_nparts _ _ (pbp_contig _) (nparts_nonempty _ _ Hk'))).
  Qed.

  (* ---- 5. termination ---- *)
  Lemma refine_S f (m : mol P B) :
    refine (S f) m =
    match nparts (pbp m), nparts m with
    | Some k', Some k => if N.eqb k' k then Some (pbp m) else refine f (pbp m)
    | _, _ => None
    end.
  Proof. reflexivity. Qed.

  Lemma pbp_nonempty (m : mol P B) : atoms m <> [] -> atoms (pbp m) <> [].
  Proof. rewrite pbp_atoms. destruct (atoms m); simpl; congruence. Qed.

  Lemma refine_terminates f : forall (m : mol P B) d,
    contig m d -> atoms m <> [] -> (length (atoms m) + 1 <= f + d)%nat -> exists r, refine f m = Some r.
  Proof.
    induction f as [|f IH]; intros m d HC Hne Hf.
    - pose proof (contig_le_atoms _ _ HC). lia.
    - rewrite refine_S.
      pose proof (pbp_contig m) as HC'. set (d' := nclasses Nleb Ngeb (@part P) m) in *.
      destruct (contig_nparts _ _ HC Hne) as [Hd E].
      destruct (contig_nparts _ _ HC' (pbp_nonempty _ Hne)) as [Hd' E'].
      rewrite E, E'. destruct (N.eqb (N.of_nat d' - 1) (N.of_nat d - 1)) eqn:Ek; [eauto|].
      apply N.eqb_neq in Ek. pose proof (classes_grow _ _ _ HC HC') as Hg.
      apply (IH (pbp m) d' HC' (pbp_nonempty _ Hne)).
      unfold partition_by_part. rewrite length_partition_by. lia.
  Qed.

  Theorem refine_fuel_suffices (m : mol P B) : atoms m <> [] -> exists r, classes m = Some r.
  Proof.
    intros Hne. unfold classes, refine_fuel.
    apply (refine_terminates _ _ _ (pbi_contig m)).
    - unfold partition_by_inv. rewrite atoms_partition_by. destruct (atoms m); simpl; congruence.
    - unfold partition_by_inv. rewrite length_partition_by. lia.
  Qed.

  (* the round counter runs out exactly when the loop does *)
  Lemma rounds_refine f : forall (m : mol P B), rounds f m = None <-> refine f m = None.
  Proof.
    induction f as [|f IH]; intros m; simpl; [tauto|].
    destruct (nparts (pbp m)), (nparts m); try tauto.
    destruct (N.eqb n n0); [split; discriminate|].
    rewrite <- IH. destruct (rounds f (pbp m)); simpl; split; congruence.
  Qed.
  Theorem rounds_fuel_suffices (m : mol P B) :
    atoms m <> [] -> exists n, rounds (refine_fuel m) (pbi m) = Some n.
  Proof.
    intros Hne. destruct (refine_fuel_suffices _ Hne) as [r Hr]. unfold classes in Hr.
    destruct (rounds (refine_fuel m) (pbi m)) as [n|] eqn:E; [eauto|].
    apply rounds_refine in E. congruence.
  Qed.
End Equitable.
Arguments rep {P} f g l v.
Arguments equitable {P B} r.

(* ------------------------------------------------------------------------------------------ *)
(* 6. non-vacuity: ethanol                                                                      *)
(* ------------------------------------------------------------------------------------------ *)
Module EthanolExample.
  Local Open Scope N_scope.
  Definition H (l : N) : atom unit := mkAtom l 1 None None 0 tt.
  Definition ethanol : mol unit unit :=
    mkMol [H 0; H 1; H 2; H 3; H 4; H 5; mkAtom 6 6 None None 0 tt; mkAtom 7 6 None None 0 tt;
           mkAtom 8 8 None None 0 tt]
          [(0, 6, tt); (1, 6, tt); (2, 6, tt); (3, 7, tt); (4, 7, tt); (5, 8, tt); (6, 7, tt); (7, 8, tt)].

  Example ethanol_classes :
    option_map (fun r => map (@part unit) (atoms r)) (classes ethanol) = Some [0; 0; 0; 1; 1; 2; 3; 4; 5].
  Proof. vm_compute. reflexivity. Qed.

  Example ethanol_rounds : rounds (refine_fuel ethanol) (partition_by_inv ethanol) = Some 2%nat.
  Proof. vm_compute. reflexivity. Qed.

  Example ethanol_wfg : wfg ethanol.
  Proof.
    split.
    - unfold labels. simpl. repeat constructor; simpl; intuition discriminate.
    - intros b Hb. simpl in Hb.
      repeat (destruct Hb as [<-|Hb]; [vm_compute; split; [discriminate|split; tauto]|]).
      contradiction.
  Qed.

  (* the hypotheses of the main theorem are satisfiable, and its conclusion holds of the result *)
  Example ethanol_equitable :
    exists r, classes ethanol = Some r /\
              map (@part unit) (atoms r) = [0; 0; 0; 1; 1; 2; 3; 4; 5] /\
              equitable r /\
              (forall x y, In x (atoms r) -> In y (atoms r) ->
                 (part x = part y <->
                  class_of Nleb Ngeb (@part unit) r x = class_of Nleb Ngeb (@part unit) r y)).
  Proof.
    destruct (classes ethanol) as [r|] eqn:E; [|vm_compute in E; discriminate].
    exists r. split; [reflexivity|]. split.
    - pose proof ethanol_classes as Hc. rewrite E in Hc. simpl in Hc. inversion Hc. reflexivity.
    - split.
      + exact (classes_equitable _ _ _ _ ethanol_wfg E).
      + exact (classes_stable _ _ _ _ ethanol_wfg E).
  Qed.

  (* e.g. what the three methyl hydrogens (class 0) and the methylene hydrogens (class 1) see *)
  Example ethanol_neighbour_classes :
    option_map (fun r => map (fun x => isort Ngeb (nbr_vals (@part unit) r (lbl x))) (atoms r)) (classes ethanol)
    = Some [[3]; [3]; [3]; [4]; [4]; [5]; [4; 0; 0; 0]; [5; 3; 1; 1]; [4; 2]].
  Proof. vm_compute. reflexivity. Qed.
End EthanolExample.

Print Assumptions rank_lt.
Print Assumptions rank_inj.
Print Assumptions rank_mono.
Print Assumptions rank_attained.
Print Assumptions rank_contiguous.
Print Assumptions partition_by_contig.
Print Assumptions partition_by_nparts.
Print Assumptions partition_by_refines.
Print Assumptions partition_by_refines_parts.
Print Assumptions partition_by_refines'.
Print Assumptions classes_same_invariant.
Print Assumptions classes_equitable.
Print Assumptions classes_stable.
Print Assumptions classes_contig.
Print Assumptions refine_fuel_suffices.
Print Assumptions rounds_fuel_suffices.
Print Assumptions classes_length.
Print Assumptions classes_labels.
Print Assumptions classes_bonds.
Print Assumptions classes_ident.
Print Assumptions classes_wfg.
Print Assumptions EthanolExample.ethanol_equitable.
