(* ReadersNoZero.v -- the molfile readers never store an explicit zero attribute.

   The invariance theorems C01 / C04 carry the hypothesis [nozero] ("no atom stores mass 0 or
   radical 0": an explicit 0 and an absent key are different dictionaries but the same invariant
   code).  This file discharges it for EVERY molecule the readers of the model can return, for
   every input text whatsoever (conformant or not):

     read_v3000_nozero          V3000 reader: CHG= / MASS= / RAD= go through last_nonzero
     read_v2000_nozero          V2000 reader: charge codes, M  CHG / RAD / ISO go through nz / over
     read_molfile_nozero        graph_from_molfile_text: nozero and charge <> Some 0 on every atom
     read_molfile_labels        nodes are 0..n-1, in order; partition 0 everywhere
     read_molfile_bonds_in_range  every bond endpoint is a node
     read_molfile_no_self_bond  no bond from an atom to itself (section 6: both readers reject such a line)
     read_molfile_nonneg / read_molfile_positive   stored masses / radicals are >= 0, hence >= 1
     read_molfile_wfg           wfg: distinct labels, irreflexive bonds, endpoints in range

   It is the formal counterpart of the repaired reader defect ("MASS=0 RAD=0 CHG=0" used to be
   stored as zeros).  The generated tables are inspected through one boolean check only
   (charge_table_check, by vm_compute). *)
From Coq Require Import List NArith ZArith Bool Lia Arith String.
Require Import Base Mol Text Molfile MolProofs CanonView.
Require Elements V3000 V2000.
Import ListNotations.

Local Open Scope list_scope.

(* ------------------------------------------------------------------------------------ *)
(* 0. the result monad                                                                   *)
(* ------------------------------------------------------------------------------------ *)

Lemma bind_ok {A B} (r : res A) (f : A -> res B) y : bind r f = ok y -> exists x, r = ok x /\ f x = ok y.
Proof. destruct r as [e|x]; simpl; intros H; [discriminate H|]. exists x. split; [reflexivity|exact H]. Qed.

(* one step of inversion of "a run of the reader succeeded" *)
Ltac inv_step H :=
  lazymatch type of H with
  | bind _ _ = ok _ =>
      let x := fresh "x" in let E := fresh "E" in
      apply bind_ok in H; destruct H as (x & E & H); cbv beta in H
  | (if ?c then _ else _) = ok _ => let C := fresh "C" in destruct c eqn:C; [try discriminate H|try discriminate H]
  | (let (_, _) := ?p in _) = ok _ => let D := fresh "D" in destruct p eqn:D
  | inl _ = ok _ => discriminate H
  end.

(* ------------------------------------------------------------------------------------ *)
(* 1. what "no explicit zero" means on a reader atom                                      *)
(* ------------------------------------------------------------------------------------ *)

Definition ratom_nz (a : ratom) : Prop := r_chg a <> Some 0%Z /\ r_mass a <> Some 0%Z /\ r_rad a <> Some 0%Z.

Lemma dict_set_Forall {K V} (eqb : K -> K -> bool) (Q : K * V -> Prop) k v d :
  Forall Q d -> Q (k, v) -> Forall Q (dict_set eqb k v d).
Proof.
  intros Hd Hkv. induction d as [|[k' v'] r IH]; simpl.
  - constructor; [exact Hkv|constructor].
  - inversion Hd as [|? ? H1 H2]; subst. destruct (eqb k' k).
    + constructor; assumption.
    + constructor; [exact H1|apply IH; exact H2].
Qed.

(* ------------------------------------------------------------------------------------ *)
(* 2. V3000                                                                              *)
(* ------------------------------------------------------------------------------------ *)

Lemma last_nonzero_nz l : V3000.last_nonzero l <> Some 0%Z.
Proof.
  unfold V3000.last_nonzero. destruct (rev l) as [|v r]; [discriminate|].
  destruct (Z.eqb_spec v 0) as [_|Hv]; [discriminate|]. intros H. injection H as H. exact (Hv H).
Qed.

Lemma v3000_parse_atom_line_nz line a : V3000.parse_atom_line line = ok (Some a) -> ratom_nz a.
Proof.
  unfold V3000.parse_atom_line. intros H.
  do 3 inv_step H. inv_step H.
  inv_step H. do 4 inv_step H. inv_step H. do 3 inv_step H. inv_step H.
  injection H as <-. unfold ratom_nz; simpl. repeat split; apply last_nonzero_nz.
Qed.

Lemma v3000_parse_atoms_nz ls : forall atoms stars atoms' stars',
  Forall (fun p => ratom_nz (snd p)) atoms ->
  V3000.parse_atoms ls atoms stars = ok (atoms', stars') ->
  Forall (fun p => ratom_nz (snd p)) atoms'.
Proof.
  induction ls as [|l r IH]; intros atoms stars atoms' stars' Hinv H; simpl in H.
  - injection H as <- <-. exact Hinv.
  - do 3 inv_step H. destruct x1 as [a'|].
    + apply (IH _ _ _ _ (dict_set_Forall Z.eqb (fun p => ratom_nz (snd p)) _ _ _ Hinv (v3000_parse_atom_line_nz l a' E1)) H).
    + apply (IH _ _ _ _ Hinv H).
Qed.

Theorem read_v3000_nozero : forall lines atoms bonds,
  V3000.read_v3000 lines = ok (atoms, bonds) -> Forall ratom_nz atoms.
Proof.
  intros lines atoms bonds H. unfold V3000.read_v3000 in H.
  repeat inv_step H. injection H as <- _.
  match goal with E : V3000.parse_atoms _ [] [] = ok (?l, ?l0) |- _ =>
    apply (v3000_parse_atoms_nz _ [] [] l l0) in E; [|constructor]; apply Forall_map; exact E end.
Qed.

(* ------------------------------------------------------------------------------------ *)
(* 3. V2000                                                                              *)
(* ------------------------------------------------------------------------------------ *)

(* the only look at the generated table: no charge code stands for a zero charge / radical *)
Definition charge_table_nonzero (l : list (Z * (bool * Z))) : bool :=
  forallb (fun p => negb (Z.eqb (snd (snd p)) 0)) l.
Lemma charge_table_check : charge_table_nonzero Elements.v2000_charge_table = true.
Proof. vm_compute. reflexivity. Qed.

Lemma charge_code_nz c b v : V2000.charge_code c = Some (b, v) -> v <> 0%Z.
Proof.
  unfold V2000.charge_code. generalize charge_table_check. generalize Elements.v2000_charge_table.
  induction l as [|[k w] r IH]; simpl; intros Hc H; [discriminate H|].
  apply andb_prop in Hc. destruct Hc as [Hw Hr].
  destruct (Z.eqb k c).
  - injection H as ->. simpl in Hw. destruct (Z.eqb_spec v 0) as [|Hv]; [discriminate Hw|exact Hv].
  - exact (IH Hr H).
Qed.

(* not needed by the theorems (both readers test the isotope mass against 0 before storing it), but it
   says that the test never fires for D / T: the masses of the generated table are not zero *)
Lemma isotope_table_check : forallb (fun p => negb (Z.eqb (snd (snd p)) 0)) Elements.hydrogen_isotope_table = true.
Proof. vm_compute. reflexivity. Qed.

Lemma v2000_parse_atom_line_nz i line a : V2000.parse_atom_line i line = ok a -> ratom_nz a.
Proof.
  unfold V2000.parse_atom_line. intros H.
  inv_step H. inv_step H. inv_step H. inv_step H. cbv zeta in H.
  injection H as <-. unfold ratom_nz; simpl.
  destruct (V2000.charge_code x0) as [[[|] v]|] eqn:Ec;
    destruct (Z.eqb_spec z 0) as [|Hz]; repeat split; try discriminate;
    intros Hs; injection Hs as Hs; try (exact (Hz Hs)); exact (charge_code_nz _ _ _ Ec Hs).
Qed.

Lemma v2000_parse_atom_lines_nz ls : forall i atoms, V2000.parse_atom_lines i ls = ok atoms -> Forall ratom_nz atoms.
Proof.
  induction ls as [|l r IH]; intros i atoms H; simpl in H.
  - injection H as <-. constructor.
  - do 2 inv_step H. injection H as <-. constructor.
    + exact (v2000_parse_atom_line_nz _ _ _ E).
    + exact (IH _ _ E0).
Qed.

Lemma nz_nz o : V2000.nz o <> Some 0%Z.
Proof.
  destruct o as [v|]; simpl; [|discriminate]. destruct (Z.eqb_spec v 0) as [|Hv]; [discriminate|].
  intros H. injection H as H. exact (Hv H).
Qed.
Lemma over_nz new old : old <> Some 0%Z -> V2000.over new old <> Some 0%Z.
Proof.
  intros Ho. unfold V2000.over. pose proof (nz_nz new) as Hn. destruct (V2000.nz new) as [v|]; [exact Hn|exact Ho].
Qed.

Lemma apply_extra_nz d reset a : ratom_nz a -> ratom_nz (V2000.apply_extra d reset a).
Proof.
  intros (Hc & Hm & Hr). unfold V2000.apply_extra.
  assert (Hc0 : (if reset then None else r_chg a) <> Some 0%Z) by (destruct reset; [discriminate|exact Hc]).
  assert (Hr0 : (if reset then None else r_rad a) <> Some 0%Z) by (destruct reset; [discriminate|exact Hr]).
  match goal with |- ratom_nz (match ?g with Some _ => _ | None => _ end) => destruct g as [e|] end;
    unfold ratom_nz; simpl; repeat split; try assumption; apply over_nz; assumption.
Qed.

Theorem read_v2000_nozero : forall lines atoms bonds,
  V2000.read_v2000 lines = ok (atoms, bonds) -> Forall ratom_nz atoms.
Proof.
  intros lines atoms bonds H. unfold V2000.read_v2000 in H.
  repeat first [inv_step H | progress (cbv zeta in H)]. injection H as <- _.
  match goal with E : V2000.parse_atom_lines _ _ = ok _ |- _ => rename E into E8 end.
  apply v2000_parse_atom_lines_nz in E8.
  apply Forall_map. revert E8. apply Forall_impl. intros a. apply apply_extra_nz.
Qed.

(* ------------------------------------------------------------------------------------ *)
(* 4. graph_from_molecule and the entry point                                            *)
(* ------------------------------------------------------------------------------------ *)

Definition gfm_atom (p : N * ratom) : atom rpay :=
  let a := snd p in
  mkAtom (fst p) (r_zn a) (r_mass a) (r_rad a) 0%N (mkRpay (r_sym a) (r_chg a) (r_x a) (r_y a) (r_z a)).

Lemma enum_fst {A} (l : list A) : forall i, map fst (enumerate_from i l) = N_seq i (length l).
Proof. induction l as [|x r IH]; intros i; simpl; [reflexivity|]. rewrite IH. reflexivity. Qed.
Lemma enum_snd_in {A} (l : list A) : forall i p, In p (enumerate_from i l) -> In (snd p) l.
Proof.
  induction l as [|x r IH]; intros i p H; simpl in *; [contradiction|].
  destruct H as [<-|H]; [left; reflexivity|right; exact (IH _ _ H)].
Qed.
Lemma enum_length {A} (l : list A) : forall i, length (enumerate_from i l) = length l.
Proof. induction l as [|x r IH]; intros i; simpl; [reflexivity|]. rewrite IH. reflexivity. Qed.
Lemma Nseq_in_iff n : forall i x, In x (N_seq i n) <-> (i <= x < i + N.of_nat n)%N.
Proof.
  induction n as [|n IH]; intros i x; simpl N_seq.
  - simpl. split; [contradiction|lia].
  - simpl In. rewrite IH. lia.
Qed.
Lemma Nseq_nodup n : forall i, NoDup (N_seq i n).
Proof.
  induction n as [|n IH]; intros i; simpl; constructor; [|apply IH].
  rewrite Nseq_in_iff. lia.
Qed.

Lemma index_of_Z_bound k l : forall i u, index_of_Z k l i = Some u -> (i <= u < i + N.of_nat (length l))%N.
Proof.
  induction l as [|x r IH]; intros i u H; simpl in H; [discriminate H|].
  destruct (Z.eqb x k).
  - injection H as <-. simpl length. lia.
  - apply IH in H. simpl length. lia.
Qed.

Definition bonds_below {B} (n : N) (l : list (N * N * B)) : Prop :=
  forall b, In b l -> (fst (fst b) < n)%N /\ (snd (fst b) < n)%N.

Lemma add_edge_below {B} n (e : N * N) (d : B) l :
  (fst e < n)%N -> (snd e < n)%N -> bonds_below n l -> bonds_below n (add_edge e d l).
Proof.
  intros H1 H2. induction l as [|b r IH]; intros Hl c Hc; simpl in Hc.
  - destruct Hc as [<-|[]]. simpl. split; assumption.
  - destruct (bond_eqb (ends b) e).
    + destruct Hc as [<-|Hc]; [simpl; apply Hl; left; reflexivity|apply Hl; right; exact Hc].
    + destruct Hc as [<-|Hc]; [apply Hl; left; reflexivity|].
      apply IH; [|exact Hc]. intros c' Hc'. apply Hl. right. exact Hc'.
Qed.

Lemma fold_res_inv {A B} (f : res A -> B -> res A) (Inv : A -> Prop) :
  (forall acc b l', f acc b = ok l' -> exists l, acc = ok l /\ (Inv l -> Inv l')) ->
  forall bds acc r, (forall l, acc = ok l -> Inv l) -> fold_left f bds acc = ok r -> Inv r.
Proof.
  intros Hf. induction bds as [|b bds IH]; intros acc r Hacc H; simpl in H.
  - apply Hacc. exact H.
  - apply (IH (f acc b) r); [|exact H].
    intros l' E. destruct (Hf _ _ _ E) as (l & El & Himp). apply Himp. apply Hacc. exact El.
Qed.

Lemma graph_from_molecule_shape ats bds g : graph_from_molecule ats bds = ok g ->
  atoms g = map gfm_atom (enumerate_from 0 ats) /\ bonds_below (N.of_nat (length ats)) (bonds g).
Proof.
  unfold graph_from_molecule. intros H. cbv zeta in H. inv_step H. injection H as <-. simpl.
  split; [reflexivity|].
  revert E. apply fold_res_inv; [|intros l El; injection El as <-; intros b []].
  clear. intros acc b l' H. apply bind_ok in H. destruct H as (l0 & E & H). cbv beta in H.
  exists l0. split; [exact E|]. intros Hinv.
  destruct (index_of_Z (fst (fst b)) (map r_idx ats) 0) as [u|] eqn:Eu; [|discriminate H].
  destruct (index_of_Z (snd (fst b)) (map r_idx ats) 0) as [v|] eqn:Ev; [|discriminate H].
  injection H as <-.
  apply index_of_Z_bound in Eu. apply index_of_Z_bound in Ev. rewrite map_length in Eu, Ev.
  apply add_edge_below; simpl; [lia|lia|exact Hinv].
Qed.

Lemma read_molfile_inv s g : V2000.read_molfile s = ok g ->
  exists ats bds, Forall ratom_nz ats /\ graph_from_molecule ats bds = ok g.
Proof.
  unfold V2000.read_molfile. intros H. cbv zeta in H. do 2 inv_step H.
  destruct x0 as [ats bds]. simpl in H. exists ats, bds. split; [|exact H].
  inv_step E0; [exact (read_v3000_nozero _ _ _ E0)|].
  inv_step E0. exact (read_v2000_nozero _ _ _ E0).
Qed.

Theorem read_molfile_nozero : forall s g, V2000.read_molfile s = ok g ->
  forall x, In x (atoms g) -> nozero x /\ p_chg (pay x) <> Some 0%Z.
Proof.
  intros s g H x Hx. destruct (read_molfile_inv s g H) as (ats & bds & Hnz & Hg).
  destruct (graph_from_molecule_shape _ _ _ Hg) as [Ea _]. rewrite Ea in Hx.
  apply in_map_iff in Hx. destruct Hx as (p & <- & Hp). apply enum_snd_in in Hp.
  rewrite Forall_forall in Hnz. destruct (Hnz _ Hp) as (Hc & Hm & Hr).
  unfold nozero, gfm_atom; simpl. repeat split; assumption.
Qed.

Theorem read_molfile_labels : forall s g, V2000.read_molfile s = ok g ->
  labels g = N_seq 0 (length (atoms g)) /\ forall x, In x (atoms g) -> part x = 0%N.
Proof.
  intros s g H. destruct (read_molfile_inv s g H) as (ats & bds & _ & Hg).
  destruct (graph_from_molecule_shape _ _ _ Hg) as [Ea _]. unfold labels. rewrite Ea. split.
  - rewrite map_map, map_length, enum_length. rewrite <- (enum_fst ats 0). apply map_ext. reflexivity.
  - intros x Hx. apply in_map_iff in Hx. destruct Hx as (p & <- & _). reflexivity.
Qed.

Corollary read_molfile_labels_nodup : forall s g, V2000.read_molfile s = ok g -> NoDup (labels g).
Proof. intros s g H. destruct (read_molfile_labels s g H) as [-> _]. apply Nseq_nodup. Qed.

Theorem read_molfile_bonds_in_range : forall s g, V2000.read_molfile s = ok g ->
  forall b, In b (bonds g) -> In (fst (ends b)) (labels g) /\ In (snd (ends b)) (labels g).
Proof.
  intros s g H b Hb. destruct (read_molfile_labels s g H) as [-> _].
  destruct (read_molfile_inv s g H) as (ats & bds & _ & Hg).
  destruct (graph_from_molecule_shape _ _ _ Hg) as [Ea Hbd]. rewrite Ea, map_length, enum_length.
  destruct (Hbd b Hb) as [H1 H2]. unfold ends; simpl. rewrite !Nseq_in_iff. lia.
Qed.

(* what C01 / C04 ask for, in one statement; "no self loop" is read_molfile_no_self_bond in
   section 6 (the readers reject a bond from an atom to itself), all of wfg is read_molfile_wfg *)
Corollary read_molfile_ready : forall s g, V2000.read_molfile s = ok g ->
  NoDup (labels g) /\
  (forall b, In b (bonds g) -> In (fst (ends b)) (labels g) /\ In (snd (ends b)) (labels g)) /\
  (forall x, In x (atoms g) -> nozero x).
Proof.
  intros s g H. split; [exact (read_molfile_labels_nodup s g H)|]. split; [exact (read_molfile_bonds_in_range s g H)|].
  intros x Hx. exact (proj1 (read_molfile_nozero s g H x Hx)).
Qed.

(* ------------------------------------------------------------------------------------ *)
(* 5. non-vacuity: explicit zeros in the text are read, and read as "absent"              *)
(* ------------------------------------------------------------------------------------ *)

Definition attrs3 (a : ratom) : option Z * option Z * option Z := (r_chg a, r_mass a, r_rad a).
Definition gattrs (x : atom rpay) : N * option Z * option Z * option Z := (lbl x, p_chg (pay x), mass x, rad x).
Definition nl : text := [ascii_of_N 10].

Definition ex3000 : list text :=
  [t "explicit zeros"; t ""; t ""; t "  0  0  0     0  0            999 V3000";
   t "M  V30 BEGIN CTAB"; t "M  V30 COUNTS 3 2 0 0 0"; t "M  V30 BEGIN ATOM";
   t "M  V30 1 C 0.0 0.0 0.0 0 CHG=0 RAD=0 MASS=0";
   t "M  V30 2 D 1.0 0.0 0.0 0 MASS=0 RAD=0";
   t "M  V30 3 O 0.0 1.0 0.0 0 CHG=-1 MASS=17 MASS=0 RAD=2";
   t "M  V30 END ATOM"; t "M  V30 BEGIN BOND";
   t "M  V30 1 1 1 2"; t "M  V30 2 1 1 3";
   t "M  V30 END BOND"; t "M  V30 END CTAB"; t "M  END"].

Example ex3000_read :
  match V3000.read_v3000 ex3000 with
  | inr (ats, bds) => Some (map attrs3 ats, bds)
  | inl _ => None
  end = Some ([(None, None, None); (None, Some 2%Z, None); (Some (-1)%Z, None, Some 2%Z)],
              [(0, 1, 1); (0, 2, 1)]%Z).
Proof. vm_compute. reflexivity. Qed.

Example ex3000_graph :
  match V2000.read_molfile (join_with nl ex3000) with
  | inr g => Some (map gattrs (atoms g), bonds g)
  | inl _ => None
  end = Some ([(0%N, None, None, None); (1%N, None, Some 2%Z, None); (2%N, Some (-1)%Z, None, Some 2%Z)],
              [(0%N, 1%N, 1%Z); (0%N, 2%N, 1%Z)]).
Proof. vm_compute. reflexivity. Qed.

Definition ex2000 : list text :=
  [t "explicit zeros"; t ""; t "";
   t "  3  2  0  0  0  0  0  0  0  0  0999 V2000";
   t "    0.0000    0.0000    0.0000 C   0  0  0  0  0  0  0  0  0  0  0  0";
   t "    1.0000    0.0000    0.0000 O   0  5  0  0  0  0  0  0  0  0  0  0";
   t "    0.0000    1.0000    0.0000 D   0  4  0  0  0  0  0  0  0  0  0  0";
   t "  1  2  1  0  0  0  0"; t "  1  3  1  0  0  0  0";
   t "M  CHG  2   1   0   2   0"; t "M  RAD  1   1   0"; t "M  ISO  2   1   0   3   0";
   t "M  END"].

(* atom 2 had charge code 5 (-1) and atom 3 code 4 (doublet) in the atom block: an "M  CHG" / "M  RAD"
   line resets both; the zero entries themselves are not stored; D keeps its mass under "M  ISO ... 0" *)
Example ex2000_read :
  match V2000.read_v2000 ex2000 with
  | inr (ats, bds) => Some (map attrs3 ats, bds)
  | inl _ => None
  end = Some ([(None, None, None); (None, None, None); (None, Some 2%Z, None)],
              [(0, 1, 1); (0, 2, 1)]%Z).
Proof. vm_compute. reflexivity. Qed.

(* the same atom block without property lines: the charge codes are kept, and they are not zero *)
Definition ex2000b : list text := firstn 9 ex2000 ++ [t "M  ISO  1   1   0"; t "M  END"].
Example ex2000b_read :
  match V2000.read_v2000 ex2000b with
  | inr (ats, bds) => Some (map attrs3 ats, bds)
  | inl _ => None
  end = Some ([(None, None, None); (Some (-1)%Z, None, None); (None, Some 2%Z, Some 2%Z)],
              [(0, 1, 1); (0, 2, 1)]%Z).
Proof. vm_compute. reflexivity. Qed.

Example ex2000_graph :
  match V2000.read_molfile (join_with nl ex2000) with
  | inr g => Some (map gattrs (atoms g), bonds g)
  | inl _ => None
  end = Some ([(0%N, None, None, None); (1%N, None, None, None); (2%N, None, Some 2%Z, None)],
              [(0%N, 1%N, 1%Z); (0%N, 2%N, 1%Z)]).
Proof. vm_compute. reflexivity. Qed.

(* ------------------------------------------------------------------------------------ *)
(* 6. no bond from an atom to itself, no negative mass / radical                          *)
(* ------------------------------------------------------------------------------------ *)
(* Both readers reject a bond line that names the same atom twice and a negative MASS / RAD value
   (V3000: the last written value; V2000: any entry of an "M  RAD" / "M  ISO" line).  Hence, for
   EVERY text the readers accept:

     read_v3000_no_self_bond / read_v2000_no_self_bond     the two keys of every bond differ
     read_v3000_nonneg / read_v2000_nonneg                 stored masses / radicals are >= 0
     read_molfile_no_self_bond                             no edge u-u in the graph
     read_molfile_nonneg, read_molfile_positive            mass / rad >= 0, hence (nozero) >= 1       *)

Definition ratom_nonneg (a : ratom) : Prop :=
  (forall v, r_mass a = Some v -> (0 <= v)%Z) /\ (forall v, r_rad a = Some v -> (0 <= v)%Z).
Definition rbond_irrefl (b : rbond) : Prop := fst (fst b) <> snd (fst b).
Definition key_irrefl (p : Z * Z * Z) : Prop := fst (fst p) <> snd (fst p).

Lemma existsb_false_Forall {A} (f : A -> bool) l : existsb f l = false -> Forall (fun x => f x = false) l.
Proof.
  induction l as [|x r IH]; simpl; intros H; [constructor|].
  apply orb_false_iff in H. destruct H as [H1 H2]. constructor; [exact H1|exact (IH H2)].
Qed.

(* ---- V3000 ---- *)
Lemma last_nonzero_nonneg l v : V3000.last_negative l = false -> V3000.last_nonzero l = Some v -> (0 <= v)%Z.
Proof.
  unfold V3000.last_negative, V3000.last_nonzero. destruct (rev l) as [|w r]; [discriminate|].
  intros Hn. destruct (Z.eqb w 0); [discriminate|]. intros E. injection E as <-. apply Z.ltb_ge. exact Hn.
Qed.

Lemma v3000_parse_atom_line_nonneg line a : V3000.parse_atom_line line = ok (Some a) -> ratom_nonneg a.
Proof.
  unfold V3000.parse_atom_line. intros H.
  do 3 inv_step H. inv_step H.
  inv_step H. do 4 inv_step H. inv_step H. do 3 inv_step H. inv_step H.
  injection H as <-.
  match goal with C : (_ || _) = false |- _ => apply orb_false_iff in C; destruct C as [Cm Cr] end.
  split; intros v Ev; cbn [r_mass r_rad] in Ev; [exact (last_nonzero_nonneg _ _ Cm Ev)|exact (last_nonzero_nonneg _ _ Cr Ev)].
Qed.

Lemma v3000_parse_atoms_Forall (Q : ratom -> Prop) :
  (forall line a, V3000.parse_atom_line line = ok (Some a) -> Q a) ->
  forall ls atoms stars atoms' stars',
  Forall (fun p => Q (snd p)) atoms ->
  V3000.parse_atoms ls atoms stars = ok (atoms', stars') ->
  Forall (fun p => Q (snd p)) atoms'.
Proof.
  intros HQ. induction ls as [|l r IH]; intros atoms stars atoms' stars' Hinv H; simpl in H.
  - injection H as <- <-. exact Hinv.
  - do 3 inv_step H.
    match goal with E : V3000.parse_atom_line l = ok ?o |- _ => destruct o as [a'|];
      [ apply (IH _ _ _ _ (dict_set_Forall Z.eqb (fun p => Q (snd p)) _ _ _ Hinv (HQ l a' E)) H)
      | apply (IH _ _ _ _ Hinv H) ] end.
Qed.

Theorem read_v3000_nonneg : forall lines atoms bonds,
  V3000.read_v3000 lines = ok (atoms, bonds) -> Forall ratom_nonneg atoms.
Proof.
  intros lines atoms bonds H. unfold V3000.read_v3000 in H.
  repeat inv_step H. injection H as <- _.
  match goal with E : V3000.parse_atoms _ [] [] = ok (?l, ?l0) |- _ =>
    apply (v3000_parse_atoms_Forall ratom_nonneg v3000_parse_atom_line_nonneg _ [] [] l l0) in E; [|constructor];
    apply Forall_map; exact E end.
Qed.

Lemma fold_dict_set_irrefl (ty : Z) : forall (tuples : list (Z * Z)) (acc : list (Z * Z * Z)),
  Forall key_irrefl acc -> Forall (fun k => fst k <> snd k) tuples ->
  Forall key_irrefl (fold_left (fun d k => dict_set V3000.bkey_eqb k ty d) tuples acc).
Proof.
  induction tuples as [|k r IH]; intros acc Ha Ht; simpl; [exact Ha|].
  inversion Ht as [|? ? Hk Hr]; subst. apply IH; [|exact Hr].
  apply dict_set_Forall; [exact Ha|exact Hk].
Qed.

Lemma v3000_parse_bonds_irrefl ls : forall stars acc r,
  Forall key_irrefl acc -> V3000.parse_bonds ls stars acc = ok r -> Forall key_irrefl r.
Proof.
  induction ls as [|l ls IH]; intros stars acc r Ha H; cbn [V3000.parse_bonds] in H.
  - injection H as <-. exact Ha.
  - do 6 inv_step H. cbv zeta in H. inv_step H. inv_step H.
    match goal with C : existsb _ _ = false |- _ => apply existsb_false_Forall in C; rename C into Hx end.
    apply (IH _ _ _ (fold_dict_set_irrefl _ _ _ Ha (Forall_impl _ (fun k Hk => proj1 (Z.eqb_neq _ _) Hk) Hx)) H).
Qed.

Theorem read_v3000_no_self_bond : forall lines atoms bonds,
  V3000.read_v3000 lines = ok (atoms, bonds) -> Forall rbond_irrefl bonds.
Proof.
  intros lines atoms bonds H. unfold V3000.read_v3000 in H.
  repeat inv_step H. injection H as _ <-.
  apply Forall_map.
  match goal with E : (if Z.eqb _ 0 then ok [] else _) = ok ?x |- Forall _ ?x => rename E into Eb end.
  inv_step Eb.
  - injection Eb as <-. constructor.
  - repeat inv_step Eb. exact (v3000_parse_bonds_irrefl _ _ _ _ (Forall_nil _) Eb).
Qed.

(* ---- V2000 ---- *)
Lemma v2000_parse_bond_lines_irrefl n ls : forall acc r,
  Forall key_irrefl acc -> V2000.parse_bond_lines n ls acc = ok r -> Forall key_irrefl r.
Proof.
  induction ls as [|l ls IH]; intros acc r Ha H; cbn [V2000.parse_bond_lines] in H.
  - injection H as <-. exact Ha.
  - do 2 inv_step H. do 3 inv_step H. inv_step H.
    match goal with C : Z.eqb _ _ = false |- _ => apply Z.eqb_neq in C; rename C into Hne end.
    apply IH in H; [exact H|]. apply dict_set_Forall; [exact Ha|]. unfold key_irrefl; cbn [fst snd]; lia.
Qed.

Theorem read_v2000_no_self_bond : forall lines atoms bonds,
  V2000.read_v2000 lines = ok (atoms, bonds) -> Forall rbond_irrefl bonds.
Proof.
  intros lines atoms bonds H. unfold V2000.read_v2000 in H.
  repeat first [inv_step H | progress (cbv zeta in H)]. injection H as _ <-.
  apply Forall_map.
  match goal with E : V2000.parse_bond_lines _ _ [] = ok _ |- _ =>
    exact (v2000_parse_bond_lines_irrefl _ _ _ _ (Forall_nil _) E) end.
Qed.

(* the only looks at the generated tables: no radical code stands for a negative value, no isotope
   spelling for a negative mass *)
Lemma charge_table_rad_nonneg :
  forallb (fun p => fst (snd p) || Z.leb 0 (snd (snd p))) Elements.v2000_charge_table = true.
Proof. vm_compute. reflexivity. Qed.

Lemma charge_code_rad_nonneg c v : V2000.charge_code c = Some (false, v) -> (0 <= v)%Z.
Proof.
  unfold V2000.charge_code. generalize charge_table_rad_nonneg. generalize Elements.v2000_charge_table.
  induction l as [|[k w] r IH]; simpl; intros Hc H; [discriminate H|].
  apply andb_prop in Hc. destruct Hc as [Hw Hr].
  destruct (Z.eqb k c).
  - injection H as ->. simpl in Hw. apply Z.leb_le. exact Hw.
  - exact (IH Hr H).
Qed.

Lemma isotope_table_nonneg : forallb (fun p => Z.leb 0 (snd (snd p))) Elements.hydrogen_isotope_table = true.
Proof. vm_compute. reflexivity. Qed.

Lemma detect_isotope_nonneg s : (0 <= snd (detect_isotope s))%Z.
Proof.
  unfold detect_isotope, hydrogen_isotopes. generalize isotope_table_nonneg. generalize Elements.hydrogen_isotope_table.
  induction l as [|[k [e v]] r IH]; cbn [map assoc_text forallb fst snd]; intros Hc; [cbn; lia|].
  apply andb_prop in Hc. destruct Hc as [Hv Hr].
  destruct (text_eqb (t k) s); [cbn [snd]; apply Z.leb_le, Hv|apply IH, Hr].
Qed.

Lemma v2000_parse_atom_line_nonneg i line a : V2000.parse_atom_line i line = ok a -> ratom_nonneg a.
Proof.
  unfold V2000.parse_atom_line. intros H.
  inv_step H. inv_step H. inv_step H. inv_step H. cbv zeta in H.
  injection H as <-. unfold ratom_nonneg; cbn [r_mass r_rad].
  match goal with D : detect_isotope ?s = (_, ?iso) |- _ =>
    pose proof (detect_isotope_nonneg s) as Hiso; rewrite D in Hiso; cbn [snd] in Hiso end.
  split; intros v Ev.
  - match type of Ev with (if ?c then _ else _) = _ => destruct c end; [discriminate Ev|].
    injection Ev as <-. exact Hiso.
  - match type of Ev with match ?cc with _ => _ end = _ => destruct cc as [[[|] w]|] eqn:Ec end; try discriminate Ev.
    injection Ev as <-. exact (charge_code_rad_nonneg _ _ Ec).
Qed.

Lemma v2000_parse_atom_lines_nonneg ls : forall i atoms, V2000.parse_atom_lines i ls = ok atoms -> Forall ratom_nonneg atoms.
Proof.
  induction ls as [|l r IH]; intros i atoms H; simpl in H.
  - injection H as <-. constructor.
  - do 2 inv_step H. injection H as <-. constructor.
    + exact (v2000_parse_atom_line_nonneg _ _ _ E).
    + exact (IH _ _ E0).
Qed.

(* the property block: every stored "M  RAD" / "M  ISO" value is >= 0 *)
Definition extra_nonneg (e : V2000.extra) : Prop :=
  (forall v, V2000.x_rad e = Some v -> (0 <= v)%Z) /\ (forall v, V2000.x_mass e = Some v -> (0 <= v)%Z).
Definition dict_nonneg (d : list (Z * V2000.extra)) : Prop := Forall (fun p => extra_nonneg (snd p)) d.

Definition get_extra (k : Z) : list (Z * V2000.extra) -> option V2000.extra :=
  fix get (l : list (Z * V2000.extra)) :=
    match l with [] => None | (k', e) :: r' => if Z.eqb k' k then Some e else get r' end.

Lemma get_extra_nonneg k d e : dict_nonneg d -> get_extra k d = Some e -> extra_nonneg e.
Proof.
  intros Hd. induction Hd as [|[k' e'] r He _ IH]; simpl; intros H; [discriminate H|].
  destruct (Z.eqb k' k); [injection H as <-; exact He|exact (IH H)].
Qed.

Lemma extra_nonneg_empty : extra_nonneg (V2000.mkExtra None None None).
Proof. split; intros v E; discriminate E. Qed.

Lemma set_extra_nonneg k v e : (k <> V2000.PChg -> (0 <= v)%Z) -> extra_nonneg e -> extra_nonneg (V2000.set_extra k v e).
Proof.
  intros Hv [Hr Hm]. destruct k; unfold extra_nonneg; cbn [V2000.set_extra V2000.x_rad V2000.x_mass].
  - split; assumption.
  - split; [|exact Hm]. intros w E. injection E as <-. apply Hv. discriminate.
  - split; [exact Hr|]. intros w E. injection E as <-. apply Hv. discriminate.
Qed.

Lemma merge_extra_nonneg k : forall asg d,
  (k <> V2000.PChg -> Forall (fun p : Z * Z => (0 <= snd p)%Z) asg) -> dict_nonneg d -> dict_nonneg (V2000.merge_extra k asg d).
Proof.
  induction asg as [|[a v] r IH]; intros d Ha Hd; cbn [V2000.merge_extra]; [exact Hd|].
  apply IH.
  - intros Hk. specialize (Ha Hk). inversion Ha; assumption.
  - apply dict_set_Forall; [exact Hd|]. cbn [snd]. apply set_extra_nonneg.
    + intros Hk. specialize (Ha Hk). inversion Ha as [|? ? H0 _]; subst. exact H0.
    + change (extra_nonneg (match get_extra a d with Some e => e | None => V2000.mkExtra None None None end)).
      destruct (get_extra a d) as [e|] eqn:Eg; [exact (get_extra_nonneg _ _ _ Hd Eg)|exact extra_nonneg_empty].
Qed.

Lemma parse_assignments_nonneg_ok n l a : V2000.parse_assignments_nonneg n l = ok a -> Forall (fun p : Z * Z => (0 <= snd p)%Z) a.
Proof.
  unfold V2000.parse_assignments_nonneg. intros H. inv_step H. inv_step H. injection H as <-.
  match goal with C : existsb _ _ = false |- _ => apply existsb_false_Forall in C; revert C end.
  apply Forall_impl. intros p Hp. apply Z.ltb_ge. exact Hp.
Qed.

Lemma attribute_block_nonneg n : forall k ls d reset d' reset',
  length ls <= k -> dict_nonneg d -> V2000.attribute_block n ls d reset = ok (d', reset') -> dict_nonneg d'.
Proof.
  induction k as [|k IH]; intros ls d reset d' reset' Hlen Hd H.
  - destruct ls; [discriminate H|simpl in Hlen; lia].
  - destruct ls as [|l r]; [discriminate H|]. cbn [V2000.attribute_block] in H. simpl in Hlen.
    inv_step H.
    { destruct r as [|x r']; [discriminate H|]. simpl in Hlen. refine (IH _ _ _ _ _ _ Hd H); lia. }
    inv_step H.
    { inv_step H. refine (IH _ _ _ _ _ _ (merge_extra_nonneg _ _ _ _ Hd) H); [lia|intros Hk; contradiction Hk; reflexivity]. }
    inv_step H.
    { inv_step H. match goal with E : V2000.parse_assignments_nonneg _ _ = ok _ |- _ => apply parse_assignments_nonneg_ok in E; rename E into Hnn end.
      refine (IH _ _ _ _ _ _ (merge_extra_nonneg _ _ _ (fun _ => Hnn) Hd) H); lia. }
    inv_step H.
    { inv_step H. match goal with E : V2000.parse_assignments_nonneg _ _ = ok _ |- _ => apply parse_assignments_nonneg_ok in E; rename E into Hnn end.
      refine (IH _ _ _ _ _ _ (merge_extra_nonneg _ _ _ (fun _ => Hnn) Hd) H); lia. }
    inv_step H.
    { injection H as <- _. exact Hd. }
    refine (IH _ _ _ _ _ _ Hd H); lia.
Qed.

Lemma over_nonneg new old : (forall v, new = Some v -> (0 <= v)%Z) -> (forall v, old = Some v -> (0 <= v)%Z) ->
  forall v, V2000.over new old = Some v -> (0 <= v)%Z.
Proof.
  intros Hn Ho v. unfold V2000.over, V2000.nz. destruct new as [w|]; [|exact (Ho v)].
  destruct (Z.eqb w 0); [exact (Ho v)|]. intros E. injection E as <-. exact (Hn w eq_refl).
Qed.

Lemma apply_extra_nonneg d reset a : dict_nonneg d -> ratom_nonneg a -> ratom_nonneg (V2000.apply_extra d reset a).
Proof.
  intros Hd [Hm Hr]. unfold V2000.apply_extra.
  assert (Hr0 : forall v, (if reset then None else r_rad a) = Some v -> (0 <= v)%Z)
    by (destruct reset; [discriminate|exact Hr]).
  change (ratom_nonneg (match get_extra (r_idx a) d with
    | None => mkRatom (r_idx a) (r_sym a) (r_zn a) (if reset then None else r_chg a) (r_mass a) (if reset then None else r_rad a) (r_x a) (r_y a) (r_z a)
    | Some e => mkRatom (r_idx a) (r_sym a) (r_zn a) (V2000.over (V2000.x_chg e) (if reset then None else r_chg a))
                        (V2000.over (V2000.x_mass e) (r_mass a)) (V2000.over (V2000.x_rad e) (if reset then None else r_rad a))
                        (r_x a) (r_y a) (r_z a) end)).
  destruct (get_extra (r_idx a) d) as [e|] eqn:Eg; unfold ratom_nonneg; cbn [r_mass r_rad].
  - destruct (get_extra_nonneg _ _ _ Hd Eg) as [Xr Xm]. split; apply over_nonneg; assumption.
  - split; assumption.
Qed.

Theorem read_v2000_nonneg : forall lines atoms bonds,
  V2000.read_v2000 lines = ok (atoms, bonds) -> Forall ratom_nonneg atoms.
Proof.
  intros lines atoms bonds H. unfold V2000.read_v2000 in H.
  repeat first [inv_step H | progress (cbv zeta in H)]. injection H as <- _.
  match goal with E : V2000.parse_atom_lines _ _ = ok _ |- _ => apply v2000_parse_atom_lines_nonneg in E; rename E into Hats end.
  match goal with E : V2000.attribute_block _ _ [] false = ok _ |- _ =>
    apply (attribute_block_nonneg _ _ _ _ _ _ _ (le_n _) (Forall_nil _)) in E; rename E into Hd end.
  apply Forall_map. revert Hats. apply Forall_impl. intros a. apply apply_extra_nonneg. exact Hd.
Qed.

(* ---- graph_from_molecule and the entry point ---- *)
Lemma fold_res_inv_in {A B} (f : res A -> B -> res A) (Inv : A -> Prop) (Q : B -> Prop) :
  (forall acc b l', Q b -> f acc b = ok l' -> exists l, acc = ok l /\ (Inv l -> Inv l')) ->
  forall bds acc r, Forall Q bds -> (forall l, acc = ok l -> Inv l) -> fold_left f bds acc = ok r -> Inv r.
Proof.
  intros Hf. induction bds as [|b bds IH]; intros acc r HQ Hacc H; simpl in H.
  - apply Hacc. exact H.
  - inversion HQ as [|? ? Hb Hbs]; subst. apply (IH (f acc b) r Hbs); [|exact H].
    intros l' E. destruct (Hf _ _ _ Hb E) as (l & El & Himp). apply Himp. apply Hacc. exact El.
Qed.

Lemma index_of_Z_inj l : forall i k k' u, index_of_Z k l i = Some u -> index_of_Z k' l i = Some u -> k = k'.
Proof.
  induction l as [|x r IH]; intros i k k' u H H'; simpl in H, H'; [discriminate H|].
  destruct (Z.eqb_spec x k) as [Ek|Ek], (Z.eqb_spec x k') as [Ek'|Ek'].
  - congruence.
  - injection H as <-. apply index_of_Z_bound in H'. lia.
  - injection H' as <-. apply index_of_Z_bound in H. lia.
  - exact (IH _ _ _ _ H H').
Qed.

Definition bonds_irrefl {B} (l : list (N * N * B)) : Prop := forall b, In b l -> fst (ends b) <> snd (ends b).

Lemma add_edge_irrefl {B} (e : N * N) (d : B) l : fst e <> snd e -> bonds_irrefl l -> bonds_irrefl (add_edge e d l).
Proof.
  intros He. induction l as [|b r IH]; intros Hl c Hc; simpl in Hc.
  - destruct Hc as [<-|[]]. exact He.
  - destruct (bond_eqb (ends b) e).
    + destruct Hc as [<-|Hc]; [exact (Hl b (or_introl eq_refl))|apply Hl; right; exact Hc].
    + destruct Hc as [<-|Hc]; [apply Hl; left; reflexivity|].
      apply IH; [|exact Hc]. intros c' Hc'. apply Hl. right. exact Hc'.
Qed.

Lemma graph_from_molecule_irrefl ats bds g : Forall rbond_irrefl bds -> graph_from_molecule ats bds = ok g ->
  bonds_irrefl (bonds g).
Proof.
  unfold graph_from_molecule. intros Hb H. cbv zeta in H. inv_step H. injection H as <-. cbn [bonds].
  revert E. apply (fold_res_inv_in _ bonds_irrefl rbond_irrefl); [|exact Hb|intros l El; injection El as <-; intros b []].
  clear. intros acc b l' Hb H. apply bind_ok in H. destruct H as (l0 & E & H). cbv beta in H.
  exists l0. split; [exact E|]. intros Hinv.
  destruct (index_of_Z (fst (fst b)) (map r_idx ats) 0) as [u|] eqn:Eu; [|discriminate H].
  destruct (index_of_Z (snd (fst b)) (map r_idx ats) 0) as [v|] eqn:Ev; [|discriminate H].
  injection H as <-. apply add_edge_irrefl; [|exact Hinv]. cbn [fst snd]. intros Euv. subst v.
  exact (Hb (index_of_Z_inj _ _ _ _ _ Eu Ev)).
Qed.

Lemma read_molfile_inv2 s g : V2000.read_molfile s = ok g ->
  exists ats bds, Forall ratom_nonneg ats /\ Forall rbond_irrefl bds /\ graph_from_molecule ats bds = ok g.
Proof.
  unfold V2000.read_molfile. intros H. cbv zeta in H. do 2 inv_step H.
  destruct x0 as [ats bds]. simpl in H. exists ats, bds.
  inv_step E0; [exact (conj (read_v3000_nonneg _ _ _ E0) (conj (read_v3000_no_self_bond _ _ _ E0) H))|].
  inv_step E0. exact (conj (read_v2000_nonneg _ _ _ E0) (conj (read_v2000_no_self_bond _ _ _ E0) H)).
Qed.

(* the graph has no edge from a node to itself: together with read_molfile_ready, wfg *)
Theorem read_molfile_no_self_bond : forall s g, V2000.read_molfile s = ok g ->
  forall b, In b (bonds g) -> fst (ends b) <> snd (ends b).
Proof.
  intros s g H. destruct (read_molfile_inv2 s g H) as (ats & bds & _ & Hb & Hg).
  exact (graph_from_molecule_irrefl _ _ _ Hb Hg).
Qed.

Theorem read_molfile_nonneg : forall s g, V2000.read_molfile s = ok g ->
  forall x, In x (atoms g) -> (forall v, mass x = Some v -> (0 <= v)%Z) /\ (forall v, rad x = Some v -> (0 <= v)%Z).
Proof.
  intros s g H x Hx. destruct (read_molfile_inv2 s g H) as (ats & bds & Hn & _ & Hg).
  destruct (graph_from_molecule_shape _ _ _ Hg) as [Ea _]. rewrite Ea in Hx.
  apply in_map_iff in Hx. destruct Hx as (p & <- & Hp). apply enum_snd_in in Hp.
  rewrite Forall_forall in Hn. exact (Hn _ Hp).
Qed.

(* no explicit zero + no negative value: every stored mass / radical is >= 1 *)
Theorem read_molfile_positive : forall s g, V2000.read_molfile s = ok g ->
  forall x, In x (atoms g) -> (forall v, mass x = Some v -> (1 <= v)%Z) /\ (forall v, rad x = Some v -> (1 <= v)%Z).
Proof.
  intros s g H x Hx. destruct (read_molfile_nonneg s g H x Hx) as [Nm Nr].
  destruct (proj1 (read_molfile_nozero s g H x Hx)) as [Zm Zr].
  split; intros v E; [specialize (Nm v E); assert (v <> 0%Z) by congruence | specialize (Nr v E); assert (v <> 0%Z) by congruence]; lia.
Qed.

(* all of wfg: distinct labels, no self-bond, endpoints in range *)
Corollary read_molfile_wfg : forall s g, V2000.read_molfile s = ok g -> wfg g.
Proof.
  intros s g H. split; [exact (read_molfile_labels_nodup s g H)|].
  intros b Hb. destruct (read_molfile_bonds_in_range s g H b Hb) as [H1 H2].
  split; [exact (read_molfile_no_self_bond s g H b Hb)|]. split; assumption.
Qed.

(* ---- non-vacuity: the two kinds of text are rejected, in both formats ---- *)
Definition ex3000_selfbond : list text :=
  firstn 12 ex3000 ++ [t "M  V30 1 1 1 2"; t "M  V30 2 1 3 3"] ++ skipn 14 ex3000.
Definition ex3000_negative : list text :=
  firstn 9 ex3000 ++ [t "M  V30 3 O 0.0 1.0 0.0 0 CHG=-1 MASS=17 MASS=-1 RAD=2"] ++ skipn 10 ex3000.
Definition ex2000_selfbond : list text := firstn 7 ex2000 ++ [t "  1  2  1  0  0  0  0"; t "  3  3  1  0  0  0  0"] ++ skipn 9 ex2000.
Definition ex2000_negative : list text := firstn 11 ex2000 ++ [t "M  ISO  2   1   0   3  -1"; t "M  END"].

Example ex_rejected :
  V2000.read_molfile (join_with nl ex3000_selfbond) = inl EParser /\
  V2000.read_molfile (join_with nl ex3000_negative) = inl EParser /\
  V2000.read_molfile (join_with nl ex2000_selfbond) = inl EParser /\
  V2000.read_molfile (join_with nl ex2000_negative) = inl EParser.
Proof. vm_compute. repeat split. Qed.

Print Assumptions read_v3000_nozero.
Print Assumptions read_v2000_nozero.
Print Assumptions read_molfile_nozero.
Print Assumptions read_molfile_labels.
Print Assumptions read_molfile_bonds_in_range.
Print Assumptions read_molfile_ready.
Print Assumptions read_v3000_no_self_bond.
Print Assumptions read_v2000_no_self_bond.
Print Assumptions read_v3000_nonneg.
Print Assumptions read_v2000_nonneg.
Print Assumptions read_molfile_no_self_bond.
Print Assumptions read_molfile_nonneg.
Print Assumptions read_molfile_positive.
Print Assumptions read_molfile_wfg.
