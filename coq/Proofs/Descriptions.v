(* Descriptions.v -- property C01 on the level of molfile descriptions.

   TucanProofs.tucan_invariant is a statement about graphs: two graphs related by SameMol (a renaming
   of the labels, any listing orders, any orientation of the bonds) get the same string.  Here the
   statement is lifted to the texts the entry point reads:

     1. tucan_descriptions: whatever two texts are, if both are read and the graphs read are SameMol,
        the strings are equal -- no well-formedness hypothesis: what tucan_invariant asks of the first
        graph (wfg, nozero) holds for every graph the reader returns (ReadersNoZero).
     2. a positional core: the graphs of two descriptions "atom entries + pairs of entry positions",
        the second listing the entries of the first in another order (entry i at position pi i) and
        the bonded pairs as the images under pi (any order, either direction, repeated at will), are
        SameMol under the renaming pi induces on the node names.
     3. Renumbered3000 / Renumbered2000 / Renumbered23: the core instantiated on the abstract
        molecules of V3000Render / V2000Render; with the render theorems: two renderings -- arbitrary
        rendering choices, line ends -- of renumbered molecules give the same string
        (tucan_v3000_renumbered, tucan_v2000_renumbered, tucan_v2000_v3000_renumbered).
        IdentEq3000 / IdentEq2000 / Corr23_plain (NonIdentity.v) are the case pi = identity.
     4. non-vacuity: 13C-formate, atoms listed in three orders (a 3-cycle and a 4-cycle of the
        positions), in two V3000 files and a V2000 file.                                        *)
From Coq Require Import List NArith ZArith Bool Lia Arith Permutation String.
Require Import Base Mol Text Molfile Pipeline MolProofs SameMol CanonProofs CanonView TucanProofs.
Require V2000 WriterProofs SerializeProofs RefCanon V3000Render V2000Render ReadersNoZero NonIdentity.
Import ListNotations.
Import NonIdentity.

Local Open Scope list_scope.

(* ------------------------------------------------------------------------------------ *)
(* 1. any two texts                                                                      *)
(* ------------------------------------------------------------------------------------ *)

Theorem tucan_descriptions canon : H1 canon -> H2 canon ->
  forall (f : N -> N) (s s' : text) g g',
  V2000.read_molfile s = ok g -> V2000.read_molfile s' = ok g' ->
  SameMol f g g' -> tucan canon g = tucan canon g'.
Proof.
  intros HH1 HH2 f s s' g g' Hg Hg' HS.
  apply (tucan_invariant canon HH1 HH2 f g g' (ReadersNoZero.read_molfile_wfg s g Hg) HS).
  intros x Hx. exact (proj1 (ReadersNoZero.read_molfile_nozero s g Hg x Hx)).
Qed.

Theorem tucan_tokens_descriptions canon : H1 canon -> H2 canon ->
  forall (f : N -> N) (s s' : text) g g',
  V2000.read_molfile s = ok g -> V2000.read_molfile s' = ok g' ->
  SameMol f g g' -> tucan_tokens canon g = tucan_tokens canon g'.
Proof.
  intros HH1 HH2 f s s' g g' Hg Hg' HS.
  apply (tucan_tokens_invariant canon HH1 HH2 f g g' (ReadersNoZero.read_molfile_wfg s g Hg) HS).
  intros x Hx. exact (proj1 (ReadersNoZero.read_molfile_nozero s g Hg x Hx)).
Qed.

(* ------------------------------------------------------------------------------------ *)
(* 2. molecule level: SameMol from sets of pairs                                          *)
(* ------------------------------------------------------------------------------------ *)

Lemma norm_pair_idem e : norm_pair (norm_pair e) = norm_pair e.
Proof.
  destruct e as [a b]. unfold norm_pair. cbn [fst snd].
  destruct (N.leb_spec a b) as [L|L]; cbn [fst snd].
  - destruct (N.leb_spec a b); [reflexivity|lia].
  - destruct (N.leb_spec b a); [reflexivity|lia].
Qed.

Lemma norm_fpair_norm f e : norm_pair (fpair f (norm_pair e)) = norm_pair (fpair f e).
Proof.
  destruct e as [a b]. unfold norm_pair at 2. cbn [fst snd]. destruct (N.leb a b); [reflexivity|].
  unfold fpair. cbn [fst snd]. apply norm_pair_swap.
Qed.

Lemma NoDup_map_inj_in {X Y} (g : X -> Y) l :
  (forall x y, In x l -> In y l -> g x = g y -> x = y) -> NoDup l -> NoDup (map g l).
Proof.
  induction l as [|x l IH]; intros Hi Hn; cbn [map]; [constructor|].
  inversion Hn as [|? ? Hx Hl]; subst. constructor.
  - rewrite in_map_iff. intros (y & E & Hy). apply Hx.
    rewrite (Hi x y (or_introl eq_refl) (or_intror Hy) (eq_sym E)). exact Hy.
  - apply IH; [|exact Hl]. intros a b Ha Hb. apply Hi; right; assumption.
Qed.

(* a renaming f, injective on the labels; the renamed atoms of m are those of m'; both bond lists free
   of repeated unordered pairs, and the renamed pairs of m are those of m' as a set *)
Lemma SameMol_sets {P B P' B'} (f : N -> N) (m : mol P B) (m' : mol P' B') :
  wfg m -> inj_on f (labels m) ->
  Permutation (map (fun x => (f (lbl x), ident x)) (atoms m)) (map (fun x => (lbl x, ident x)) (atoms m')) ->
  NoDup (map npair (bonds m)) -> NoDup (map npair (bonds m')) ->
  (forall p, In p (map (fun q => norm_pair (fpair f q)) (map npair (bonds m))) <-> In p (map npair (bonds m'))) ->
  SameMol f m m'.
Proof.
  intros [Hnd Hbd] Hi Ha Hn Hn' Hs. split; [exact Hi|]. split; [exact Ha|].
  assert (E : map (fun b => norm_pair (fpair f (ends b))) (bonds m)
              = map (fun q => norm_pair (fpair f q)) (map npair (bonds m))).
  { rewrite map_map. apply map_ext. intros b. unfold npair. rewrite norm_fpair_norm. reflexivity. }
  rewrite E. apply NoDup_Permutation; [|exact Hn'|exact Hs].
  apply NoDup_map_inj_in; [|exact Hn].
  intros p q Hp Hq Epq. rewrite in_map_iff in Hp, Hq.
  destruct Hp as (b & <- & Hb), Hq as (c & <- & Hc).
  destruct (Hbd b Hb) as (_ & Hb1 & Hb2), (Hbd c Hc) as (_ & Hc1 & Hc2).
  unfold npair in *. rewrite !norm_fpair_norm in Epq.
  destruct (ends b) as [b1 b2], (ends c) as [c1 c2]. cbn [fst snd] in *.
  destruct (norm_pair_cases _ _ Epq) as [E'|E']; unfold fpair in E'; cbn [fst snd] in E'; injection E' as E1 E2.
  - rewrite (Hi _ _ Hc1 Hb1 E1), (Hi _ _ Hc2 Hb2 E2). reflexivity.
  - rewrite (Hi _ _ Hc1 Hb2 E1), (Hi _ _ Hc2 Hb1 E2). apply norm_pair_swap.
Qed.

(* ------------------------------------------------------------------------------------ *)
(* 3. the positional core                                                                *)
(* ------------------------------------------------------------------------------------ *)

Lemma map_flat_map {X Y Z} (g : Y -> Z) (h : X -> list Y) l : map g (flat_map h l) = flat_map (fun x => map g (h x)) l.
Proof. induction l as [|x l IH]; [reflexivity|]. cbn [flat_map]. rewrite map_app, IH. reflexivity. Qed.

Lemma flat_map_map {X Y Z} (g : X -> Y) (h : Y -> list Z) l : flat_map h (map g l) = flat_map (fun x => h (g x)) l.
Proof. induction l as [|x l IH]; [reflexivity|]. cbn [map flat_map]. rewrite IH. reflexivity. Qed.

Lemma flat_map_ext_in {X Y} (g h : X -> list Y) l : (forall x, In x l -> g x = h x) -> flat_map g l = flat_map h l.
Proof.
  induction l as [|x l IH]; intros H; [reflexivity|]. cbn [flat_map].
  rewrite (H x (or_introl eq_refl)), IH; [reflexivity|]. intros y Hy. apply H. right. exact Hy.
Qed.

(* images of position pairs *)
Definition pimap (pi : nat -> nat) (k : nat * nat) : nat * nat := (pi (fst k), pi (snd k)).

(* a bounded injection of the positions 0 .. n-1 is a permutation of them *)
Lemma bounded_inj_perm (pi : nat -> nat) n :
  (forall i, i < n -> pi i < n) -> (forall i j, i < n -> j < n -> pi i = pi j -> i = j) ->
  Permutation (map pi (seq 0 n)) (seq 0 n).
Proof.
  intros Hb Hi. apply NoDup_Permutation_bis.
  - apply NoDup_map_inj_in; [|apply seq_NoDup]. intros x y Hx Hy. rewrite in_seq in Hx, Hy. apply Hi; lia.
  - rewrite map_length. apply Nat.le_refl.
  - intros y Hy. rewrite in_map_iff in Hy. destruct Hy as (x & <- & Hx). rewrite in_seq in *.
    specialize (Hb x). lia.
Qed.

Section Core.
  Context {A : Type}.     (* what an entry carries *)

  (* an atom block: entries that are atoms (Some) or star atoms (None).  The node name of the atom at
     a position is the number of atoms before it (R3.rank); gunrank is its inverse *)
  Fixpoint grank (es : list (option A)) (p : nat) : N :=
    match es, p with
    | Some _ :: r, S p' => N.succ (grank r p')
    | None :: r, S p' => grank r p'
    | _, _ => 0%N
    end.
  Fixpoint gunrank (es : list (option A)) (x : N) : nat :=
    match es with
    | [] => 0
    | Some _ :: r => if N.eqb x 0 then 0 else S (gunrank r (N.pred x))
    | None :: r => S (gunrank r x)
    end.
  (* the labelled atoms of the graph *)
  Fixpoint aview (i : N) (es : list (option A)) : list (N * A) :=
    match es with
    | [] => []
    | Some a :: r => (i, a) :: aview (N.succ i) r
    | None :: r => aview i r
    end.
  (* the unordered pairs of node names a list of position pairs states *)
  Definition grk (es : list (option A)) (k : nat * nat) : N * N := (grank es (fst k), grank es (snd k)).
  Definition pview (es : list (option A)) (ps : list (nat * nat)) : list (N * N) := map (fun k => norm_pair (grk es k)) ps.

  Lemma gunrank_grank es : forall p a, nth_error es p = Some (Some a) -> gunrank es (grank es p) = p.
  Proof.
    induction es as [|e es IH]; intros p a H; [destruct p; discriminate H|].
    destruct p as [|p]; cbn [nth_error] in H.
    - injection H as ->. reflexivity.
    - destruct e as [a0|]; cbn [grank gunrank].
      + destruct (N.eqb_spec (N.succ (grank es p)) 0) as [E|_]; [lia|]. rewrite N.pred_succ. f_equal. apply (IH _ _ H).
      + f_equal. apply (IH _ _ H).
  Qed.

  Lemma grank_inj es : forall p q a b, nth_error es p = Some (Some a) -> nth_error es q = Some (Some b) ->
    grank es p = grank es q -> p = q.
  Proof.
    induction es as [|e es IH]; intros p q a b Hp Hq E; [destruct p; discriminate Hp|].
    destruct p as [|p], q as [|q]; cbn [nth_error] in Hp, Hq; [reflexivity| | |].
    - injection Hp as ->. cbn [grank] in E. lia.
    - injection Hq as ->. cbn [grank] in E. lia.
    - f_equal. destruct e as [a0|]; cbn [grank] in E; apply (IH p q a b Hp Hq); lia.
  Qed.

  (* the atoms, position by position *)
  Definition acell (i : N) (es : list (option A)) (p : nat) : list (N * A) :=
    match nth_error es p with Some (Some a) => [((i + grank es p)%N, a)] | _ => [] end.

  Lemma aview_flat es : forall i, aview i es = flat_map (acell i es) (seq 0 (length es)).
  Proof.
    induction es as [|e es IH]; intros i; [reflexivity|].
    cbn [length seq flat_map]. rewrite <- seq_shift, flat_map_map.
    destruct e as [a|]; cbn [aview].
    - unfold acell at 1. cbn [nth_error grank app]. rewrite N.add_0_r. f_equal. rewrite IH.
      apply flat_map_ext. intros p. unfold acell. cbn [nth_error grank].
      destruct (nth_error es p) as [[b|]|]; [|reflexivity..]. do 2 f_equal. lia.
    - unfold acell at 1. cbn [nth_error app]. rewrite IH.
      apply flat_map_ext. intros p. unfold acell. cbn [nth_error grank]. reflexivity.
  Qed.

  Lemma aview_label es x : In x (map fst (aview 0 es)) <-> exists p a, nth_error es p = Some (Some a) /\ x = grank es p.
  Proof.
    rewrite aview_flat, map_flat_map, in_flat_map. split.
    - intros (p & _ & H). unfold acell in H. destruct (nth_error es p) as [[a|]|] eqn:E; cbn in H; try contradiction.
      destruct H as [<-|[]]. exists p, a. split; [exact E|]. reflexivity.
    - intros (p & a & E & ->). exists p. split.
      + apply in_seq. split; [lia|]. cbn. apply nth_error_Some. rewrite E. discriminate.
      + unfold acell. rewrite E. left. reflexivity.
  Qed.

  (* es' lists the entries of es in another order: entry i at position pi i *)
  Record Renum (pi : nat -> nat) (es es' : list (option A)) : Prop := {
    rn_length : length es' = length es;
    rn_bound : forall i, i < length es -> pi i < length es;
    rn_inj : forall i j, i < length es -> j < length es -> pi i = pi j -> i = j;
    rn_entry : forall i, i < length es -> nth_error es' (pi i) = nth_error es i }.

  (* the renaming of node names pi induces *)
  Definition fren (pi : nat -> nat) (es es' : list (option A)) (x : N) : N := grank es' (pi (gunrank es x)).

  Section Renumbering.
    Variable pi : nat -> nat.
    Variables es es' : list (option A).
    Hypothesis HR : Renum pi es es'.

    Lemma fren_grank p a : nth_error es p = Some (Some a) -> fren pi es es' (grank es p) = grank es' (pi p).
    Proof. intros H. unfold fren. rewrite (gunrank_grank _ _ _ H). reflexivity. Qed.

    Lemma nth_lt p (e : option A) : nth_error es p = Some e -> p < length es.
    Proof. intros H. apply nth_error_Some. rewrite H. discriminate. Qed.

    Lemma renum_entry p e : nth_error es p = Some e -> nth_error es' (pi p) = Some e.
    Proof. intros H. rewrite (rn_entry _ _ _ HR p (nth_lt _ _ H)). exact H. Qed.

    Lemma fren_inj : inj_on (fren pi es es') (map fst (aview 0 es)).
    Proof.
      intros x y Hx Hy E. rewrite aview_label in Hx, Hy.
      destruct Hx as (p & a & Hp & ->), Hy as (q & b & Hq & ->).
      rewrite (fren_grank _ _ Hp), (fren_grank _ _ Hq) in E.
      apply (grank_inj _ _ _ _ _ (renum_entry _ _ Hp) (renum_entry _ _ Hq)) in E.
      rewrite (rn_inj _ _ _ HR p q (nth_lt _ _ Hp) (nth_lt _ _ Hq) E). reflexivity.
    Qed.

    Lemma renum_atoms :
      Permutation (map (fun q => (fren pi es es' (fst q), snd q)) (aview 0 es)) (aview 0 es').
    Proof.
      rewrite !aview_flat, map_flat_map, (rn_length _ _ _ HR).
      apply Permutation_trans with (flat_map (acell 0 es') (map pi (seq 0 (length es)))).
      - rewrite flat_map_map. rewrite (flat_map_ext_in _ (fun x => acell 0 es' (pi x))); [apply Permutation_refl|].
        intros p Hp. apply in_seq in Hp. unfold acell. rewrite (rn_entry _ _ _ HR p) by lia.
        destruct (nth_error es p) as [[a|]|] eqn:E; [|reflexivity..]. cbn [map fst snd].
        rewrite !N.add_0_l, (fren_grank _ _ E). reflexivity.
      - apply Permutation_flat_map, bounded_inj_perm; [exact (rn_bound _ _ _ HR)|exact (rn_inj _ _ _ HR)].
    Qed.

    (* ps: pairs of atom positions of es; ps': the same set of unordered pairs, moved by pi *)
    Lemma renum_pairs ps ps' :
      (forall u v, In (u, v) ps -> (exists a, nth_error es u = Some (Some a)) /\ (exists b, nth_error es v = Some (Some b))) ->
      same_pairs (map (pimap pi) ps) ps' ->
      forall p, In p (map (fun q => norm_pair (fpair (fren pi es es') q)) (pview es ps)) <-> In p (pview es' ps').
    Proof.
      intros Hat Hp p.
      assert (E : map (fun q => norm_pair (fpair (fren pi es es') q)) (pview es ps)
                  = map (fun k => norm_pair (grank es' (fst k), grank es' (snd k))) (map (pimap pi) ps)).
      { unfold pview. rewrite !map_map. apply map_ext_in. intros [u v] Hin.
        destruct (Hat u v Hin) as [[a Ha] [b Hb]].
        rewrite norm_fpair_norm. unfold grk, fpair, pimap. cbn [fst snd].
        rewrite (fren_grank _ _ Ha), (fren_grank _ _ Hb). reflexivity. }
      rewrite E. unfold pview, grk. split; apply same_pairs_norm; [exact Hp | apply same_pairs_sym, Hp].
    Qed.

  End Renumbering.
End Core.

(* two graphs with these views *)
Theorem renum_SameMol {P B P' B'} (pi : nat -> nat) (es es' : list (option (N * option Z * option Z)))
    (m : mol P B) (m' : mol P' B') ps ps' :
  Renum pi es es' ->
  wfg m ->
  map (fun x => (lbl x, ident x)) (atoms m) = aview 0 es ->
  map (fun x => (lbl x, ident x)) (atoms m') = aview 0 es' ->
  NoDup (map npair (bonds m)) -> NoDup (map npair (bonds m')) ->
  (forall p, In p (map npair (bonds m)) <-> In p (pview es ps)) ->
  (forall p, In p (map npair (bonds m')) <-> In p (pview es' ps')) ->
  (forall u v, In (u, v) ps -> (exists a, nth_error es u = Some (Some a)) /\ (exists b, nth_error es v = Some (Some b))) ->
  same_pairs (map (pimap pi) ps) ps' ->
  SameMol (fren pi es es') m m'.
Proof.
  intros HR Hwf Ha Ha' Hn Hn' Hb Hb' Hat Hp. apply SameMol_sets; [exact Hwf| | |exact Hn|exact Hn'|].
  - assert (El : labels m = map fst (aview 0 es)).
    { rewrite <- Ha, map_map. reflexivity. }
    rewrite El. exact (fren_inj pi es es' HR).
  - assert (E : map (fun x => (fren pi es es' (lbl x), ident x)) (atoms m)
                = map (fun q => (fren pi es es' (fst q), snd q)) (map (fun x => (lbl x, ident x)) (atoms m))).
    { rewrite map_map. reflexivity. }
    rewrite E, Ha, Ha'. exact (renum_atoms pi es es' HR).
  - intros p. rewrite Hb'. rewrite <- (renum_pairs pi es es' ps ps' Hat Hp p). rewrite !in_map_iff.
    split; intros (q & Eq & Hq); exists q; (split; [exact Eq|]); apply Hb; exact Hq.
Qed.

(* what the core needs to know about a graph: it is the graph of the description (es, ps) *)
Record GraphView {P B} (m : mol P B) (es : list (option (N * option Z * option Z))) (ps : list (nat * nat)) : Prop := {
  gv_wfg : wfg m;
  gv_atoms : map (fun x => (lbl x, ident x)) (atoms m) = aview 0 es;
  gv_nodup : NoDup (map npair (bonds m));
  gv_bonds : forall p, In p (map npair (bonds m)) <-> In p (pview es ps);
  gv_at : forall u v, In (u, v) ps -> (exists a, nth_error es u = Some (Some a)) /\ (exists b, nth_error es v = Some (Some b)) }.

(* es' / ps': the description es / ps renumbered by pi *)
Definition RenumD (pi : nat -> nat) (es es' : list (option (N * option Z * option Z))) (ps ps' : list (nat * nat)) : Prop :=
  Renum pi es es' /\ same_pairs (map (pimap pi) ps) ps'.

Theorem view_SameMol {P B P' B'} (m : mol P B) (m' : mol P' B') pi es es' ps ps' :
  GraphView m es ps -> GraphView m' es' ps' -> RenumD pi es es' ps ps' -> SameMol (fren pi es es') m m'.
Proof.
  intros V V' [HR Hp].
  exact (renum_SameMol pi es es' m m' ps ps' HR (gv_wfg _ _ _ V) (gv_atoms _ _ _ V) (gv_atoms _ _ _ V')
           (gv_nodup _ _ _ V) (gv_nodup _ _ _ V') (gv_bonds _ _ _ V) (gv_bonds _ _ _ V') (gv_at _ _ _ V) Hp).
Qed.

(* the identity renumbering *)
Lemma pimap_id ps : map (pimap (fun i => i)) ps = ps.
Proof. rewrite <- (map_id ps) at 2. apply map_ext. intros [u v]. reflexivity. Qed.

Lemma RenumD_id es es' ps ps' : es = es' -> same_pairs ps ps' -> RenumD (fun i => i) es es' ps ps'.
Proof.
  intros <- Hp. split; [|rewrite pimap_id; exact Hp].
  constructor; [reflexivity|intros i H; exact H|intros i j _ _ E; exact E|reflexivity].
Qed.

(* ------------------------------------------------------------------------------------ *)
(* 4. V3000                                                                              *)
(* ------------------------------------------------------------------------------------ *)

(* the identity data of the entries of the atom block: None for a star atom *)
Definition es3 (M : R3.molM) : list (option (N * option Z * option Z)) := map (option_map ident3) (R3.m_entries M).

Lemma grank_map {X Y} (h : X -> Y) (es : list (option X)) : forall p, grank (map (option_map h) es) p = grank es p.
Proof. induction es as [|[a|] es IH]; intros [|p]; cbn [map option_map grank]; try reflexivity; [f_equal|]; apply IH. Qed.

Lemma grank_rank es : forall p, grank es p = R3.rank es p.
Proof. reflexivity. Qed.   (* the two fixpoints are literally the same *)

Lemma m_atoms_aview es : forall i,
  map (fun x => (lbl x, ident x)) (R3.m_atoms i es) = aview i (map (option_map ident3) es).
Proof.
  induction es as [|[a|] es IH]; intros i; [reflexivity| |apply IH].
  cbn [R3.m_atoms map option_map aview]. destruct (m_atom_view i a) as [-> ->]. f_equal. apply IH.
Qed.

Theorem graph_of_view M : R3.okM M -> GraphView (R3.graph_of M) (es3 M) (pairs3 M).
Proof.
  intros HM. constructor.
  - exact (graph_of_wfg M HM (okM_loopfree3 M HM)).
  - apply m_atoms_aview.
  - rewrite graph_of_build. apply build_NoDup. constructor.
  - intros p. rewrite graph_of_bonded_pairs. unfold pview, es3.
    assert (E : map (fun k => norm_pair (rk (R3.m_entries M) k)) (pairs3 M)
                = map (fun k => norm_pair (grk (map (option_map ident3) (R3.m_entries M)) k)) (pairs3 M)).
    { apply map_ext. intros k. unfold rk, grk. rewrite !grank_map. reflexivity. }
    rewrite E. reflexivity.
  - intros u v Hin. destruct (R3.bond_keys_atoms M _ u v (R3.om_bonds _ HM) Hin) as [[a Ha] [b Hb]].
    unfold es3. rewrite !nth_error_map, Ha, Hb. split; eexists; reflexivity.
Qed.

(* M' is M with the entries of the atom block listed in another order -- the entry at position i of M
   is found at position pi i of M': both star atoms, or both atoms of the same element, effective mass
   and radical -- and with the bonded pairs moved accordingly, as a set of unordered pairs.  Index
   numbers are not part of molM at all (they are rendering choices); charges, coordinate tokens, bond
   types, the number and order of the bond lines, the direction a bond is written in, and whether a
   bond is stated once or several times are free.  pi: any function that is injective on the
   positions 0 .. n-1 and maps them below n. *)
Definition Renumbered3000 (pi : nat -> nat) (M M' : R3.molM) : Prop := RenumD pi (es3 M) (es3 M') (pairs3 M) (pairs3 M').

Lemma Renumbered3000_spec pi M M' :
  Renumbered3000 pi M M' <->
  let n := length (R3.m_entries M) in
  (length (R3.m_entries M') = n /\
   (forall i, i < n -> pi i < n) /\
   (forall i j, i < n -> j < n -> pi i = pi j -> i = j) /\
   (forall i, i < n -> option_map (option_map ident3) (nth_error (R3.m_entries M') (pi i))
                       = option_map (option_map ident3) (nth_error (R3.m_entries M) i))) /\
  (forall u v : nat,
     (In (u, v) (map (fun k => (pi (fst k), pi (snd k))) (flat_map R3.bond_keys (R3.m_bonds M))) \/
      In (v, u) (map (fun k => (pi (fst k), pi (snd k))) (flat_map R3.bond_keys (R3.m_bonds M)))) <->
     (In (u, v) (flat_map R3.bond_keys (R3.m_bonds M')) \/ In (v, u) (flat_map R3.bond_keys (R3.m_bonds M')))).
Proof.
  unfold Renumbered3000, RenumD, es3. cbv zeta. split.
  - intros [[H1 H2 H3 H4] Hp]. rewrite !map_length in *. split; [|exact Hp].
    split; [exact H1|]. split; [exact H2|]. split; [exact H3|].
    intros i Hi. rewrite <- !nth_error_map. apply H4, Hi.
  - intros [(H1 & H2 & H3 & H4) Hp]. split; [|exact Hp].
    constructor; rewrite ?map_length; try assumption.
    intros i Hi. rewrite !nth_error_map. apply H4, Hi.
Qed.

Theorem IdentEq3000_Renumbered M M' : IdentEq3000 M M' -> Renumbered3000 (fun i => i) M M'.
Proof. intros [He Hp]. apply RenumD_id; assumption. Qed.

(* the graphs of two renumbered molecules are the same molecule, under the renaming pi induces *)
Theorem graph_of_renumbered pi M M' : R3.okM M -> R3.okM M' -> Renumbered3000 pi M M' ->
  SameMol (fren pi (es3 M) (es3 M')) (R3.graph_of M) (R3.graph_of M').
Proof. intros HM HM' HR. exact (view_SameMol _ _ pi _ _ _ _ (graph_of_view M HM) (graph_of_view M' HM') HR). Qed.

(* C01 for V3000 files: two renderings (unrelated rendering choices ch, ch' -- among them the index
   numbers of the atom and bond lines --, line ends eol, eol') of two renumbered molecules *)
Theorem tucan_v3000_renumbered canon : H1 canon -> H2 canon ->
  forall (pi : nat -> nat) (M M' : R3.molM) (ch ch' : R3.choices) (eol eol' : nat -> bool),
  R3.okM M -> R3.okM M' -> Renumbered3000 pi M M' ->
  R3.okch M ch -> R3.okch_text ch -> R3.okch M' ch' -> R3.okch_text ch' ->
  forall g g',
  V2000.read_molfile (R3.file_text eol 0 (R3.render3000 M ch)) = ok g ->
  V2000.read_molfile (R3.file_text eol' 0 (R3.render3000 M' ch')) = ok g' ->
  tucan canon g = tucan canon g'.
Proof.
  intros HH1 HH2 pi M M' ch ch' eol eol' HM HM' HR Hc Ht Hc' Ht' g g' Hg Hg'.
  apply (tucan_descriptions canon HH1 HH2 (fren pi (es3 M) (es3 M')) _ _ g g' Hg Hg').
  rewrite (R3.read_molfile_graph M ch eol HM Hc Ht) in Hg.
  rewrite (R3.read_molfile_graph M' ch' eol' HM' Hc' Ht') in Hg'.
  injection Hg as <-. injection Hg' as <-. exact (graph_of_renumbered pi M M' HM HM' HR).
Qed.

(* both texts are read *)
Theorem tucan_v3000_renumbered_read canon : H1 canon -> H2 canon ->
  forall (pi : nat -> nat) (M M' : R3.molM) (ch ch' : R3.choices) (eol eol' : nat -> bool),
  R3.okM M -> R3.okM M' -> Renumbered3000 pi M M' ->
  R3.okch M ch -> R3.okch_text ch -> R3.okch M' ch' -> R3.okch_text ch' ->
  exists g g',
  V2000.read_molfile (R3.file_text eol 0 (R3.render3000 M ch)) = ok g /\
  V2000.read_molfile (R3.file_text eol' 0 (R3.render3000 M' ch')) = ok g' /\
  tucan canon g = tucan canon g'.
Proof.
  intros HH1 HH2 pi M M' ch ch' eol eol' HM HM' HR Hc Ht Hc' Ht'.
  exists (R3.graph_of M), (R3.graph_of M').
  pose proof (R3.read_molfile_graph M ch eol HM Hc Ht) as Hg.
  pose proof (R3.read_molfile_graph M' ch' eol' HM' Hc' Ht') as Hg'.
  split; [exact Hg|]. split; [exact Hg'|].
  exact (tucan_v3000_renumbered canon HH1 HH2 pi M M' ch ch' eol eol' HM HM' HR Hc Ht Hc' Ht' _ _ Hg Hg').
Qed.

(* ------------------------------------------------------------------------------------ *)
(* 5. V2000                                                                              *)
(* ------------------------------------------------------------------------------------ *)

(* the identity data of the atom lines (no star atoms in a V2000 atom block) *)
Definition es2 (M : R2.mol2) : list (option (N * option Z * option Z)) := map (fun a => Some (ident2 a)) (R2.m_atoms M).
(* the ordered pairs of atom-line positions (0-based) the bond lines state *)
Definition pos2 (M : R2.mol2) : list (nat * nat) := map (fun k => (Z.to_nat (fst k - 1), Z.to_nat (snd k - 1))) (pairs2 M).

Lemma aview_some {X Y} (h : X -> Y) (l : list X) : forall i,
  aview i (map (fun a => Some (h a)) l) = map (fun p => (fst p, snd p)) (enumerate_from i (map h l)).
Proof. induction l as [|a l IH]; intros i; [reflexivity|]. cbn [map aview enumerate_from fst snd]. rewrite IH. reflexivity. Qed.

Lemma grank_some {X Y} (h : X -> Y) (l : list X) : forall p, p <= length l -> grank (map (fun a => Some (h a)) l) p = N.of_nat p.
Proof.
  induction l as [|a l IH]; intros p Hp; cbn [length] in Hp.
  - assert (p = 0) by lia. subst p. reflexivity.
  - destruct p as [|p]; [reflexivity|]. cbn [map grank]. rewrite IH by lia. lia.
Qed.

Lemma nth_error_some {X Y} (h : X -> Y) (l : list X) p : p < length l ->
  exists b, nth_error (map (fun a => Some (h a)) l) p = Some (Some b).
Proof.
  intros Hp. destruct (nth_error l p) as [a|] eqn:E.
  - exists (h a). rewrite (nth_error_map (fun a => Some (h a))), E. reflexivity.
  - apply nth_error_None in E. lia.
Qed.

Theorem graph2000_view M : R2.okM2000 M -> GraphView (R2.graph2000 M) (es2 M) (pos2 M).
Proof.
  intros HM. pose proof HM as (_ & _ & _ & Hb & _). rewrite Forall_forall in Hb.
  assert (Hrange : forall u v, In (u, v) (pairs2 M) ->
            (1 <= u <= Z.of_nat (length (R2.m_atoms M)))%Z /\ (1 <= v <= Z.of_nat (length (R2.m_atoms M)))%Z).
  { intros u v Hin. unfold pairs2 in Hin. rewrite in_map_iff in Hin. destruct Hin as (b & E & Hin).
    destruct (Hb b Hin) as (Hu & Hv & _). rewrite E in Hu, Hv. cbn [fst snd] in Hu, Hv. split; assumption. }
  constructor.
  - exact (graph2000_wfg M HM (okM2000_loopfree2 M HM)).
  - rewrite graph2000_identity_view. unfold es2. rewrite aview_some. reflexivity.
  - rewrite graph2000_build. apply build_NoDup. constructor.
  - intros p. rewrite graph2000_bonded_pairs. unfold pview, pos2. rewrite map_map.
    assert (E : map (fun k => norm_pair (hz (fst k), hz (snd k))) (pairs2 M)
                = map (fun x => norm_pair (grk (es2 M) (Z.to_nat (fst x - 1), Z.to_nat (snd x - 1)))) (pairs2 M)).
    { apply map_ext_in. intros [u v] Hin. destruct (Hrange u v Hin) as [Hu Hv]. unfold grk, es2. cbn [fst snd].
      rewrite !grank_some by lia. unfold hz. rewrite !Z_nat_N. reflexivity. }
    rewrite E. reflexivity.
  - intros u v Hin. unfold pos2 in Hin. rewrite in_map_iff in Hin. destruct Hin as ([u' v'] & E & Hin).
    cbn [fst snd] in E. injection E as <- <-. destruct (Hrange u' v' Hin) as [Hu Hv].
    unfold es2. split; apply nth_error_some; lia.
Qed.

(* M' is M with the atom lines listed in another order (line i of M is line pi i of M', positions
   counted from 0: the same element, effective mass, radical) and the bond lines' atom numbers changed
   accordingly, as a set of unordered pairs.  Charges, coordinates, bond types, the number and order
   of the bond lines and the direction a bond is written in are free (where the property lines M  CHG /
   M  RAD / M  ISO go, and how they number the atoms, is a rendering choice: R2.okch2000). *)
Definition Renumbered2000 (pi : nat -> nat) (M M' : R2.mol2) : Prop := RenumD pi (es2 M) (es2 M') (pos2 M) (pos2 M').

Lemma Renumbered2000_spec pi M M' :
  Renumbered2000 pi M M' <->
  let n := length (R2.m_atoms M) in
  (length (R2.m_atoms M') = n /\
   (forall i, i < n -> pi i < n) /\
   (forall i j, i < n -> j < n -> pi i = pi j -> i = j) /\
   (forall i, i < n -> option_map ident2 (nth_error (R2.m_atoms M') (pi i)) = option_map ident2 (nth_error (R2.m_atoms M) i))) /\
  (forall u v : nat,
     let num (k : Z * Z) := (Z.to_nat (fst k - 1), Z.to_nat (snd k - 1)) in
     (In (u, v) (map (fun k => (pi (fst k), pi (snd k))) (map num (map fst (R2.m_bonds M)))) \/
      In (v, u) (map (fun k => (pi (fst k), pi (snd k))) (map num (map fst (R2.m_bonds M))))) <->
     (In (u, v) (map num (map fst (R2.m_bonds M'))) \/ In (v, u) (map num (map fst (R2.m_bonds M'))))).
Proof.
  unfold Renumbered2000, RenumD, es2. cbv zeta.
  assert (G : forall l p, nth_error (map (fun a => Some (ident2 a)) l) p = option_map Some (option_map ident2 (nth_error l p))).
  { intros l p. rewrite (nth_error_map (fun a => Some (ident2 a))). destruct (nth_error l p); reflexivity. }
  split.
  - intros [[H1 H2 H3 H4] Hp]. rewrite !map_length in *. split; [|exact Hp].
    split; [exact H1|]. split; [exact H2|]. split; [exact H3|].
    intros i Hi. specialize (H4 i Hi). rewrite !G in H4.
    destruct (option_map ident2 (nth_error (R2.m_atoms M') (pi i))), (option_map ident2 (nth_error (R2.m_atoms M) i));
      cbn [option_map] in H4; congruence.
  - intros [(H1 & H2 & H3 & H4) Hp]. split; [|exact Hp].
    constructor; rewrite ?map_length; try assumption.
    intros i Hi. rewrite !G, (H4 i Hi). reflexivity.
Qed.

Lemma same_pairs_map {X Y} (h : X -> Y) (l l' : list (X * X)) : same_pairs l l' ->
  same_pairs (map (fun k => (h (fst k), h (snd k))) l) (map (fun k => (h (fst k), h (snd k))) l').
Proof.
  assert (G : forall l l' : list (X * X), same_pairs l l' -> forall u v,
            In (u, v) (map (fun k => (h (fst k), h (snd k))) l) \/ In (v, u) (map (fun k => (h (fst k), h (snd k))) l) ->
            In (u, v) (map (fun k => (h (fst k), h (snd k))) l') \/ In (v, u) (map (fun k => (h (fst k), h (snd k))) l')).
  { clear l l'. intros l l' H u v. rewrite !in_map_iff.
    intros [([a b] & E & Hin)|([a b] & E & Hin)]; cbn [fst snd] in E; injection E as <- <-.
    - destruct (proj1 (H a b) (or_introl Hin)) as [H'|H']; [left; exists (a, b)|right; exists (b, a)]; split; trivial.
    - destruct (proj1 (H a b) (or_introl Hin)) as [H'|H']; [right; exists (a, b)|left; exists (b, a)]; split; trivial. }
  intros H u v. split; [apply G, H|apply G, same_pairs_sym, H].
Qed.

Theorem IdentEq2000_Renumbered M M' : IdentEq2000 M M' -> Renumbered2000 (fun i => i) M M'.
Proof.
  intros [Ha Hp]. apply RenumD_id.
  - unfold es2. rewrite <- !(map_map ident2 Some), Ha. reflexivity.
  - unfold pos2. exact (same_pairs_map (fun z => Z.to_nat (z - 1)) _ _ Hp).
Qed.

Theorem graph2000_renumbered pi M M' : R2.okM2000 M -> R2.okM2000 M' -> Renumbered2000 pi M M' ->
  SameMol (fren pi (es2 M) (es2 M')) (R2.graph2000 M) (R2.graph2000 M').
Proof. intros HM HM' HR. exact (view_SameMol _ _ pi _ _ _ _ (graph2000_view M HM) (graph2000_view M' HM') HR). Qed.

(* C01 for V2000 files *)
Theorem tucan_v2000_renumbered canon : H1 canon -> H2 canon ->
  forall (pi : nat -> nat) (M M' : R2.mol2) (ch ch' : R2.choices) (eol eol' : nat -> bool),
  okfile2000 M ch -> okfile2000 M' ch' -> Renumbered2000 pi M M' ->
  forall g g',
  V2000.read_molfile (R3.file_text eol 0 (R2.render2000 M ch)) = ok g ->
  V2000.read_molfile (R3.file_text eol' 0 (R2.render2000 M' ch')) = ok g' ->
  tucan canon g = tucan canon g'.
Proof.
  intros HH1 HH2 pi M M' ch ch' eol eol' HF HF' HR g g' Hg Hg'.
  apply (tucan_descriptions canon HH1 HH2 (fren pi (es2 M) (es2 M')) _ _ g g' Hg Hg').
  rewrite (okfile2000_read M ch eol HF) in Hg. rewrite (okfile2000_read M' ch' eol' HF') in Hg'.
  injection Hg as <-. injection Hg' as <-.
  exact (graph2000_renumbered pi M M' (of_M _ _ HF) (of_M _ _ HF') HR).
Qed.

Theorem tucan_v2000_renumbered_read canon : H1 canon -> H2 canon ->
  forall (pi : nat -> nat) (M M' : R2.mol2) (ch ch' : R2.choices) (eol eol' : nat -> bool),
  okfile2000 M ch -> okfile2000 M' ch' -> Renumbered2000 pi M M' ->
  exists g g',
  V2000.read_molfile (R3.file_text eol 0 (R2.render2000 M ch)) = ok g /\
  V2000.read_molfile (R3.file_text eol' 0 (R2.render2000 M' ch')) = ok g' /\
  tucan canon g = tucan canon g'.
Proof.
  intros HH1 HH2 pi M M' ch ch' eol eol' HF HF' HR.
  exists (R2.graph2000 M), (R2.graph2000 M').
  pose proof (okfile2000_read M ch eol HF) as Hg. pose proof (okfile2000_read M' ch' eol' HF') as Hg'.
  split; [exact Hg|]. split; [exact Hg'|].
  exact (tucan_v2000_renumbered canon HH1 HH2 pi M M' ch ch' eol eol' HF HF' HR _ _ Hg Hg').
Qed.

(* ------------------------------------------------------------------------------------ *)
(* 6. a V2000 file against a renumbered V3000 file                                        *)
(* ------------------------------------------------------------------------------------ *)

(* atom line i of the V2000 molecule is the entry at position pi i of the V3000 atom block (which has
   no star atoms, then); the bonded pairs correspond *)
Definition Renumbered23 (pi : nat -> nat) (M2 : R2.mol2) (M3 : R3.molM) : Prop :=
  RenumD pi (es2 M2) (es3 M3) (pos2 M2) (pairs3 M3).

Lemma Renumbered23_spec pi M2 M3 :
  Renumbered23 pi M2 M3 <->
  let n := length (R2.m_atoms M2) in
  (length (R3.m_entries M3) = n /\
   (forall i, i < n -> pi i < n) /\
   (forall i j, i < n -> j < n -> pi i = pi j -> i = j) /\
   (forall i, i < n -> option_map (option_map ident3) (nth_error (R3.m_entries M3) (pi i))
                       = option_map (fun a => Some (ident2 a)) (nth_error (R2.m_atoms M2) i))) /\
  (forall u v : nat,
     let num (k : Z * Z) := (Z.to_nat (fst k - 1), Z.to_nat (snd k - 1)) in
     (In (u, v) (map (fun k => (pi (fst k), pi (snd k))) (map num (map fst (R2.m_bonds M2)))) \/
      In (v, u) (map (fun k => (pi (fst k), pi (snd k))) (map num (map fst (R2.m_bonds M2))))) <->
     (In (u, v) (flat_map R3.bond_keys (R3.m_bonds M3)) \/ In (v, u) (flat_map R3.bond_keys (R3.m_bonds M3)))).
Proof.
  unfold Renumbered23, RenumD, es2, es3. cbv zeta. split.
  - intros [[H1 H2 H3 H4] Hp]. rewrite !map_length in *. split; [|exact Hp].
    split; [exact H1|]. split; [exact H2|]. split; [exact H3|].
    intros i Hi. rewrite <- !nth_error_map. apply H4, Hi.
  - intros [(H1 & H2 & H3 & H4) Hp]. split; [|exact Hp].
    constructor; rewrite ?map_length; try assumption.
    intros i Hi. rewrite !nth_error_map. apply H4, Hi.
Qed.

Theorem Corr23_plain_Renumbered M2 M3 : Corr23_plain M2 M3 -> Renumbered23 (fun i => i) M2 M3.
Proof. intros [Ha Hp]. apply RenumD_id; assumption. Qed.

Theorem graph2000_graph_of_renumbered pi M2 M3 : R2.okM2000 M2 -> R3.okM M3 -> Renumbered23 pi M2 M3 ->
  SameMol (fren pi (es2 M2) (es3 M3)) (R2.graph2000 M2) (R3.graph_of M3).
Proof. intros HM HM' HR. exact (view_SameMol _ _ pi _ _ _ _ (graph2000_view M2 HM) (graph_of_view M3 HM') HR). Qed.

Theorem tucan_v2000_v3000_renumbered canon : H1 canon -> H2 canon ->
  forall (pi : nat -> nat) (M2 : R2.mol2) (ch2 : R2.choices) (M3 : R3.molM) (ch3 : R3.choices) (eol eol' : nat -> bool),
  okfile2000 M2 ch2 -> R3.okM M3 -> R3.okch M3 ch3 -> R3.okch_text ch3 ->
  Renumbered23 pi M2 M3 ->
  forall g g',
  V2000.read_molfile (R3.file_text eol 0 (R2.render2000 M2 ch2)) = ok g ->
  V2000.read_molfile (R3.file_text eol' 0 (R3.render3000 M3 ch3)) = ok g' ->
  tucan canon g = tucan canon g'.
Proof.
  intros HH1 HH2 pi M2 ch2 M3 ch3 eol eol' HF HM Hc Ht HR g g' Hg Hg'.
  apply (tucan_descriptions canon HH1 HH2 (fren pi (es2 M2) (es3 M3)) _ _ g g' Hg Hg').
  rewrite (okfile2000_read M2 ch2 eol HF) in Hg. rewrite (R3.read_molfile_graph M3 ch3 eol' HM Hc Ht) in Hg'.
  injection Hg as <-. injection Hg' as <-.
  exact (graph2000_graph_of_renumbered pi M2 M3 (of_M _ _ HF) HM HR).
Qed.

(* ---- checking a renumbering of concrete molecules ---- *)
Lemma NoDup_map_inj {X Y} (g : X -> Y) l : NoDup (map g l) -> forall x y, In x l -> In y l -> g x = g y -> x = y.
Proof.
  induction l as [|a l IH]; intros Hn x y Hx Hy E; [destruct Hx|].
  cbn [map] in Hn. inversion Hn as [|? ? Ha Hl]; subst.
  destruct Hx as [<-|Hx], Hy as [<-|Hy]; [reflexivity| | |apply IH; assumption].
  - exfalso. apply Ha. rewrite E. apply in_map, Hy.
  - exfalso. apply Ha. rewrite <- E. apply in_map, Hx.
Qed.

Lemma Renum_check {X} (pi : nat -> nat) (es es' : list (option X)) :
  length es' = length es ->
  Forall (fun i => pi i < length es) (seq 0 (length es)) ->
  NoDup (map pi (seq 0 (length es))) ->
  map (fun i => nth_error es' (pi i)) (seq 0 (length es)) = map (nth_error es) (seq 0 (length es)) ->
  Renum pi es es'.
Proof.
  intros Hl Hb Hn He. rewrite Forall_forall in Hb. constructor; [exact Hl| | |].
  - intros i Hi. apply Hb, in_seq. lia.
  - intros i j Hi Hj. apply (NoDup_map_inj _ _ Hn); apply in_seq; lia.
  - intros i Hi.
    assert (G : forall l, map (fun i => nth_error es' (pi i)) l = map (nth_error es) l -> In i l -> nth_error es' (pi i) = nth_error es i).
    { induction l as [|a l IH]; cbn [map In]; intros E Hin; [destruct Hin|]. injection E as E1 E2.
      destruct Hin as [<-|Hin]; auto. }
    apply (G _ He), in_seq. lia.
Qed.

(* ------------------------------------------------------------------------------------ *)
(* 7. non-vacuity: 13C-formate, the atoms listed in other orders                           *)
(* ------------------------------------------------------------------------------------ *)

Module Example.
  Import Writer WriterProofs V3000Render NonIdentity.Example.

  (* NonIdentity.Example.formA lists C(13) O O(-) H, bonds 0-1 0-2 0-3 (positions).
     formP: the 3-cycle 0 -> 1 -> 2 -> 0 of the positions: O(-) C(13) O H; other coordinates, the
     charge written on the other oxygen, the double bond moved; bond lines in another order, two of
     them written backwards *)
  Definition pi3 (i : nat) : nat := match i with 0 => 1 | 1 => 2 | 2 => 0 | _ => i end.
  Definition formP : molM :=
    mkMolM [Some (mkAtomM (t "O") 0 0 0 (t "3.80") (t "5.70") (t "0.00"));
            Some (mkAtomM (t "C") 0 0 13 (t "5.00") (t "5.00") (t "0.00"));
            Some (mkAtomM (t "O") (-1) 0 0 (t "6.20") (t "5.70") (t "0.00"));
            Some (mkAtomM (t "H") 0 0 0 (t "5.00") (t "3.90") (t "0.00"))]
           [Bond 1 3 1; Bond 2 1 0; Bond 1 2 1].

  Example formP_ok : okM formP. Proof. okM_tac. Qed.
  Example chB_okP : okch formP chB. Proof. okch_tac. Qed.

  Example fileP_lines : render3000 formP chB =
    [t ""; t ""; t ""; t "  0  0  0  0  0  0  0  0  0  0999 V3000";
     t "M  V30 BEGIN CTAB"; t "M  V30 COUNTS 4 3"; t "M  V30 BEGIN ATOM";
     t "M  V30 1 O 3.80 5.70 0.00 0 CHG=0 MASS=0";
     t "M  V30 2 C 5.00 5.00 0.00 0 CHG=0 MASS=13";
     t "M  V30 3 O 6.20 5.70 0.00 0 CHG=-1 MASS=0";
     t "M  V30 4 H 5.00 3.90 0.00 0 CHG=0 MASS=0";
     t "M  V30 END ATOM"; t "M  V30 BEGIN BOND";
     t "M  V30 1 1 4 2"; t "M  V30 2 2 2 1"; t "M  V30 3 1 3 2";
     t "M  V30 END BOND"; t "M  V30 END CTAB"; t "M  END"].
  Proof. vm_compute. reflexivity. Qed.

  Ltac renum_tac :=
    apply Renum_check;
    [ reflexivity
    | repeat (apply Forall_cons; [cbn; lia|]); apply Forall_nil
    | cbn; repeat (apply NoDup_cons; [cbn; intuition discriminate|]); apply NoDup_nil
    | vm_compute; reflexivity ].

  Example formA_formP_renumbered : Renumbered3000 pi3 formA formP.
  Proof. split; [renum_tac|]. apply (same_pairs_check Nat.eqb Nat.eqb_eq). vm_compute. reflexivity. Qed.
  (* ... and formP is not formA with the same order of atom lines *)
  Example formA_formP_not_ident : ~ IdentEq3000 formA formP.
  Proof. intros [H _]. vm_compute in H. discriminate H. Qed.

  (* the V2000 file of NonIdentity.Example (form2: C(13) O(-) O H, bonds 2-1 1-3 4-1) with the atom lines
     rotated (the 4-cycle 0 -> 1 -> 2 -> 3 -> 0 of the positions): H C(13) O(-) O; the property lines
     renumbered with them *)
  Definition pi4 (i : nat) : nat := match i with 0 => 1 | 1 => 2 | 2 => 3 | 3 => 0 | _ => i end.
  Definition form2P : R2.mol2 :=
    R2.mkMol2 [ R2.mkAtom2 (t "H") 0 0 0 (t "    0.0000") (t "   -1.1000") (t "    0.0000");
                R2.mkAtom2 (t "C") 0 0 13 (t "    0.0000") (t "    0.0000") (t "    0.0000");
                R2.mkAtom2 (t "O") (-1) 0 0 (t "    1.2000") (t "    0.7000") (t "    0.0000");
                R2.mkAtom2 (t "O") 0 0 0 (t "   -1.2000") (t "    0.7000") (t "    0.0000") ]
              [ ((2, 4), 2); ((2, 1), 1); ((3, 2), 1) ]%Z.
  Definition ch2P : R2.choices :=
    R2.mkChoices (t "formate, renumbered") (t "") (t "") true (t "      ") (t "               V2000")
      (fun i => R2.mkAchoice (t " ") (t " 0") 0%Z true (t "  0  0  0  0  0  0  0  0  0  0"))
      (fun _ => t "")
      [] 0 []
      [ R2.PLine V2000.PIso [(2, 13)%Z] (t "");
        R2.PText (t "M  STY  1   1 SUP");
        R2.PLine V2000.PChg [(3, -1)%Z] (t "") ]
      [].

  Example file2P_lines : R2.render2000 form2P ch2P =
    [t "formate, renumbered"; t ""; t "";
     t "  4  3                           V2000";
     t "    0.0000   -1.1000    0.0000 H   0     0  0  0  0  0  0  0  0  0  0";
     t "    0.0000    0.0000    0.0000 C   0     0  0  0  0  0  0  0  0  0  0";
     t "    1.2000    0.7000    0.0000 O   0     0  0  0  0  0  0  0  0  0  0";
     t "   -1.2000    0.7000    0.0000 O   0     0  0  0  0  0  0  0  0  0  0";
     t "  2  4  2"; t "  2  1  1"; t "  3  2  1";
     t "M  ISO  1   2  13"; t "M  STY  1   1 SUP"; t "M  CHG  1   3  -1";
     t "M  END"].
  Proof. vm_compute. reflexivity. Qed.
  Example form2P_ok : R2.okM2000 form2P.
  Proof.
    unfold R2.okM2000, form2P. cbn [R2.m_atoms R2.m_bonds length].
    split; [lia|]. split; [lia|]. split; [|split].
    - repeat constructor; try (vm_compute; reflexivity); try (vm_compute; lia); vm_compute; discriminate.
    - repeat constructor; unfold R2.in3; cbn [fst snd length]; lia.
    - cbn [map fst]. repeat constructor; cbn [In]; intro H; decompose [or] H; try discriminate; assumption.
  Qed.

  Example ch2P_ok : R2.okch2000 form2P ch2P.
  Proof.
    unfold R2.okch2000. split; [reflexivity|]. split; [cbn; lia|]. split; [cbn; lia|]. split; [reflexivity|]. split.
    - cbn [ch2P R2.c_items form2P R2.m_atoms length].
      repeat (apply Forall_cons || apply Forall_nil);
        try (vm_compute; reflexivity); try (vm_compute; repeat split; reflexivity);
        (split; [cbn [length]; lia|split; [repeat (apply Forall_cons || apply Forall_nil); split; unfold R2.in3; cbn [fst snd length]; lia|
           cbn [R2.nonneg_kind]; try exact I; repeat (apply Forall_cons || apply Forall_nil); cbn [snd]; lia]]).
    - intros i a H. cbn [form2P R2.m_atoms enumerate_from In] in H. decompose [or] H; clear H;
        match goal with
        | E : (_, _) = (_, _) |- _ => inversion E; subst; clear E
        | F : False |- _ => destruct F
        end;
        (split; [unfold R2.ok_achoice, R2.in3; cbn; repeat split; try reflexivity; lia|]);
        vm_compute; repeat split; reflexivity.
  Qed.

  Example file2P_ok : okfile2000 form2P ch2P.
  Proof.
    constructor; [exact form2P_ok|exact ch2P_ok|exists (t "              "); reflexivity|].
    apply nolb_lines_check. vm_compute. reflexivity.
  Qed.

  Example form2_form2P_renumbered : Renumbered2000 pi4 form2 form2P.
  Proof. split; [renum_tac|]. apply (same_pairs_check Nat.eqb Nat.eqb_eq). vm_compute. reflexivity. Qed.

  (* the renumbered V2000 file against the V3000 file A: line 0 (H) is entry 3, line 1 (C) entry 0,
     line 2 (O-) entry 2, line 3 (O) entry 1 *)
  Definition pi23 (i : nat) : nat := match i with 0 => 3 | 1 => 0 | 2 => 2 | 3 => 1 | _ => i end.
  Example form2P_formA_renumbered : Renumbered23 pi23 form2P formA.
  Proof. split; [renum_tac|]. apply (same_pairs_check Nat.eqb Nat.eqb_eq). vm_compute. reflexivity. Qed.

  (* ---- the theorems, instantiated with the reference oracle ---- *)
  Example formate_A_P : forall g g',
    V2000.read_molfile (file_text crlf 0 (render3000 formA chA)) = ok g ->
    V2000.read_molfile (file_text lf 0 (render3000 formP chB)) = ok g' ->
    tucan RefCanon.ref_canon g = tucan RefCanon.ref_canon g'.
  Proof.
    exact (tucan_v3000_renumbered _ RefCanon.ref_canon_H1 RefCanon.ref_canon_H2 pi3 formA formP chA chB crlf lf
             formA_ok formP_ok formA_formP_renumbered chA_ok chA_text_ok chB_okP chB_text_ok).
  Qed.
  Example formate_2_2P : forall g g',
    V2000.read_molfile (file_text mixed 0 (R2.render2000 form2 ch2)) = ok g ->
    V2000.read_molfile (file_text lf 0 (R2.render2000 form2P ch2P)) = ok g' ->
    tucan RefCanon.ref_canon g = tucan RefCanon.ref_canon g'.
  Proof.
    exact (tucan_v2000_renumbered _ RefCanon.ref_canon_H1 RefCanon.ref_canon_H2 pi4 form2 form2P ch2 ch2P mixed lf
             file2_ok file2P_ok form2_form2P_renumbered).
  Qed.
  Example formate_2P_A : forall g g',
    V2000.read_molfile (file_text lf 0 (R2.render2000 form2P ch2P)) = ok g ->
    V2000.read_molfile (file_text crlf 0 (render3000 formA chA)) = ok g' ->
    tucan RefCanon.ref_canon g = tucan RefCanon.ref_canon g'.
  Proof.
    exact (tucan_v2000_v3000_renumbered _ RefCanon.ref_canon_H1 RefCanon.ref_canon_H2 pi23 form2P ch2P formA chA lf crlf
             file2P_ok formA_ok chA_ok chA_text_ok form2P_formA_renumbered).
  Qed.

  (* ---- the texts are read, and the strings computed: one and the same, and not a trivial one ---- *)
  Example formate_P_run : exists g,
    V2000.read_molfile (file_text lf 0 (render3000 formP chB)) = ok g /\ tucan RefCanon.ref_canon g = Some formate_tucan.
  Proof. eexists. split; [exact (read_molfile_graph formP chB lf formP_ok chB_okP chB_text_ok)|vm_compute; reflexivity]. Qed.
  Example formate_2P_run : exists g,
    V2000.read_molfile (file_text lf 0 (R2.render2000 form2P ch2P)) = ok g /\ tucan RefCanon.ref_canon g = Some formate_tucan.
  Proof. eexists. split; [exact (okfile2000_read form2P ch2P lf file2P_ok)|vm_compute; reflexivity]. Qed.
  (* the same by running the executable model on the four texts, without any theorem *)
  Example renumbered_runs_computed :
    let run (s : text) := match V2000.read_molfile s with inr g => tucan RefCanon.ref_canon g | inl _ => None end in
    run (file_text crlf 0 (render3000 formA chA)) = Some (t "CHO2/(1-2)(2-3)(2-4)/(2:mass=13)") /\
    run (file_text lf 0 (render3000 formP chB)) = Some (t "CHO2/(1-2)(2-3)(2-4)/(2:mass=13)") /\
    run (file_text mixed 0 (R2.render2000 form2 ch2)) = Some (t "CHO2/(1-2)(2-3)(2-4)/(2:mass=13)") /\
    run (file_text lf 0 (R2.render2000 form2P ch2P)) = Some (t "CHO2/(1-2)(2-3)(2-4)/(2:mass=13)").
  Proof. vm_compute. repeat split. Qed.
  (* the graphs read differ (the isotope label sits on node 0 in one, on node 1 in the other) *)
  Example graphs_differ :
    map (fun x => (lbl x, ident x)) (atoms (graph_of formA)) <> map (fun x => (lbl x, ident x)) (atoms (graph_of formP)) /\
    map (fun x => (lbl x, ident x)) (atoms (R2.graph2000 form2)) <> map (fun x => (lbl x, ident x)) (atoms (R2.graph2000 form2P)).
  Proof. split; intros E; vm_compute in E; discriminate E. Qed.
  (* the label matters: moving it to another atom while renumbering is not a renumbering *)
  Definition formQ : molM :=
    mkMolM [Some (mkAtomM (t "O") 0 0 13 (t "3.80") (t "5.70") (t "0.00"));
            Some (mkAtomM (t "C") 0 0 0 (t "5.00") (t "5.00") (t "0.00"));
            Some (mkAtomM (t "O") (-1) 0 0 (t "6.20") (t "5.70") (t "0.00"));
            Some (mkAtomM (t "H") 0 0 0 (t "5.00") (t "3.90") (t "0.00"))]
           [Bond 1 3 1; Bond 2 1 0; Bond 1 2 1].
  Example label_moved :
    ~ Renumbered3000 pi3 formA formQ /\
    tucan RefCanon.ref_canon (graph_of formQ) <> tucan RefCanon.ref_canon (graph_of formA).
  Proof.
    split.
    - intros [[_ _ _ H] _]. specialize (H 0). cbn [es3 formA m_entries map length] in H.
      specialize (H ltac:(lia)). vm_compute in H. discriminate H.
    - vm_compute. discriminate.
  Qed.

  (* everything the theorems ask for, in one statement *)
  Example all_hypotheses :
    okM formA /\ okM formP /\ Renumbered3000 pi3 formA formP /\
    okch formA chA /\ okch_text chA /\ okch formP chB /\ okch_text chB /\
    okfile2000 form2 ch2 /\ okfile2000 form2P ch2P /\ Renumbered2000 pi4 form2 form2P /\
    Renumbered23 pi23 form2P formA.
  Proof.
    exact (conj formA_ok (conj formP_ok (conj formA_formP_renumbered
          (conj chA_ok (conj chA_text_ok (conj chB_okP (conj chB_text_ok
          (conj file2_ok (conj file2P_ok (conj form2_form2P_renumbered form2P_formA_renumbered)))))))))).
  Qed.
End Example.
