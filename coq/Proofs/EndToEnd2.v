(* EndToEnd2.v -- properties C02, C03, C04, C12, C13, C15 with the quantifier closed:
   "for every molfile text the readers accept" (and, where it applies, "for every TUCAN string the
   reference reader accepts") instead of "for every graph m with wfg m, simple m, pos_attrs m, nozero,
   known_elements m".

   The molecule-level theorems (RoundTrip2, TucanProofs, CanonProofs, CanonView, SameMol, Equitable,
   TotalProofs) speak about an abstract graph under well-formedness hypotheses.  EndToEnd.read_graph_props
   (ReadersNoZero) proves all of these hypotheses for every graph V2000.read_molfile returns (the entry
   point of both molfile versions), and Norm.parsed_graph_wf proves them for every graph Parse.ref_parse
   returns.  Here the two are composed.  What is left as a hypothesis:
     - `atoms g <> []` where the pipeline is undefined on the empty graph (a file with "COUNTS 0 0" is read,
       into the empty graph: EndToEnd.ex_empty_read; the only accepted string without atoms is "/");
     - the contracts H1 (bijection onto 0..n-1) / H2 (canonical form) of the labelling oracle.
   No hypothesis about payload types had to stay: the source theorems are polymorphic in the payload.

   Contents
     1. C15: a string exists for every accepted text / accepted string with an atom
     2. C02: equal strings only for the same molecule (text/text, text/string; and the equivalence)
     3. C03: the string of an accepted text is read back as the graph read, and is a fixed point
     4. C04: two accepted texts describing one molecule: same canonical view
     5. C12: the canonical graph of an accepted text is the graph read under a bijective renaming
     6. C13: classes of a graph read: defined, label-independent, equitable
     7. non-vacuity: a formate file, the whole chain by computation with RefCanon.ref_canon          *)
From Coq Require Import List NArith ZArith Bool Lia Arith Permutation String.
Require Import Base Mol Partition Canon Text Token Parse Molfile Pipeline MolProofs PartitionProofs SameMol CanonProofs
               ViewProofs CanonView AstOf TucanProofs TotalProofs RoundTrip.
Require V2000 V3000 ReadersNoZero EndToEnd RoundTrip2 Norm Equitable RefCanon NonIdentity V3000Render.
Import ListNotations.

Local Open Scope list_scope.

Module E1 := EndToEnd.
Module RT := RoundTrip2.

(* the hypotheses of the molecule-level theorems, for a graph read / a graph parsed *)
Lemma read_hyps s g : V2000.read_molfile s = ok g ->
  wfg g /\ RT.simple g /\ (forall x, In x (atoms g) -> nozero x) /\ pos_attrs g /\ known_elements g.
Proof. exact (E1.read_graph_props s g). Qed.

Lemma parsed_hyps s (g : mol unit unit) : ref_parse s = inr g ->
  wfg g /\ RT.simple g /\ (forall x, In x (atoms g) -> nozero x) /\ pos_attrs g /\ known_elements g.
Proof.
  intros H. destruct (Norm.parsed_graph_wf s g H) as (Hw & Hs & Hp & Hk & _).
  split; [exact Hw|]. split; [exact Hs|]. split; [exact (RT.pos_attrs_nozero g Hp)|]. split; assumption.
Qed.

Lemma SameMol_nonempty {P B P' B'} f (m : mol P B) (m' : mol P' B') : SameMol f m m' -> atoms m <> [] -> atoms m' <> [].
Proof.
  intros HS Hne E. pose proof (SameMol_length f m m' HS) as Hl. rewrite E in Hl.
  destruct (atoms m); [congruence|discriminate Hl].
Qed.

(* ------------------------------------------------------------------------------------ *)
(* the compositions at graph level (hypotheses still explicit; used twice below)          *)
(* ------------------------------------------------------------------------------------ *)
Section Graphs.
  Variable canon : list (N * N) -> list (N * N) -> list (N * N).
  Hypothesis HH1 : H1 canon.

  (* parse_tucan_roundtrip + tucan_invariant: one statement instead of two existentials *)
  Lemma graph_roundtrip_fixed {P B} (m : mol P B) str :
    H2 canon -> wfg m -> RT.simple m -> pos_attrs m -> tucan canon m = Some str ->
    exists (g' : mol unit unit) (f : N -> N),
      ref_parse str = inr g' /\ SameMol f m g' /\
      length (atoms g') = length (atoms m) /\ length (bonds g') = length (bonds m) /\
      tucan canon g' = Some str.
  Proof.
    intros HH2 Hw Hs Hp Ht.
    destruct (RT.parse_tucan_roundtrip canon HH1 m str Hw Hs Hp Ht) as (g' & f & Hr & HS & Hla & Hlb).
    exists g', f. split; [exact Hr|]. split; [exact HS|]. split; [exact Hla|]. split; [exact Hlb|].
    rewrite <- Ht. symmetry.
    exact (tucan_invariant canon HH1 HH2 f m g' Hw HS (RT.pos_attrs_nozero m Hp)).
  Qed.

  (* classes_total + canonicalize: the canonical graph exists for a non-empty graph *)
  Lemma canonicalize_total {P B} (m : mol P B) : atoms m <> [] -> exists c, canonicalize canon m = Some c.
  Proof.
    intros Hne. destruct (Equitable.refine_fuel_suffices P B m Hne) as [r Hr].
    unfold canonicalize. rewrite Hr. eexists. reflexivity.
  Qed.
End Graphs.

(* ------------------------------------------------------------------------------------ *)
(* 1. C15: the pipeline completes on everything the readers / the parser accept           *)
(* ------------------------------------------------------------------------------------ *)
Section Closed.
  Variable canon : list (N * N) -> list (N * N) -> list (N * N).
  Hypothesis HH1 : H1 canon.

  Theorem molfile_text_total : forall (s : text) (g : mol rpay Z),
    V2000.read_molfile s = ok g -> atoms g <> [] -> exists str, tucan canon g = Some str.
  Proof.
    intros s g H Hne. destruct (read_hyps s g H) as (Hw & _ & _ & _ & Hk).
    exact (tucan_total canon g HH1 Hw Hne Hk).
  Qed.

  Theorem tucan_string_total : forall (t0 : text) (g : mol unit unit),
    ref_parse t0 = inr g -> atoms g <> [] -> exists str, tucan canon g = Some str.
  Proof.
    intros t0 g H Hne. destruct (parsed_hyps t0 g H) as (Hw & _ & _ & _ & Hk).
    exact (tucan_total canon g HH1 Hw Hne Hk).
  Qed.

  (* the stages one by one, for a text: refinement, canonical graph, string *)
  Theorem molfile_text_stages : forall (s : text) (g : mol rpay Z),
    V2000.read_molfile s = ok g -> atoms g <> [] ->
    exists r c str, classes g = Some r /\ canonicalize canon g = Some c /\ tucan canon g = Some str.
  Proof.
    intros s g H Hne. destruct (Equitable.refine_fuel_suffices _ _ g Hne) as [r Hr].
    destruct (canonicalize_total canon g Hne) as [c Hc]. destruct (molfile_text_total s g H Hne) as [str Hstr].
    exists r, c, str. repeat split; assumption.
  Qed.

  (* ---------------------------------------------------------------------------------- *)
  (* 2. C02: different molecules never share a string                                    *)
  (* ---------------------------------------------------------------------------------- *)
  (* two accepted molfile texts (any mixture of V2000 / V3000) with the same string: the graphs read
     are one molecule (a colour-preserving isomorphism pi) *)
  Theorem molfile_texts_complete : forall (s1 s2 : text) (g1 g2 : mol rpay Z) (str : text),
    V2000.read_molfile s1 = ok g1 -> V2000.read_molfile s2 = ok g2 ->
    tucan canon g1 = Some str -> tucan canon g2 = Some str -> exists pi, SameMol pi g1 g2.
  Proof.
    intros s1 s2 g1 g2 str R1 R2 T1 T2.
    destruct (read_hyps s1 g1 R1) as (Hw1 & Hs1 & _ & Hp1 & _). destruct (read_hyps s2 g2 R2) as (Hw2 & Hs2 & _ & Hp2 & _).
    exact (RT.tucan_complete canon HH1 g1 g2 str Hw1 Hs1 Hp1 Hw2 Hs2 Hp2 T1 T2).
  Qed.

  (* an accepted molfile text and an accepted TUCAN string *)
  Theorem molfile_text_string_complete : forall (s t0 : text) (g : mol rpay Z) (g' : mol unit unit) (str : text),
    V2000.read_molfile s = ok g -> ref_parse t0 = inr g' ->
    tucan canon g = Some str -> tucan canon g' = Some str -> exists pi, SameMol pi g g'.
  Proof.
    intros s t0 g g' str R1 R2 T1 T2.
    destruct (read_hyps s g R1) as (Hw1 & Hs1 & _ & Hp1 & _). destruct (parsed_hyps t0 g' R2) as (Hw2 & Hs2 & _ & Hp2 & _).
    exact (RT.tucan_complete canon HH1 g g' str Hw1 Hs1 Hp1 Hw2 Hs2 Hp2 T1 T2).
  Qed.

  (* the special case t0 = str: the string itself, read back, is the molecule of the text *)
  Corollary molfile_text_own_string : forall (s : text) (g : mol rpay Z) (str : text),
    V2000.read_molfile s = ok g -> tucan canon g = Some str ->
    exists (g' : mol unit unit) pi, ref_parse str = inr g' /\ SameMol pi g g'.
  Proof.
    intros s g str R T. destruct (read_hyps s g R) as (Hw & Hs & _ & Hp & _).
    destruct (RT.parse_tucan_roundtrip canon HH1 g str Hw Hs Hp T) as (g' & f & Hr & HS & _).
    exists g', f. split; assumption.
  Qed.

  (* ---------------------------------------------------------------------------------- *)
  (* 3. C03 (a): the string reconstructs the molecule                                    *)
  (* ---------------------------------------------------------------------------------- *)
  Theorem molfile_text_roundtrip : forall (s : text) (g : mol rpay Z) (str : text),
    V2000.read_molfile s = ok g -> tucan canon g = Some str ->
    exists (g' : mol unit unit) (f : N -> N),
      ref_parse str = inr g' /\ SameMol f g g' /\
      length (atoms g') = length (atoms g) /\ length (bonds g') = length (bonds g).
  Proof.
    intros s g str R T. destruct (read_hyps s g R) as (Hw & Hs & _ & Hp & _).
    exact (RT.parse_tucan_roundtrip canon HH1 g str Hw Hs Hp T).
  Qed.

  (* ---------------------------------------------------------------------------------- *)
  (* 5. C12: canonicalization of a graph read is a renaming                              *)
  (* ---------------------------------------------------------------------------------- *)
  (* the labels of a graph read are 0..n-1 (ReadersNoZero.read_molfile_labels), so lam is a permutation
     of 0..n-1; element, mass, radical, the payload (element symbol, charge, coordinates: rpay) and the
     bond types (Z) are carried, in the listing order *)
  Theorem molfile_text_canonicalize_renaming : forall (s : text) (g c : mol rpay Z),
    V2000.read_molfile s = ok g -> canonicalize canon g = Some c ->
    exists lam : N -> N,
      inj_on lam (labels g) /\
      Permutation (map lam (labels g)) (N_seq 0 (length (atoms g))) /\
      map frame (atoms c) = map (fun x => (lam (lbl x), zn x, mass x, rad x, pay x)) (atoms g) /\
      bonds c = map (map_bond lam) (bonds g).
  Proof.
    intros s g c R Hc. destruct (read_hyps s g R) as (Hw & _).
    exact (canonicalize_is_renaming canon g c HH1 Hw Hc).
  Qed.

  (* with totality and the reader's numbering: the canonical graph exists, and lam permutes 0..n-1 *)
  Theorem molfile_text_canonical_graph : forall (s : text) (g : mol rpay Z),
    V2000.read_molfile s = ok g -> atoms g <> [] ->
    exists (c : mol rpay Z) (lam : N -> N),
      canonicalize canon g = Some c /\
      labels g = N_seq 0 (length (atoms g)) /\
      inj_on lam (N_seq 0 (length (atoms g))) /\
      Permutation (map lam (N_seq 0 (length (atoms g)))) (N_seq 0 (length (atoms g))) /\
      map frame (atoms c) = map (fun x => (lam (lbl x), zn x, mass x, rad x, pay x)) (atoms g) /\
      bonds c = map (map_bond lam) (bonds g).
  Proof.
    intros s g R Hne. destruct (canonicalize_total canon g Hne) as [c Hc].
    destruct (molfile_text_canonicalize_renaming s g c R Hc) as (lam & Hi & Hp & Hf & Hb).
    destruct (ReadersNoZero.read_molfile_labels s g R) as [El _].
    exists c, lam. split; [exact Hc|]. split; [exact El|]. rewrite El in Hi, Hp.
    split; [exact Hi|]. split; [exact Hp|]. split; assumption.
  Qed.

  (* the same for a graph parsed from a string (payload and bond data are unit there) *)
  Theorem tucan_string_canonicalize_renaming : forall (t0 : text) (g c : mol unit unit),
    ref_parse t0 = inr g -> canonicalize canon g = Some c ->
    exists lam : N -> N,
      inj_on lam (labels g) /\
      Permutation (map lam (labels g)) (N_seq 0 (length (atoms g))) /\
      map frame (atoms c) = map (fun x => (lam (lbl x), zn x, mass x, rad x, pay x)) (atoms g) /\
      bonds c = map (map_bond lam) (bonds g).
  Proof.
    intros t0 g c R Hc. destruct (parsed_hyps t0 g R) as (Hw & _).
    exact (canonicalize_is_renaming canon g c HH1 Hw Hc).
  Qed.

  (* ---------------------------------------------------------------------------------- *)
  (* with the canonical-form contract H2                                                 *)
  (* ---------------------------------------------------------------------------------- *)
  Hypothesis HH2 : H2 canon.

  (* 3. C03 (b): ... and is a fixed point; g' and f are the ones of (a) *)
  Theorem molfile_text_fixed_point : forall (s : text) (g : mol rpay Z) (str : text),
    V2000.read_molfile s = ok g -> tucan canon g = Some str ->
    exists (g' : mol unit unit) (f : N -> N),
      ref_parse str = inr g' /\ SameMol f g g' /\
      length (atoms g') = length (atoms g) /\ length (bonds g') = length (bonds g) /\
      tucan canon g' = Some str.
  Proof.
    intros s g str R T. destruct (read_hyps s g R) as (Hw & Hs & _ & Hp & _).
    exact (graph_roundtrip_fixed canon HH1 g str HH2 Hw Hs Hp T).
  Qed.

  (* C03 with totality composed in: every accepted text with an atom HAS a string, the string is read
     back as the molecule of the text, and the pipeline maps the graph read back to the same string *)
  Theorem molfile_text_roundtrip_total : forall (s : text) (g : mol rpay Z),
    V2000.read_molfile s = ok g -> atoms g <> [] ->
    exists (str : text) (g' : mol unit unit) (f : N -> N),
      tucan canon g = Some str /\ ref_parse str = inr g' /\ SameMol f g g' /\
      length (atoms g') = length (atoms g) /\ length (bonds g') = length (bonds g) /\
      tucan canon g' = Some str.
  Proof.
    intros s g R Hne. destruct (molfile_text_total s g R Hne) as [str T].
    destruct (molfile_text_fixed_point s g str R T) as (g' & f & H).
    exists str, g', f. split; [exact T|exact H].
  Qed.

  (* the same for strings: every accepted string with an atom normalizes, the normal form is read back
     as the same molecule and normalizes to itself *)
  Theorem tucan_string_roundtrip_total : forall (t0 : text) (g : mol unit unit),
    ref_parse t0 = inr g -> atoms g <> [] ->
    exists (str : text) (g' : mol unit unit) (f : N -> N),
      tucan canon g = Some str /\ ref_parse str = inr g' /\ SameMol f g g' /\
      length (atoms g') = length (atoms g) /\ length (bonds g') = length (bonds g) /\
      tucan canon g' = Some str.
  Proof.
    intros t0 g R Hne. destruct (tucan_string_total t0 g R Hne) as [str T].
    destruct (parsed_hyps t0 g R) as (Hw & Hs & _ & Hp & _).
    destruct (graph_roundtrip_fixed canon HH1 g str HH2 Hw Hs Hp T) as (g' & f & H).
    exists str, g', f. split; [exact T|exact H].
  Qed.

  (* C01 + C02 in one statement: for two accepted texts (the first with an atom), the strings are equal
     exactly when the graphs read are one molecule *)
  Theorem molfile_texts_same_string_iff : forall (s1 s2 : text) (g1 g2 : mol rpay Z),
    V2000.read_molfile s1 = ok g1 -> V2000.read_molfile s2 = ok g2 -> atoms g1 <> [] ->
    (tucan canon g1 = tucan canon g2 <-> exists pi, SameMol pi g1 g2).
  Proof.
    intros s1 s2 g1 g2 R1 R2 Hne. split.
    - intros E. destruct (molfile_text_total s1 g1 R1 Hne) as [str T1].
      assert (T2 : tucan canon g2 = Some str) by (rewrite <- E; exact T1).
      exact (molfile_texts_complete s1 s2 g1 g2 str R1 R2 T1 T2).
    - intros [pi HS]. destruct (read_hyps s1 g1 R1) as (Hw & _ & Hz & _).
      exact (tucan_invariant canon HH1 HH2 pi g1 g2 Hw HS Hz).
  Qed.

  (* ---------------------------------------------------------------------------------- *)
  (* 4. C04: canonical numbering                                                         *)
  (* ---------------------------------------------------------------------------------- *)
  (* two accepted texts whose graphs are one molecule: same canonical view (conclusion of
     CanonView.canonical_graph_unique).  Only the first graph's hypotheses are needed, so the second
     description may be any graph -- in particular a second text, or a parsed string. *)
  Theorem molfile_text_canonical_unique_gen : forall (P' B' : Type) (s : text) (g : mol rpay Z) (m' : mol P' B') (f : N -> N),
    V2000.read_molfile s = ok g -> SameMol f g m' ->
    match canonicalize canon g, canonicalize canon m' with
    | Some c, Some c' => SameView c c'
    | None, None => True
    | _, _ => False
    end.
  Proof.
    intros P' B' s g m' f R HS. destruct (read_hyps s g R) as (Hw & _ & Hz & _).
    exact (canonical_graph_unique canon HH2 f g m' Hw HS Hz).
  Qed.

  Theorem molfile_texts_canonical_unique : forall (s s' : text) (g g' : mol rpay Z) (f : N -> N),
    V2000.read_molfile s = ok g -> V2000.read_molfile s' = ok g' -> SameMol f g g' ->
    match canonicalize canon g, canonicalize canon g' with
    | Some c, Some c' => SameView c c'
    | None, None => True
    | _, _ => False
    end.
  Proof. intros s s' g g' f R _ HS. exact (molfile_text_canonical_unique_gen rpay Z s g g' f R HS). Qed.

  Theorem molfile_texts_classes_edges_unique : forall (s s' : text) (g g' : mol rpay Z) (f : N -> N),
    V2000.read_molfile s = ok g -> V2000.read_molfile s' = ok g' -> SameMol f g g' ->
    match canonicalize canon g, canonicalize canon g' with
    | Some c, Some c' => Permutation (class_view c) (class_view c') /\ Permutation (edge_view c) (edge_view c')
    | None, None => True
    | _, _ => False
    end.
  Proof.
    intros s s' g g' f R _ HS. destruct (read_hyps s g R) as (Hw & _).
    exact (canonical_classes_edges_unique canon HH2 f g g' Hw HS).
  Qed.

  (* with an atom, both canonical graphs exist: no case distinction left *)
  Theorem molfile_texts_canonical_unique_total : forall (s s' : text) (g g' : mol rpay Z) (f : N -> N),
    V2000.read_molfile s = ok g -> V2000.read_molfile s' = ok g' -> SameMol f g g' -> atoms g <> [] ->
    exists c c', canonicalize canon g = Some c /\ canonicalize canon g' = Some c' /\ SameView c c'.
  Proof.
    intros s s' g g' f R R' HS Hne. pose proof (molfile_texts_canonical_unique s s' g g' f R R' HS) as H.
    destruct (canonicalize_total canon g Hne) as [c Hc].
    destruct (canonicalize_total canon g' (SameMol_nonempty f g g' HS Hne)) as [c' Hc'].
    rewrite Hc, Hc' in H. exists c, c'. repeat split; [exact Hc|exact Hc'|apply H|apply H].
  Qed.

  (* a text and a string describing one molecule *)
  Theorem molfile_text_string_canonical_unique : forall (s t0 : text) (g : mol rpay Z) (g' : mol unit unit) (f : N -> N),
    V2000.read_molfile s = ok g -> ref_parse t0 = inr g' -> SameMol f g g' ->
    match canonicalize canon g, canonicalize canon g' with
    | Some c, Some c' => SameView c c'
    | None, None => True
    | _, _ => False
    end.
  Proof. intros s t0 g g' f R _ HS. exact (molfile_text_canonical_unique_gen unit unit s g g' f R HS). Qed.
End Closed.

(* ------------------------------------------------------------------------------------ *)
(* 6. C13: the classes of a graph read (no oracle involved)                              *)
(* ------------------------------------------------------------------------------------ *)
Theorem read_classes_total : forall (s : text) (g : mol rpay Z),
  V2000.read_molfile s = ok g -> atoms g <> [] -> exists r, classes g = Some r.
Proof. intros s g _ Hne. exact (Equitable.refine_fuel_suffices _ _ g Hne). Qed.

Theorem read_classes_label_independent : forall (s s' : text) (g g' : mol rpay Z) (f : N -> N),
  V2000.read_molfile s = ok g -> V2000.read_molfile s' = ok g' -> SameMol f g g' ->
  match classes g, classes g' with
  | Some r, Some r' => forall x x', In x (atoms r) -> In x' (atoms r') -> lbl x' = f (lbl x) -> part x' = part x
  | None, None => True
  | _, _ => False
  end.
Proof.
  intros s s' g g' f R _ HS. destruct (read_hyps s g R) as (Hw & _).
  exact (classes_label_independent f g g' Hw HS).
Qed.

(* with an atom: both refinements are defined and corresponding atoms have the same class *)
Theorem read_classes_label_independent_total : forall (s s' : text) (g g' : mol rpay Z) (f : N -> N),
  V2000.read_molfile s = ok g -> V2000.read_molfile s' = ok g' -> SameMol f g g' -> atoms g <> [] ->
  exists r r', classes g = Some r /\ classes g' = Some r' /\
    forall x x', In x (atoms r) -> In x' (atoms r') -> lbl x' = f (lbl x) -> part x' = part x.
Proof.
  intros s s' g g' f R R' HS Hne. pose proof (read_classes_label_independent s s' g g' f R R' HS) as H.
  destruct (Equitable.refine_fuel_suffices _ _ g Hne) as [r Hr].
  destruct (Equitable.refine_fuel_suffices _ _ g' (SameMol_nonempty f g g' HS Hne)) as [r' Hr'].
  rewrite Hr, Hr' in H. exists r, r'. split; [exact Hr|]. split; [exact Hr'|exact H].
Qed.

(* symmetry-equivalent atoms of a graph read share a class *)
Theorem read_classes_respect_automorphisms : forall (s : text) (g r : mol rpay Z) (f : N -> N),
  V2000.read_molfile s = ok g -> SameMol f g g -> classes g = Some r ->
  forall x x', In x (atoms r) -> In x' (atoms r) -> lbl x' = f (lbl x) -> part x' = part x.
Proof.
  intros s g r f R HS Hr. destruct (read_hyps s g R) as (Hw & _).
  exact (classes_respect_automorphisms g f r Hw HS Hr).
Qed.

Theorem read_classes_equitable : forall (s : text) (g r : mol rpay Z),
  V2000.read_molfile s = ok g -> classes g = Some r ->
  forall x y, In x (atoms r) -> In y (atoms r) -> part x = part y ->
    inv_code x = inv_code y /\
    isort Ngeb (nbr_vals (@part rpay) r (lbl x)) = isort Ngeb (nbr_vals (@part rpay) r (lbl y)).
Proof.
  intros s g r _ Hr x y Hx Hy E. split.
  - exact (Equitable.classes_same_invariant rpay Z g r Hr x y Hx Hy E).
  - exact (Equitable.classes_equitable_nowf rpay Z g r Hr x y Hx Hy E).
Qed.

(* all three for one accepted text with an atom *)
Theorem read_classes_total_equitable : forall (s : text) (g : mol rpay Z),
  V2000.read_molfile s = ok g -> atoms g <> [] ->
  exists r, classes g = Some r /\
    forall x y, In x (atoms r) -> In y (atoms r) -> part x = part y ->
      inv_code x = inv_code y /\
      isort Ngeb (nbr_vals (@part rpay) r (lbl x)) = isort Ngeb (nbr_vals (@part rpay) r (lbl y)).
Proof.
  intros s g R Hne. destruct (read_classes_total s g R Hne) as [r Hr].
  exists r. split; [exact Hr|exact (read_classes_equitable s g r R Hr)].
Qed.

(* ------------------------------------------------------------------------------------ *)
(* 7. non-vacuity: the reference oracle, a concrete file, the whole chain by computation  *)
(* ------------------------------------------------------------------------------------ *)
Module Example.
  Module E := NonIdentity.Example.
  Module R3 := V3000Render.
  Local Notation ref := RefCanon.ref_canon.

  (* 13C-formate, written out: atoms numbered O H C O-, bonds in another order than the string's *)
  Definition formate_text : text := join_with E1.nl
    [t "formate"; t "  by hand"; t ""; t "  0  0  0     0  0            999 V3000";
     t "M  V30 BEGIN CTAB"; t "M  V30 COUNTS 4 3 0 0 0";
     t "M  V30 BEGIN ATOM";
     t "M  V30 1 O 1.2 0.7 0 0";
     t "M  V30 2 H 0.0 -1.1 0 0";
     t "M  V30 3 C 0.0 0.0 0 0 MASS=13";
     t "M  V30 4 O -1.2 0.7 0 0 CHG=-1";
     t "M  V30 END ATOM";
     t "M  V30 BEGIN BOND";
     t "M  V30 1 2 3 1"; t "M  V30 2 1 4 3"; t "M  V30 3 1 2 3";
     t "M  V30 END BOND"; t "M  V30 END CTAB"; t "M  END"].
  Definition formate_string : text := t "CHO2/(1-2)(2-3)(2-4)/(2:mass=13)".

  (* read . canonicalize . serialize . parse . canonicalize . serialize; the view of the graph read,
     the first string, the view of the graph parsed, the second string *)
  Definition pview {P B} (g : mol P B) : list (N * N * option Z * option Z) * list (N * N) :=
    (map (fun x => (lbl x, zn x, mass x, rad x)) (atoms g), map (fun b => ends b) (bonds g)).
  Definition chain (s : text) :=
    match V2000.read_molfile s with
    | inl _ => None
    | inr g =>
      match tucan ref g with
      | None => None
      | Some str =>
        match ref_parse str with
        | inl _ => None
        | inr g' => match tucan ref g' with None => None | Some str' => Some (pview g, str, pview g', str') end
        end
      end
    end.

  Example formate_chain_computed :
    chain formate_text =
    Some (([(0, 8, None, None); (1, 1, None, None); (2, 6, Some 13%Z, None); (3, 8, None, None)]%N, [(2, 0); (3, 2); (1, 2)]%N),
          formate_string,
          ([(0, 1, None, None); (1, 6, Some 13%Z, None); (2, 8, None, None); (3, 8, None, None)]%N, [(0, 1); (1, 2); (1, 3)]%N),
          formate_string).
  Proof. vm_compute. reflexivity. Qed.

  (* the formate files of NonIdentity.Example (V3000 with continuation lines, explicit defaults, foreign
     keywords, CR LF; V2000 with property lines, mixed line ends): the same string twice *)
  Example formate_files_chain_computed :
    option_map (fun r => (snd (fst (fst r)), snd r)) (chain (R3.file_text E.crlf 0 (R3.render3000 E.formA E.chA)))
      = Some (formate_string, formate_string) /\
    option_map (fun r => (snd (fst (fst r)), snd r)) (chain (R3.file_text E.mixed 0 (V2000Render.render2000 E.form2 E.ch2)))
      = Some (formate_string, formate_string).
  Proof. vm_compute. split; reflexivity. Qed.

  (* the same chain as propositions *)
  Definition formate_graph : mol rpay Z :=
    match V2000.read_molfile formate_text with inr g => g | inl _ => mkMol [] [] end.
  Definition formate_parsed : mol unit unit :=
    match ref_parse formate_string with inr g => g | inl _ => mkMol [] [] end.
  Example formate_read : V2000.read_molfile formate_text = ok formate_graph.
  Proof. vm_compute. reflexivity. Qed.
  Example formate_nonempty : atoms formate_graph <> [].
  Proof. vm_compute. discriminate. Qed.
  Example formate_chain :
    V2000.read_molfile formate_text = ok formate_graph /\
    tucan ref formate_graph = Some formate_string /\
    ref_parse formate_string = inr formate_parsed /\
    tucan ref formate_parsed = Some formate_string.
  Proof. vm_compute. repeat split; reflexivity. Qed.

  (* the general theorem of section 3, instantiated on the file: its witnesses are the computed ones *)
  Example formate_roundtrip : exists f,
    tucan ref formate_graph = Some formate_string /\ ref_parse formate_string = inr formate_parsed /\
    SameMol f formate_graph formate_parsed /\
    length (atoms formate_parsed) = 4 /\ length (bonds formate_parsed) = 3 /\
    tucan ref formate_parsed = Some formate_string.
  Proof.
    destruct (molfile_text_roundtrip_total ref RefCanon.ref_canon_H1 RefCanon.ref_canon_H2 _ _ formate_read formate_nonempty)
      as (str & g' & f & T & Hr & HS & Hla & Hlb & T').
    destruct formate_chain as (_ & Ec & Ep & _).
    rewrite Ec in T. injection T as <-. rewrite Ep in Hr. injection Hr as <-.
    exists f. split; [exact Ec|]. split; [exact Ep|]. split; [exact HS|].
    split; [rewrite Hla; vm_compute; reflexivity|]. split; [rewrite Hlb; vm_compute; reflexivity|exact T'].
  Qed.
End Example.

Print Assumptions molfile_text_total.
Print Assumptions tucan_string_total.
Print Assumptions molfile_text_stages.
Print Assumptions molfile_texts_complete.
Print Assumptions molfile_text_string_complete.
Print Assumptions molfile_text_own_string.
Print Assumptions molfile_text_roundtrip.
Print Assumptions molfile_text_fixed_point.
Print Assumptions molfile_text_roundtrip_total.
Print Assumptions tucan_string_roundtrip_total.
Print Assumptions molfile_texts_same_string_iff.
Print Assumptions molfile_text_canonical_unique_gen.
Print Assumptions molfile_texts_canonical_unique.
Print Assumptions molfile_texts_classes_edges_unique.
Print Assumptions molfile_texts_canonical_unique_total.
Print Assumptions molfile_text_string_canonical_unique.
Print Assumptions molfile_text_canonicalize_renaming.
Print Assumptions molfile_text_canonical_graph.
Print Assumptions tucan_string_canonicalize_renaming.
Print Assumptions read_classes_total.
Print Assumptions read_classes_label_independent.
Print Assumptions read_classes_label_independent_total.
Print Assumptions read_classes_respect_automorphisms.
Print Assumptions read_classes_equitable.
Print Assumptions read_classes_total_equitable.
Print Assumptions Example.formate_chain_computed.
Print Assumptions Example.formate_files_chain_computed.
Print Assumptions Example.formate_chain.
Print Assumptions Example.formate_roundtrip.
