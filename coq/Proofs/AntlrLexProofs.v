(* AntlrLexProofs.v -- the lexer automaton of the ANTLR-generated tucanLexer.py (its serialized ATN, dumped into
   gen/AntlrLexer.v and given meaning by Model/AntlrLex.v: epsilon closure, maximal munch, first rule wins) emits,
   for EVERY text, exactly the token types of the model's hand-written lexer `Parse.lex_text`, and reports an
   error exactly when the model lexer fails:

     antlr_lex_spec : forall s, antlr_lex s = match lex_text s with Some ts => antlr_types ts | None => None end.

   gen/AntlrLexer.v is REGENERATED from the Python source on every run.  This file looks at
   `AntlrLexer.lexer_edges`, `AntlrLexer.lexer_accept`, `AntlrLexer.lexer_start` only through the closed boolean
   side conditions of section 4, each proved by `vm_compute; reflexivity`:

     lexer_translated_ok    the dumper understood every transition of the ATN
     lexer_rule_types_match the token types of the lexer rules, in rule order, are those of the parser's literal
                            table followed by GREATER_THAN_NINE (a cross-check, not used by the proof)
     lexer_dead_ok          '0' and every character that starts no model token leave the start state nowhere
     lexer_numerals_ok      after '1'..'9' the first-rule-wins type is the type of the digit literal, a further
                            digit leads to the set of states `lexer_loop`, which accepts GREATER_THAN_NINE and
                            is mapped to itself by every digit; every other character leads nowhere
     lexer_symbols_ok       after an upper-case letter c (and then after any second character c2) the set of
                            states accepts the type of the element `z_of_symbol [c]` (`z_of_symbol [c; c2]`, c2
                            lower case) or nothing when there is no such element, and nothing can follow a second
                            letter
     lexer_punct_ok         punctuation: one character, the type of the model token, nothing can follow
     lexer_keywords_ok      "mass" and "rad": a chain of non-accepting state sets with exactly one live character
                            each, ending in a set that accepts the type of the keyword
   (the finitely many characters are enumerated: `all_ascii`, 256 values; the sets of automaton states are the
   ones `AntlrLex.clos` computes with the fuel `lexer_cfuel`, so no property of the fuel is needed; that the fuel
   never runs out, i.e. that these sets are genuine epsilon closures, is Proofs/AntlrLexFuel.v: lexer_fuel_ok).
   Sections 1-3 (Proofs/AntlrLexGeneric.v) are generic in the automaton and do not mention AntlrLexer. *)
From Coq Require Import String.
From Coq Require Import List NArith ZArith Bool Ascii Lia.
Require Import Base Mol Text Token Parse AntlrItem AntlrExec AntlrLex ParseProofs LexPrint GrammarStrings AntlrProofs AntlrLexGeneric.
Require Antlr AntlrLexer.
Import ListNotations.
Local Open Scope list_scope.

(* ====================================================================== *)
(* 4.  Side conditions on the generated automaton (all by computation)      *)
(* ====================================================================== *)
(* the character edges leaving the closure of the start state: what antlr_lex computes once per text *)
Definition lexer_init : list (list (N * N) * N) :=
  out_chars AntlrLexer.lexer_edges (clos AntlrLexer.lexer_edges lexer_cfuel [AntlrLexer.lexer_start]).

(* the set of states after two digits, e.g. after "10" *)
Definition lexer_loop : list N :=
  step AntlrLexer.lexer_edges lexer_cfuel
       (out AntlrLexer.lexer_edges (step AntlrLexer.lexer_edges lexer_cfuel lexer_init "1"%char)) "0"%char.

Lemma lexer_translated_ok : AntlrLexer.lexer_translated = true.
Proof. vm_compute. reflexivity. Qed.

(* the lexer has one rule per literal of the parser's table, then GREATER_THAN_NINE, with the parser's token
   numbers, in this order (not used below: the five checks compare the accepted types with `antlr_type` directly) *)
Lemma lexer_rule_types_match :
  map snd AntlrLexer.lexer_accept = map fst Antlr.antlr_literals ++ map fst Antlr.antlr_symbolic.
Proof. vm_compute. reflexivity. Qed.

Lemma lexer_dead_ok : dead_check AntlrLexer.lexer_edges lexer_cfuel lexer_init = true.
Proof. vm_compute. reflexivity. Qed.

Lemma lexer_numerals_ok : numerals_check AntlrLexer.lexer_edges AntlrLexer.lexer_accept lexer_cfuel lexer_init lexer_loop = true.
Proof. vm_compute. reflexivity. Qed.

Lemma lexer_symbols_ok : symbols_check AntlrLexer.lexer_edges AntlrLexer.lexer_accept lexer_cfuel lexer_init = true.
Proof. vm_compute. reflexivity. Qed.

Lemma lexer_punct_ok : punct_check AntlrLexer.lexer_edges AntlrLexer.lexer_accept lexer_cfuel lexer_init = true.
Proof. vm_compute. reflexivity. Qed.

Lemma lexer_keywords_ok : keywords_check AntlrLexer.lexer_edges AntlrLexer.lexer_accept lexer_cfuel lexer_init = true.
Proof. vm_compute. reflexivity. Qed.

(* ====================================================================== *)
(* 5.  MAIN: the generated lexer = the model lexer                          *)
(* ====================================================================== *)
Lemma antlr_lex_unfold : forall s,
  antlr_lex s = lex_nfa_fuel AntlrLexer.lexer_edges AntlrLexer.lexer_accept lexer_cfuel (length s) lexer_init s.
Proof. intros s. unfold antlr_lex, lexer_init, lexer_init_edges. reflexivity. Qed.

(* one maximal-munch step of the automaton (longest match, first rule wins) = one step of the model lexer *)
Theorem antlr_lex1_spec : forall l,
  lex1_nfa AntlrLexer.lexer_edges AntlrLexer.lexer_accept lexer_cfuel lexer_init l =
  match lex1 l with
  | Some (k, rest) => match antlr_type k with Some ty => Some (ty, rest) | None => None end
  | None => None
  end.
Proof.
  intros l.
  rewrite (lex1_nfa_spec _ _ _ _ _ lexer_dead_ok lexer_numerals_ok lexer_symbols_ok lexer_punct_ok lexer_keywords_ok l).
  destruct (lex1 l) as [[k rest]|]; reflexivity.
Qed.

Theorem antlr_lex_spec : forall s : text,
  antlr_lex s = match lex_text s with Some ts => antlr_types ts | None => None end.
Proof.
  intros s. rewrite antlr_lex_unfold. unfold lex_text.
  exact (lex_nfa_fuel_spec _ _ _ _ _ lexer_dead_ok lexer_numerals_ok lexer_symbols_ok lexer_punct_ok lexer_keywords_ok
           (length s) s).
Qed.

(* ---- corollaries ---- *)
Theorem antlr_lex_of_lex_text : forall s ts, lex_text s = Some ts ->
  exists tys, antlr_lex s = Some tys /\ antlr_types ts = Some tys.
Proof.
  intros s ts H. destruct (antlr_types_lex_total _ _ H) as (tys & Et).
  exists tys. split; [|exact Et]. rewrite antlr_lex_spec, H. exact Et.
Qed.

Theorem antlr_lex_error_iff : forall s, antlr_lex s = None <-> lex_text s = None.
Proof.
  intros s. rewrite antlr_lex_spec. destruct (lex_text s) as [ts|] eqn:El.
  - destruct (antlr_types_lex_total _ _ El) as (tys & Et). rewrite Et. split; discriminate.
  - split; reflexivity.
Qed.

Theorem antlr_lex_some_iff : forall s tys,
  antlr_lex s = Some tys <-> exists ts, lex_text s = Some ts /\ antlr_types ts = Some tys.
Proof.
  intros s tys. rewrite antlr_lex_spec. destruct (lex_text s) as [ts|].
  - split; [intros H; exists ts; split; [reflexivity|exact H]|].
    intros (ts' & E & H). inversion E; subst ts'. exact H.
  - split; [discriminate|]. intros (ts' & E & _). discriminate.
Qed.

(* the token types are those of the tokens that spell the text *)
Theorem antlr_lex_spells : forall s tys, antlr_lex s = Some tys ->
  exists ts, s = print_tokens ts /\ tokens_ok ts /\ antlr_types ts = Some tys.
Proof.
  intros s tys H. apply antlr_lex_some_iff in H. destruct H as (ts & El & Et).
  exists ts. split; [symmetry; exact (lex_text_print _ El)|]. split; [exact (lex_text_tokens_ok _ _ El)|exact Et].
Qed.

(* ---- end to end: generated lexer, then generated parser ---- *)
Definition antlr_recognise_nfa (s : text) : antlr_outcome :=
  match antlr_lex s with
  | None => AntlrLexError
  | Some tys => if antlr_accepts_types tys then AntlrAccept else AntlrSyntaxError
  end.

Theorem antlr_recognise_nfa_eq : forall s, antlr_recognise_nfa s = antlr_recognise s.
Proof.
  intros s. unfold antlr_recognise_nfa, antlr_recognise. rewrite antlr_lex_spec.
  destruct (lex_text s) as [ts|]; reflexivity.
Qed.

Theorem antlr_recognise_nfa_iff_sentence_string : forall s,
  antlr_recognise_nfa s = AntlrAccept <-> exists ts a, s = print_tokens ts /\ Sentence ts a.
Proof. intros s. rewrite antlr_recognise_nfa_eq. apply antlr_recognise_iff_sentence_string. Qed.

Theorem antlr_recognise_nfa_iff_sentence : forall s,
  antlr_recognise_nfa s = AntlrAccept <-> exists ts a, lex_text s = Some ts /\ Sentence ts a.
Proof. intros s. rewrite antlr_recognise_nfa_eq. apply antlr_recognise_iff_sentence. Qed.

Theorem antlr_recognise_nfa_lex_error_iff : forall s,
  antlr_recognise_nfa s = AntlrLexError <-> lex_text s = None.
Proof. intros s. rewrite antlr_recognise_nfa_eq. apply antlr_recognise_lex_error_iff. Qed.

Theorem antlr_recognise_nfa_syntax_error_iff : forall s,
  antlr_recognise_nfa s = AntlrSyntaxError <-> exists ts, lex_text s = Some ts /\ forall a, ~ Sentence ts a.
Proof. intros s. rewrite antlr_recognise_nfa_eq. apply antlr_recognise_syntax_error_iff_no_sentence. Qed.

Theorem antlr_recognise_nfa_accept_iff_ref_parse : forall s,
  antlr_recognise_nfa s = AntlrAccept <->
  (exists g, ref_parse s = inr g) \/
  (exists e, ref_parse s = inl e /\ (e = ESelfLoop \/ e = EBadIndex \/ e = EDupAttr)).
Proof. intros s. rewrite antlr_recognise_nfa_eq. apply antlr_accept_iff_ref_parse. Qed.

(* ====================================================================== *)
(* 6.  Non-vacuity: the automaton is run, and compared with the model lexer *)
(* ====================================================================== *)
Definition model_types (s : text) : option (list Z) :=
  match lex_text s with Some ts => antlr_types ts | None => None end.
Definition is_some {A} (o : option A) : bool := match o with Some _ => true | None => false end.

Example ex_lex_ethanol :
  antlr_lex (t "C2H6O/(1-7)(2-7)") = model_types (t "C2H6O/(1-7)(2-7)") /\
  option_map (@length Z) (antlr_lex (t "C2H6O/(1-7)(2-7)")) = Some 16%nat.
Proof. vm_compute. split; reflexivity. Qed.
Example ex_lex_big_numbers :
  antlr_lex (t "ClH/(10-200)") = model_types (t "ClH/(10-200)") /\
  option_map (@length Z) (antlr_lex (t "ClH/(10-200)")) = Some 8%nat.
Proof. vm_compute. split; reflexivity. Qed.
Example ex_lex_helium :
  antlr_lex (t "CHe/") = model_types (t "CHe/") /\ option_map (@length Z) (antlr_lex (t "CHe/")) = Some 3%nat.
Proof. vm_compute. split; reflexivity. Qed.
Example ex_lex_leading_zero : antlr_lex (t "C01/") = None /\ lex_text (t "C01/") = None.
Proof. vm_compute. split; reflexivity. Qed.
Example ex_lex_unknown_element : antlr_lex (t "Xx") = None /\ lex_text (t "Xx") = None.
Proof. vm_compute. split; reflexivity. Qed.
Example ex_lex_keywords :
  antlr_lex (t "radmass=13") = model_types (t "radmass=13") /\
  option_map (@length Z) (antlr_lex (t "radmass=13")) = Some 4%nat.
Proof. vm_compute. split; reflexivity. Qed.
Example ex_lex_empty : antlr_lex (t "") = Some [] /\ lex_text (t "") = Some [].
Proof. vm_compute. split; reflexivity. Qed.
Example ex_recognise_nfa :
  antlr_recognise_nfa (t "C2H6O/(1-7)(2-7)") = AntlrAccept /\
  antlr_recognise_nfa (t "HC/") = AntlrSyntaxError /\
  antlr_recognise_nfa (t "C01/") = AntlrLexError.
Proof. vm_compute. repeat split; reflexivity. Qed.

Print Assumptions antlr_lex1_spec.
Print Assumptions antlr_lex_spec.
Print Assumptions antlr_lex_of_lex_text.
Print Assumptions antlr_lex_error_iff.
Print Assumptions antlr_lex_some_iff.
Print Assumptions antlr_lex_spells.
Print Assumptions antlr_recognise_nfa_eq.
Print Assumptions antlr_recognise_nfa_iff_sentence_string.
Print Assumptions antlr_recognise_nfa_accept_iff_ref_parse.
