(* SemSer.v -- the listener semantics of the reference reader, applied to the abstract syntax tree
   that the serializer's output denotes (AstOf.ast_of), rebuilds the molecule it was emitted from.

   Main results
     expand_items_perm : the expanded sum formula is the multiset of atomic numbers of the molecule
     sem_ast_of        : ser_ready m -> syms_of m = Some syms ->
                         exists g, sem (ast_of m syms) = inr g /\ SameMol id m g /\ same sizes /\ all classes 0
     ex_*              : ethanol with a mass label and a radical, as a non-vacuity witness *)
From Coq Require Import List NArith ZArith Bool Lia Permutation Sorting.Sorted String.
Require Import Base Mol Partition Final Text Token Serialize Parse.
Require Import SortProofs MolProofs SameMol ViewProofs SerializeProofs AstOf.
Require ParseProofs Equitable.
Import ListNotations.

(* the view of an atom without its class: label and identity data *)
Definition iview {P} (x : atom P) : N * (N * option Z * option Z) := (lbl x, ident x).

(* ====================================================================== *)
(* 0.  Small list facts                                                    *)
(* ====================================================================== *)
Lemma NoDup_app_intro {A} (l1 l2 : list A) :
  NoDup l1 -> NoDup l2 -> (forall x, In x l1 -> ~ In x l2) -> NoDup (l1 ++ l2).
Proof.
  induction l1 as [|a t IH]; simpl; intros H1 H2 Hd; [exact H2|].
  inversion H1 as [|? ? Hn H1']; subst. constructor.
  - rewrite in_app_iff. intros [H|H]; [contradiction|]. exact (Hd a (or_introl eq_refl) H).
  - apply IH; [exact H1' | exact H2 |]. intros x Hx. apply Hd. right; exact Hx.
Qed.

Lemma flat_map_ext_on {A C} (f g : A -> list C) l :
  (forall a, In a l -> f a = g a) -> flat_map f l = flat_map g l.
Proof.
  induction l as [|x l IH]; intros H; simpl; [reflexivity|].
  rewrite H by (left; reflexivity). rewrite IH; [reflexivity|].
  intros a Ha. apply H. right; exact Ha.
Qed.

Lemma filter_split {A} (p : A -> bool) l :
  Permutation l (filter p l ++ filter (fun x => negb (p x)) l).
Proof.
  induction l as [|x l IH]; simpl; [constructor|].
  destruct (p x); simpl.
  - constructor. exact IH.
  - apply Permutation_cons_app. exact IH.
Qed.

Lemma map_repeat' {A C} (f : A -> C) x n : map f (repeat x n) = repeat (f x) n.
Proof. induction n as [|n IH]; simpl; [reflexivity|]. rewrite IH. reflexivity. Qed.

Lemma Sorted_map_in {A C} (R : A -> A -> Prop) (R' : C -> C -> Prop) (f : A -> C) l :
  (forall x y, In x l -> In y l -> R x y -> R' (f x) (f y)) -> Sorted R l -> Sorted R' (map f l).
Proof.
  intros H HS. revert H. induction HS as [|a t HS IH Hhd]; intros H; simpl; constructor.
  - apply IH. intros x y Hx Hy. apply H; right; assumption.
  - destruct Hhd as [|b t' Hab]; simpl; constructor.
    apply H; [left; reflexivity | right; left; reflexivity | exact Hab].
Qed.

Lemma enumerate_combine {A} (l : list A) i : enumerate_from i l = combine (N_seq i (length l)) l.
Proof. revert i; induction l as [|x t IH]; intros i; simpl; [reflexivity|]. rewrite IH. reflexivity. Qed.
Lemma combine_map_map {A C D} (f : A -> C) (g : A -> D) l :
  combine (map f l) (map g l) = map (fun x => (f x, g x)) l.
Proof. induction l as [|x t IH]; simpl; [reflexivity|]. rewrite IH. reflexivity. Qed.

Lemma N_seq_lt i n x : In x (N_seq i n) -> (x < i + N.of_nat n)%N.
Proof.
  revert i; induction n as [|n IH]; intros i; simpl; [intros []|].
  intros [<-|H]; [lia|]. apply IH in H. lia.
Qed.
Lemma N_seq_sorted i n : sorted N Nleb (N_seq i n).
Proof.
  revert i; induction n as [|n IH]; intros i; simpl; constructor; [apply IH|].
  destruct n; simpl; constructor. unfold Nleb. apply N.leb_le. lia.
Qed.

Lemma option_ext {A} (a b : option A) : (forall v, a = Some v <-> b = Some v) -> a = b.
Proof.
  intros H. destruct a as [v|].
  - symmetry. apply H. reflexivity.
  - destruct b as [w|]; [|reflexivity]. apply H. reflexivity.
Qed.

Lemma dedup_pairs_id l : NoDup l -> dedup_pairs l = l.
Proof.
  induction l as [|x t IH]; simpl; intros ND; [reflexivity|].
  fold (dedup_pairs t). inversion ND as [|? ? Hn ND']; subst. rewrite (IH ND').
  destruct (existsb _ t) eqn:E; [|reflexivity].
  apply ParseProofs.pair_existsb in E. contradiction.
Qed.

(* ====================================================================== *)
(* 1.  Element symbols                                                     *)
(* ====================================================================== *)
Lemma text_eqb_refl s : text_eqb s s = true.
Proof. induction s as [|c s IH]; simpl; [reflexivity|]. unfold ascii_eqb. rewrite N.eqb_refl. exact IH. Qed.
Lemma text_eqb_iff a b : text_eqb a b = true <-> a = b.
Proof. split; [apply ParseProofs.text_eqb_eq | intros ->; apply text_eqb_refl]. Qed.
Lemma existsb_text_eqb c l : existsb (text_eqb c) l = true <-> In c l.
Proof.
  rewrite existsb_exists. split.
  - intros (x & Hx & E). apply text_eqb_iff in E. subst; exact Hx.
  - intros H. exists c. split; [exact H | apply text_eqb_refl].
Qed.

Lemma symbol_of_in_In l z s : symbol_of_in l z = Some s -> In (s, z) l.
Proof.
  induction l as [|[k v] r IH]; simpl; [discriminate|].
  destruct (N.eqb_spec v z) as [->|_].
  - intros E; inversion E; left; reflexivity.
  - intros H; right; apply IH, H.
Qed.
Lemma elem_table_consistent :
  forallb (fun p => match z_of_symbol (fst p) with Some z => N.eqb z (snd p) | None => false end) elem_table = true.
Proof. vm_compute. reflexivity. Qed.
(* the converse of ParseProofs.z_of_symbol_symbol_of *)
Lemma symbol_of_z_of_symbol z s : symbol_of z = Some s -> z_of_symbol s = Some z.
Proof.
  intros H. apply symbol_of_in_In in H.
  pose proof (proj1 (forallb_forall _ _) elem_table_consistent _ H) as E. simpl in E.
  destruct (z_of_symbol s) as [z'|]; [|discriminate]. apply N.eqb_eq in E. subst; reflexivity.
Qed.

(* ====================================================================== *)
(* 2.  Counting: a list is, up to order, its distinct values repeated      *)
(* ====================================================================== *)
Section Counting.
  Variable A : Type.
  Variable eqb : A -> A -> bool.
  Hypothesis eqb_iff : forall a b, eqb a b = true <-> a = b.
  Definition cnt (s : A) (l : list A) : nat := length (filter (eqb s) l).

  Lemma filter_eq_repeat s l : filter (eqb s) l = repeat s (cnt s l).
  Proof.
    unfold cnt. induction l as [|a l IH]; simpl; [reflexivity|].
    destruct (eqb s a) eqn:E; simpl; [|exact IH].
    apply eqb_iff in E. subst a. f_equal. exact IH.
  Qed.
  Lemma cnt_filter_neq d s l : s <> d -> cnt s (filter (fun x => negb (eqb d x)) l) = cnt s l.
  Proof.
    intros Hne. unfold cnt. induction l as [|a l IH]; simpl; [reflexivity|].
    destruct (eqb d a) eqn:E; simpl.
    - apply eqb_iff in E. subst a. destruct (eqb s d) eqn:E2; [apply eqb_iff in E2; contradiction | exact IH].
    - destruct (eqb s a); simpl; rewrite IH; reflexivity.
  Qed.
  Lemma count_expand D l : NoDup D -> (forall x, In x l -> In x D) ->
    Permutation (flat_map (fun s => repeat s (cnt s l)) D) l.
  Proof.
    revert l; induction D as [|d D IH]; intros l ND Hin.
    - destruct l as [|a l]; [constructor|]. exfalso. apply (Hin a). left; reflexivity.
    - inversion ND as [|? ? Hn ND']; subst. simpl.
      rewrite <- filter_eq_repeat.
      eapply Permutation_trans; [|apply Permutation_sym, (filter_split (eqb d) l)].
      apply Permutation_app_head.
      rewrite (flat_map_ext_on _ (fun s => repeat s (cnt s (filter (fun x => negb (eqb d x)) l)))).
      + apply IH; [exact ND'|]. intros x Hx. apply filter_In in Hx. destruct Hx as [Hx Hd].
        destruct (Hin x Hx) as [->|H]; [|exact H].
        rewrite (proj2 (eqb_iff x x) eq_refl) in Hd. discriminate.
      + intros s Hs. rewrite cnt_filter_neq; [reflexivity|]. intros ->. contradiction.
  Qed.
End Counting.

(* ====================================================================== *)
(* 3.  The symbols of the sum formula                                      *)
(* ====================================================================== *)
Lemma dist_in syms s : In s (dedup text_leb (isort text_leb syms)) <-> In s syms.
Proof. exact (Equitable.distinct_in text text_leb text_leb_total text_leb_antisym syms s). Qed.
Lemma dist_NoDup syms : NoDup (dedup text_leb (isort text_leb syms)).
Proof. exact (Equitable.distinct_NoDup text text_leb text_leb_total text_leb_trans text_leb_antisym syms). Qed.

Lemma hill_syms_in syms s : In s (hill_syms syms) <-> In s syms.
Proof.
  unfold hill_syms. cbv zeta.
  generalize (t "C") (t "H"). intros c h.
  destruct (existsb (text_eqb c) syms) eqn:EC; [|apply dist_in].
  apply existsb_text_eqb in EC.
  simpl. rewrite in_app_iff, filter_In, dist_in. split.
  - intros [<-|[H|[H _]]]; [exact EC | | exact H].
    destruct (existsb (text_eqb h) syms) eqn:EH; [|destruct H].
    apply existsb_text_eqb in EH. destruct H as [<-|[]]. exact EH.
  - intros Hs. destruct (text_eqb s c) eqn:E1; [apply text_eqb_iff in E1; left; congruence|].
    right. destruct (text_eqb s h) eqn:E2.
    + apply text_eqb_iff in E2. subst s. left.
      rewrite (proj2 (existsb_text_eqb h syms) Hs). left; reflexivity.
    + right. split; [exact Hs | reflexivity].
Qed.

Lemma hill_syms_NoDup syms : NoDup (hill_syms syms).
Proof.
  unfold hill_syms. cbv zeta.
  assert (Hch : t "C" <> t "H") by (vm_compute; discriminate).
  revert Hch. generalize (t "C") (t "H"). intros c h Hch.
  destruct (existsb (text_eqb c) syms) eqn:EC; [|apply dist_NoDup].
  constructor.
  - rewrite in_app_iff, filter_In. intros [H|[_ H]].
    + destruct (existsb (text_eqb h) syms); [|destruct H]. destruct H as [E|[]]. congruence.
    + rewrite text_eqb_refl in H. discriminate.
  - apply NoDup_app_intro.
    + destruct (existsb (text_eqb h) syms); repeat constructor. simpl; tauto.
    + apply NoDup_filter, dist_NoDup.
    + intros x Hx Hf. apply filter_In in Hf. destruct Hf as [_ Hf].
      destruct (existsb (text_eqb h) syms); [|destruct Hx]. destruct Hx as [<-|[]].
      rewrite text_eqb_refl in Hf. rewrite andb_false_r in Hf. discriminate.
Qed.

(* atomic number of a symbol (0 when it is none) *)
Definition zsym (s : text) : N := match z_of_symbol s with Some z => z | None => 0%N end.

Lemma expand_items_as_repeat syms D :
  (forall s, In s D -> z_of_symbol s <> None) ->
  expand (flat_map (fun s => match z_of_symbol s with Some z => [(z, Z.of_N (count_text s syms))] | None => [] end) D)
  = map zsym (flat_map (fun s => repeat s (cnt text text_eqb s syms)) D).
Proof.
  induction D as [|d D IH]; intros H; simpl; [reflexivity|].
  unfold expand in *. rewrite flat_map_app, map_app, IH by (intros s Hs; apply H; right; exact Hs).
  f_equal. rewrite map_repeat'. unfold zsym.
  destruct (z_of_symbol d) as [z|] eqn:E; [|exfalso; apply (H d); [left; reflexivity | exact E]].
  simpl. rewrite app_nil_r. f_equal. unfold count_text, cnt. lia.
Qed.

Lemma zsym_syms zs syms : map symbol_of zs = map Some syms -> map zsym syms = zs.
Proof.
  revert syms; induction zs as [|z zs IH]; intros [|s syms] H; simpl in H; try discriminate; [reflexivity|].
  inversion H as [[H1 H2]]. simpl. rewrite (IH _ H2). f_equal.
  unfold zsym. rewrite (symbol_of_z_of_symbol _ _ H1). reflexivity.
Qed.

Lemma expand_ast_items_zs zs syms : map symbol_of zs = map Some syms ->
  Permutation (expand (ast_items syms)) zs.
Proof.
  intros H. unfold ast_items. rewrite expand_items_as_repeat.
  - rewrite <- (zsym_syms zs syms H). apply Permutation_map.
    apply (count_expand text text_eqb text_eqb_iff); [apply hill_syms_NoDup|].
    intros x Hx. apply hill_syms_in. exact Hx.
  - intros s Hs. apply (proj1 (hill_syms_in _ _)) in Hs.
    assert (Hin : In (Some s) (map symbol_of zs)) by (rewrite H; apply in_map, Hs).
    apply in_map_iff in Hin. destruct Hin as (z & Hz & _).
    rewrite (symbol_of_z_of_symbol _ _ Hz). discriminate.
Qed.

(* ====================================================================== *)
(* 4.  The tree of a serializer-ready molecule                             *)
(* ====================================================================== *)
Lemma atom_leb_total {P} (x y : atom P) : atom_leb x y = true \/ atom_leb y x = true.
Proof. unfold atom_leb. rewrite !N.leb_le. lia. Qed.
Lemma atom_leb_trans {P} (x y z : atom P) : atom_leb x y = true -> atom_leb y z = true -> atom_leb x z = true.
Proof. unfold atom_leb. rewrite !N.leb_le. lia. Qed.

Lemma In_props_of {P} (x : atom P) k v :
  In (k, v) (props_of x) <-> (k = KMass /\ mass x = Some v) \/ (k = KRad /\ rad x = Some v).
Proof.
  unfold props_of. destruct (mass x) as [a|], (rad x) as [b|]; simpl; split; intros H.
  - destruct H as [E|[E|[]]]; inversion E; subst; auto.
  - destruct H as [[-> E]|[-> E]]; inversion E; subst; auto.
  - destruct H as [E|[]]; inversion E; subst; auto.
  - destruct H as [[-> E]|[-> E]]; inversion E; subst; auto.
  - destruct H as [E|[]]; inversion E; subst; auto.
  - destruct H as [[-> E]|[-> E]]; inversion E; subst; auto.
  - destruct H.
  - destruct H as [[-> E]|[-> E]]; inversion E.
Qed.

Definition idx {P} (x : atom P) : Z := (Z.of_N (lbl x) + 1)%Z.

Lemma flat_props_blocks {P} (l : list (atom P)) :
  flat_props (flat_map (fun x => match props_of x with [] => [] | ps => [(idx x, ps)] end) l)
  = flat_map (fun x => map (fun p => (idx x, p)) (props_of x)) l.
Proof.
  unfold flat_props. induction l as [|a l IH]; simpl; [reflexivity|].
  destruct (props_of a) as [|p ps]; simpl; [exact IH|]. rewrite IH. reflexivity.
Qed.

Lemma nodup_ikey {P} (l : list (atom P)) : NoDup (map (@lbl P) l) ->
  NoDup (map ParseProofs.ikey (flat_map (fun x => map (fun p => (idx x, p)) (props_of x)) l)).
Proof.
  induction l as [|a l IH]; simpl; intros ND; [constructor|].
  inversion ND as [|? ? Hn ND']; subst. rewrite map_app. apply NoDup_app_intro.
  - rewrite map_map. unfold ParseProofs.ikey, props_of. simpl.
    destruct (mass a), (rad a); simpl; repeat constructor; simpl; try tauto.
    intros [E|[]]. discriminate.
  - apply IH, ND'.
  - intros q Hq Hq'. apply in_map_iff in Hq. destruct Hq as (q1 & <- & Hq1).
    apply in_map_iff in Hq1. destruct Hq1 as (p1 & <- & _).
    apply in_map_iff in Hq'. destruct Hq' as (q2 & E & Hq2).
    apply in_flat_map in Hq2. destruct Hq2 as (x & Hx & Hq2).
    apply in_map_iff in Hq2. destruct Hq2 as (p2 & <- & _).
    unfold ParseProofs.ikey, idx in E. simpl in E. inversion E as [[E1 E2]].
    apply Hn. replace (lbl a) with (lbl x) by lia. apply in_map, Hx.
Qed.

Section Ser.
  Context {P B : Type}.
  Variable m : mol P B.
  Variable syms : list text.
  Hypothesis Hready : ser_ready m.
  Hypothesis Hsyms : syms_of m = Some syms.

  Let L := isort (@atom_leb P) (atoms m).
  Let S := isort pair_leb (map nbond (bonds m)).
  Let n := length (atoms m).

  Lemma rd_wfg : wfg m. Proof. apply Hready. Qed.
  Lemma rd_labels : Permutation (labels m) (N_seq 0 n). Proof. apply Hready. Qed.
  Lemma rd_mono x y : In x (atoms m) -> In y (atoms m) -> (lbl x <= lbl y)%N -> (zn x <= zn y)%N.
  Proof. destruct Hready as (_ & _ & H & _). apply H. Qed.
  Lemma rd_bonds : NoDup (map nbond (bonds m)). Proof. apply Hready. Qed.

  Lemma L_perm : Permutation (atoms m) L.
  Proof. apply isort_perm. Qed.
  Lemma L_in x : In x L <-> In x (atoms m).
  Proof. apply isort_in. Qed.
  Lemma L_length : length L = n.
  Proof. apply isort_length. Qed.
  Lemma L_lbl : map (@lbl P) L = N_seq 0 n.
  Proof.
    unfold L. rewrite (isort_map (@lbl P) (@atom_leb P) Nleb) by reflexivity.
    fold (labels m).
    rewrite (isort_perm_invariant N Nleb Nleb_total Nleb_trans Nleb_antisym _ _ rd_labels).
    apply (isort_sorted_id N Nleb Nleb_total Nleb_trans Nleb_antisym). apply N_seq_sorted.
  Qed.
  Lemma L_nodup : NoDup (map (@lbl P) L).
  Proof. rewrite L_lbl. apply N_seq_NoDup. Qed.
  Lemma lbl_inj x y : In x (atoms m) -> In y (atoms m) -> lbl x = lbl y -> x = y.
  Proof. apply (Equitable.NoDup_map_inj_on (@lbl P)). apply rd_wfg. Qed.
  Lemma label_lt a : In a (labels m) -> (a < N.of_nat n)%N.
  Proof.
    intros H. apply (Permutation_in _ rd_labels) in H. apply N_seq_lt in H. lia.
  Qed.

  (* ---- atomic numbers ---- *)
  Theorem expand_items_perm : Permutation (expand (ast_items syms)) (map (@zn P) (atoms m)).
  Proof.
    apply expand_ast_items_zs. unfold syms_of in Hsyms. apply all_some_spec in Hsyms.
    rewrite map_map. exact Hsyms.
  Qed.
  Lemma expand_items_length : length (expand (ast_items syms)) = n.
  Proof. rewrite (Permutation_length expand_items_perm). apply map_length. Qed.

  Lemma L_zn_sorted : sorted N Nleb (map (@zn P) L).
  Proof.
    apply (Sorted_map_in (fun x y => atom_leb x y = true)).
    - intros x y Hx Hy H. unfold Nleb. apply N.leb_le. apply rd_mono; [apply L_in, Hx | apply L_in, Hy |].
      apply N.leb_le. exact H.
    - exact (isort_sorted (atom P) (@atom_leb P) atom_leb_total (atoms m)).
  Qed.
  Lemma L_zn : map (@zn P) L = isort Nleb (expand (ast_items syms)).
  Proof.
    apply (sorted_perm_eq N Nleb Nleb_trans Nleb_antisym).
    - apply L_zn_sorted.
    - apply isort_sorted, Nleb_total.
    - eapply Permutation_trans; [apply Permutation_sym, Permutation_map, L_perm|].
      eapply Permutation_trans; [apply Permutation_sym, expand_items_perm|]. apply isort_perm.
  Qed.
  Lemma L_enumerate : enumerate_from 0 (isort Nleb (expand (ast_items syms))) = map (fun x => (lbl x, zn x)) L.
  Proof.
    rewrite <- L_zn, enumerate_combine, map_length, L_length, <- L_lbl. apply combine_map_map.
  Qed.

  (* ---- edge tuples ---- *)
  Lemma S_in e : In e S -> exists b, In b (bonds m) /\ e = nbond b.
  Proof.
    intros H. apply isort_in in H. apply in_map_iff in H. destruct H as (b & <- & Hb). exists b. auto.
  Qed.
  Lemma S_nodup : NoDup S.
  Proof. apply (Permutation_NoDup (isort_perm _ pair_leb _)). apply rd_bonds. Qed.
  Lemma nbond_facts b : In b (bonds m) ->
    fst (nbond b) <> snd (nbond b) /\ In (fst (nbond b)) (labels m) /\ In (snd (nbond b)) (labels m).
  Proof.
    intros Hb. destruct rd_wfg as [_ Hw]. destruct (Hw b Hb) as (Hne & Hu & Hv).
    unfold nbond, norm_pair. destruct (N.leb (fst (ends b)) (snd (ends b))); simpl; auto.
  Qed.
  Lemma ast_tuples_In u v : In (u, v) (ast_tuples m) ->
    exists b, In b (bonds m) /\ u = (Z.of_N (fst (nbond b)) + 1)%Z /\ v = (Z.of_N (snd (nbond b)) + 1)%Z.
  Proof.
    unfold ast_tuples. intros H. apply in_map_iff in H. destruct H as (e & E & He).
    apply S_in in He. destruct He as (b & Hb & ->). inversion E. exists b. auto.
  Qed.
  Lemma sem_pairs :
    map (fun e => norm_pair (Z.to_N (fst e - 1), Z.to_N (snd e - 1))) (ast_tuples m) = S.
  Proof.
    unfold ast_tuples. fold S. rewrite map_map. rewrite <- (map_id S) at 2.
    apply map_ext_in. intros e He. simpl.
    replace (Z.to_N (Z.of_N (fst e) + 1 - 1)) with (fst e) by lia.
    replace (Z.to_N (Z.of_N (snd e) + 1 - 1)) with (snd e) by lia.
    apply S_in in He. destruct He as (b & _ & ->). rewrite <- surjective_pairing.
    unfold nbond. apply norm_pair_idem.
  Qed.

  (* ---- attribute blocks ---- *)
  Lemma ast_blocks_In i ps : In (i, ps) (ast_blocks m) -> exists x, In x (atoms m) /\ i = idx x.
  Proof.
    unfold ast_blocks. fold L. intros H. apply in_flat_map in H. destruct H as (x & Hx & H).
    exists x. split; [apply L_in, Hx|]. destruct (props_of x); [destruct H|].
    destruct H as [E|[]]. inversion E. reflexivity.
  Qed.
  Lemma props_eq : flat_props (ast_blocks m) = flat_map (fun x => map (fun p => (idx x, p)) (props_of x)) L.
  Proof. apply flat_props_blocks. Qed.
  Lemma props_In i k v : In (i, (k, v)) (flat_props (ast_blocks m)) <->
    exists x, In x (atoms m) /\ i = idx x /\ In (k, v) (props_of x).
  Proof.
    rewrite props_eq, in_flat_map. split.
    - intros (x & Hx & H). apply in_map_iff in H. destruct H as (p & E & Hp). inversion E; subst.
      exists x. split; [apply L_in, Hx | auto].
    - intros (x & Hx & -> & Hp). exists x. split; [apply L_in, Hx|].
      apply in_map_iff. exists (k, v). auto.
  Qed.
  Lemma props_nodup : NoDup (map ParseProofs.ikey (flat_props (ast_blocks m))).
  Proof. rewrite props_eq. apply nodup_ikey, L_nodup. Qed.

  Lemma find_mass x : In x (atoms m) -> find_prop (flat_props (ast_blocks m)) (Z.of_N (lbl x) + 1) KMass = mass x.
  Proof.
    intros Hx. apply option_ext. intros v.
    rewrite (ParseProofs.find_prop_In _ _ _ _ props_nodup), props_In. split.
    - intros (y & Hy & E & Hp). unfold idx in E.
      assert (y = x) by (apply lbl_inj; [assumption | assumption | lia]). subst y.
      apply In_props_of in Hp. destruct Hp as [[_ Hp]|[Hp _]]; [exact Hp | discriminate].
    - intros Hm. exists x. split; [exact Hx|]. split; [reflexivity|]. apply In_props_of. auto.
  Qed.
  Lemma find_rad x : In x (atoms m) -> find_prop (flat_props (ast_blocks m)) (Z.of_N (lbl x) + 1) KRad = rad x.
  Proof.
    intros Hx. apply option_ext. intros v.
    rewrite (ParseProofs.find_prop_In _ _ _ _ props_nodup), props_In. split.
    - intros (y & Hy & E & Hp). unfold idx in E.
      assert (y = x) by (apply lbl_inj; [assumption | assumption | lia]). subst y.
      apply In_props_of in Hp. destruct Hp as [[Hp _]|[_ Hp]]; [discriminate | exact Hp].
    - intros Hm. exists x. split; [exact Hx|]. split; [reflexivity|]. apply In_props_of. auto.
  Qed.

  (* ---- acceptance ---- *)
  Lemma n_atoms_eq : ParseProofs.n_atoms (ast_of m syms) = Z.of_nat n.
  Proof. unfold ParseProofs.n_atoms, ast_of. simpl. rewrite expand_items_length. reflexivity. Qed.

  Lemma accepts_no_self_loop : ParseProofs.NoSelfLoop (ast_of m syms).
  Proof.
    intros u v H. simpl in H. apply ast_tuples_In in H. destruct H as (b & Hb & -> & ->).
    destruct (nbond_facts b Hb) as (Hne & _). lia.
  Qed.
  Lemma accepts_no_dup_attr : ParseProofs.NoDupAttr (ast_of m syms).
  Proof. unfold ParseProofs.NoDupAttr. simpl. apply props_nodup. Qed.
  Lemma accepts_indices : ParseProofs.IndicesExist (ast_of m syms).
  Proof.
    split; rewrite n_atoms_eq.
    - intros u v H. simpl in H. apply ast_tuples_In in H. destruct H as (b & Hb & -> & ->).
      destruct (nbond_facts b Hb) as (_ & Hu & Hv). apply label_lt in Hu, Hv. lia.
    - intros i ps H. simpl in H. apply ast_blocks_In in H. destruct H as (x & Hx & ->).
      assert (Hl : (lbl x < N.of_nat n)%N) by (apply label_lt, in_map, Hx). unfold idx. lia.
  Qed.
  Lemma sem_accepts : sem (ast_of m syms) = inr (ParseProofs.sem_mol (ast_of m syms)).
  Proof.
    assert (H : exists g, sem (ast_of m syms) = inr g).
    { apply ParseProofs.sem_accepts_iff.
      split; [apply accepts_no_self_loop|]. split; [apply accepts_no_dup_attr | apply accepts_indices]. }
    destruct H as (g & Hg). rewrite Hg. f_equal. apply (ParseProofs.sem_accepts_value _ Hg).
  Qed.

  (* ---- the graph ---- *)
  Lemma sem_atoms : atoms (ParseProofs.sem_mol (ast_of m syms)) =
    map (fun x => mkAtom (lbl x) (zn x) (mass x) (rad x) 0%N tt) L.
  Proof.
    unfold ParseProofs.sem_mol. cbn [atoms items blocks ast_of].
    rewrite L_enumerate, map_map. apply map_ext_in. intros x Hx. apply L_in in Hx.
    cbn [fst snd]. rewrite (find_mass x Hx), (find_rad x Hx). reflexivity.
  Qed.
  Lemma sem_bonds : bonds (ParseProofs.sem_mol (ast_of m syms)) = map (fun e => (fst e, snd e, tt)) S.
  Proof.
    unfold ParseProofs.sem_mol. cbn [bonds tuples ast_of].
    rewrite sem_pairs, (dedup_pairs_id S S_nodup). reflexivity.
  Qed.

  Theorem sem_ast_of_section : exists g : mol unit unit,
    sem (ast_of m syms) = inr g /\
    SameMol (fun x => x) m g /\
    length (atoms g) = length (atoms m) /\
    length (bonds g) = length (bonds m) /\
    (forall x, In x (atoms g) -> part x = 0%N).
  Proof.
    exists (ParseProofs.sem_mol (ast_of m syms)). split; [apply sem_accepts|].
    split; [|split; [|split]].
    - split; [intros x y _ _ E; exact E|]. split.
      + rewrite sem_atoms, map_map. cbn [lbl]. unfold ident. cbn [zn mass rad].
        apply (Permutation_map (fun x => (lbl x, (zn x, mass x, rad x)))), L_perm.
      + rewrite sem_bonds, map_map. unfold ends. cbn [fst snd].
        replace (map (fun x : N * N => norm_pair (fst x, snd x)) S) with S.
        * apply (isort_perm _ pair_leb (map nbond (bonds m))).
        * rewrite <- (map_id S) at 1. apply map_ext_in. intros e He.
          apply S_in in He. destruct He as (b & _ & ->). rewrite <- surjective_pairing.
          unfold nbond. symmetry. apply norm_pair_idem.
    - rewrite sem_atoms, map_length. apply L_length.
    - rewrite sem_bonds, map_length. unfold S. rewrite isort_length. apply map_length.
    - intros x Hx. rewrite sem_atoms in Hx. apply in_map_iff in Hx. destruct Hx as (y & <- & _). reflexivity.
  Qed.
End Ser.

(* ====================================================================== *)
(* 5.  Main theorem                                                        *)
(* ====================================================================== *)
Theorem sem_ast_of : forall P B (m : mol P B) syms, ser_ready m -> syms_of m = Some syms ->
  exists g : mol unit unit,
    sem (ast_of m syms) = inr g /\
    SameMol (fun x => x) m g /\
    length (atoms g) = length (atoms m) /\
    length (bonds g) = length (bonds m) /\
    (forall x, In x (atoms g) -> part x = 0%N).
Proof. intros P B m syms Hr Hs. exact (sem_ast_of_section m syms Hr Hs). Qed.

(* the same, spelled out: label -> (element, mass, radical) and the set of bonds are those of m *)
Corollary sem_ast_of_views : forall P B (m : mol P B) syms, ser_ready m -> syms_of m = Some syms ->
  exists g : mol unit unit,
    sem (ast_of m syms) = inr g /\
    Permutation (map iview (atoms m)) (map iview (atoms g)) /\
    Permutation (map nbond (bonds m)) (map nbond (bonds g)).
Proof.
  intros P B m syms Hr Hs. destruct (sem_ast_of P B m syms Hr Hs) as (g & Hg & (_ & Ha & Hb) & _).
  exists g. split; [exact Hg|]. split; [exact Ha|].
  unfold nbond. unfold fpair in Hb. unfold ends in *. exact Hb.
Qed.

(* and the explicit form of the graph: the atoms of m by ascending label with class 0 and no
   payload; the normalised bonds of m in the order of the edge list *)
Theorem sem_ast_of_value : forall P B (m : mol P B) syms, ser_ready m -> syms_of m = Some syms ->
  sem (ast_of m syms) =
  inr (mkMol (map (fun x => mkAtom (lbl x) (zn x) (mass x) (rad x) 0%N tt) (isort (@atom_leb P) (atoms m)))
             (map (fun e => (fst e, snd e, tt)) (isort pair_leb (map nbond (bonds m))))).
Proof.
  intros P B m syms Hr Hs. rewrite (sem_accepts m syms Hr Hs). f_equal.
  rewrite <- (sem_atoms m syms Hr Hs), <- (sem_bonds m syms Hr).
  destruct (ParseProofs.sem_mol (ast_of m syms)); reflexivity.
Qed.

(* ====================================================================== *)
(* 6.  Non-vacuity: ethanol, numbered by atomic number, with a mass label  *)
(*     on one hydrogen and a radical on one carbon; atoms and bonds listed *)
(*     out of order, bonds in either direction                             *)
(* ====================================================================== *)
Definition ex_atom (l z : N) (ms rd : option Z) : atom unit := mkAtom l z ms rd 0%N tt.
Definition ex_mol : mol unit unit :=
  mkMol [ex_atom 8 8 None None; ex_atom 6 6 None None; ex_atom 7 6 None (Some 3%Z);
         ex_atom 0 1 (Some 2%Z) None; ex_atom 1 1 None None; ex_atom 2 1 None None;
         ex_atom 3 1 None None; ex_atom 4 1 None None; ex_atom 5 1 None None]
        [(7, 6, tt); (0, 6, tt); (6, 1, tt); (2, 6, tt); (8, 7, tt); (3, 7, tt); (7, 4, tt); (5, 8, tt)]%N.
Definition ex_syms : list text := [t "O"; t "C"; t "C"; t "H"; t "H"; t "H"; t "H"; t "H"; t "H"].

Example ex_syms_of : syms_of ex_mol = Some ex_syms.
Proof. vm_compute. reflexivity. Qed.

(* C2H6O/(1-7)(2-7)(3-7)(4-8)(5-8)(6-9)(7-8)(8-9)/(1:mass=2)(8:rad=3) *)
Example ex_ast : ast_of ex_mol ex_syms =
  mkAst [(6%N, 2%Z); (1%N, 6%Z); (8%N, 1%Z)]
        [(1, 7); (2, 7); (3, 7); (4, 8); (5, 8); (6, 9); (7, 8); (8, 9)]%Z
        [(1%Z, [(KMass, 2%Z)]); (8%Z, [(KRad, 3%Z)])].
Proof. vm_compute. reflexivity. Qed.

Example ex_sem : sem (ast_of ex_mol ex_syms) =
  inr (mkMol [ex_atom 0 1 (Some 2%Z) None; ex_atom 1 1 None None; ex_atom 2 1 None None;
              ex_atom 3 1 None None; ex_atom 4 1 None None; ex_atom 5 1 None None;
              ex_atom 6 6 None None; ex_atom 7 6 None (Some 3%Z); ex_atom 8 8 None None]
             [(0, 6, tt); (1, 6, tt); (2, 6, tt); (3, 7, tt); (4, 7, tt); (5, 8, tt); (6, 7, tt); (7, 8, tt)]%N).
Proof. vm_compute. reflexivity. Qed.

(* decidable sufficient conditions, to discharge ser_ready on a concrete graph *)
Lemma NoDup_N_dec (l : list N) : ParseProofs.nodupN l = true -> NoDup l.
Proof. apply ParseProofs.nodupN_sound. Qed.

Example ex_ser_ready : ser_ready ex_mol.
Proof.
  assert (Hlab : labels ex_mol = [8; 6; 7; 0; 1; 2; 3; 4; 5]%N) by reflexivity.
  split; [|split; [|split; [|split]]].
  - split.
    + rewrite Hlab. apply NoDup_N_dec. reflexivity.
    + intros b Hb. rewrite Hlab. simpl in Hb.
      repeat (destruct Hb as [<-|Hb]; [simpl; split; [discriminate | split; tauto]|]). destruct Hb.
  - rewrite Hlab. simpl.
    apply (Permutation_trans (l' := isort Nleb [8; 6; 7; 0; 1; 2; 3; 4; 5]%N)); [apply isort_perm|].
    apply Permutation_refl.
  - intros x y Hx Hy Hle. simpl in Hx, Hy.
    repeat (destruct Hx as [<-|Hx]; [|]); try destruct Hx;
    repeat (destruct Hy as [<-|Hy]; [|]); try destruct Hy; simpl in *; lia.
  - simpl. repeat constructor; simpl; intuition discriminate.
  - intros x Hx. simpl in Hx.
    repeat (destruct Hx as [<-|Hx]; [simpl; split; intros v E; inversion E; lia|]). destruct Hx.
Qed.

(* the theorem applies to the witness, and gives the graph computed above *)
Example ex_applies : exists g : mol unit unit,
  sem (ast_of ex_mol ex_syms) = inr g /\ SameMol (fun x => x) ex_mol g /\
  length (atoms g) = 9%nat /\ length (bonds g) = 8%nat /\ (forall x, In x (atoms g) -> part x = 0%N).
Proof. exact (sem_ast_of unit unit ex_mol ex_syms ex_ser_ready ex_syms_of). Qed.

Print Assumptions sem_ast_of.
Print Assumptions sem_ast_of_views.
Print Assumptions sem_ast_of_value.
Print Assumptions expand_items_perm.
Print Assumptions ex_applies.
