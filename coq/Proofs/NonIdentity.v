(* NonIdentity.v -- property C06: the TUCAN string depends only on which atoms exist, their element,
   isotope mass and radical state, and which pairs are bonded.

   Everything here is a composition of theorems proved elsewhere:
     - TucanProofs.tucan_invariant: two descriptions related by SameMol (labels, (zn, mass, rad) and
       normalised bond pairs -- nothing else, for arbitrary payload and bond data types) get the
       same string;
     - V3000Render.read_molfile_graph / V2000Render.read_v2000_render: what the readers return on
       every admissible rendering (ch : choices) of an abstract file-level molecule, under LF or
       CR LF: a graph in which neither the rendering choices nor the file indices are visible.
   What is added: the graphs of two abstract molecules with the same identity data are SameMol
   (under the identity renaming), however charges, coordinates and bond types differ.

   Contents
     1. tucan_ignores_payload (molecule level, any payload / bond data types)
     2. nx.Graph edge insertion (add_edge): the normalised pairs of the result
     3. V3000: IdentEq3000, tucan_v3000_nonidentity
     4. V2000: IdentEq2000, the entry point under LF / CR LF, tucan_v2000_nonidentity
     5. V2000 against V3000: tucan_v2000_v3000
     6. resonance-style redrawings
     7. non-vacuity: formate drawn two ways, three files, one string                         *)
From Coq Require Import List NArith ZArith Bool Lia Arith Permutation String.
Require Import Base Mol Text Molfile Pipeline MolProofs SameMol CanonProofs CanonView TucanProofs.
Require V2000 WriterProofs SerializeProofs RefCanon V3000Render V2000Render.
Import ListNotations.

Local Open Scope list_scope.

(* ------------------------------------------------------------------------------------ *)
(* 1. molecule level                                                                     *)
(* ------------------------------------------------------------------------------------ *)

(* the normalised (unordered) pair a bond joins *)
Definition npair {B} (b : N * N * B) : N * N := norm_pair (ends b).

Lemma fpair_id e : fpair (fun x : N => x) e = e.
Proof. destruct e; reflexivity. Qed.

(* same labels with the same (zn, mass, rad), same bonded pairs: SameMol under the identity *)
Lemma SameMol_id {P B P' B'} (m : mol P B) (m' : mol P' B') :
  Permutation (map (fun x => (lbl x, ident x)) (atoms m)) (map (fun x => (lbl x, ident x)) (atoms m')) ->
  Permutation (map npair (bonds m)) (map npair (bonds m')) ->
  SameMol (fun x => x) m m'.
Proof.
  intros Ha Hb. split; [intros x y _ _ E; exact E|]. split; [exact Ha|].
  erewrite map_ext; [exact Hb|]. intros b. rewrite fpair_id. reflexivity.
Qed.

(* tucan_invariant with the identity renaming: the payloads (charges, coordinates, anything) and
   the bond data (bond orders, annotations) are of arbitrary, unrelated types and do not occur in
   the hypotheses *)
Theorem tucan_ignores_payload canon : H1 canon -> H2 canon ->
  forall (P B P' B' : Type) (m : mol P B) (m' : mol P' B'),
  wfg m -> (forall x, In x (atoms m) -> nozero x) ->
  Permutation (map (fun x => (lbl x, ident x)) (atoms m)) (map (fun x => (lbl x, ident x)) (atoms m')) ->
  Permutation (map (fun b => norm_pair (ends b)) (bonds m)) (map (fun b => norm_pair (ends b)) (bonds m')) ->
  tucan canon m = tucan canon m'.
Proof.
  intros HH1 HH2 P B P' B' m m' Hwf Hnz Ha Hb.
  apply (tucan_invariant canon HH1 HH2 (fun x => x) m m' Hwf); [|exact Hnz].
  apply SameMol_id; assumption.
Qed.

(* when both bond lists are free of repeated unordered pairs, "same set" is enough *)
Lemma SameMol_id_sets {P B P' B'} (m : mol P B) (m' : mol P' B') :
  map (fun x => (lbl x, ident x)) (atoms m) = map (fun x => (lbl x, ident x)) (atoms m') ->
  NoDup (map npair (bonds m)) -> NoDup (map npair (bonds m')) ->
  (forall p, In p (map npair (bonds m)) <-> In p (map npair (bonds m'))) ->
  SameMol (fun x => x) m m'.
Proof.
  intros Ha Hn Hn' Hs. apply SameMol_id; [rewrite Ha; apply Permutation_refl|].
  apply NoDup_Permutation; assumption.
Qed.

(* ------------------------------------------------------------------------------------ *)
(* 2. nx.Graph edge insertion                                                            *)
(* ------------------------------------------------------------------------------------ *)

Lemma bond_eqb_norm a b : bond_eqb a b = true <-> norm_pair a = norm_pair b.
Proof.
  destruct a as [a1 a2], b as [b1 b2]. unfold bond_eqb, norm_pair. cbn [fst snd].
  rewrite orb_true_iff, !andb_true_iff, !N.eqb_eq.
  destruct (N.leb_spec a1 a2) as [L1|L1], (N.leb_spec b1 b2) as [L2|L2]; split; intros HH;
    try (destruct HH as [[-> ->]|[-> ->]]; try reflexivity; f_equal; lia);
    inversion HH; subst; auto; try lia.
Qed.

Lemma norm_pair_swap a b : norm_pair (a, b) = norm_pair (b, a).
Proof. apply RefCanon.norm_pair_sym. Qed.

Section Edges.
  Context {X B : Type}.
  Variable g : X -> N * N.     (* the endpoints an input item states *)
  Variable d : X -> B.         (* its data *)

  Definition build (xs : list X) (acc : list (N * N * B)) : list (N * N * B) :=
    fold_left (fun l x => add_edge (g x) (d x) l) xs acc.

  Lemma add_edge_npairs e (dd : B) l :
    map npair (add_edge e dd l) = if existsb (fun b => bond_eqb (ends b) e) l then map npair l
                                  else map npair l ++ [norm_pair e].
  Proof.
    induction l as [|b r IH]; cbn [add_edge existsb map app].
    - destruct e; reflexivity.
    - destruct (bond_eqb (ends b) e) eqn:E; cbn [orb map].
      + f_equal.
      + rewrite IH. destruct (existsb _ r); reflexivity.
  Qed.

  Lemma existsb_bond e (l : list (N * N * B)) :
    existsb (fun b => bond_eqb (ends b) e) l = true <-> In (norm_pair e) (map npair l).
  Proof.
    rewrite existsb_exists, in_map_iff. split; intros (b & H1 & H2); exists b.
    - split; [apply bond_eqb_norm, H2 | exact H1].
    - split; [exact H2 | apply bond_eqb_norm, H1].
  Qed.

  Lemma add_edge_in e (dd : B) l p : In p (map npair (add_edge e dd l)) <-> In p (map npair l) \/ p = norm_pair e.
  Proof.
    rewrite add_edge_npairs. destruct (existsb _ l) eqn:E.
    - apply existsb_bond in E. split; [auto|]. intros [H| ->]; assumption.
    - rewrite in_app_iff. cbn [In]. split; intros [H|H]; auto. destruct H as [<-|[]]. auto.
  Qed.

  Lemma add_edge_NoDup e (dd : B) l : NoDup (map npair l) -> NoDup (map npair (add_edge e dd l)).
  Proof.
    intros H. rewrite add_edge_npairs. destruct (existsb _ l) eqn:E; [exact H|].
    apply (Permutation_NoDup (Permutation_cons_append _ _)). constructor; [|exact H]. intros Hin. apply existsb_bond in Hin. congruence.
  Qed.

  Lemma add_edge_ends e (dd : B) l b : In b (add_edge e dd l) -> In (ends b) (map ends l) \/ ends b = e.
  Proof.
    induction l as [|c r IH]; cbn [add_edge map In].
    - intros [<-|[]]. right. destruct e; reflexivity.
    - destruct (bond_eqb (ends c) e).
      + intros [<-|H]; [left; left; reflexivity|]. left; right. apply in_map, H.
      + intros [<-|H]; [left; left; reflexivity|]. destruct (IH H) as [H'|H']; auto.
  Qed.

  Lemma build_in xs acc p :
    In p (map npair (build xs acc)) <-> In p (map npair acc) \/ In p (map (fun x => norm_pair (g x)) xs).
  Proof.
    unfold build. revert acc. induction xs as [|x xs IH]; intros acc; cbn [fold_left map In]; [tauto|].
    rewrite IH, add_edge_in. split; intros H; decompose [or] H; auto.
  Qed.

  Lemma build_NoDup xs acc : NoDup (map npair acc) -> NoDup (map npair (build xs acc)).
  Proof.
    unfold build. revert acc. induction xs as [|x xs IH]; intros acc H; cbn [fold_left]; [exact H|].
    apply IH, add_edge_NoDup, H.
  Qed.

  Lemma build_ends xs acc b : In b (build xs acc) -> In (ends b) (map ends acc) \/ In (ends b) (map g xs).
  Proof.
    unfold build. revert acc. induction xs as [|x xs IH]; intros acc; cbn [fold_left map In];
      [intros H; left; apply in_map, H|].
    intros H. destruct (IH _ H) as [H'|H']; [|auto].
    rewrite in_map_iff in H'. destruct H' as (c & Ec & Hc). rewrite <- Ec.
    destruct (add_edge_ends _ _ _ _ Hc) as [H''|H'']; auto.
  Qed.
End Edges.

(* a graph whose bond list was built by edge insertion from items with distinct endpoints among the
   labels is a simple graph on its atoms *)
Lemma build_wfg {P X B} (g : X -> N * N) (d : X -> B) (ats : list (atom P)) xs :
  NoDup (map (@lbl P) ats) ->
  (forall x, In x xs -> fst (g x) <> snd (g x) /\ In (fst (g x)) (map (@lbl P) ats) /\ In (snd (g x)) (map (@lbl P) ats)) ->
  wfg (mkMol ats (build g d xs [])).
Proof.
  intros Hnd Hx. split; [exact Hnd|]. cbn [bonds]. intros b Hb.
  destruct (build_ends g d xs [] b Hb) as [[]|H]. rewrite in_map_iff in H. destruct H as (x & E & Hin).
  rewrite <- E. apply Hx, Hin.
Qed.

(* two such graphs with the same labelled identity data and the same set of unordered pairs *)
Lemma build_SameMol {P P' X X' B B'} (g : X -> N * N) (d : X -> B) (g' : X' -> N * N) (d' : X' -> B')
      (ats : list (atom P)) (ats' : list (atom P')) xs xs' :
  map (fun x => (lbl x, ident x)) ats = map (fun x => (lbl x, ident x)) ats' ->
  (forall p, In p (map (fun x => norm_pair (g x)) xs) <-> In p (map (fun x => norm_pair (g' x)) xs')) ->
  SameMol (fun x => x) (mkMol ats (build g d xs [])) (mkMol ats' (build g' d' xs' [])).
Proof.
  intros Ha Hp. apply SameMol_id_sets; cbn [atoms bonds]; [exact Ha| | |].
  - apply build_NoDup. constructor.
  - apply build_NoDup. constructor.
  - intros p. rewrite !build_in. cbn [map In]. rewrite Hp. tauto.
Qed.

(* the same set of unordered pairs *)
Definition same_pairs {X} (l l' : list (X * X)) : Prop :=
  forall u v, (In (u, v) l \/ In (v, u) l) <-> (In (u, v) l' \/ In (v, u) l').

Lemma same_pairs_sym {X} (l l' : list (X * X)) : same_pairs l l' -> same_pairs l' l.
Proof. intros H u v. symmetry. apply H. Qed.

Lemma same_pairs_norm {X} (h : X -> N) (l l' : list (X * X)) : same_pairs l l' ->
  forall p, In p (map (fun k => norm_pair (h (fst k), h (snd k))) l) -> In p (map (fun k => norm_pair (h (fst k), h (snd k))) l').
Proof.
  intros H p Hp. rewrite in_map_iff in Hp. destruct Hp as ([u v] & <- & Hin). cbn [fst snd].
  destruct (proj1 (H u v) (or_introl Hin)) as [H'|H'].
  - apply (in_map (fun k => norm_pair (h (fst k), h (snd k)))) in H'. exact H'.
  - apply (in_map (fun k => norm_pair (h (fst k), h (snd k)))) in H'. cbn [fst snd] in H'.
    rewrite norm_pair_swap. exact H'.
Qed.

(* ------------------------------------------------------------------------------------ *)
(* 3. V3000                                                                              *)
(* ------------------------------------------------------------------------------------ *)

Module R3 := V3000Render.
Module R2 := V2000Render.

(* identity data of an atom line: atomic number (D, T are hydrogen), effective isotope mass (the
   stated one, or 2 / 3 for D / T), radical; zero = not set *)
Definition ident3 (a : R3.atomM) : N * option Z * option Z :=
  let (sym, iso) := R3.iso_of (R3.a_sym a) in
  (opt_default 0%N (z_of_symbol sym), R3.nz (if Z.eqb iso 0 then R3.a_mass a else iso), R3.nz (R3.a_rad a)).

(* the ordered pairs of block positions the bond lines state (a star bond: one pair per endpoint) *)
Definition pairs3 (M : R3.molM) : list (nat * nat) := flat_map R3.bond_keys (R3.m_bonds M).

(* the same identity data: the same number of entries; entry by entry both are star atoms, or both
   are atoms of the same element, effective mass and radical; the same bonded pairs as a set.
   Charges, coordinate tokens, bond types, the number and order of bond lines, the direction a bond is
   written in, and whether a bond is stated once or several times are free. *)
Definition IdentEq3000 (M M' : R3.molM) : Prop :=
  map (option_map ident3) (R3.m_entries M) = map (option_map ident3) (R3.m_entries M') /\
  same_pairs (pairs3 M) (pairs3 M').

(* no bond from an atom to itself (nx.Graph would keep a self-loop; the pipeline is specified on
   simple graphs) *)
Definition loopfree3 (M : R3.molM) : Prop := forall u, ~ In (u, u) (pairs3 M).

(* since the readers reject a bond from an atom to itself, R3.okM contains this condition (om_noloop):
   the hypothesis [loopfree3 M] of the theorems below is implied by [R3.okM M] and is kept for the
   statements' sake *)
Lemma okM_loopfree3 M : R3.okM M -> loopfree3 M.
Proof. intros HM. exact (R3.om_noloop _ HM). Qed.

Lemma IdentEq3000_loopfree M M' : IdentEq3000 M M' -> loopfree3 M -> loopfree3 M'.
Proof. intros [_ H] HL u Hu. apply (HL u). destruct (proj2 (H u u) (or_introl Hu)); assumption. Qed.

Lemma m_atom_view i a : lbl (R3.m_atom i a) = i /\ ident (R3.m_atom i a) = ident3 a.
Proof. unfold R3.m_atom, ident3, ident. destruct (R3.iso_of (R3.a_sym a)). split; reflexivity. Qed.

Lemma nz_nonzero v : R3.nz v <> Some 0%Z.
Proof. unfold R3.nz. destruct (Z.eqb_spec v 0); [discriminate|]. intros E. inversion E. contradiction. Qed.

Lemma m_atom_nozero i a : nozero (R3.m_atom i a).
Proof. unfold R3.m_atom, nozero. destruct (R3.iso_of (R3.a_sym a)). cbn [mass rad]. split; apply nz_nonzero. Qed.

Lemma m_atoms_nozero es : forall i x, In x (R3.m_atoms i es) -> nozero x.
Proof.
  induction es as [|[a|] es IH]; intros i x; cbn [R3.m_atoms In]; [intros []| |apply IH].
  intros [<-|H]; [apply m_atom_nozero | apply (IH _ _ H)].
Qed.

Lemma m_atoms_view es : forall es' i, map (option_map ident3) es = map (option_map ident3) es' ->
  map (fun x => (lbl x, ident x)) (R3.m_atoms i es) = map (fun x => (lbl x, ident x)) (R3.m_atoms i es').
Proof.
  induction es as [|e es IH]; intros [|e' es'] i H; try discriminate H; [reflexivity|].
  cbn [map] in H. injection H as He H. destruct e as [a|], e' as [a'|]; try discriminate He; cbn [R3.m_atoms map].
  - cbn [option_map] in He. injection He as He.
    destruct (m_atom_view i a) as [-> ->], (m_atom_view i a') as [-> ->]. rewrite He. f_equal. apply IH, H.
  - apply IH, H.
Qed.

Lemma rank_ext es : forall es' p, map (option_map ident3) es = map (option_map ident3) es' -> R3.rank es p = R3.rank es' p.
Proof.
  induction es as [|e es IH]; intros [|e' es'] p H; try discriminate H; [reflexivity|].
  cbn [map] in H. injection H as He H. destruct e as [a|], e' as [a'|]; try discriminate He; destruct p as [|p];
    cbn [R3.rank]; try reflexivity; [f_equal|]; apply IH, H.
Qed.

(* node names: the atoms of the block, counted from i *)
Lemma m_atoms_lbl_ge es : forall i x, In x (map (@lbl rpay) (R3.m_atoms i es)) -> (i <= x)%N.
Proof.
  induction es as [|[a|] es IH]; intros i x; cbn [R3.m_atoms map In]; [intros []| |apply IH].
  intros [<-|H]; [destruct (m_atom_view i a) as [-> _]; lia|]. apply IH in H. lia.
Qed.
Lemma m_atoms_lbl_NoDup es : forall i, NoDup (map (@lbl rpay) (R3.m_atoms i es)).
Proof.
  induction es as [|[a|] es IH]; intros i; cbn [R3.m_atoms map]; [constructor| |apply IH].
  constructor; [|apply IH]. destruct (m_atom_view i a) as [-> _]. intros H. apply m_atoms_lbl_ge in H. lia.
Qed.
Lemma rank_in_labels es : forall i p a, nth_error es p = Some (Some a) ->
  In (i + R3.rank es p)%N (map (@lbl rpay) (R3.m_atoms i es)).
Proof.
  induction es as [|e es IH]; intros i p a H; [destruct p; discriminate H|].
  destruct p as [|p]; cbn [nth_error] in H.
  - injection H as ->. cbn [R3.rank R3.m_atoms map]. left. destruct (m_atom_view i a) as [-> _]. lia.
  - destruct e as [a0|]; cbn [R3.rank R3.m_atoms map].
    + right. replace (i + N.succ (R3.rank es p))%N with (N.succ i + R3.rank es p)%N by lia. apply (IH _ _ _ H).
    + apply (IH _ _ _ H).
Qed.
(* distinct atom lines get distinct node names *)
Lemma rank_inj es : forall p q a b, nth_error es p = Some (Some a) -> nth_error es q = Some (Some b) ->
  R3.rank es p = R3.rank es q -> p = q.
Proof.
  induction es as [|e es IH]; intros p q a b Hp Hq E; [destruct p; discriminate Hp|].
  destruct p as [|p], q as [|q]; cbn [nth_error] in Hp, Hq; [reflexivity| | |].
  - injection Hp as ->. cbn [R3.rank] in E. lia.
  - injection Hq as ->. cbn [R3.rank] in E. lia.
  - f_equal. destruct e as [a0|]; cbn [R3.rank] in E; apply (IH p q a b Hp Hq); lia.
Qed.

(* the endpoints of the edges a bond line contributes: its position pairs, renamed by rank *)
Definition rk (es : list (option R3.atomM)) (k : nat * nat) : N * N := (R3.rank es (fst k), R3.rank es (snd k)).

Lemma m_edge_ends es b : map (@ends Z) (R3.m_edge es b) = map (rk es) (R3.bond_keys b).
Proof.
  destruct b as [ty u v|ty s w es']; cbn [R3.m_edge R3.bond_keys map]; [reflexivity|].
  rewrite !map_map. reflexivity.
Qed.
Lemma m_edges_ends es bs : map (@ends Z) (flat_map (R3.m_edge es) bs) = map (rk es) (flat_map R3.bond_keys bs).
Proof.
  induction bs as [|b bs IH]; [reflexivity|]. cbn [flat_map]. rewrite !map_app, IH, m_edge_ends. reflexivity.
Qed.

Lemma graph_of_build M :
  R3.graph_of M = mkMol (R3.m_atoms 0 (R3.m_entries M))
                        (build (@ends Z) snd (flat_map (R3.m_edge (R3.m_entries M)) (R3.m_bonds M)) []).
Proof. reflexivity. Qed.

(* the graph a well-formed molecule without self-bonds denotes is a simple graph on its atoms *)
Theorem graph_of_wfg M : R3.okM M -> loopfree3 M -> wfg (R3.graph_of M).
Proof.
  intros HM HL. rewrite graph_of_build. apply build_wfg; [apply m_atoms_lbl_NoDup|].
  intros x Hx. apply (in_map (@ends Z)) in Hx. rewrite m_edges_ends, in_map_iff in Hx.
  destruct Hx as ([u v] & E & Hin). rewrite <- E. unfold rk. cbn [fst snd].
  destruct (R3.bond_keys_atoms M _ u v (R3.om_bonds _ HM) Hin) as [[a Ha] [b Hb]].
  split; [|split].
  - intros Er. apply (rank_inj _ _ _ _ _ Ha Hb) in Er. subst v. exact (HL u Hin).
  - apply (rank_in_labels _ 0%N _ _ Ha).
  - apply (rank_in_labels _ 0%N _ _ Hb).
Qed.

Theorem graph_of_nozero M : forall x, In x (atoms (R3.graph_of M)) -> nozero x.
Proof. intros x. apply m_atoms_nozero. Qed.

(* same identity data: the two graphs are the same molecule, atom for atom *)
Theorem graph_of_SameMol M M' : IdentEq3000 M M' -> SameMol (fun x => x) (R3.graph_of M) (R3.graph_of M').
Proof.
  intros [He Hp]. rewrite !graph_of_build. apply build_SameMol; [apply m_atoms_view, He|].
  assert (G : forall M0, map (fun x => norm_pair (@ends Z x)) (flat_map (R3.m_edge (R3.m_entries M0)) (R3.m_bonds M0))
                         = map (fun k => norm_pair (R3.rank (R3.m_entries M0) (fst k), R3.rank (R3.m_entries M0) (snd k))) (pairs3 M0)).
  { intros M0. rewrite <- (map_map (@ends Z) norm_pair), m_edges_ends, map_map. reflexivity. }
  intros p. rewrite !G.
  assert (Er : map (fun k => norm_pair (R3.rank (R3.m_entries M') (fst k), R3.rank (R3.m_entries M') (snd k))) (pairs3 M')
               = map (fun k => norm_pair (R3.rank (R3.m_entries M) (fst k), R3.rank (R3.m_entries M) (snd k))) (pairs3 M')).
  { apply map_ext. intros k. rewrite !(rank_ext _ _ _ He). reflexivity. }
  rewrite Er. split; apply same_pairs_norm; [exact Hp | apply same_pairs_sym, Hp].
Qed.

(* C06 for V3000 files.  M and M' differ in anything but identity data (charges, coordinate tokens,
   bond types, order / direction / repetition of bond lines); ch and ch' are two unrelated sets of
   rendering choices (header lines, index values, blank runs, continuation points, order and repetition
   of CHG= / RAD= / MASS=, explicit defaults, foreign keywords, trailing blocks); eol and eol' say for
   every line whether it ends in CR LF or LF.  Whatever the entry point reads from the two texts gets
   the same TUCAN string. *)
Theorem tucan_v3000_nonidentity canon : H1 canon -> H2 canon ->
  forall (M M' : R3.molM) (ch ch' : R3.choices) (eol eol' : nat -> bool),
  R3.okM M -> R3.okM M' -> loopfree3 M -> IdentEq3000 M M' ->
  R3.okch M ch -> R3.okch_text ch -> R3.okch M' ch' -> R3.okch_text ch' ->
  forall g g',
  V2000.read_molfile (R3.file_text eol 0 (R3.render3000 M ch)) = ok g ->
  V2000.read_molfile (R3.file_text eol' 0 (R3.render3000 M' ch')) = ok g' ->
  tucan canon g = tucan canon g'.
Proof.
  intros HH1 HH2 M M' ch ch' eol eol' HM HM' HL HI Hc Ht Hc' Ht' g g' Hg Hg'.
  rewrite (R3.read_molfile_graph M ch eol HM Hc Ht) in Hg.
  rewrite (R3.read_molfile_graph M' ch' eol' HM' Hc' Ht') in Hg'.
  injection Hg as <-. injection Hg' as <-.
  apply (tucan_invariant canon HH1 HH2 (fun x => x) _ _ (graph_of_wfg M HM HL) (graph_of_SameMol M M' HI)).
  apply graph_of_nozero.
Qed.

(* both texts are read: the statement above is not about two failures *)
Theorem tucan_v3000_nonidentity_read canon : H1 canon -> H2 canon ->
  forall (M M' : R3.molM) (ch ch' : R3.choices) (eol eol' : nat -> bool),
  R3.okM M -> R3.okM M' -> loopfree3 M -> IdentEq3000 M M' ->
  R3.okch M ch -> R3.okch_text ch -> R3.okch M' ch' -> R3.okch_text ch' ->
  exists g g',
  V2000.read_molfile (R3.file_text eol 0 (R3.render3000 M ch)) = ok g /\
  V2000.read_molfile (R3.file_text eol' 0 (R3.render3000 M' ch')) = ok g' /\
  tucan canon g = tucan canon g'.
Proof.
  intros HH1 HH2 M M' ch ch' eol eol' HM HM' HL HI Hc Ht Hc' Ht'.
  exists (R3.graph_of M), (R3.graph_of M').
  pose proof (R3.read_molfile_graph M ch eol HM Hc Ht) as Hg.
  pose proof (R3.read_molfile_graph M' ch' eol' HM' Hc' Ht') as Hg'.
  split; [exact Hg|]. split; [exact Hg'|].
  exact (tucan_v3000_nonidentity canon HH1 HH2 M M' ch ch' eol eol' HM HM' HL HI Hc Ht Hc' Ht' _ _ Hg Hg').
Qed.

(* ------------------------------------------------------------------------------------ *)
(* 4. V2000                                                                              *)
(* ------------------------------------------------------------------------------------ *)

(* identity data of an atom line: atomic number (D, T are hydrogen), effective isotope mass (the one
   stated by M  ISO, else 2 / 3 for D / T), radical *)
Definition ident2 (a : R2.atom2) : N * option Z * option Z :=
  (R2.zn_of (R2.a_sym a),
   match R2.nzz (R2.a_mass a) with Some v => Some v | None => R2.sym_mass (R2.a_sym a) end,
   R2.nzz (R2.a_rad a)).

(* the ordered pairs of atom numbers (1-based) the bond lines state *)
Definition pairs2 (M : R2.mol2) : list (Z * Z) := map fst (R2.m_bonds M).

Definition IdentEq2000 (M M' : R2.mol2) : Prop :=
  map ident2 (R2.m_atoms M) = map ident2 (R2.m_atoms M') /\ same_pairs (pairs2 M) (pairs2 M').

Definition loopfree2 (M : R2.mol2) : Prop := forall u, ~ In (u, u) (pairs2 M).

(* likewise implied by R2.okM2000 (ok_bond: the two atom numbers of a bond line differ) *)
Lemma okM2000_loopfree2 M : R2.okM2000 M -> loopfree2 M.
Proof.
  intros (_ & _ & _ & Hb & _) u Hu. unfold pairs2 in Hu. apply in_map_iff in Hu. destruct Hu as (b & E & Hin).
  rewrite Forall_forall in Hb. destruct (Hb b Hin) as (_ & _ & _ & Hne). apply Hne. rewrite E. reflexivity.
Qed.

(* atom number -> node name *)
Definition hz (u : Z) : N := Z.to_N (u - 1).
Definition h2 (b : R2.bond2) : N * N := (hz (fst (fst b)), hz (snd (fst b))).

Lemma graph2000_build M :
  R2.graph2000 M = mkMol (map (fun p => R2.graph_atom (fst p) (snd p)) (enumerate_from 0 (R2.m_atoms M)))
                         (build h2 snd (R2.m_bonds M) []).
Proof. reflexivity. Qed.

Lemma nzz_nonzero v : R2.nzz v <> Some 0%Z.
Proof. unfold R2.nzz. destruct (Z.eqb_spec v 0); [discriminate|]. intros E. inversion E. contradiction. Qed.

Theorem graph2000_nozero M : forall x, In x (atoms (R2.graph2000 M)) -> nozero x.
Proof.
  intros x Hx. cbn [R2.graph2000 atoms] in Hx. rewrite in_map_iff in Hx. destruct Hx as ([i a] & <- & _).
  unfold nozero, R2.graph_atom. cbn [mass rad fst snd]. split; [|apply nzz_nonzero].
  destruct (R2.nzz (R2.a_mass a)) as [v|] eqn:E.
  - rewrite <- E. apply nzz_nonzero.
  - unfold R2.sym_mass. apply nzz_nonzero.
Qed.

Lemma N_seq_mem i n x : (i <= x < i + N.of_nat n)%N -> In x (N_seq i n).
Proof.
  revert i. induction n as [|n IH]; intros i H; [lia|]. cbn [N_seq].
  destruct (N.eq_dec i x) as [->|Hne]; [left; reflexivity|]. right. apply IH. lia.
Qed.

Theorem graph2000_wfg M : R2.okM2000 M -> loopfree2 M -> wfg (R2.graph2000 M).
Proof.
  intros (_ & _ & _ & Hb & _) HL. rewrite graph2000_build. apply build_wfg.
  - change (NoDup (labels (R2.graph2000 M))). rewrite R2.graph2000_labels. apply SerializeProofs.N_seq_NoDup.
  - change (map (@lbl rpay) (map (fun p => R2.graph_atom (fst p) (snd p)) (enumerate_from 0 (R2.m_atoms M))))
      with (labels (R2.graph2000 M)). rewrite R2.graph2000_labels.
    intros b Hin. rewrite Forall_forall in Hb. destruct (Hb b Hin) as (Hu & Hv & _).
    unfold h2, hz. cbn [fst snd]. split; [|split].
    + intros E. apply (HL (fst (fst b))). unfold pairs2.
      assert (Euv : fst (fst b) = snd (fst b)) by lia.
      apply (in_map fst) in Hin. destruct b as [[u v] ty]. cbn [fst snd] in *. subst v. exact Hin.
    + apply N_seq_mem. lia.
    + apply N_seq_mem. lia.
Qed.

Lemma graph_atoms_view (l : list R2.atom2) : forall i,
  map (fun x => (lbl x, ident x)) (map (fun p => R2.graph_atom (fst p) (snd p)) (enumerate_from i l))
  = map (fun p => (fst p, snd p)) (enumerate_from i (map ident2 l)).
Proof. induction l as [|a l IH]; intros i; [reflexivity|]. cbn [enumerate_from map fst snd]. rewrite IH. reflexivity. Qed.

Lemma pairs2_norm (bds : list R2.bond2) :
  map (fun b => norm_pair (h2 b)) bds = map (fun k => norm_pair (hz (fst k), hz (snd k))) (map fst bds).
Proof. rewrite map_map. reflexivity. Qed.

Theorem graph2000_SameMol M M' : IdentEq2000 M M' -> SameMol (fun x => x) (R2.graph2000 M) (R2.graph2000 M').
Proof.
  intros [Ha Hp]. rewrite !graph2000_build. apply build_SameMol.
  - rewrite !graph_atoms_view, Ha. reflexivity.
  - intros p. rewrite !pairs2_norm. split; apply same_pairs_norm; [exact Hp | apply same_pairs_sym, Hp].
Qed.

(* the entry point on a V2000 file text whose lines end in LF or CR LF, chosen line by line *)
Theorem read_molfile_render2000 M ch crest eol :
  R2.okM2000 M -> R2.okch2000 M ch -> R2.c_crest ch = crest ++ t " V2000" ->
  Forall WriterProofs.nolb (R2.render2000 M ch) ->
  V2000.read_molfile (R3.file_text eol 0 (R2.render2000 M ch)) = ok (R2.graph2000 M).
Proof.
  intros HM Hch Hv Hnl. unfold V2000.read_molfile.
  rewrite (R3.splitlines_file_text eol _ 0 Hnl). cbv zeta.
  assert (E3 : nth_tok 3 (R2.render2000 M ch) = ok (R2.counts_line M ch)) by reflexivity.
  rewrite E3. cbn [bind ok].
  assert (Ev : V2000.last_text (split_on (is_code 32%N) (rstrip (R2.counts_line M ch))) = t "V2000").
  { unfold R2.counts_line. rewrite Hv. repeat rewrite app_assoc. apply R2.version_v2000. }
  rewrite Ev. change (text_eqb (t "V2000") (t "V3000")) with false.
  change (text_eqb (t "V2000") (t "V2000")) with true. cbv iota.
  rewrite (R2.read_v2000_render M ch HM Hch). cbn [bind ok].
  apply R2.graph_from_molecule_expected, HM.
Qed.

(* admissible V2000 rendering as a file text *)
Record okfile2000 (M : R2.mol2) (ch : R2.choices) : Prop := {
  of_M : R2.okM2000 M;
  of_ch : R2.okch2000 M ch;
  of_version : exists crest, R2.c_crest ch = crest ++ t " V2000";
  of_nolb : Forall WriterProofs.nolb (R2.render2000 M ch) }.

Lemma okfile2000_read M ch eol : okfile2000 M ch ->
  V2000.read_molfile (R3.file_text eol 0 (R2.render2000 M ch)) = ok (R2.graph2000 M).
Proof. intros [HM Hch [crest Hv] Hnl]. exact (read_molfile_render2000 M ch crest eol HM Hch Hv Hnl). Qed.

(* C06 for V2000 files.  M and M' differ in anything but identity data (charges, coordinate fields, bond
   types, order / direction of bond lines); ch and ch' are unrelated rendering choices (header lines,
   blank or zero fields, the unread columns of counts / atom / bond lines, stale charge codes, atom list
   and stext lines, grouping and order of M  CHG / RAD / ISO entries, unrelated property lines, A / G
   alias lines, what follows M  END); eol, eol': CR LF or LF per line. *)
Theorem tucan_v2000_nonidentity canon : H1 canon -> H2 canon ->
  forall (M M' : R2.mol2) (ch ch' : R2.choices) (eol eol' : nat -> bool),
  okfile2000 M ch -> okfile2000 M' ch' -> loopfree2 M -> IdentEq2000 M M' ->
  forall g g',
  V2000.read_molfile (R3.file_text eol 0 (R2.render2000 M ch)) = ok g ->
  V2000.read_molfile (R3.file_text eol' 0 (R2.render2000 M' ch')) = ok g' ->
  tucan canon g = tucan canon g'.
Proof.
  intros HH1 HH2 M M' ch ch' eol eol' HF HF' HL HI g g' Hg Hg'.
  rewrite (okfile2000_read M ch eol HF) in Hg. rewrite (okfile2000_read M' ch' eol' HF') in Hg'.
  injection Hg as <-. injection Hg' as <-.
  apply (tucan_invariant canon HH1 HH2 (fun x => x) _ _ (graph2000_wfg M (of_M _ _ HF) HL) (graph2000_SameMol M M' HI)).
  apply graph2000_nozero.
Qed.

(* ------------------------------------------------------------------------------------ *)
(* 5. V2000 against V3000                                                                *)
(* ------------------------------------------------------------------------------------ *)

Definition idents3 (es : list (option R3.atomM)) : list (N * option Z * option Z) :=
  flat_map (fun e => match e with Some a => [ident3 a] | None => [] end) es.

(* a V2000 molecule and a V3000 molecule with the same identity data: the atom lines (star atoms of
   the V3000 block skipped) carry the same element / effective mass / radical one by one, and the same
   pairs are bonded, every atom named by its ordinal among the atom lines.  D / T with a stated mass
   are read differently by the two readers (V2000: the stated mass, V3000: 2 / 3); the condition
   compares the effective masses, so no restriction is needed here -- R3.okM restricts D / T to
   a_mass = 0 anyway. *)
Definition Corr23 (M2 : R2.mol2) (M3 : R3.molM) : Prop :=
  map ident2 (R2.m_atoms M2) = idents3 (R3.m_entries M3) /\
  forall p, In p (map (fun k => norm_pair (hz (fst k), hz (snd k))) (pairs2 M2))
            <-> In p (map (fun k => norm_pair (rk (R3.m_entries M3) k)) (pairs3 M3)).

Lemma m_atoms_view23 es : forall i,
  map (fun x => (lbl x, ident x)) (R3.m_atoms i es) = map (fun p => (fst p, snd p)) (enumerate_from i (idents3 es)).
Proof.
  induction es as [|[a|] es IH]; intros i; [reflexivity| |apply IH].
  cbn [R3.m_atoms idents3 flat_map app enumerate_from map fst snd].
  destruct (m_atom_view i a) as [-> ->]. f_equal. apply IH.
Qed.

Theorem graph2000_graph_of_SameMol M2 M3 : Corr23 M2 M3 -> SameMol (fun x => x) (R2.graph2000 M2) (R3.graph_of M3).
Proof.
  intros [Ha Hp]. rewrite graph2000_build, graph_of_build. apply build_SameMol.
  - rewrite graph_atoms_view, m_atoms_view23, Ha. reflexivity.
  - intros p. rewrite pairs2_norm. fold (pairs2 M2). rewrite Hp.
    rewrite <- (map_map (@ends Z) norm_pair), m_edges_ends, map_map. reflexivity.
Qed.

(* a V2000 rendering and a V3000 rendering of molecules with the same identity data *)
Theorem tucan_v2000_v3000 canon : H1 canon -> H2 canon ->
  forall (M2 : R2.mol2) (ch2 : R2.choices) (M3 : R3.molM) (ch3 : R3.choices) (eol eol' : nat -> bool),
  okfile2000 M2 ch2 -> loopfree2 M2 ->
  R3.okM M3 -> R3.okch M3 ch3 -> R3.okch_text ch3 ->
  Corr23 M2 M3 ->
  forall g g',
  V2000.read_molfile (R3.file_text eol 0 (R2.render2000 M2 ch2)) = ok g ->
  V2000.read_molfile (R3.file_text eol' 0 (R3.render3000 M3 ch3)) = ok g' ->
  tucan canon g = tucan canon g'.
Proof.
  intros HH1 HH2 M2 ch2 M3 ch3 eol eol' HF HL HM Hc Ht HC g g' Hg Hg'.
  rewrite (okfile2000_read M2 ch2 eol HF) in Hg. rewrite (R3.read_molfile_graph M3 ch3 eol' HM Hc Ht) in Hg'.
  injection Hg as <-. injection Hg' as <-.
  apply (tucan_invariant canon HH1 HH2 (fun x => x) _ _ (graph2000_wfg M2 (of_M _ _ HF) HL) (graph2000_graph_of_SameMol M2 M3 HC)).
  apply graph2000_nozero.
Qed.

(* the plain case: no star atoms in the V3000 block, atom number u of the V2000 file is the entry at
   position u - 1 of the V3000 block *)
Definition Corr23_plain (M2 : R2.mol2) (M3 : R3.molM) : Prop :=
  map (fun a => Some (ident2 a)) (R2.m_atoms M2) = map (option_map ident3) (R3.m_entries M3) /\
  same_pairs (map (fun k => (Z.to_nat (fst k - 1), Z.to_nat (snd k - 1))) (pairs2 M2)) (pairs3 M3).

Lemma plain_idents (l : list R2.atom2) : forall es,
  map (fun a => Some (ident2 a)) l = map (option_map ident3) es ->
  map ident2 l = idents3 es /\ Forall (fun e => e <> None) es.
Proof.
  induction l as [|a l IH]; intros [|e es] H; try discriminate H; [split; [reflexivity|constructor]|].
  cbn [map] in H. injection H as He H. destruct (IH _ H) as [E F].
  destruct e as [a'|]; [|discriminate He]. cbn [option_map] in He. injection He as He.
  split; [cbn [map idents3 flat_map app]; fold (idents3 es); rewrite He, E; reflexivity|].
  constructor; [discriminate|exact F].
Qed.

Lemma rank_plain es : Forall (fun e : option R3.atomM => e <> None) es ->
  forall p, p <= length es -> R3.rank es p = N.of_nat p.
Proof.
  induction 1 as [|e es He _ IH]; intros p Hp; cbn [length] in Hp.
  - assert (p = 0) by lia. subst p. reflexivity.
  - destruct e as [a|]; [|congruence]. destruct p as [|p]; [reflexivity|].
    cbn [R3.rank]. rewrite IH by lia. lia.
Qed.

Lemma Corr23_of_plain M2 M3 : R3.okM M3 -> Corr23_plain M2 M3 -> Corr23 M2 M3.
Proof.
  intros HM [Ha Hp]. destruct (plain_idents _ _ Ha) as [E F]. split; [exact E|].
  intros p.
  assert (E2 : map (fun k => norm_pair (hz (fst k), hz (snd k))) (pairs2 M2)
               = map (fun k => norm_pair (N.of_nat (fst k), N.of_nat (snd k)))
                     (map (fun k => (Z.to_nat (fst k - 1), Z.to_nat (snd k - 1))) (pairs2 M2))).
  { rewrite map_map. apply map_ext. intros k. cbn [fst snd]. unfold hz. rewrite !Z_nat_N. reflexivity. }
  assert (E3 : map (fun k => norm_pair (rk (R3.m_entries M3) k)) (pairs3 M3)
               = map (fun k => norm_pair (N.of_nat (fst k), N.of_nat (snd k))) (pairs3 M3)).
  { apply map_ext_in. intros [u v] Hin. unfold rk. cbn [fst snd].
    destruct (R3.bond_keys_atoms M3 _ u v (R3.om_bonds _ HM) Hin) as [[a Hu] [b Hv]].
    rewrite !(rank_plain _ F); [reflexivity| |].
    - apply Nat.lt_le_incl, nth_error_Some. rewrite Hv. discriminate.
    - apply Nat.lt_le_incl, nth_error_Some. rewrite Hu. discriminate. }
  rewrite E2, E3. split; apply same_pairs_norm; [exact Hp | apply same_pairs_sym, Hp].
Qed.

(* two renderings of one and the same abstract molecule: the graphs read are equal, not merely
   equivalent -- no condition on the molecule beyond well-formedness *)
Theorem v3000_rendering_invisible (M : R3.molM) (ch ch' : R3.choices) (eol eol' : nat -> bool) :
  R3.okM M -> R3.okch M ch -> R3.okch_text ch -> R3.okch M ch' -> R3.okch_text ch' ->
  V2000.read_molfile (R3.file_text eol 0 (R3.render3000 M ch)) = V2000.read_molfile (R3.file_text eol' 0 (R3.render3000 M ch')).
Proof.
  intros HM Hc Ht Hc' Ht'. rewrite (R3.read_molfile_graph M ch eol HM Hc Ht), (R3.read_molfile_graph M ch' eol' HM Hc' Ht'). reflexivity.
Qed.
Theorem v2000_rendering_invisible (M : R2.mol2) (ch ch' : R2.choices) (eol eol' : nat -> bool) :
  okfile2000 M ch -> okfile2000 M ch' ->
  V2000.read_molfile (R3.file_text eol 0 (R2.render2000 M ch)) = V2000.read_molfile (R3.file_text eol' 0 (R2.render2000 M ch')).
Proof. intros HF HF'. rewrite (okfile2000_read M ch eol HF), (okfile2000_read M ch' eol' HF'). reflexivity. Qed.

Lemma same_pairs_refl {X} (l : list (X * X)) : same_pairs l l.
Proof. intros u v. reflexivity. Qed.
Lemma IdentEq3000_refl M : IdentEq3000 M M.
Proof. split; [reflexivity|apply same_pairs_refl]. Qed.
Lemma IdentEq2000_refl M : IdentEq2000 M M.
Proof. split; [reflexivity|apply same_pairs_refl]. Qed.

(* ---- the definitions, spelled out (for the statements in Props/C06.v) ---- *)
Lemma ident3_spec (a : R3.atomM) :
  ident3 a = (opt_default 0%N (z_of_symbol (fst (R3.iso_of (R3.a_sym a)))),
              R3.nz (if Z.eqb (snd (R3.iso_of (R3.a_sym a))) 0 then R3.a_mass a else snd (R3.iso_of (R3.a_sym a))),
              R3.nz (R3.a_rad a)).
Proof. unfold ident3. destruct (R3.iso_of (R3.a_sym a)). reflexivity. Qed.

Lemma IdentEq3000_spec (M M' : R3.molM) :
  IdentEq3000 M M' <->
  map (option_map ident3) (R3.m_entries M) = map (option_map ident3) (R3.m_entries M') /\
  (forall u v : nat,
     (In (u, v) (flat_map R3.bond_keys (R3.m_bonds M)) \/ In (v, u) (flat_map R3.bond_keys (R3.m_bonds M))) <->
     (In (u, v) (flat_map R3.bond_keys (R3.m_bonds M')) \/ In (v, u) (flat_map R3.bond_keys (R3.m_bonds M')))).
Proof. reflexivity. Qed.

Lemma IdentEq2000_spec (M M' : R2.mol2) :
  IdentEq2000 M M' <->
  map ident2 (R2.m_atoms M) = map ident2 (R2.m_atoms M') /\
  (forall u v : Z,
     (In (u, v) (map fst (R2.m_bonds M)) \/ In (v, u) (map fst (R2.m_bonds M))) <->
     (In (u, v) (map fst (R2.m_bonds M')) \/ In (v, u) (map fst (R2.m_bonds M')))).
Proof. reflexivity. Qed.

(* the identity data in the graphs: node k carries the identity data of the k-th atom line *)
Theorem graph_of_identity_view (M : R3.molM) :
  map (fun x => (lbl x, ident x)) (atoms (R3.graph_of M))
  = map (fun p => (fst p, snd p)) (enumerate_from 0 (idents3 (R3.m_entries M))).
Proof. apply m_atoms_view23. Qed.
Theorem graph2000_identity_view (M : R2.mol2) :
  map (fun x => (lbl x, ident x)) (atoms (R2.graph2000 M))
  = map (fun p => (fst p, snd p)) (enumerate_from 0 (map ident2 (R2.m_atoms M))).
Proof. apply graph_atoms_view. Qed.
(* ... and its bonds join exactly the stated pairs *)
Theorem graph_of_bonded_pairs (M : R3.molM) : forall p,
  In p (map npair (bonds (R3.graph_of M))) <-> In p (map (fun k => norm_pair (rk (R3.m_entries M) k)) (pairs3 M)).
Proof.
  intros p. rewrite graph_of_build. cbn [bonds]. rewrite build_in. cbn [map In].
  rewrite <- (map_map (@ends Z) norm_pair), m_edges_ends, map_map. tauto.
Qed.
Theorem graph2000_bonded_pairs (M : R2.mol2) : forall p,
  In p (map npair (bonds (R2.graph2000 M))) <-> In p (map (fun k => norm_pair (hz (fst k), hz (snd k))) (pairs2 M)).
Proof.
  intros p. rewrite graph2000_build. cbn [bonds]. rewrite build_in. cbn [map In]. rewrite pairs2_norm. tauto.
Qed.

(* ------------------------------------------------------------------------------------ *)
(* 6. resonance / tautomer-style redrawings: only bond types and charges move             *)
(* ------------------------------------------------------------------------------------ *)

Definition forget_chg3 (a : R3.atomM) : R3.atomM :=
  R3.mkAtomM (R3.a_sym a) 0 (R3.a_rad a) (R3.a_mass a) (R3.a_x a) (R3.a_y a) (R3.a_z a).
Definition forget_ty3 (b : R3.bondM) : R3.bondM :=
  match b with R3.Bond _ u v => R3.Bond 0 u v | R3.StarBond _ s w es => R3.StarBond 0 s w es end.

(* M' is M with other charges and other bond types, everything else as it is *)
Definition Redrawn3000 (M M' : R3.molM) : Prop :=
  map (option_map forget_chg3) (R3.m_entries M) = map (option_map forget_chg3) (R3.m_entries M') /\
  map forget_ty3 (R3.m_bonds M) = map forget_ty3 (R3.m_bonds M').

Lemma Redrawn3000_IdentEq M M' : Redrawn3000 M M' -> IdentEq3000 M M'.
Proof.
  intros [He Hb]. split.
  - assert (G : forall es, map (option_map ident3) es = map (option_map ident3) (map (option_map forget_chg3) es)).
    { intros es. rewrite map_map. apply map_ext. intros [a|]; reflexivity. }
    rewrite (G (R3.m_entries M)), (G (R3.m_entries M')), He. reflexivity.
  - assert (G : forall bs, flat_map R3.bond_keys bs = flat_map R3.bond_keys (map forget_ty3 bs)).
    { intros bs. induction bs as [|b bs IH]; [reflexivity|]. cbn [map flat_map]. rewrite IH. destruct b; reflexivity. }
    unfold pairs3. rewrite (G (R3.m_bonds M)), (G (R3.m_bonds M')), Hb. intros u v. reflexivity.
Qed.

Theorem tucan_resonance_invariant canon : H1 canon -> H2 canon ->
  forall (M M' : R3.molM) (ch ch' : R3.choices) (eol eol' : nat -> bool),
  R3.okM M -> R3.okM M' -> loopfree3 M -> Redrawn3000 M M' ->
  R3.okch M ch -> R3.okch_text ch -> R3.okch M' ch' -> R3.okch_text ch' ->
  forall g g',
  V2000.read_molfile (R3.file_text eol 0 (R3.render3000 M ch)) = ok g ->
  V2000.read_molfile (R3.file_text eol' 0 (R3.render3000 M' ch')) = ok g' ->
  tucan canon g = tucan canon g'.
Proof.
  intros HH1 HH2 M M' ch ch' eol eol' HM HM' HL HR.
  apply (tucan_v3000_nonidentity canon HH1 HH2 M M' ch ch' eol eol' HM HM' HL (Redrawn3000_IdentEq M M' HR)).
Qed.

Definition forget_chg2 (a : R2.atom2) : R2.atom2 :=
  R2.mkAtom2 (R2.a_sym a) 0 (R2.a_rad a) (R2.a_mass a) (R2.a_x a) (R2.a_y a) (R2.a_z a).

Definition Redrawn2000 (M M' : R2.mol2) : Prop :=
  map forget_chg2 (R2.m_atoms M) = map forget_chg2 (R2.m_atoms M') /\
  map fst (R2.m_bonds M) = map fst (R2.m_bonds M').

Lemma Redrawn2000_IdentEq M M' : Redrawn2000 M M' -> IdentEq2000 M M'.
Proof.
  intros [Ha Hb]. split.
  - assert (G : forall l, map ident2 l = map ident2 (map forget_chg2 l)) by (intros l; rewrite map_map; reflexivity).
    rewrite (G (R2.m_atoms M)), (G (R2.m_atoms M')), Ha. reflexivity.
  - unfold pairs2. rewrite Hb. intros u v. reflexivity.
Qed.

Theorem tucan_resonance_invariant_2000 canon : H1 canon -> H2 canon ->
  forall (M M' : R2.mol2) (ch ch' : R2.choices) (eol eol' : nat -> bool),
  okfile2000 M ch -> okfile2000 M' ch' -> loopfree2 M -> Redrawn2000 M M' ->
  forall g g',
  V2000.read_molfile (R3.file_text eol 0 (R2.render2000 M ch)) = ok g ->
  V2000.read_molfile (R3.file_text eol' 0 (R2.render2000 M' ch')) = ok g' ->
  tucan canon g = tucan canon g'.
Proof.
  intros HH1 HH2 M M' ch ch' eol eol' HF HF' HL HR.
  apply (tucan_v2000_nonidentity canon HH1 HH2 M M' ch ch' eol eol' HF HF' HL (Redrawn2000_IdentEq M M' HR)).
Qed.

(* ---- a decision procedure for same_pairs (used on the examples) ---- *)
Section Check.
  Context {X : Type}.
  Variable eqb : X -> X -> bool.
  Hypothesis eqb_eq : forall a b, eqb a b = true <-> a = b.

  Definition pmem (k : X * X) (l : list (X * X)) : bool :=
    existsb (fun k' => (eqb (fst k') (fst k) && eqb (snd k') (snd k)) || (eqb (fst k') (snd k) && eqb (snd k') (fst k))) l.
  Lemma pmem_spec u v l : pmem (u, v) l = true <-> In (u, v) l \/ In (v, u) l.
  Proof.
    unfold pmem. rewrite existsb_exists. cbn [fst snd]. split.
    - intros ([a b] & Hin & H). cbn [fst snd] in H. rewrite orb_true_iff, !andb_true_iff, !eqb_eq in H.
      destruct H as [[-> ->]|[-> ->]]; auto.
    - intros [H|H]; eexists; (split; [exact H|]); cbn [fst snd]; rewrite orb_true_iff, !andb_true_iff, !eqb_eq; auto.
  Qed.
  Definition sub_pairs (l l' : list (X * X)) : bool := forallb (fun k => pmem k l') l.
  Lemma sub_pairs_spec l l' : sub_pairs l l' = true -> forall u v, In (u, v) l \/ In (v, u) l -> In (u, v) l' \/ In (v, u) l'.
  Proof.
    unfold sub_pairs. rewrite forallb_forall. intros H u v [Hin|Hin]; apply H in Hin; apply pmem_spec in Hin; tauto.
  Qed.
  Lemma same_pairs_check l l' : sub_pairs l l' && sub_pairs l' l = true -> same_pairs l l'.
  Proof.
    rewrite andb_true_iff. intros [H1 H2] u v. split; [apply (sub_pairs_spec _ _ H1) | apply (sub_pairs_spec _ _ H2)].
  Qed.
End Check.

(* ------------------------------------------------------------------------------------ *)
(* 7. non-vacuity: formate drawn two ways, three files, one string                       *)
(* ------------------------------------------------------------------------------------ *)

Module Example.
  Import Writer WriterProofs V3000Render.
  (* formate, H13C(=O)O-: the charge on the second oxygen, the double bond to the first *)
  Definition formA : molM :=
    mkMolM [Some (mkAtomM (t "C") 0 0 13 (t "0.0") (t "0.0") (t "0"));
            Some (mkAtomM (t "O") 0 0 0 (t "1.2") (t "0.7") (t "0"));
            Some (mkAtomM (t "O") (-1) 0 0 (t "-1.2") (t "0.7") (t "0"));
            Some (mkAtomM (t "H") 0 0 0 (t "0.0") (t "-1.1") (t "0"))]
           [Bond 2 0 1; Bond 1 0 2; Bond 1 0 3].
  (* the other resonance form, drawn elsewhere, bonds listed in another order and direction *)
  Definition formB : molM :=
    mkMolM [Some (mkAtomM (t "C") 0 0 13 (t "5.00") (t "5.00") (t "0.00"));
            Some (mkAtomM (t "O") (-1) 0 0 (t "6.20") (t "5.70") (t "0.00"));
            Some (mkAtomM (t "O") 0 0 0 (t "3.80") (t "5.70") (t "0.00"));
            Some (mkAtomM (t "H") 0 0 0 (t "5.00") (t "3.90") (t "0.00"))]
           [Bond 1 3 0; Bond 2 2 0; Bond 1 1 0].

  Definition ly0 := mkLayout 0 [] 0 [].
  (* file A: header text, indices 7 3 12 5, blank runs, lines cut into continuation pieces (inside
     tokens too), explicit defaults RAD=0 / CHG=0 / MASS=0, repeated RAD=, foreign keywords EXACHG= CFG=
     VAL= RXCTR=, further counts, a collection block and "$$$$" behind the bond block *)
  Definition chA : choices :=
    mkChoices (t "formate") (t "  drawn by hand") (t "resonance form A") (t "  0  0  0     0  0            999 V3000")
      (mkLayout 0 [2] 1 [3])
      (mkLayout 1 [0; 3] 0 []) [t "0"; t "0"; t "1"]
      ly0 (mkLayout 3 [1] 2 [0; 4]) (mkLayout 0 [] 0 [5; 100]) (mkLayout 0 [0] 0 [])
      (fun p => match p with
         | 0 => mkEntryC 7 (mkLayout 2 [1; 0; 2] 3 [10; 0; 25]) (t "0")
                         [PExtra (t "EXACHG=1"); PMass; PChg; PExtra (t "CFG=2")]
         | 1 => mkEntryC 3 ly0 (t "0") [PRad]
         | 2 => mkEntryC 12 (mkLayout 0 [4] 0 [31]) (t "5") [PRad; PExtra (t "VAL=3"); PMass; PChg; PRad]
         | _ => mkEntryC 5 (mkLayout 0 [] 1 [2]) (t "0") []
         end)
      (fun q => match q with
         | 0 => mkBondC ly0 (t "1") false [t "CFG=1"] []
         | 1 => mkBondC (mkLayout 0 [1; 1; 1] 0 [4]) (t "2") false [] []
         | _ => mkBondC ly0 (t "3") false [t "RXCTR=4"] []
         end)
      [V30L (t "BEGIN COLLECTION") []; V30L (t "END COLLECTION") [6]; V30L (t "END CTAB") [2]; Raw (t "M  END"); Raw (t "$$$$")].
  (* file B: nothing optional, indices 1 2 3 4 *)
  Definition chB : choices :=
    mkChoices (t "") (t "") (t "") (t "  0  0  0  0  0  0  0  0  0  0999 V3000")
      ly0 ly0 [] ly0 ly0 ly0 ly0
      (fun p => mkEntryC (Z.of_nat p + 1) ly0 (t "0") [PChg; PMass])
      (fun q => mkBondC ly0 (tZ (Z.of_nat q + 1)) false [] [])
      [V30L (t "END CTAB") []; Raw (t "M  END")].

  (* line endings: all CR LF, all LF, alternating *)
  Definition crlf (k : nat) : bool := true.
  Definition lf (k : nat) : bool := false.
  Definition mixed (k : nat) : bool := Nat.even k.

  (* form B again as a V2000 file: charge and isotope on property lines, a stale charge code on the
     carbon line, an unrelated property line, an alias, a trailer *)
  Definition form2 : R2.mol2 :=
    R2.mkMol2 [ R2.mkAtom2 (t "C") 0 0 13 (t "    5.0000") (t "    5.0000") (t "    0.0000");
                R2.mkAtom2 (t "O") (-1) 0 0 (t "    6.2000") (t "    5.7000") (t "    0.0000");
                R2.mkAtom2 (t "O") 0 0 0 (t "    3.8000") (t "    5.7000") (t "    0.0000");
                R2.mkAtom2 (t "H") 0 0 0 (t "    5.0000") (t "    3.9000") (t "    0.0000") ]
              [ ((2, 1), 1); ((1, 3), 2); ((4, 1), 1) ]%Z.
  Definition ch2 : R2.choices :=
    R2.mkChoices (t "formate") (t "  V2000 drawing") (t "") false (t "  0  0") (t "  0  0  0  0  0999 V2000")
      (fun i => R2.mkAchoice (t " ") (t " 0") (if N.eqb i 0 then 3 else 0)%Z false (t "  0  0  0  0  0  0  0  0  0  0"))
      (fun _ => t "  0  0  0  0")
      [] 0 []
      [ R2.PAlias (t "A    3") (t "M  CHG  1   3  -1");
        R2.PLine V2000.PChg [(2, -1)%Z] (t "");
        R2.PText (t "M  STY  1   1 SUP");
        R2.PLine V2000.PIso [(1, 13)%Z] (t "") ]
      [t "$$$$"].

  (* ---- the three files ---- *)
  Example fileA_lines : render3000 formA chA =
    [t "formate"; t "  drawn by hand"; t "resonance form A"; t "  0  0  0     0  0            999 V3000";
     t "M  V30 BEG-"; t "M  V30 IN   CTAB ";
     t "M  V30  COUNTS 4    3 0 0 1";
     t "M  V30 BEGIN ATOM";
     t "M  V30   7  C 0.0-"; t "M  V30 -"; t "M  V30    0.0 0 0 EXACHG=1 MASS=-"; t "M  V30 13 CHG=0 CFG=2   ";
     t "M  V30 3 O 1.2 0.7 0 0 RAD=0";
     t "M  V30 12     O -1.2 0.7 0 5 RAD=0 VAL-"; t "M  V30 =3 MASS=0 CHG=-1 RAD=0";
     t "M  V30 5 -"; t "M  V30 H 0.0 -1.1 0 0 ";
     t "M  V30 -"; t "M  V30    E-"; t "M  V30 ND  ATOM  ";
     t "M  V30 BEGIN-"; t "M  V30  BOND-"; t "M  V30 ";
     t "M  V30 1 2 7 3 CFG=1";
     t "M  V30 2  1-"; t "M  V30   7  12";
     t "M  V30 3 1 7 5 RXCTR=4";
     t "M  V30 END BOND";
     t "M  V30 BEGIN COLLECTION"; t "M  V30 END CO-"; t "M  V30 LLECTION";
     t "M  V30 EN-"; t "M  V30 D CTAB";
     t "M  END"; t "$$$$"].
  Proof. vm_compute. reflexivity. Qed.

  Example fileB_lines : render3000 formB chB =
    [t ""; t ""; t ""; t "  0  0  0  0  0  0  0  0  0  0999 V3000";
     t "M  V30 BEGIN CTAB"; t "M  V30 COUNTS 4 3"; t "M  V30 BEGIN ATOM";
     t "M  V30 1 C 5.00 5.00 0.00 0 CHG=0 MASS=13";
     t "M  V30 2 O 6.20 5.70 0.00 0 CHG=-1 MASS=0";
     t "M  V30 3 O 3.80 5.70 0.00 0 CHG=0 MASS=0";
     t "M  V30 4 H 5.00 3.90 0.00 0 CHG=0 MASS=0";
     t "M  V30 END ATOM"; t "M  V30 BEGIN BOND";
     t "M  V30 1 1 4 1"; t "M  V30 2 2 3 1"; t "M  V30 3 1 2 1";
     t "M  V30 END BOND"; t "M  V30 END CTAB"; t "M  END"].
  Proof. vm_compute. reflexivity. Qed.

  Example file2_lines : R2.render2000 form2 ch2 =
    [t "formate"; t "  V2000 drawing"; t "";
     t "  4  3  0  0  0  0  0  0  0  0  0999 V2000";
     t "    5.0000    5.0000    0.0000 C   0  3  0  0  0  0  0  0  0  0  0  0";
     t "    6.2000    5.7000    0.0000 O   0  0  0  0  0  0  0  0  0  0  0  0";
     t "    3.8000    5.7000    0.0000 O   0  0  0  0  0  0  0  0  0  0  0  0";
     t "    5.0000    3.9000    0.0000 H   0  0  0  0  0  0  0  0  0  0  0  0";
     t "  2  1  1  0  0  0  0"; t "  1  3  2  0  0  0  0"; t "  4  1  1  0  0  0  0";
     t "A    3"; t "M  CHG  1   3  -1";
     t "M  CHG  1   2  -1"; t "M  STY  1   1 SUP"; t "M  ISO  1   1  13";
     t "M  END"; t "$$$$"].
  Proof. vm_compute. reflexivity. Qed.

  (* ---- the hypotheses of the theorems hold ---- *)
  Ltac okM_tac :=
    constructor;
    [ repeat (apply Forall_cons; [|]); try apply Forall_nil; cbn [entry_okM];
      (constructor; [left; eexists; vm_compute; reflexivity|apply coord_tok_check; vm_compute; reflexivity..|cbn; lia])
    | repeat (apply Forall_cons; [|]); try apply Forall_nil; cbn [bond_okM]; split; eexists; reflexivity
    | cbn; repeat (apply NoDup_cons; [cbn; intuition discriminate|]); apply NoDup_nil
    | let u := fresh "u" in let H := fresh "H" in intros u H; cbn in H; intuition congruence ].
  Example formA_ok : okM formA. Proof. okM_tac. Qed.
  Example formB_ok : okM formB. Proof. okM_tac. Qed.

  Ltac tail_tac := repeat (apply Forall_cons; [first [exact Logic.I|apply extra_ok_check; reflexivity]|]); apply Forall_nil.
  Ltac okch_tac :=
    constructor;
    [ cbn; repeat (apply NoDup_cons; [cbn; intuition discriminate|]); apply NoDup_nil
    | split; [|vm_compute; reflexivity]; repeat (apply Forall_cons; [apply good_check; reflexivity|]); apply Forall_nil
    | let p := fresh "p" in let e := fresh "e" in let H := fresh "H" in
      intros p e H; destruct p as [|[|[|[|p]]]]; cbn in H; [| | | |destruct p; discriminate H]; injection H as <-;
      (split; [tail_tac|split; [vm_compute; reflexivity|]]);
      (split; [apply extra_ok_check; reflexivity|]); cbn; repeat split; intro H; try congruence; auto 6
    | let q := fresh "q" in let b := fresh "b" in let H := fresh "H" in
      intros q b H; destruct q as [|[|[|q]]]; cbn in H; [| | |destruct q; discriminate H]; injection H as <-;
      (split; [apply good_check; reflexivity|]);
      (split; [repeat (apply Forall_cons; [apply good_check; reflexivity|]); apply Forall_nil|]);
      (split; [repeat (apply Forall_cons; [apply good_check; reflexivity|]); apply Forall_nil|]);
      (split; [vm_compute; reflexivity|]); exact Logic.I
    | repeat (apply Forall_cons; [vm_compute; reflexivity|]); apply Forall_nil ].
  Example chA_ok : okch formA chA. Proof. okch_tac. Qed.
  Example chB_ok : okch formB chB. Proof. okch_tac. Qed.

  Ltac okch_text_tac :=
    constructor; try (apply nolb_check; vm_compute; reflexivity); [vm_compute; reflexivity|];
    repeat (apply Forall_cons; [apply nolb_check; vm_compute; reflexivity|]); apply Forall_nil.
  Example chA_text_ok : okch_text chA. Proof. okch_text_tac. Qed.
  Example chB_text_ok : okch_text chB. Proof. okch_text_tac. Qed.


  Example formA_loopfree : loopfree3 formA.
  Proof. intros u H. cbn in H. intuition congruence. Qed.

  (* the two drawings state the same identity data ... *)
  Example formA_formB_ident : IdentEq3000 formA formB.
  Proof. split; [vm_compute; reflexivity|]. apply (same_pairs_check Nat.eqb Nat.eqb_eq). vm_compute. reflexivity. Qed.
  (* ... but B is not A with other charges and bond types only (other coordinates, other bond lines);
     A with the charge and the double bond moved is *)
  Definition formA' : molM :=
    mkMolM [Some (mkAtomM (t "C") 0 0 13 (t "0.0") (t "0.0") (t "0"));
            Some (mkAtomM (t "O") (-1) 0 0 (t "1.2") (t "0.7") (t "0"));
            Some (mkAtomM (t "O") 0 0 0 (t "-1.2") (t "0.7") (t "0"));
            Some (mkAtomM (t "H") 0 0 0 (t "0.0") (t "-1.1") (t "0"))]
           [Bond 1 0 1; Bond 2 0 2; Bond 1 0 3].
  Example formA_redrawn : Redrawn3000 formA formA'.
  Proof. split; reflexivity. Qed.
  Example formA'_ok : okM formA'. Proof. okM_tac. Qed.
  Example chB_ok' : okch formA' chB. Proof. okch_tac. Qed.

  (* ---- the V2000 file ---- *)
  Lemma nolb_lines_check (ls : list text) :
    forallb (fun l => forallb (fun c => negb (is_linebreak c)) l) ls = true -> Forall nolb ls.
  Proof. rewrite forallb_forall. intros H. apply Forall_forall. intros l Hl. apply nolb_check, H, Hl. Qed.

  Example form2_ok : R2.okM2000 form2.
  Proof.
    unfold R2.okM2000, form2. cbn [R2.m_atoms R2.m_bonds length].
    split; [lia|]. split; [lia|]. split; [|split].
    - repeat constructor; try (vm_compute; reflexivity); try (vm_compute; lia); vm_compute; discriminate.
    - repeat constructor; unfold R2.in3; cbn [fst snd length]; lia.
    - cbn [map fst]. repeat constructor; cbn [In]; intro H; decompose [or] H; try discriminate; assumption.
  Qed.

  Example ch2_ok : R2.okch2000 form2 ch2.
  Proof.
    unfold R2.okch2000. split; [reflexivity|]. split; [cbn; lia|]. split; [cbn; lia|]. split; [reflexivity|]. split.
    - cbn [ch2 R2.c_items form2 R2.m_atoms length].
      repeat (apply Forall_cons || apply Forall_nil);
        try (vm_compute; reflexivity); try (vm_compute; repeat split; reflexivity);
        (split; [cbn [length]; lia|split; [repeat (apply Forall_cons || apply Forall_nil); split; unfold R2.in3; cbn [fst snd length]; lia|
           cbn [R2.nonneg_kind]; try exact I; repeat (apply Forall_cons || apply Forall_nil); cbn [snd]; lia]]).
    - intros i a H. cbn [form2 R2.m_atoms enumerate_from In] in H. decompose [or] H; clear H;
        match goal with
        | E : (_, _) = (_, _) |- _ => inversion E; subst; clear E
        | F : False |- _ => destruct F
        end;
        (split; [unfold R2.ok_achoice, R2.in3; cbn; repeat split; try reflexivity; lia|]);
        vm_compute; repeat split; reflexivity.
  Qed.

  Example file2_ok : okfile2000 form2 ch2.
  Proof.
    constructor; [exact form2_ok|exact ch2_ok|exists (t "  0  0  0  0  0999"); reflexivity|].
    apply nolb_lines_check. vm_compute. reflexivity.
  Qed.

  Example form2_loopfree : loopfree2 form2.
  Proof. intros u H. cbn in H. intuition congruence. Qed.

  Example form2_formA_corr : Corr23 form2 formA.
  Proof.
    apply (Corr23_of_plain _ _ formA_ok). split; [vm_compute; reflexivity|].
    apply (same_pairs_check Nat.eqb Nat.eqb_eq). vm_compute. reflexivity.
  Qed.

  (* ---- all three texts are read, and give one and the same string ---- *)
  Definition formate_tucan : text := t "CHO2/(1-2)(2-3)(2-4)/(2:mass=13)".

  Example formate_A_run : exists g,
    V2000.read_molfile (file_text crlf 0 (render3000 formA chA)) = ok g /\ tucan RefCanon.ref_canon g = Some formate_tucan.
  Proof. eexists. split; [exact (read_molfile_graph formA chA crlf formA_ok chA_ok chA_text_ok)|vm_compute; reflexivity]. Qed.
  Example formate_B_run : exists g,
    V2000.read_molfile (file_text lf 0 (render3000 formB chB)) = ok g /\ tucan RefCanon.ref_canon g = Some formate_tucan.
  Proof. eexists. split; [exact (read_molfile_graph formB chB lf formB_ok chB_ok chB_text_ok)|vm_compute; reflexivity]. Qed.
  Example formate_2_run : exists g,
    V2000.read_molfile (file_text mixed 0 (R2.render2000 form2 ch2)) = ok g /\ tucan RefCanon.ref_canon g = Some formate_tucan.
  Proof. eexists. split; [exact (okfile2000_read form2 ch2 mixed file2_ok)|vm_compute; reflexivity]. Qed.
  (* the same by running the executable model on the texts, without any theorem *)
  Example formate_runs_computed :
    let run (s : text) := match V2000.read_molfile s with inr g => tucan RefCanon.ref_canon g | inl _ => None end in
    run (file_text crlf 0 (render3000 formA chA)) = Some formate_tucan /\
    run (file_text lf 0 (render3000 formB chB)) = Some formate_tucan /\
    run (file_text mixed 0 (R2.render2000 form2 ch2)) = Some formate_tucan.
  Proof. vm_compute. repeat split. Qed.
  Example texts_differ :
    file_text crlf 0 (render3000 formA chA) <> file_text lf 0 (render3000 formB chB) /\
    file_text lf 0 (render3000 formB chB) <> file_text mixed 0 (R2.render2000 form2 ch2).
  Proof. split; intros E; vm_compute in E; discriminate E. Qed.

  (* ---- the theorems, instantiated with the reference oracle ---- *)
  Example formate_A_B : forall g g',
    V2000.read_molfile (file_text crlf 0 (render3000 formA chA)) = ok g ->
    V2000.read_molfile (file_text lf 0 (render3000 formB chB)) = ok g' ->
    tucan RefCanon.ref_canon g = tucan RefCanon.ref_canon g'.
  Proof.
    exact (tucan_v3000_nonidentity _ RefCanon.ref_canon_H1 RefCanon.ref_canon_H2 formA formB chA chB crlf lf
             formA_ok formB_ok formA_loopfree formA_formB_ident chA_ok chA_text_ok chB_ok chB_text_ok).
  Qed.
  Example formate_resonance : forall g g',
    V2000.read_molfile (file_text crlf 0 (render3000 formA chA)) = ok g ->
    V2000.read_molfile (file_text lf 0 (render3000 formA' chB)) = ok g' ->
    tucan RefCanon.ref_canon g = tucan RefCanon.ref_canon g'.
  Proof.
    exact (tucan_resonance_invariant _ RefCanon.ref_canon_H1 RefCanon.ref_canon_H2 formA formA' chA chB crlf lf
             formA_ok formA'_ok formA_loopfree formA_redrawn chA_ok chA_text_ok chB_ok' chB_text_ok).
  Qed.
  Example formate_2000_3000 : forall g g',
    V2000.read_molfile (file_text mixed 0 (R2.render2000 form2 ch2)) = ok g ->
    V2000.read_molfile (file_text crlf 0 (render3000 formA chA)) = ok g' ->
    tucan RefCanon.ref_canon g = tucan RefCanon.ref_canon g'.
  Proof.
    exact (tucan_v2000_v3000 _ RefCanon.ref_canon_H1 RefCanon.ref_canon_H2 form2 ch2 formA chA mixed crlf
             file2_ok form2_loopfree formA_ok chA_ok chA_text_ok form2_formA_corr).
  Qed.

  (* identity data does matter: without the isotope label the string is another one *)
  Definition formC : molM :=
    mkMolM (Some (mkAtomM (t "C") 0 0 0 (t "0.0") (t "0.0") (t "0")) :: tl (m_entries formA)) (m_bonds formA).
  Example isotope_matters :
    tucan RefCanon.ref_canon (graph_of formC) = Some (t "CHO2/(1-2)(2-3)(2-4)") /\
    tucan RefCanon.ref_canon (graph_of formC) <> tucan RefCanon.ref_canon (graph_of formA).
  Proof. split; [vm_compute; reflexivity|]. vm_compute. discriminate. Qed.
  (* everything the theorems ask for, in one statement *)
  Example all_hypotheses :
    okM formA /\ okM formB /\ loopfree3 formA /\ IdentEq3000 formA formB /\
    okch formA chA /\ okch_text chA /\ okch formB chB /\ okch_text chB /\
    okfile2000 form2 ch2 /\ loopfree2 form2 /\ Corr23 form2 formA /\
    Redrawn3000 formA formA' /\ okM formA' /\ okch formA' chB.
  Proof.
    exact (conj formA_ok (conj formB_ok (conj formA_loopfree (conj formA_formB_ident
          (conj chA_ok (conj chA_text_ok (conj chB_ok (conj chB_text_ok
          (conj file2_ok (conj form2_loopfree (conj form2_formA_corr
          (conj formA_redrawn (conj formA'_ok chB_ok'))))))))))))).
  Qed.
  Example formate_tucan_eq : formate_tucan = t "CHO2/(1-2)(2-3)(2-4)/(2:mass=13)".
  Proof. reflexivity. Qed.
End Example.
