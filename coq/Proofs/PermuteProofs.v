(* PermuteProofs.v -- lemmas and proofs about Model/Permute.v (graph_utils.permute_molecule).
   Definitions live in Model/; the property theorems that cite these lemmas live in Props/C16.v. *)
From Coq Require Import List NArith ZArith Bool Lia Permutation Sorting.Sorted.
Require Import Base Mol Permute.
Import ListNotations.

(* ------------------------------------------------------------------------------------------ *)
(* generic insertion sort                                                                     *)
(* ------------------------------------------------------------------------------------------ *)
Section SortLemmas.
  Context {A : Type}.
  Variable leb : A -> A -> bool.

  Lemma insert_perm (x : A) (l : list A) : Permutation (x :: l) (insert leb x l).
  Proof.
    induction l as [|y t IH]; simpl; [reflexivity|].
    destruct (leb x y); [reflexivity|].
    rewrite perm_swap. constructor. exact IH.
  Qed.

  Lemma isort_perm (l : list A) : Permutation l (isort leb l).
  Proof.
    induction l as [|x t IH]; simpl; [constructor|].
    rewrite <- insert_perm. constructor. exact IH.
  Qed.

  Hypothesis leb_total : forall x y, leb x y = true \/ leb y x = true.
  Hypothesis leb_trans : forall x y z, leb x y = true -> leb y z = true -> leb x z = true.
  Hypothesis leb_antisym : forall x y, leb x y = true -> leb y x = true -> x = y.

  Definition sorted_by : list A -> Prop := Sorted (fun x y => leb x y = true).

  Lemma insert_sorted (x : A) (l : list A) : sorted_by l -> sorted_by (insert leb x l).
  Proof.
    induction 1 as [|y t Hs IH Hhd]; simpl.
    - repeat constructor.
    - destruct (leb x y) eqn:E.
      + constructor; [constructor; assumption| constructor; exact E].
      + constructor; [exact IH|].
        destruct (leb_total x y) as [H|H]; [congruence|].
        destruct t as [|z t']; simpl; [constructor; exact H|].
        destruct (leb x z); constructor; [exact H|]. inversion Hhd; assumption.
  Qed.

  Lemma isort_sorted (l : list A) : sorted_by (isort leb l).
  Proof. induction l; simpl; [constructor| apply insert_sorted; assumption]. Qed.

  Lemma sorted_perm_eq (l l' : list A) : sorted_by l -> sorted_by l' -> Permutation l l' -> l = l'.
  Proof.
    intros Hl. revert l'.
    induction Hl as [|x t Hs IH Hhd]; intros l' Hl' HP.
    - apply Permutation_nil in HP. subst; reflexivity.
    - destruct l' as [|y t']; [apply Permutation_sym, Permutation_nil in HP; discriminate|].
      assert (Hx : forall z, In z t -> leb x z = true).
      { assert (HS : sorted_by (x :: t)) by (constructor; assumption).
        apply Sorted_extends in HS; [|intros a b c; apply leb_trans].
        intros z Hz. rewrite Forall_forall in HS. apply HS, Hz. }
      assert (Hy : forall z, In z t' -> leb y z = true).
      { pose proof Hl' as HS. apply Sorted_extends in HS; [|intros a b c; apply leb_trans].
        intros z Hz. rewrite Forall_forall in HS. apply HS, Hz. }
      assert (Exy : x = y).
      { assert (Hxin : In x (y :: t')) by (eapply Permutation_in; [exact HP| left; reflexivity]).
        assert (Hyin : In y (x :: t))
          by (eapply Permutation_in; [apply Permutation_sym; exact HP| left; reflexivity]).
        simpl in Hxin, Hyin.
        destruct Hxin as [->|Hxin]; [reflexivity|]. destruct Hyin as [->|Hyin]; [reflexivity|].
        apply leb_antisym; [apply Hx, Hyin | apply Hy, Hxin]. }
      subst y. f_equal. apply IH.
      + inversion Hl'; assumption.
      + eapply Permutation_cons_inv; exact HP.
  Qed.

  Lemma isort_perm_invariant (l l' : list A) : Permutation l l' -> isort leb l = isort leb l'.
  Proof.
    intros HP. apply sorted_perm_eq; try apply isort_sorted.
    rewrite <- isort_perm, <- isort_perm. exact HP.
  Qed.

  Lemma isort_eq_perm (l l' : list A) : isort leb l = isort leb l' <-> Permutation l l'.
  Proof.
    split; [|apply isort_perm_invariant].
    intros E. rewrite (isort_perm l), E. symmetry. apply isort_perm.
  Qed.
End SortLemmas.

(* ------------------------------------------------------------------------------------------ *)
(* the two concrete orders used by Permute.v                                                  *)
(* ------------------------------------------------------------------------------------------ *)
Lemma Nleb_total (x y : N) : Nleb x y = true \/ Nleb y x = true.
Proof. unfold Nleb. rewrite !N.leb_le. lia. Qed.
Lemma Nleb_trans (x y z : N) : Nleb x y = true -> Nleb y z = true -> Nleb x z = true.
Proof. unfold Nleb. rewrite !N.leb_le. lia. Qed.
Lemma Nleb_antisym (x y : N) : Nleb x y = true -> Nleb y x = true -> x = y.
Proof. unfold Nleb. rewrite !N.leb_le. lia. Qed.

Lemma pair_leb_total (a b : N * N) : pair_leb a b = true \/ pair_leb b a = true.
Proof.
  destruct a as [a1 a2], b as [b1 b2]. unfold pair_leb; simpl.
  destruct (N.ltb_spec a1 b1), (N.ltb_spec b1 a1), (N.eqb_spec a1 b1), (N.eqb_spec b1 a1);
    rewrite ?N.leb_le; lia.
Qed.
Lemma pair_leb_trans (a b c : N * N) :
  pair_leb a b = true -> pair_leb b c = true -> pair_leb a c = true.
Proof.
  destruct a as [a1 a2], b as [b1 b2], c as [c1 c2]. unfold pair_leb; simpl.
  destruct (N.ltb_spec a1 b1), (N.ltb_spec b1 c1), (N.ltb_spec a1 c1),
           (N.eqb_spec a1 b1), (N.eqb_spec b1 c1), (N.eqb_spec a1 c1);
    rewrite ?N.leb_le; try lia; try discriminate.
Qed.
Lemma pair_leb_antisym (a b : N * N) : pair_leb a b = true -> pair_leb b a = true -> a = b.
Proof.
  destruct a as [a1 a2], b as [b1 b2]. unfold pair_leb; simpl.
  destruct (N.ltb_spec a1 b1), (N.ltb_spec b1 a1), (N.eqb_spec a1 b1), (N.eqb_spec b1 a1);
    rewrite ?N.leb_le; try lia; try discriminate.
  intros H1 H2. f_equal; lia.
Qed.

Lemma isort_Nleb_sorted (l : list N) : StronglySorted N.le (isort Nleb l).
Proof.
  apply Sorted_StronglySorted; [intros x y z; apply N.le_trans|].
  pose proof (isort_sorted Nleb Nleb_total l) as H. unfold sorted_by in H.
  induction H as [|x t Hs IH Hhd]; constructor; [exact IH|].
  destruct Hhd as [|y t' Hxy]; constructor. unfold Nleb in Hxy. apply N.leb_le, Hxy.
Qed.

(* ------------------------------------------------------------------------------------------ *)
(* association lists: the mapping dict(zip(permuted, labels))                                 *)
(* ------------------------------------------------------------------------------------------ *)
Lemma fun_of_map_combine_map (s L : list N) :
  NoDup s -> length s = length L -> map (fun_of_map (combine s L)) s = L.
Proof.
  revert L. induction s as [|a s' IH]; intros [|b L'] Hnd Hlen; simpl in *; try discriminate;
    [reflexivity|].
  inversion Hnd as [|? ? Hnotin Hnd']; subst.
  f_equal.
  - unfold fun_of_map; simpl. rewrite N.eqb_refl. reflexivity.
  - transitivity (map (fun_of_map (combine s' L')) s').
    + apply map_ext_in. intros x Hx. unfold fun_of_map; simpl.
      destruct (N.eqb_spec a x) as [->|_]; [contradiction | reflexivity].
    + apply IH; [exact Hnd' | congruence].
Qed.

Lemma NoDup_map_inj {X Y : Type} (f : X -> Y) (l : list X) :
  NoDup (map f l) -> forall x y, In x l -> In y l -> f x = f y -> x = y.
Proof.
  induction l as [|a t IH]; simpl; intros Hnd x y Hx Hy E; [contradiction|].
  inversion Hnd as [|? ? Hnotin Hnd']; subst.
  destruct Hx as [->|Hx], Hy as [->|Hy].
  - reflexivity.
  - exfalso. apply Hnotin. rewrite E. apply in_map, Hy.
  - exfalso. apply Hnotin. rewrite <- E. apply in_map, Hx.
  - apply IH; assumption.
Qed.

(* ------------------------------------------------------------------------------------------ *)
(* pairs_eqb is structural equality                                                           *)
(* ------------------------------------------------------------------------------------------ *)
Lemma pairs_eqb_eq (a b : list (N * N)) : pairs_eqb a b = true <-> a = b.
Proof.
  revert b. induction a as [|[x1 x2] a' IH]; intros [|[y1 y2] b']; simpl;
    try (split; [discriminate | discriminate]); [split; reflexivity|].
  rewrite !andb_true_iff, !N.eqb_eq, IH. split.
  - intros [[-> ->] ->]. reflexivity.
  - intros E. inversion E. auto.
Qed.

Section PermuteProofs.
  Variables P B : Type.
  Implicit Types (m r cur : mol P B) (s : list N) (shs : list (list N)).

  (* ---------------------------------------------------------------------------------------- *)
  (* sort_by_label                                                                            *)
  (* ---------------------------------------------------------------------------------------- *)
  Lemma map_lbl_insert (x : atom P) (l : list (atom P)) :
    map (@lbl P) (insert (@atom_lbl_leb P) x l) = insert Nleb (lbl x) (map (@lbl P) l).
  Proof.
    induction l as [|y t IH]; simpl; [reflexivity|].
    unfold atom_lbl_leb at 1. unfold Nleb at 1.
    destruct (N.leb (lbl x) (lbl y)); simpl; [reflexivity|]. rewrite IH. reflexivity.
  Qed.

  Lemma map_lbl_isort (l : list (atom P)) :
    map (@lbl P) (isort (@atom_lbl_leb P) l) = isort Nleb (map (@lbl P) l).
  Proof.
    induction l as [|x t IH]; simpl; [reflexivity|]. rewrite map_lbl_insert, IH. reflexivity.
  Qed.

  Lemma labels_sort_by_label m : labels (sort_by_label m) = isort Nleb (labels m).
  Proof. unfold labels, sort_by_label; simpl. apply map_lbl_isort. Qed.

  Lemma labels_relabel (f : N -> N) m : labels (relabel f m) = map f (labels m).
  Proof. unfold labels, relabel; simpl. rewrite !map_map. reflexivity. Qed.

  Lemma labels_permute1_raw s m :
    labels (permute1 s m) = isort Nleb (map (fun_of_map (combine s (labels m))) (labels m)).
  Proof. unfold permute1. rewrite labels_sort_by_label, labels_relabel. reflexivity. Qed.

  Lemma atoms_permute1 s m :
    atoms (permute1 s m) =
    isort (@atom_lbl_leb P) (map (relabel_atom (fun_of_map (combine s (labels m)))) (atoms m)).
  Proof. reflexivity. Qed.

  Lemma bonds_permute1 s m :
    bonds (permute1 s m) = map (map_bond (fun_of_map (combine s (labels m)))) (bonds m).
  Proof. reflexivity. Qed.

  (* ---------------------------------------------------------------------------------------- *)
  (* 1. the renaming is a bijection of the label set and carries every attribute along        *)
  (* ---------------------------------------------------------------------------------------- *)
  Lemma renaming_perm s m :
    Permutation s (labels m) -> NoDup (labels m) ->
    Permutation (map (fun_of_map (combine s (labels m))) (labels m)) (labels m).
  Proof.
    intros HP Hnd.
    assert (Hnds : NoDup s) by (eapply Permutation_NoDup; [apply Permutation_sym, HP | exact Hnd]).
    rewrite <- (fun_of_map_combine_map s (labels m) Hnds (Permutation_length HP)) at 3.
    apply Permutation_map, Permutation_sym, HP.
  Qed.

  Lemma renaming_inj s m :
    Permutation s (labels m) -> NoDup (labels m) ->
    forall x y, In x (labels m) -> In y (labels m) ->
      fun_of_map (combine s (labels m)) x = fun_of_map (combine s (labels m)) y -> x = y.
  Proof.
    intros HP Hnd. apply NoDup_map_inj.
    eapply Permutation_NoDup; [apply Permutation_sym, renaming_perm; eassumption | exact Hnd].
  Qed.

  Theorem permute1_renaming s m :
    Permutation s (labels m) -> NoDup (labels m) ->
    let f := fun_of_map (combine s (labels m)) in
    Permutation (map f (labels m)) (labels m) /\
    (forall x y, In x (labels m) -> In y (labels m) -> f x = f y -> x = y) /\
    Permutation (atoms (permute1 s m)) (map (relabel_atom f) (atoms m)) /\
    bonds (permute1 s m) = map (map_bond f) (bonds m).
  Proof.
    intros HP Hnd f. split; [|split; [|split]].
    - apply renaming_perm; assumption.
    - apply renaming_inj; assumption.
    - rewrite atoms_permute1. apply Permutation_sym, isort_perm.
    - reflexivity.
  Qed.

  (* every atom reappears under its new name with all of its data; no hypothesis needed *)
  Theorem permute1_atom_data s m (x : atom P) :
    In x (atoms m) ->
    exists y, In y (atoms (permute1 s m)) /\
      lbl y = fun_of_map (combine s (labels m)) (lbl x) /\
      zn y = zn x /\ mass y = mass x /\ rad y = rad x /\ part y = part x /\ pay y = pay x.
  Proof.
    intros Hx. exists (relabel_atom (fun_of_map (combine s (labels m))) x). split.
    - rewrite atoms_permute1. eapply Permutation_in; [apply isort_perm|]. apply in_map, Hx.
    - repeat split; reflexivity.
  Qed.

  (* ... and conversely every atom of the result is a renamed atom of the argument *)
  Theorem permute1_atom_data_inv s m (y : atom P) :
    In y (atoms (permute1 s m)) ->
    exists x, In x (atoms m) /\
      lbl y = fun_of_map (combine s (labels m)) (lbl x) /\
      zn y = zn x /\ mass y = mass x /\ rad y = rad x /\ part y = part x /\ pay y = pay x.
  Proof.
    intros Hy. rewrite atoms_permute1 in Hy.
    apply (Permutation_in _ (Permutation_sym (isort_perm _ _))) in Hy.
    apply in_map_iff in Hy. destruct Hy as (x & <- & Hx).
    exists x. split; [exact Hx|]. repeat split; reflexivity.
  Qed.

  Theorem permute1_counts s m :
    length (atoms (permute1 s m)) = length (atoms m) /\
    length (bonds (permute1 s m)) = length (bonds m).
  Proof.
    split.
    - rewrite atoms_permute1, <- (Permutation_length (isort_perm _ _)). apply map_length.
    - rewrite bonds_permute1. apply map_length.
  Qed.

  (* ---------------------------------------------------------------------------------------- *)
  (* 2. label order                                                                           *)
  (* ---------------------------------------------------------------------------------------- *)
  Theorem permute1_label_order s m :
    Permutation s (labels m) -> NoDup (labels m) ->
    labels (permute1 s m) = isort Nleb (labels m) /\
    StronglySorted N.le (labels (permute1 s m)) /\
    Sorted N.lt (labels (permute1 s m)) /\
    Permutation (labels (permute1 s m)) (labels m) /\
    NoDup (labels (permute1 s m)).
  Proof.
    intros HP Hnd.
    assert (E : labels (permute1 s m) = isort Nleb (labels m)).
    { rewrite labels_permute1_raw.
      apply (isort_perm_invariant Nleb Nleb_total Nleb_trans Nleb_antisym).
      apply renaming_perm; assumption. }
    assert (HPl : Permutation (labels (permute1 s m)) (labels m))
      by (rewrite E; apply Permutation_sym, isort_perm).
    assert (Hnd' : NoDup (labels (permute1 s m)))
      by (eapply Permutation_NoDup; [apply Permutation_sym, HPl | exact Hnd]).
    assert (HS : StronglySorted N.le (labels (permute1 s m)))
      by (rewrite E; apply isort_Nleb_sorted).
    repeat split; try assumption.
    clear - HS Hnd'. induction HS as [|x t HSt IH Hall]; [constructor|].
    inversion Hnd' as [|? ? Hnotin Hndt]; subst.
    constructor; [apply IH, Hndt|].
    destruct t as [|y t']; constructor.
    inversion Hall as [|? ? Hxy _]; subst.
    assert (x <> y) by (intros ->; apply Hnotin; left; reflexivity).
    lia.
  Qed.

  (* ---------------------------------------------------------------------------------------- *)
  (* 4a. same_edges is an edge-(multi)set test                                                *)
  (* ---------------------------------------------------------------------------------------- *)
  Theorem same_edges_spec m r : same_edges m r = true <-> edge_set m = edge_set r.
  Proof. unfold same_edges. apply pairs_eqb_eq. Qed.

  Theorem same_edges_false m r : same_edges m r = false <-> edge_set m <> edge_set r.
  Proof.
    rewrite <- same_edges_spec. destruct (same_edges m r); split; congruence.
  Qed.

  Theorem edge_set_eq_perm m r :
    edge_set m = edge_set r <->
    Permutation (map (fun b => norm_pair (ends b)) (bonds m))
                (map (fun b => norm_pair (ends b)) (bonds r)).
  Proof.
    unfold edge_set.
    apply (isort_eq_perm pair_leb pair_leb_total pair_leb_trans pair_leb_antisym).
  Qed.

  Lemma same_edges_refl m : same_edges m m = true.
  Proof. apply same_edges_spec. reflexivity. Qed.

  (* ---------------------------------------------------------------------------------------- *)
  (* 3. the retry loop                                                                        *)
  (* ---------------------------------------------------------------------------------------- *)
  Lemma retry_spec m : forall shs cur r k,
    retry m cur shs = Some (r, k) ->
    nth_error (cur :: map (fun s => permute1 s m) shs) k = Some r /\
    same_edges m r = false /\
    (forall j c, j < k -> nth_error (cur :: map (fun s => permute1 s m) shs) j = Some c ->
                 same_edges m c = true).
  Proof.
    induction shs as [|s0 rest IH]; intros cur r k; simpl;
      destruct (same_edges m cur) eqn:E; try discriminate.
    - intros H; inversion H; subst. repeat split; [exact E | intros j c Hj; lia].
    - destruct (retry m (permute1 s0 m) rest) as [[r' k']|] eqn:R; simpl; [|discriminate].
      intros H; inversion H; subst.
      destruct (IH _ _ _ R) as (H1 & H2 & H3).
      split; [exact H1 | split; [exact H2|]].
      intros [|j] c Hj Hn; simpl in Hn.
      + inversion Hn; subst. exact E.
      + apply (H3 j c); [lia | exact Hn].
    - intros H; inversion H; subst. repeat split; [exact E | intros j c Hj; lia].
  Qed.

  Lemma retry_complete m : forall shs cur,
    (same_edges m cur = false \/ exists s, In s shs /\ same_edges m (permute1 s m) = false) ->
    exists r k, retry m cur shs = Some (r, k).
  Proof.
    induction shs as [|s0 rest IH]; intros cur H; simpl; destruct (same_edges m cur) eqn:E.
    - destruct H as [H|(s & [] & _)]. discriminate.
    - eauto.
    - destruct (IH (permute1 s0 m)) as (r & k & R).
      + destruct H as [H|(s & [<-|Hin] & Hs)]; [discriminate | left; exact Hs | right; eauto].
      + rewrite R. simpl. eauto.
    - eauto.
  Qed.

  (* full specification of a successful run *)
  Theorem permute_spec shs m r k :
    permute shs m = Some (r, k) ->
    exists s, nth_error shs k = Some s /\ r = permute1 s m /\
      (enforce m = false -> k = 0) /\
      (enforce m = true ->
         same_edges m r = false /\
         forall j s', j < k -> nth_error shs j = Some s' -> same_edges m (permute1 s' m) = true).
  Proof.
    destruct shs as [|s0 rest]; simpl; [discriminate|].
    destruct (enforce m) eqn:En.
    - destruct (retry m (permute1 s0 m) rest) as [[r' k']|] eqn:R; simpl; [|discriminate].
      intros H; inversion H; subst.
      destruct (retry_spec _ _ _ _ _ R) as (H1 & H2 & H3).
      change (permute1 s0 m :: map (fun s => permute1 s m) rest)
        with (map (fun s => permute1 s m) (s0 :: rest)) in H1, H3.
      rewrite nth_error_map in H1.
      destruct (nth_error (s0 :: rest) k) as [s|] eqn:Hk; simpl in H1; [|discriminate].
      exists s. inversion H1; subst. repeat split; try congruence.
      intros j s' Hj Hn. apply (H3 j); [exact Hj|]. rewrite nth_error_map, Hn. reflexivity.
    - intros H; inversion H; subst. exists s0. repeat split; congruence.
  Qed.

  Theorem permute_result_is_some_shuffle shs m r k :
    permute shs m = Some (r, k) ->
    (exists s, In s shs /\ r = permute1 s m) /\ k < length shs.
  Proof.
    intros H. destruct (permute_spec _ _ _ _ H) as (s & Hk & Hr & _). split.
    - exists s. split; [eapply nth_error_In; exact Hk | exact Hr].
    - apply nth_error_Some. congruence.
  Qed.

  (* the loop stops as soon as the stream offers a non-automorphism *)
  Theorem permute_terminates shs m :
    shs <> [] ->
    (enforce m = true -> exists s, In s shs /\ same_edges m (permute1 s m) = false) ->
    exists r k, permute shs m = Some (r, k).
  Proof.
    destruct shs as [|s0 rest]; [congruence|]. intros _ H. simpl.
    destruct (enforce m); [|eauto].
    destruct (retry_complete m rest (permute1 s0 m)) as (r & k & R).
    - destruct (H eq_refl) as (s & [<-|Hin] & Hs); [left; exact Hs | right; eauto].
    - rewrite R. simpl. eauto.
  Qed.

  (* ---------------------------------------------------------------------------------------- *)
  (* 4. / 5. enforced and non-enforced runs                                                   *)
  (* ---------------------------------------------------------------------------------------- *)
  Theorem permute_changes_edges shs m r k :
    enforce m = true -> permute shs m = Some (r, k) -> same_edges m r = false.
  Proof.
    intros En H. destruct (permute_spec _ _ _ _ H) as (s & _ & _ & _ & H4). apply H4, En.
  Qed.

  Theorem permute_not_enforced s rest m :
    enforce m = false -> permute (s :: rest) m = Some (permute1 s m, 0).
  Proof. intros En. simpl. rewrite En. reflexivity. Qed.

  Theorem enforce_spec m :
    enforce m = true <->
    (2 <= length (bonds m) /\
     2 * length (bonds m) <> length (atoms m) * (length (atoms m) - 1)).
  Proof.
    unfold enforce.
    rewrite andb_true_iff, negb_true_iff, N.ltb_lt, N.eqb_neq.
    replace (N.of_nat (length (atoms m)) - 1)%N with (N.of_nat (length (atoms m) - 1)) by lia.
    rewrite <- Nat2N.inj_mul.
    change 2%N with (N.of_nat 2). rewrite <- Nat2N.inj_mul, Nat2N.inj_iff.
    change 1%N with (N.of_nat 1). lia.
  Qed.
End PermuteProofs.

(* ------------------------------------------------------------------------------------------ *)
(* 7. non-vacuity: a 4-atom path; identity and reversal are automorphisms, the third draw isn't *)
(* ------------------------------------------------------------------------------------------ *)
Definition ex_atom (l z : N) : atom unit := mkAtom l z None None 0%N tt.
Definition ex_path4 : mol unit unit :=
  mkMol [ex_atom 0 6; ex_atom 1 7; ex_atom 2 8; ex_atom 3 9]
        [(0%N, 1%N, tt); (1%N, 2%N, tt); (2%N, 3%N, tt)].

Example ex_path4_wf : NoDup (labels ex_path4).
Proof. simpl. repeat constructor; simpl; intuition discriminate. Qed.

Example ex_path4_enforced : enforce ex_path4 = true.
Proof. vm_compute. reflexivity. Qed.

Example ex_path4_one_retry :
  permute [[0; 1; 2; 3]; [1; 0; 2; 3]]%N ex_path4 =
  Some (mkMol [ex_atom 0 7; ex_atom 1 6; ex_atom 2 8; ex_atom 3 9]
              [(1%N, 0%N, tt); (0%N, 2%N, tt); (2%N, 3%N, tt)], 1).
Proof. vm_compute. reflexivity. Qed.

Example ex_path4_two_retries :
  permute [[0; 1; 2; 3]; [3; 2; 1; 0]; [1; 0; 2; 3]; [2; 3; 0; 1]]%N ex_path4 =
  Some (permute1 [1; 0; 2; 3]%N ex_path4, 2).
Proof. vm_compute. reflexivity. Qed.

Example ex_path4_exhausted : permute [[0; 1; 2; 3]; [3; 2; 1; 0]]%N ex_path4 = None.
Proof. vm_compute. reflexivity. Qed.

(* ------------------------------------------------------------------------------------------ *)
(* 8. a non-automorphism exists, so the retry loop can stop                                   *)
(* ------------------------------------------------------------------------------------------ *)
Lemma norm_pair_sym (x y : N) : norm_pair (x, y) = norm_pair (y, x).
Proof.
  unfold norm_pair; simpl. destruct (N.leb_spec x y), (N.leb_spec y x); try reflexivity.
  - assert (x = y) by lia. subst. reflexivity.
  - lia.
Qed.

Lemma norm_pair_eq_inv (x y u v : N) :
  norm_pair (x, y) = norm_pair (u, v) -> (x = u /\ y = v) \/ (x = v /\ y = u).
Proof.
  unfold norm_pair; simpl. destruct (N.leb x y), (N.leb u v); intros E; inversion E; auto.
Qed.

Lemma pair_eq_dec (p q : N * N) : {p = q} + {p <> q}.
Proof. decide equality; apply N.eq_dec. Qed.

Fixpoint all_pairs (l : list N) : list (N * N) :=
  match l with [] => [] | a :: t => map (fun b => norm_pair (a, b)) t ++ all_pairs t end.

Lemma all_pairs_length (l : list N) : 2 * length (all_pairs l) = length l * (length l - 1).
Proof.
  induction l as [|a t IH]; simpl; [reflexivity|].
  rewrite app_length, map_length. nia.
Qed.

Lemma all_pairs_in (l : list N) (p : N * N) :
  NoDup l -> In p (all_pairs l) ->
  exists x y, In x l /\ In y l /\ x <> y /\ p = norm_pair (x, y).
Proof.
  induction l as [|a t IH]; simpl; intros Hnd Hp; [contradiction|].
  inversion Hnd as [|? ? Hnotin Hnd']; subst.
  apply in_app_or in Hp. destruct Hp as [Hp|Hp].
  - apply in_map_iff in Hp. destruct Hp as (b & <- & Hb).
    exists a, b. repeat split; auto. intros ->. contradiction.
  - destruct (IH Hnd' Hp) as (x & y & Hx & Hy & Hne & E). exists x, y. auto.
Qed.

Lemma in_all_pairs (l : list N) (x y : N) :
  In x l -> In y l -> x <> y -> In (norm_pair (x, y)) (all_pairs l).
Proof.
  induction l as [|a t IH]; simpl; intros Hx Hy Hne; [contradiction|].
  apply in_or_app.
  destruct Hx as [->|Hx], Hy as [->|Hy].
  - congruence.
  - left. apply in_map_iff. exists y. auto.
  - left. apply in_map_iff. exists x. split; [apply norm_pair_sym | exact Hx].
  - right. apply IH; assumption.
Qed.

Lemma NoDup_app_intro {X : Type} (l1 l2 : list X) :
  NoDup l1 -> NoDup l2 -> (forall x, In x l1 -> ~ In x l2) -> NoDup (l1 ++ l2).
Proof.
  induction l1 as [|a t IH]; simpl; intros H1 H2 Hdis; [exact H2|].
  inversion H1 as [|? ? Hnotin H1']; subst. constructor.
  - intros Hin. apply in_app_or in Hin. destruct Hin as [Hin|Hin]; [contradiction|].
    apply (Hdis a); [left; reflexivity | exact Hin].
  - apply IH; [exact H1' | exact H2 | intros x Hx; apply Hdis; right; exact Hx].
Qed.

Lemma NoDup_map_in_inj {X Y : Type} (f : X -> Y) (l : list X) :
  (forall x y, In x l -> In y l -> f x = f y -> x = y) -> NoDup l -> NoDup (map f l).
Proof.
  induction l as [|a t IH]; simpl; intros Hinj Hnd; [constructor|].
  inversion Hnd as [|? ? Hnotin Hnd']; subst. constructor.
  - intros Hin. apply in_map_iff in Hin. destruct Hin as (x & E & Hx).
    apply Hinj in E; [subst; contradiction | right; exact Hx | left; reflexivity].
  - apply IH; [|exact Hnd']. intros x y Hx Hy. apply Hinj; right; assumption.
Qed.

Lemma all_pairs_NoDup (l : list N) : NoDup l -> NoDup (all_pairs l).
Proof.
  induction l as [|a t IH]; simpl; intros Hnd; [constructor|].
  inversion Hnd as [|? ? Hnotin Hnd']; subst.
  apply NoDup_app_intro.
  - apply NoDup_map_in_inj; [|exact Hnd'].
    intros x y _ _ E. apply norm_pair_eq_inv in E. destruct E as [[_ E]|[E1 E2]]; congruence.
  - apply IH, Hnd'.
  - intros p Hp1 Hp2. apply in_map_iff in Hp1. destruct Hp1 as (b & <- & Hb).
    destruct (all_pairs_in t _ Hnd' Hp2) as (x & y & Hx & Hy & _ & E).
    apply norm_pair_eq_inv in E. destruct E as [[-> _]|[-> _]]; contradiction.
Qed.

(* a simple graph in which every two distinct vertices are adjacent has n(n-1)/2 edges *)
Lemma complete_count (L : list N) (E : list (N * N)) :
  NoDup L -> NoDup E ->
  (forall p, In p E -> exists x y, In x L /\ In y L /\ x <> y /\ p = norm_pair (x, y)) ->
  (forall x y, In x L -> In y L -> x <> y -> In (norm_pair (x, y)) E) ->
  2 * length E = length L * (length L - 1).
Proof.
  intros HndL HndE Hsub Hall.
  rewrite <- all_pairs_length. f_equal. apply Nat.le_antisymm.
  - apply NoDup_incl_length; [exact HndE|]. intros p Hp.
    destruct (Hsub p Hp) as (x & y & Hx & Hy & Hne & ->). apply in_all_pairs; assumption.
  - apply NoDup_incl_length; [apply all_pairs_NoDup, HndL|]. intros p Hp.
    destruct (all_pairs_in L p HndL Hp) as (x & y & Hx & Hy & Hne & ->). apply Hall; assumption.
Qed.

Lemma complete_or_missing (L : list N) (E : list (N * N)) :
  (forall x y, In x L -> In y L -> x <> y -> In (norm_pair (x, y)) E) \/
  (exists x y, In x L /\ In y L /\ x <> y /\ ~ In (norm_pair (x, y)) E).
Proof.
  assert (dec : forall p : N * N,
             {fst p = snd p \/ In (norm_pair p) E} + {~ (fst p = snd p \/ In (norm_pair p) E)}).
  { intros p. destruct (N.eq_dec (fst p) (snd p)) as [Heq|Hne]; [left; left; exact Heq|].
    destruct (in_dec pair_eq_dec (norm_pair p) E) as [Hin|Hnin]; [left; right; exact Hin|].
    right. intros [H|H]; contradiction. }
  destruct (Forall_Exists_dec _ dec (list_prod L L)) as [Hall|Hex].
  - left. intros x y Hx Hy Hne. rewrite Forall_forall in Hall.
    destruct (Hall (x, y)) as [H|H]; [apply in_prod_iff; auto | simpl in H; contradiction | exact H].
  - right. apply Exists_exists in Hex. destruct Hex as ([x y] & Hin & Hnot).
    apply in_prod_iff in Hin. destruct Hin as [Hx Hy]. exists x, y. repeat split; auto.
Qed.

(* from one edge and one non-edge: a vertex with a neighbour and a non-neighbour *)
Lemma edge_and_gap (L : list N) (E : list (N * N)) (u v x y : N) :
  In u L -> In v L -> u <> v -> In (norm_pair (u, v)) E ->
  In x L -> In y L -> x <> y -> ~ In (norm_pair (x, y)) E ->
  exists a b c, In a L /\ In b L /\ In c L /\ a <> b /\ a <> c /\
                In (norm_pair (a, b)) E /\ ~ In (norm_pair (a, c)) E.
Proof.
  intros Hu Hv Huv Huve Hx Hy Hxy Hxye.
  destruct (N.eq_dec u x) as [->|Hux]; [exists x, v, y; repeat split; assumption|].
  destruct (N.eq_dec u y) as [->|Huy].
  { exists y, v, x. repeat split; auto. rewrite norm_pair_sym. exact Hxye. }
  destruct (in_dec pair_eq_dec (norm_pair (u, x)) E) as [Hin|Hnin].
  - exists x, u, y. repeat split; auto. rewrite norm_pair_sym. exact Hin.
  - exists u, v, x. repeat split; auto.
Qed.

Definition swapN (b c x : N) : N := if N.eqb x b then c else if N.eqb x c then b else x.

Lemma swapN_invol (b c x : N) : swapN b c (swapN b c x) = x.
Proof.
  unfold swapN.
  destruct (N.eqb_spec x b) as [->|Hxb].
  - destruct (N.eqb_spec c b) as [->|Hcb]; [reflexivity|]. rewrite N.eqb_refl. reflexivity.
  - destruct (N.eqb_spec x c) as [->|Hxc].
    + rewrite N.eqb_refl. reflexivity.
    + destruct (N.eqb_spec x b); [contradiction|]. destruct (N.eqb_spec x c); [contradiction|].
      reflexivity.
Qed.

Lemma swapN_inj (b c : N) : FinFun.Injective (swapN b c).
Proof. intros x y E. rewrite <- (swapN_invol b c x), E. apply swapN_invol. Qed.

Lemma swapN_in (b c x : N) (L : list N) : In b L -> In c L -> In x L -> In (swapN b c x) L.
Proof.
  intros Hb Hc Hx. unfold swapN. destruct (N.eqb x b); [exact Hc|].
  destruct (N.eqb x c); assumption.
Qed.

Lemma swapN_perm (b c : N) (L : list N) :
  NoDup L -> In b L -> In c L -> Permutation (map (swapN b c) L) L.
Proof.
  intros Hnd Hb Hc. apply NoDup_Permutation.
  - apply FinFun.Injective_map_NoDup; [apply swapN_inj | exact Hnd].
  - exact Hnd.
  - intros x. split.
    + intros Hx. apply in_map_iff in Hx. destruct Hx as (q & <- & Hq). apply swapN_in; assumption.
    + intros Hx. rewrite <- (swapN_invol b c x). apply in_map. apply swapN_in; assumption.
Qed.

Lemma fun_of_map_swapN (b c : N) (L : list N) (l : N) :
  NoDup L -> In b L -> In c L -> In l L ->
  fun_of_map (combine (map (swapN b c) L) L) l = swapN b c l.
Proof.
  intros Hnd Hb Hc Hl.
  pose proof (swapN_perm b c L Hnd Hb Hc) as HP.
  assert (Hnds : NoDup (map (swapN b c) L))
    by (eapply Permutation_NoDup; [apply Permutation_sym, HP | exact Hnd]).
  pose proof (fun_of_map_combine_map (map (swapN b c) L) L Hnds (map_length _ _)) as E.
  rewrite map_map in E.
  assert (E' : forall q, In q L ->
            fun_of_map (combine (map (swapN b c) L) L) (swapN b c q) = (fun z : N => z) q).
  { apply map_ext_in_iff. rewrite map_id. exact E. }
  rewrite <- (swapN_invol b c l) at 1. apply E'. apply swapN_in; assumption.
Qed.

Section NonAutomorphism.
  Variables P B : Type.
  Implicit Types (m : mol P B).

  Lemma norm_edges_permute1 (s : list N) m :
    map (fun b => norm_pair (ends b)) (bonds (permute1 s m)) =
    map (fun b => norm_pair (fun_of_map (combine s (labels m)) (fst (ends b)),
                             fun_of_map (combine s (labels m)) (snd (ends b)))) (bonds m).
  Proof. rewrite bonds_permute1, map_map. reflexivity. Qed.

  Theorem exists_non_automorphism m :
    NoDup (labels m) ->
    NoDup (map (fun b => norm_pair (ends b)) (bonds m)) ->
    (forall b, In b (bonds m) ->
       fst (ends b) <> snd (ends b) /\ In (fst (ends b)) (labels m) /\ In (snd (ends b)) (labels m)) ->
    enforce m = true ->
    exists s, Permutation s (labels m) /\ same_edges m (permute1 s m) = false.
  Proof.
    intros HndL HndE Hends En.
    apply enforce_spec in En. destruct En as [He Hcount].
    assert (Hsome : exists b0, In b0 (bonds m)).
    { destruct (bonds m) as [|b0 bs]; [simpl in He; lia | exists b0; left; reflexivity]. }
    set (L := labels m) in *.
    set (E := map (fun b => norm_pair (ends b)) (bonds m)) in *.
    assert (HlenE : length E = length (bonds m)) by apply map_length.
    assert (HlenL : length L = length (atoms m)) by apply map_length.
    assert (Hsub : forall p, In p E ->
              exists x y, In x L /\ In y L /\ x <> y /\ p = norm_pair (x, y)).
    { intros p Hp. apply in_map_iff in Hp. destruct Hp as (b & <- & Hb).
      destruct (Hends b Hb) as (Hne & H1 & H2).
      exists (fst (ends b)), (snd (ends b)). repeat split; assumption. }
    destruct (complete_or_missing L E) as [Hall|(x & y & Hx & Hy & Hxy & Hxye)].
    { exfalso. apply Hcount. rewrite <- HlenE, <- HlenL. apply complete_count; assumption. }
    destruct Hsome as (b0 & Hb0in).
    assert (Hb0 : In (norm_pair (ends b0)) E)
      by (unfold E; apply (in_map (fun b => norm_pair (ends b))), Hb0in).
    destruct (Hends b0 Hb0in) as (Huv & Hu & Hv).
    destruct (edge_and_gap L E _ _ _ _ Hu Hv Huv Hb0 Hx Hy Hxy Hxye)
      as (a & b & c & Ha & Hb & Hc & Hab & Hac & Habe & Hace).
    exists (map (swapN b c) L). split; [apply swapN_perm; assumption|].
    apply same_edges_false. intros Heq. apply edge_set_eq_perm in Heq.
    apply Hace. fold E in Heq. eapply Permutation_in; [apply Permutation_sym, Heq|].
    rewrite norm_edges_permute1. fold L.
    unfold E in Habe. apply in_map_iff in Habe. destruct Habe as (bd & Hbd & Hin).
    apply in_map_iff. exists bd. split; [|exact Hin].
    destruct (Hends bd Hin) as (_ & Hp & Hq).
    rewrite !fun_of_map_swapN by assumption.
    assert (Ta : swapN b c a = a).
    { unfold swapN. destruct (N.eqb_spec a b); [contradiction|].
      destruct (N.eqb_spec a c); [contradiction | reflexivity]. }
    assert (Tb : swapN b c b = c) by (unfold swapN; rewrite N.eqb_refl; reflexivity).
    change (ends bd) with (fst (ends bd), snd (ends bd)) in Hbd.
    apply norm_pair_eq_inv in Hbd. destruct Hbd as [[-> ->]|[-> ->]]; rewrite Ta, Tb.
    - reflexivity.
    - apply norm_pair_sym.
  Qed.

  (* hence a one-element stream on which the enforced run succeeds at once *)
  Corollary permute_can_succeed m :
    NoDup (labels m) ->
    NoDup (map (fun b => norm_pair (ends b)) (bonds m)) ->
    (forall b, In b (bonds m) ->
       fst (ends b) <> snd (ends b) /\ In (fst (ends b)) (labels m) /\ In (snd (ends b)) (labels m)) ->
    exists s, Permutation s (labels m) /\ permute [s] m = Some (permute1 s m, 0).
  Proof.
    intros HndL HndE Hends. destruct (enforce m) eqn:En.
    - destruct (exists_non_automorphism m HndL HndE Hends En) as (s & HP & Hs).
      exists s. split; [exact HP|]. simpl. rewrite En. simpl. rewrite Hs. reflexivity.
    - exists (labels m). split; [reflexivity|]. apply permute_not_enforced, En.
  Qed.
End NonAutomorphism.

(* ------------------------------------------------------------------------------------------ *)
(* everything at once, for whatever graph a successful run returns                            *)
(* ------------------------------------------------------------------------------------------ *)
Section Summary.
  Variables P B : Type.

  Theorem permute_result_properties (shs : list (list N)) (m r : mol P B) (k : nat) :
    NoDup (labels m) ->
    (forall s, In s shs -> Permutation s (labels m)) ->
    permute shs m = Some (r, k) ->
    exists s, In s shs /\ r = permute1 s m /\
      let f := fun_of_map (combine s (labels m)) in
      Permutation (map f (labels m)) (labels m) /\
      (forall x y, In x (labels m) -> In y (labels m) -> f x = f y -> x = y) /\
      Permutation (atoms r) (map (relabel_atom f) (atoms m)) /\
      bonds r = map (map_bond f) (bonds m) /\
      labels r = isort Nleb (labels m) /\
      StronglySorted N.le (labels r) /\
      Sorted N.lt (labels r) /\
      Permutation (labels r) (labels m) /\
      NoDup (labels r) /\
      (enforce m = true -> same_edges m r = false).
  Proof.
    intros Hnd Hshs H.
    destruct (permute_result_is_some_shuffle P B shs m r k H) as [(s & Hin & ->) _].
    exists s. split; [exact Hin|]. split; [reflexivity|].
    pose proof (Hshs s Hin) as HP.
    destruct (permute1_renaming P B s m HP Hnd) as (H1 & H2 & H3 & H4).
    destruct (permute1_label_order P B s m HP Hnd) as (H5 & H6 & H7 & H8 & H9).
    cbv zeta. repeat split; try assumption.
    intros En. exact (permute_changes_edges P B shs m _ k En H).
  Qed.
End Summary.

(* the result depends on nothing but the stream and the molecule *)
Lemma permute_same_stream (P B : Type) (shs shs' : list (list N)) (m : mol P B) :
  shs = shs' -> permute shs m = permute shs' m.
Proof. intros E. rewrite E. reflexivity. Qed.

Lemma ex_path4_nonvacuous : NoDup (labels ex_path4) /\ enforce ex_path4 = true.
Proof. exact (conj ex_path4_wf ex_path4_enforced). Qed.
