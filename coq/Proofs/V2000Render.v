(* V2000Render.v -- property C08, V2000 half.
   A spec-conformant V2000 connection table of an abstract molecule, with every rendering
   choice the CTfile format leaves open, is read back by the executable model of
   io/molfile_v2000_reader.py (Model/V2000.v) as exactly that molecule.

   Contents
     1. fixed-width fields (rjust / ljust / zfield, to_int, slice)
     2. the abstract molecule and what the reader must return (expected2000)
     3. the rendering (render2000) and its side conditions (okM2000, okch2000)
     4. decoding of atom lines, bond lines, property lines (column arithmetic for a general entry i)
     5. the property block: merge semantics ("last entry wins", 0 = unset)
     6. main theorem read_v2000_render and corollaries
     7. graph_from_molecule of the expected result (composition with the V3000 half)
     8. a concrete file (non-vacuity)

   Rejected by the reader, hence excluded by the side conditions: a bond line whose two atom numbers
   are equal (ok_bond) and a negative value on an M  RAD / M  ISO line (ok_item / nonneg_kind: any
   entry, also one overridden by a later entry; M  CHG values are free).  Example.ex_rejected.  *)
From Coq Require Import String Lia Arith Permutation.
Require Import Base Mol Text Molfile V2000 WriterProofs.
Require Params Elements Writer V3000.

Local Open Scope list_scope.
Local Open Scope nat_scope.

(* ------------------------------------------------------------------------------------ *)
(* 1. fixed-width fields                                                                 *)
(* ------------------------------------------------------------------------------------ *)

Definition blanks (k : nat) : text := repeat sp k.
(* right- / left-justify a token in a field of width w; meaningful only when length s <= w *)
Definition rjust (w : nat) (s : text) : text := blanks (w - length s) ++ s.
Definition ljust (w : nat) (s : text) : text := s ++ blanks (w - length s).

Lemma blanks_length : forall k, length (blanks k) = k.
Proof. intro k. apply repeat_length. Qed.

Lemma rjust_length : forall w s, length s <= w -> length (rjust w s) = w.
Proof. intros w s H. unfold rjust. rewrite app_length, blanks_length. lia. Qed.

Lemma ljust_length : forall w s, length s <= w -> length (ljust w s) = w.
Proof. intros w s H. unfold ljust. rewrite app_length, blanks_length. lia. Qed.

Lemma blanks_all : forall (f : ascii -> bool) k, f sp = true -> Forall (fun c => f c = true) (blanks k).
Proof. intros f k H. apply Forall_forall. intros c Hc. apply repeat_spec in Hc. subst c. exact H. Qed.

(* ---- stripping padded tokens ---- *)
Lemma lstrip_by_pad : forall f pad s,
  Forall (fun c => f c = true) pad -> lstrip_by f (pad ++ s) = lstrip_by f s.
Proof.
  intros f pad s H. induction H as [|c pad Hc _ IH]; [reflexivity|].
  cbn [app lstrip_by]. rewrite Hc. exact IH.
Qed.

Lemma lstrip_by_keep : forall f s, Forall (fun c => f c = false) s -> lstrip_by f s = s.
Proof. intros f s H. destruct H as [|c s Hc _]; [reflexivity|]. cbn [lstrip_by]. rewrite Hc. reflexivity. Qed.

Lemma rstrip_by_all : forall f pad, Forall (fun c => f c = true) pad -> rstrip_by f pad = [].
Proof.
  intros f pad H. unfold rstrip_by.
  assert (G : lstrip_by f (rev pad) = []).
  { rewrite <- (app_nil_r (rev pad)). rewrite lstrip_by_pad; [reflexivity|].
    apply Forall_rev. exact H. }
  rewrite G. reflexivity.
Qed.

Lemma rstrip_by_keep : forall f s, Forall (fun c => f c = false) s -> rstrip_by f s = s.
Proof.
  intros f s H. unfold rstrip_by. rewrite (lstrip_by_keep f (rev s)); [apply rev_involutive|].
  apply Forall_rev. exact H.
Qed.

Lemma strip_by_padded : forall f p1 s p2,
  Forall (fun c => f c = true) p1 -> Forall (fun c => f c = true) p2 ->
  Forall (fun c => f c = false) s ->
  lstrip_by f (rstrip_by f (p1 ++ s ++ p2)) = s.
Proof.
  intros f p1 s p2 H1 H2 Hs.
  rewrite app_assoc, rstrip_by_app, (rstrip_by_all f p2 H2).
  rewrite rstrip_by_app, (rstrip_by_keep f s Hs), (rstrip_by_all f p1 H1).
  destruct s as [|c r]; [reflexivity|].
  rewrite lstrip_by_pad by exact H1. apply lstrip_by_keep. exact Hs.
Qed.

Lemma strip_sp_padded : forall k1 s k2,
  Forall (fun c => is_code 32%N c = false) s -> strip_sp (blanks k1 ++ s ++ blanks k2) = s.
Proof.
  intros k1 s k2 H. unfold strip_sp.
  apply strip_by_padded; [apply blanks_all, is_code_sp|apply blanks_all, is_code_sp|exact H].
Qed.

Lemma strip_padded : forall k1 s k2, spacefree s -> strip (blanks k1 ++ s ++ blanks k2) = s.
Proof.
  intros k1 s k2 H. unfold strip, rstrip.
  apply strip_by_padded; [apply blanks_all, is_space_sp|apply blanks_all, is_space_sp|exact H].
Qed.

Lemma strip_sp_blanks : forall k, strip_sp (blanks k) = [].
Proof.
  intro k. rewrite <- (app_nil_r (blanks k)). change (@nil ascii) with (@nil ascii ++ blanks 0) at 1.
  apply (strip_sp_padded k [] 0). constructor.
Qed.

(* ---- _to_int on a padded decimal token ---- *)
Lemma py_int_strip : forall a b, strip a = strip b -> py_int a = py_int b.
Proof. intros a b H. unfold py_int. rewrite H. reflexivity. Qed.

Lemma to_int_padded : forall k1 tok k2, good_tok tok ->
  to_int (blanks k1 ++ tok ++ blanks k2) = int_of tok.
Proof.
  intros k1 tok k2 [Hne Hsf]. unfold to_int.
  rewrite (strip_sp_padded k1 tok k2 (spacefree_code32 tok Hsf)).
  destruct tok as [|c r] eqn:E; [congruence|]. rewrite <- E in *.
  unfold int_of. f_equal. apply py_int_strip.
  rewrite (strip_padded k1 tok k2 Hsf). symmetry. apply strip_good. split; assumption.
Qed.

(* int(field) = v for a right-justified decimal numeral *)
Theorem to_int_rjust : forall w v, to_int (rjust w (text_of_Z v)) = ok v.
Proof.
  intros w v. unfold rjust.
  rewrite <- (app_nil_r (text_of_Z v)). change (@nil ascii) with (blanks 0).
  rewrite (to_int_padded _ _ 0 (text_of_Z_good v)). unfold int_of. rewrite py_int_text_of_Z. reflexivity.
Qed.

Theorem to_int_ljust : forall w v, to_int (ljust w (text_of_Z v)) = ok v.
Proof.
  intros w v. unfold ljust. change (text_of_Z v ++ blanks (w - length (text_of_Z v)))
    with (blanks 0 ++ text_of_Z v ++ blanks (w - length (text_of_Z v))).
  rewrite (to_int_padded 0 _ _ (text_of_Z_good v)). unfold int_of. rewrite py_int_text_of_Z. reflexivity.
Qed.

(* a blank field reads as 0 *)
Theorem to_int_blanks : forall w, to_int (blanks w) = ok 0%Z.
Proof. intro w. unfold to_int. rewrite strip_sp_blanks. reflexivity. Qed.

(* v fits a field of width w *)
Definition fitsw (w : nat) (v : Z) : Prop := length (text_of_Z v) <= w.

(* a numeric field: the value right-justified; the value 0 may also be left blank *)
Definition zfield (w : nat) (blank : bool) (v : Z) : text :=
  if blank && Z.eqb v 0 then blanks w else rjust w (text_of_Z v).

Lemma zfield_length : forall w b v, fitsw w v -> length (zfield w b v) = w.
Proof.
  intros w b v H. unfold zfield. destruct (b && Z.eqb v 0); [apply blanks_length|apply rjust_length, H].
Qed.

Theorem to_int_zfield : forall w b v, to_int (zfield w b v) = ok v.
Proof.
  intros w b v. unfold zfield. destruct b; cbn [andb]; [|apply to_int_rjust].
  destruct (Z.eqb v 0) eqn:E; [|apply to_int_rjust].
  apply Z.eqb_eq in E. subst v. apply to_int_blanks.
Qed.

(* three columns hold -99 .. 999 *)
Lemma fits3_range : forall v, (-99 <= v <= 999)%Z -> fitsw 3 v.
Proof.
  assert (G : forallb (fun n => Nat.leb (length (text_of_Z (Z.of_nat n - 99))) 3) (seq 0 1099) = true)
    by (vm_compute; reflexivity).
  intros v H. rewrite forallb_forall in G.
  specialize (G (Z.to_nat (v + 99))). unfold fitsw.
  replace (Z.of_nat (Z.to_nat (v + 99)) - 99)%Z with v in G by lia.
  apply Nat.leb_le, G, in_seq. lia.
Qed.

(* ---- Python slices of a line made of fields ---- *)
Theorem slice_field : forall a b (pre field post : text),
  length pre = a -> length field = b - a -> slice a b (pre ++ field ++ post) = field.
Proof.
  intros a b pre field post Hp Hf. unfold slice.
  rewrite (skipn_app_exact pre (field ++ post) a Hp).
  rewrite <- Hf. rewrite firstn_app, Nat.sub_diag, firstn_all. cbn [firstn]. apply app_nil_r.
Qed.

(* ------------------------------------------------------------------------------------ *)
(* 2. the abstract molecule and the reader's expected result                             *)
(* ------------------------------------------------------------------------------------ *)

Record atom2 := mkAtom2 {
  a_sym : text;                    (* element symbol as written in the file; D and T allowed *)
  a_chg : Z; a_rad : Z;            (* formal charge, radical (multiplicity code); 0 = none *)
  a_mass : Z;                      (* isotope mass; 0 = not stated *)
  a_x : text; a_y : text; a_z : text }.    (* the three coordinate fields, width 10 *)
Definition bond2 : Type := (Z * Z) * Z.    (* endpoints as 1-based positions, bond type *)
Record mol2 := mkMol2 { m_atoms : list atom2; m_bonds : list bond2 }.

Definition nzz (v : Z) : option Z := if Z.eqb v 0 then None else Some v.
(* D, T are spellings of H with a mass (hydrogen_isotope_table); other symbols denote themselves *)
Definition elem_of (s : text) : text := fst (detect_isotope s).
Definition sym_mass (s : text) : option Z := nzz (snd (detect_isotope s)).
Definition zn_of (s : text) : N := opt_default 0%N (z_of_symbol (elem_of s)).

Definition expected_atom (i : N) (a : atom2) : ratom :=
  mkRatom (Z.of_N i) (elem_of (a_sym a)) (zn_of (a_sym a))
          (nzz (a_chg a))
          (match nzz (a_mass a) with Some v => Some v | None => sym_mass (a_sym a) end)
          (nzz (a_rad a))
          (a_x a) (a_y a) (a_z a).
Definition expected_bond (b : bond2) : rbond := ((fst (fst b) - 1)%Z, (snd (fst b) - 1)%Z, snd b).
Definition expected2000 (M : mol2) : list ratom * list rbond :=
  (map (fun p => expected_atom (fst p) (snd p)) (enumerate_from 0 (m_atoms M)),
   map expected_bond (m_bonds M)).

Lemma elem_of_D : elem_of (t "D") = t "H" /\ sym_mass (t "D") = Some 2%Z.
Proof. vm_compute. split; reflexivity. Qed.
Lemma elem_of_T : elem_of (t "T") = t "H" /\ sym_mass (t "T") = Some 3%Z.
Proof. vm_compute. split; reflexivity. Qed.

(* ------------------------------------------------------------------------------------ *)
(* 3. the rendering                                                                      *)
(* ------------------------------------------------------------------------------------ *)

Definition in3 (v : Z) : Prop := (-99 <= v <= 999)%Z.      (* what a 3-column field can hold *)

Definition nosp (s : text) : Prop := Forall (fun c => is_code 32%N c = false) s.

Definition ok_atom (a : atom2) : Prop :=
  nosp (a_sym a) /\ length (a_sym a) <= 3 /\ z_of_symbol (elem_of (a_sym a)) <> None /\
  (length (a_x a) = 10 /\ length (a_y a) = 10 /\ length (a_z a) = 10) /\
  (float_field_ok (a_x a) = true /\ float_field_ok (a_y a) = true /\ float_field_ok (a_z a) = true).

Definition ok_bond (n : nat) (b : bond2) : Prop :=
  (1 <= fst (fst b) <= Z.of_nat n)%Z /\ (1 <= snd (fst b) <= Z.of_nat n)%Z /\ in3 (snd b) /\
  fst (fst b) <> snd (fst b).          (* a bond from an atom to itself is rejected by the reader *)

Definition okM2000 (M : mol2) : Prop :=
  length (m_atoms M) <= 999 /\ length (m_bonds M) <= 999 /\
  Forall ok_atom (m_atoms M) /\ Forall (ok_bond (length (m_atoms M))) (m_bonds M) /\
  NoDup (map fst (m_bonds M)).

(* ---- what the format leaves open ---- *)
Record achoice := mkAchoice {
  ac_g1 : text;        (* column 30 *)
  ac_g2 : text;        (* dd, mass difference, columns 34..35 -- ignored by the reader *)
  ac_code : Z;         (* ccc: charge code; a stale value when M  CHG / M  RAD lines exist *)
  ac_blank : bool;     (* write a zero code as blanks *)
  ac_rest : text }.    (* ssshhhbbbvvvHHHrrriiimmmnnneee, or anything else *)

Inductive pitem :=
| PLine (k : pkind) (es : list (Z * Z)) (rest : text)     (* M  CHG / RAD / ISO with entries (atom number, value) *)
| PText (l : text)                                        (* an unrelated property line *)
| PAlias (l1 l2 : text).                                  (* A  / G  line and its free text line *)

Record choices := mkChoices {
  c_h1 : text; c_h2 : text; c_h3 : text;      (* header block *)
  c_cblank : bool;                            (* counts: write zero counts as blanks *)
  c_cmid : text;                              (* fffccc *)
  c_crest : text;                             (* xxxrrrpppiiimmmvvvvvv *)
  c_atom : N -> achoice;
  c_bond : N -> text;                         (* sssxxxrrrccc of each bond line *)
  c_alist : list text;                        (* atom list lines *)
  c_sc : nat; c_stext : list text;            (* sss and the 2*sss stext lines *)
  c_items : list pitem;                       (* the properties block before M  END *)
  c_trailer : list text }.                    (* whatever follows M  END *)

Definition Zn (n : nat) : Z := Z.of_nat n.

Definition counts_line (M : mol2) (ch : choices) : text :=
  zfield 3 (c_cblank ch) (Zn (length (m_atoms M))) ++ zfield 3 (c_cblank ch) (Zn (length (m_bonds M)))
  ++ zfield 3 (c_cblank ch) (Zn (length (c_alist ch))) ++ c_cmid ch
  ++ zfield 3 (c_cblank ch) (Zn (c_sc ch)) ++ c_crest ch.

Definition atom_line (a : atom2) (c : achoice) : text :=
  a_x a ++ a_y a ++ a_z a ++ ac_g1 c ++ ljust 3 (a_sym a) ++ ac_g2 c
  ++ zfield 3 (ac_blank c) (ac_code c) ++ ac_rest c.

Definition bond_line (b : bond2) (rest : text) : text :=
  zfield 3 false (fst (fst b)) ++ zfield 3 false (snd (fst b)) ++ zfield 3 false (snd b) ++ rest.

Definition phead (k : pkind) : text :=
  match k with PChg => t "M  CHG" | PRad => t "M  RAD" | PIso => t "M  ISO" end.
(* " aaa vvv" *)
Definition entry (e : Z * Z) : text := sp :: zfield 3 false (fst e) ++ sp :: zfield 3 false (snd e).
Definition prop_line (k : pkind) (es : list (Z * Z)) (rest : text) : text :=
  phead k ++ zfield 3 false (Zn (length es)) ++ flat_map entry es ++ rest.

Definition item_lines (it : pitem) : list text :=
  match it with
  | PLine k es rest => [prop_line k es rest]
  | PText l => [l]
  | PAlias l1 l2 => [l1; l2]
  end.

Definition m_end : text := t "M  END".

Definition render2000 (M : mol2) (ch : choices) : list text :=
  [c_h1 ch; c_h2 ch; c_h3 ch; counts_line M ch]
  ++ map (fun p => atom_line (snd p) (c_atom ch (fst p))) (enumerate_from 0 (m_atoms M))
  ++ map (fun p => bond_line (snd p) (c_bond ch (fst p))) (enumerate_from 0 (m_bonds M))
  ++ c_alist ch ++ c_stext ch
  ++ flat_map item_lines (c_items ch) ++ [m_end] ++ c_trailer ch.

(* ---- side conditions on the choices ---- *)
Definition pkind_eqb (a b : pkind) : bool :=
  match a, b with PChg, PChg | PRad, PRad | PIso, PIso => true | _, _ => false end.

(* entries as the reader sees them: 0-based atom index *)
Definition dec (e : Z * Z) : Z * Z := ((fst e - 1)%Z, snd e).
Definition item_ents (k : pkind) (it : pitem) : list (Z * Z) :=
  match it with PLine k' es _ => if pkind_eqb k k' then map dec es else [] | _ => [] end.
(* all entries of kind k, in file order *)
Definition ents (k : pkind) (items : list pitem) : list (Z * Z) := flat_map (item_ents k) items.

(* the value of the last entry naming atom a *)
Fixpoint lastv (es : list (Z * Z)) (a : Z) : option Z :=
  match es with
  | [] => None
  | (k, v) :: r => match lastv r a with Some w => Some w | None => if Z.eqb k a then Some v else None end
  end.

Definition is_chgrad (it : pitem) : bool :=
  match it with PLine PChg _ _ | PLine PRad _ _ => true | _ => false end.
Definition has_chgrad (items : list pitem) : bool := existsb is_chgrad items.

(* the atom-block charge code table, as the reader applies it *)
Definition chg_of_code (c : Z) : option Z := match charge_code c with Some (true, v) => Some v | _ => None end.
Definition rad_of_code (c : Z) : option Z := match charge_code c with Some (false, v) => Some v | _ => None end.

Definition unrelated (l : text) : Prop :=
  starts_with (t "A  ") l = false /\ starts_with (t "G  ") l = false /\
  starts_with (t "M  CHG") l = false /\ starts_with (t "M  RAD") l = false /\
  starts_with (t "M  ISO") l = false /\ text_eqb l m_end = false.

Definition ok_entry (n : nat) (e : Z * Z) : Prop := (1 <= fst e <= Z.of_nat n)%Z /\ in3 (snd e).

(* the reader rejects a negative value on an M  RAD / M  ISO line (any entry, also one that a later
   entry overrides); M  CHG values are free *)
Definition nonneg_kind (k : pkind) (es : list (Z * Z)) : Prop :=
  match k with PChg => True | _ => Forall (fun e => (0 <= snd e)%Z) es end.

Definition ok_item (n : nat) (it : pitem) : Prop :=
  match it with
  | PLine k es rest => length es <= 999 /\ Forall (ok_entry n) es /\ nonneg_kind k es
  | PText l => unrelated l
  | PAlias l1 l2 => starts_with (t "A  ") l1 || starts_with (t "G  ") l1 = true
  end.

Definition ok_achoice (c : achoice) : Prop := length (ac_g1 c) = 1 /\ length (ac_g2 c) = 2 /\ in3 (ac_code c).

(* how charges, radicals and masses are stated:
   - masses: the last M  ISO entry naming the atom (0 or no entry = not stated);
   - charges / radicals: if the file has any M  CHG / M  RAD line, the last entry of the
     respective kind naming the atom, the atom-block code being a stale arbitrary value;
     otherwise the atom-block charge code, which must express both.                      *)
Definition states (M : mol2) (ch : choices) (i : N) (a : atom2) : Prop :=
  nz (lastv (ents PIso (c_items ch)) (Z.of_N i)) = nzz (a_mass a) /\
  if has_chgrad (c_items ch)
  then nz (lastv (ents PChg (c_items ch)) (Z.of_N i)) = nzz (a_chg a) /\
       nz (lastv (ents PRad (c_items ch)) (Z.of_N i)) = nzz (a_rad a)
  else chg_of_code (ac_code (c_atom ch i)) = nzz (a_chg a) /\
       rad_of_code (ac_code (c_atom ch i)) = nzz (a_rad a).

Definition okch2000 (M : mol2) (ch : choices) : Prop :=
  length (c_cmid ch) = 6 /\ length (c_alist ch) <= 999 /\ c_sc ch <= 999 /\
  length (c_stext ch) = 2 * c_sc ch /\
  Forall (ok_item (length (m_atoms M))) (c_items ch) /\
  (forall i a, In (i, a) (enumerate_from 0 (m_atoms M)) -> ok_achoice (c_atom ch i) /\ states M ch i a).

(* ------------------------------------------------------------------------------------ *)
(* 4. decoding lines                                                                     *)
(* ------------------------------------------------------------------------------------ *)

Lemma in3_fits : forall v, in3 v -> fitsw 3 v.
Proof. intros v H. apply fits3_range, H. Qed.

Lemma zfield3_length : forall b v, in3 v -> length (zfield 3 b v) = 3.
Proof. intros b v H. apply zfield_length, in3_fits, H. Qed.

Lemma in3_nat : forall n, n <= 999 -> in3 (Zn n).
Proof. intros n H. unfold in3, Zn. lia. Qed.

Lemma in3_idx : forall n a, n <= 999 -> (1 <= a <= Z.of_nat n)%Z -> in3 a.
Proof. intros n a H Ha. unfold in3. lia. Qed.

Lemma valid_index_pred : forall n a, (1 <= a <= Z.of_nat n)%Z -> valid_index n (a - 1) = true.
Proof.
  intros n a H. unfold valid_index. apply andb_true_iff. split; [apply Z.leb_le|apply Z.ltb_lt]; lia.
Qed.

(* ---- atom lines ---- *)
Section AtomLine.
  Variable a : atom2.
  Variable c : achoice.
  Hypothesis Ha : ok_atom a.
  Hypothesis Hc : ok_achoice c.

  Lemma aslice0 : aslice 0 (atom_line a c) = a_x a.
  Proof.
    pose proof Ha as Ha'; destruct Ha' as [_ [_ [_ [[Hx [Hy Hz]] _]]]].
    change (aslice 0 (atom_line a c)) with (slice 0 10 (atom_line a c)). unfold atom_line.
    apply (slice_field 0 10 []); [reflexivity|exact Hx].
  Qed.

  Lemma aslice1 : aslice 1 (atom_line a c) = a_y a.
  Proof.
    pose proof Ha as Ha'; destruct Ha' as [_ [_ [_ [[Hx [Hy Hz]] _]]]].
    change (aslice 1 (atom_line a c)) with (slice 10 20 (atom_line a c)). unfold atom_line.
    apply slice_field; [exact Hx|exact Hy].
  Qed.

  Lemma aslice2 : aslice 2 (atom_line a c) = a_z a.
  Proof.
    pose proof Ha as Ha'; destruct Ha' as [_ [_ [_ [[Hx [Hy Hz]] _]]]].
    change (aslice 2 (atom_line a c)) with (slice 20 30 (atom_line a c)). unfold atom_line.
    rewrite (app_assoc (a_x a)).
    apply slice_field; [rewrite app_length; unfold text in *; lia|exact Hz].
  Qed.

  Lemma aslice3 : aslice 3 (atom_line a c) = ljust 3 (a_sym a).
  Proof.
    pose proof Ha as Ha'; destruct Ha' as [_ [Hs [_ [[Hx [Hy Hz]] _]]]]. pose proof Hc as Hc'; destruct Hc' as [H1 [H2 _]].
    change (aslice 3 (atom_line a c)) with (slice 31 34 (atom_line a c)). unfold atom_line.
    replace (a_x a ++ a_y a ++ a_z a ++ ac_g1 c ++ ljust 3 (a_sym a) ++ ac_g2 c ++ zfield 3 (ac_blank c) (ac_code c) ++ ac_rest c)
      with ((a_x a ++ a_y a ++ a_z a ++ ac_g1 c) ++ ljust 3 (a_sym a) ++ (ac_g2 c ++ zfield 3 (ac_blank c) (ac_code c) ++ ac_rest c))
      by (repeat rewrite <- app_assoc; reflexivity).
    apply slice_field; [rewrite !app_length; unfold text in *; lia|rewrite ljust_length; [reflexivity|exact Hs]].
  Qed.

  Lemma aslice4 : aslice 4 (atom_line a c) = zfield 3 (ac_blank c) (ac_code c).
  Proof.
    pose proof Ha as Ha'; destruct Ha' as [_ [Hs [_ [[Hx [Hy Hz]] _]]]]. pose proof Hc as Hc'; destruct Hc' as [H1 [H2 H3]].
    change (aslice 4 (atom_line a c)) with (slice 36 39 (atom_line a c)). unfold atom_line.
    replace (a_x a ++ a_y a ++ a_z a ++ ac_g1 c ++ ljust 3 (a_sym a) ++ ac_g2 c ++ zfield 3 (ac_blank c) (ac_code c) ++ ac_rest c)
      with ((a_x a ++ a_y a ++ a_z a ++ ac_g1 c ++ ljust 3 (a_sym a) ++ ac_g2 c) ++ zfield 3 (ac_blank c) (ac_code c) ++ ac_rest c)
      by (repeat rewrite <- app_assoc; reflexivity).
    apply slice_field; [rewrite !app_length, (ljust_length 3 _ Hs); unfold text in *; lia|
                        rewrite zfield3_length; [reflexivity|exact H3]].
  Qed.

  (* the atom as the atom block alone gives it *)
  Definition pre_atom (i : N) : ratom :=
    mkRatom (Z.of_N i) (elem_of (a_sym a)) (zn_of (a_sym a))
            (chg_of_code (ac_code c)) (sym_mass (a_sym a)) (rad_of_code (ac_code c))
            (a_x a) (a_y a) (a_z a).

  Lemma parse_atom_line_render : forall i, parse_atom_line i (atom_line a c) = ok (pre_atom i).
  Proof.
    intro i. unfold parse_atom_line. rewrite aslice0, aslice1, aslice2, aslice3, aslice4.
    pose proof Ha as Ha'; destruct Ha' as [Hn [Hs [Hz [_ [Fx [Fy Fz]]]]]].
    unfold ljust. change (a_sym a ++ blanks (3 - length (a_sym a)))
      with (blanks 0 ++ a_sym a ++ blanks (3 - length (a_sym a))).
    rewrite (strip_sp_padded 0 (a_sym a) _ Hn).
    unfold pre_atom, zn_of, sym_mass, elem_of in *.
    destruct (detect_isotope (a_sym a)) as [s iso]. cbn [fst snd] in *.
    destruct (z_of_symbol s) as [zn|]; [|congruence]. cbn [of_opt bind opt_default].
    rewrite Fx, Fy, Fz. cbn [andb negb]. rewrite to_int_zfield. cbn [bind]. reflexivity.
  Qed.
End AtomLine.

Lemma parse_atom_lines_render : forall (cf : N -> achoice) ats i,
  Forall ok_atom ats ->
  (forall j a, In (j, a) (enumerate_from i ats) -> ok_achoice (cf j)) ->
  parse_atom_lines i (map (fun p => atom_line (snd p) (cf (fst p))) (enumerate_from i ats))
  = ok (map (fun p => pre_atom (snd p) (cf (fst p)) (fst p)) (enumerate_from i ats)).
Proof.
  intros cf ats. induction ats as [|a ats IH]; intros i Ha Hc; [reflexivity|].
  inversion Ha as [|? ? Ha1 Ha2]; subst.
  cbn [enumerate_from map parse_atom_lines fst snd].
  rewrite (parse_atom_line_render a (cf i) Ha1 (Hc i a (or_introl eq_refl))). cbn [bind].
  rewrite (IH (N.succ i) Ha2); [reflexivity|].
  intros j b Hj. apply (Hc j b). right. exact Hj.
Qed.

Lemma enumerate_from_length : forall (A : Type) (l : list A) i, length (enumerate_from i l) = length l.
Proof. intros A l. induction l as [|x l IH]; intro i; [reflexivity|]. cbn [enumerate_from length]. rewrite IH. reflexivity. Qed.

(* ---- bond lines ---- *)
Definition bkey_eq (a b : Z * Z) : bool := Z.eqb (fst a) (fst b) && Z.eqb (snd a) (snd b).

Lemma bkey_eq_false : forall a b, a <> b -> bkey_eq a b = false.
Proof.
  intros [a1 a2] [b1 b2] H. unfold bkey_eq. cbn [fst snd].
  destruct (Z.eqb a1 b1) eqn:E1; [|reflexivity]. destruct (Z.eqb a2 b2) eqn:E2; [|reflexivity].
  apply Z.eqb_eq in E1, E2. subst. congruence.
Qed.

Lemma dict_set_fresh : forall (K V : Type) (eqb : K -> K -> bool) k (v : V) d,
  (forall k', In k' (map fst d) -> eqb k' k = false) -> dict_set eqb k v d = d ++ [(k, v)].
Proof.
  intros K V eqb k v d. induction d as [|[k' v'] d IH]; intro H; [reflexivity|].
  cbn [dict_set app]. rewrite (H k' (or_introl eq_refl)). rewrite IH; [reflexivity|].
  intros k'' Hk. apply H. right. exact Hk.
Qed.

Section BondLine.
  Variable n : nat.
  Hypothesis Hn : n <= 999.

  Lemma bslices : forall b rest, ok_bond n b ->
    bslice 0 (bond_line b rest) = zfield 3 false (fst (fst b)) /\
    bslice 1 (bond_line b rest) = zfield 3 false (snd (fst b)) /\
    bslice 2 (bond_line b rest) = zfield 3 false (snd b).
  Proof.
    intros b rest [H1 [H2 [H3 _]]].
    pose proof (zfield3_length false _ (in3_idx n _ Hn H1)) as L1.
    pose proof (zfield3_length false _ (in3_idx n _ Hn H2)) as L2.
    pose proof (zfield3_length false _ H3) as L3.
    change (bslice 0 (bond_line b rest)) with (slice 0 3 (bond_line b rest)).
    change (bslice 1 (bond_line b rest)) with (slice 3 6 (bond_line b rest)).
    change (bslice 2 (bond_line b rest)) with (slice 6 9 (bond_line b rest)).
    unfold bond_line. split; [|split].
    - apply (slice_field 0 3 []); [reflexivity|exact L1].
    - apply slice_field; [exact L1|exact L2].
    - rewrite (app_assoc (zfield 3 false (fst (fst b)))).
      apply slice_field; [rewrite app_length; unfold text in *; lia|exact L3].
  Qed.

  Definition bkey (b : bond2) : Z * Z := fst (expected_bond b).

  Lemma parse_bond_lines_render : forall (bf : N -> text) bds j acc,
    Forall (ok_bond n) bds ->
    NoDup (map fst acc ++ map bkey bds) ->
    parse_bond_lines n (map (fun p => bond_line (snd p) (bf (fst p))) (enumerate_from j bds)) acc
    = ok (acc ++ map expected_bond bds).
  Proof.
    intros bf bds. induction bds as [|b bds IH]; intros j acc Hb Hnd.
    - cbn [enumerate_from map parse_bond_lines]. rewrite app_nil_r. reflexivity.
    - inversion Hb as [|? ? Hb1 Hb2]; subst.
      cbn [enumerate_from map parse_bond_lines fst snd].
      destruct (bslices b (bf j) Hb1) as [E0 [E1 E2]]. rewrite E0, E1, E2.
      rewrite !to_int_zfield. cbn [bind ok].
      destruct Hb1 as [H1 [H2 [H3 H4]]].
      rewrite (valid_index_pred n _ H1), (valid_index_pred n _ H2). cbn [negb bind ok].
      replace (Z.eqb (fst (fst b)) (snd (fst b))) with false by (symmetry; apply Z.eqb_neq; exact H4).
      change (fun a b0 : Z * Z => Z.eqb (fst a) (fst b0) && Z.eqb (snd a) (snd b0)) with bkey_eq.
      rewrite dict_set_fresh.
      + rewrite (IH (N.succ j) _ Hb2).
        * rewrite <- app_assoc. reflexivity.
        * rewrite map_app, <- app_assoc. exact Hnd.
      + intros k' Hk. apply bkey_eq_false. intro E. subst k'.
        cbn [map] in Hnd. apply NoDup_remove_2 in Hnd. apply Hnd, in_or_app. left. exact Hk.
  Qed.
End BondLine.

Lemma bkey_NoDup : forall bds : list bond2, NoDup (map fst bds) -> NoDup (map bkey bds).
Proof.
  intros bds H.
  replace (map bkey bds) with (map (fun k : Z * Z => ((fst k - 1)%Z, (snd k - 1)%Z)) (map fst bds))
    by (rewrite map_map; reflexivity).
  apply FinFun.Injective_map_NoDup; [|exact H].
  intros [a1 a2] [b1 b2] E. cbn [fst snd] in E. inversion E. f_equal; lia.
Qed.

(* ---- property lines: M  XXXnn8 aaa vvv aaa vvv ... ---- *)
Lemma slice_skip : forall (P X : text) a b, slice (length P + a) (length P + b) (P ++ X) = slice a b X.
Proof.
  intros P X a b. unfold slice. rewrite skipn_app, (skipn_all2 P) by lia. cbn [app].
  replace (length P + a - length P) with a by lia.
  replace (length P + b - (length P + a)) with (b - a) by lia. reflexivity.
Qed.

Lemma entry_fields : forall A V Q : text, length A = 3 -> length V = 3 ->
  slice 1 4 (sp :: A ++ sp :: V ++ Q) = A /\ slice 5 8 (sp :: A ++ sp :: V ++ Q) = V.
Proof.
  intros A V Q HA HV. split.
  - change (sp :: A ++ sp :: V ++ Q) with ([sp] ++ A ++ (sp :: V ++ Q)).
    apply slice_field; [reflexivity|exact HA].
  - replace (sp :: A ++ sp :: V ++ Q) with ((sp :: A ++ [sp]) ++ V ++ Q)
      by (cbn [app]; rewrite <- app_assoc; reflexivity).
    apply slice_field; [cbn [length]; rewrite app_length; cbn [length]; unfold text in *; lia|exact HV].
Qed.

Section PropLine.
  Variable n : nat.
  Hypothesis Hn : n <= 999.

  Lemma entry_length : forall e, ok_entry n e -> length (entry e) = 8.
  Proof.
    intros e [H1 H2]. unfold entry. cbn [length]. rewrite app_length. cbn [length].
    rewrite (zfield3_length false _ (in3_idx n _ Hn H1)), (zfield3_length false _ H2). reflexivity.
  Qed.

  Lemma entries_length : forall es, Forall (ok_entry n) es -> length (flat_map entry es) = 8 * length es.
  Proof.
    intros es H. induction H as [|e es He _ IH]; [reflexivity|].
    cbn [flat_map length]. rewrite app_length, (entry_length e He), IH. lia.
  Qed.

  (* the column arithmetic, for the entry in any position: with [pre] the part of the line
     before the first entry (M  XXXnn8, nine columns) the entry after [done] others has its atom
     number in columns [len pre + 1 + 8i, +3) and its value in columns [len pre + 5 + 8i, +3) *)
  Lemma entry_at : forall (pre rest : text) done e todo,
    Forall (ok_entry n) done -> ok_entry n e ->
    let line := pre ++ flat_map entry (done ++ e :: todo) ++ rest in
    let s := length pre + 1 + 8 * length done in
    slice s (s + 3) line = zfield 3 false (fst e) /\ slice (s + 4) (s + 7) line = zfield 3 false (snd e).
  Proof.
    intros pre rest done e todo Hd He line s.
    set (P := pre ++ flat_map entry done).
    set (Q := flat_map entry todo ++ rest).
    assert (E : line = P ++ sp :: zfield 3 false (fst e) ++ sp :: zfield 3 false (snd e) ++ Q).
    { unfold line, P, Q. rewrite flat_map_app. cbn [flat_map]. unfold entry at 2.
      repeat (rewrite <- app_assoc || rewrite <- app_comm_cons). reflexivity. }
    assert (LP : length P = length pre + 8 * length done).
    { unfold P. rewrite app_length, (entries_length done Hd). reflexivity. }
    destruct He as [H1 H2].
    destruct (entry_fields _ _ Q (zfield3_length false _ (in3_idx n _ Hn H1)) (zfield3_length false _ H2)) as [F1 F2].
    rewrite E. split.
    - replace s with (length P + 1) by (unfold s; lia).
      replace (length P + 1 + 3) with (length P + 4) by lia. rewrite slice_skip. exact F1.
    - replace (s + 4) with (length P + 5) by (unfold s; lia).
      replace (s + 7) with (length P + 8) by (unfold s; lia). rewrite slice_skip. exact F2.
  Qed.

  Lemma assignments_render : forall (pre rest : text) todo done,
    length pre = 9 -> Forall (ok_entry n) done -> Forall (ok_entry n) todo ->
    assignments n (pre ++ flat_map entry (done ++ todo) ++ rest) (length todo) (length done)
    = ok (map dec todo).
  Proof.
    intros pre rest todo. induction todo as [|e todo IH]; intros done Hp Hd Ht; [reflexivity|].
    inversion Ht as [|? ? He Ht']; subst.
    cbn [length assignments].
    change Params.v2000_tuple_offset with 10. change Params.v2000_tuple_length with 8.
    destruct (entry_at pre rest done e todo Hd He) as [F1 F2]. cbv zeta in F1, F2.
    replace (length pre + 1 + 8 * length done) with (10 + length done * 8) in F1, F2 by lia.
    rewrite F1, F2, !to_int_zfield. cbn [bind ok].
    destruct He as [H1 H2]. rewrite (valid_index_pred n _ H1). cbn [negb].
    replace (done ++ e :: todo) with ((done ++ [e]) ++ todo) by (rewrite <- app_assoc; reflexivity).
    replace (S (length done)) with (length (done ++ [e])) by (rewrite app_length; cbn [length]; lia).
    rewrite (IH (done ++ [e]) Hp); [reflexivity| |exact Ht'].
    apply Forall_app. split; [exact Hd|]. constructor; [split; assumption|constructor].
  Qed.

  Lemma phead_length : forall k, length (phead k) = 6.
  Proof. destruct k; reflexivity. Qed.

  Lemma parse_assignments_render : forall k es rest,
    length es <= 999 -> Forall (ok_entry n) es ->
    parse_assignments n (prop_line k es rest) = ok (map dec es).
  Proof.
    intros k es rest Hl He. unfold parse_assignments.
    change (nth_slice 0 Params.v2000_count_slices (0, 0)) with (6, 9). cbn [fst snd].
    pose proof (zfield3_length false _ (in3_nat _ Hl)) as Lc.
    unfold prop_line.
    rewrite (slice_field 6 9 (phead k) _ _ (phead_length k) Lc).
    rewrite to_int_zfield. cbn [bind ok]. unfold Zn. rewrite Nat2Z.id.
    rewrite app_assoc.
    apply (assignments_render (phead k ++ zfield 3 false (Z.of_nat (length es))) rest es []);
      [rewrite app_length, phead_length; unfold text in *; fold (Zn (length es)); lia|constructor|exact He].
  Qed.

  Lemma parse_assignments_nonneg_render : forall k es rest,
    length es <= 999 -> Forall (ok_entry n) es -> Forall (fun e => (0 <= snd e)%Z) es ->
    parse_assignments_nonneg n (prop_line k es rest) = ok (map dec es).
  Proof.
    intros k es rest Hl He Hnn. unfold parse_assignments_nonneg.
    rewrite (parse_assignments_render k es rest Hl He). cbn [bind ok].
    assert (E : existsb (fun p : Z * Z => Z.ltb (snd p) 0) (map dec es) = false).
    { clear Hl He. induction Hnn as [|e r H0 _ IH]; [reflexivity|]. cbn [map existsb dec snd].
      rewrite IH, orb_false_r. apply Z.ltb_ge. exact H0. }
    rewrite E. reflexivity.
  Qed.

  (* entry i of a property line, columns as documented: [10+8i,13+8i) and [14+8i,17+8i) *)
  Theorem entry_columns : forall k es rest i e,
    length es <= 999 -> Forall (ok_entry n) es -> nth_error es i = Some e ->
    Params.v2000_tuple_offset = 10 /\ Params.v2000_tuple_length = 8 /\
    to_int (slice (10 + 8 * i) (13 + 8 * i) (prop_line k es rest)) = ok (fst e) /\
    to_int (slice (14 + 8 * i) (17 + 8 * i) (prop_line k es rest)) = ok (snd e).
  Proof.
    intros k es rest i e Hl He Hi. split; [reflexivity|]. split; [reflexivity|].
    destruct (nth_error_split es i Hi) as [done [todo [E Li]]].
    pose proof (zfield3_length false _ (in3_nat _ Hl)) as Lc.
    rewrite E in He. apply Forall_app in He. destruct He as [Hd He]. inversion He as [|? ? He1 _]; subst es.
    unfold prop_line. rewrite app_assoc.
    destruct (entry_at (phead k ++ zfield 3 false (Zn (length (done ++ e :: todo)))) rest done e todo Hd He1) as [F1 F2].
    cbv zeta in F1, F2. rewrite app_length, phead_length in F1, F2.
    unfold text in *. rewrite Lc in F1, F2.
    replace (6 + 3 + 1 + 8 * length done) with (10 + 8 * i) in F1, F2 by lia.
    replace (10 + 8 * i + 3) with (13 + 8 * i) in F1 by lia.
    replace (10 + 8 * i + 4) with (14 + 8 * i) in F2 by lia.
    replace (10 + 8 * i + 7) with (17 + 8 * i) in F2 by lia.
    rewrite F1, F2, !to_int_zfield. split; reflexivity.
  Qed.
End PropLine.

(* ------------------------------------------------------------------------------------ *)
(* 5. the property block                                                                 *)
(* ------------------------------------------------------------------------------------ *)

(* the additional-attributes dictionary: lookup *)
Definition getx (a : Z) : list (Z * extra) -> option extra :=
  fix get (l : list (Z * extra)) : option extra :=
    match l with [] => None | (k', e) :: r' => if Z.eqb k' a then Some e else get r' end.

Definition fld (k : pkind) (o : option extra) : option Z :=
  match o with
  | None => None
  | Some e => match k with PChg => x_chg e | PRad => x_rad e | PIso => x_mass e end
  end.

Lemma merge_extra_cons : forall k a v r d,
  merge_extra k ((a, v) :: r) d
  = merge_extra k r (dict_set Z.eqb a (set_extra k v (match getx a d with Some e => e | None => mkExtra None None None end)) d).
Proof. reflexivity. Qed.

Lemma getx_dict_set : forall a' a e d,
  getx a' (dict_set Z.eqb a e d) = if Z.eqb a a' then Some e else getx a' d.
Proof.
  intros a' a e d. induction d as [|[k' e'] d IH].
  - reflexivity.
  - cbn [dict_set]. destruct (Z.eqb k' a) eqn:E.
    + apply Z.eqb_eq in E. subst k'. cbn [getx]. destruct (Z.eqb a a'); reflexivity.
    + cbn [getx]. rewrite IH. destruct (Z.eqb k' a') eqn:E2; [|reflexivity].
      apply Z.eqb_eq in E2. subst k'. rewrite Z.eqb_sym, E. reflexivity.
Qed.

Lemma fld_set_same : forall k v e, fld k (Some (set_extra k v e)) = Some v.
Proof. destruct k; reflexivity. Qed.
Lemma fld_set_other : forall k k' v e, pkind_eqb k' k = false -> fld k' (Some (set_extra k v e)) = fld k' (Some e).
Proof. destruct k, k'; intros v e H; try discriminate H; reflexivity. Qed.

(* within a kind the last entry naming an atom wins; other kinds are untouched *)
Lemma merge_fld_same : forall k asg d a,
  fld k (getx a (merge_extra k asg d))
  = match lastv asg a with Some v => Some v | None => fld k (getx a d) end.
Proof.
  intros k asg. induction asg as [|[b v] asg IH]; intros d a; [reflexivity|].
  rewrite merge_extra_cons, IH. cbn [lastv].
  destruct (lastv asg a); [reflexivity|].
  rewrite getx_dict_set. destruct (Z.eqb b a); [apply fld_set_same|reflexivity].
Qed.

Lemma merge_fld_other : forall k k' asg d a, pkind_eqb k' k = false ->
  fld k' (getx a (merge_extra k asg d)) = fld k' (getx a d).
Proof.
  intros k k' asg. induction asg as [|[b v] asg IH]; intros d a H; [reflexivity|].
  rewrite merge_extra_cons, (IH _ _ H). rewrite getx_dict_set.
  destruct (Z.eqb b a) eqn:E; [|reflexivity].
  apply Z.eqb_eq in E. subst b. rewrite (fld_set_other _ _ _ _ H).
  destruct (getx a d); [reflexivity|]. destruct k'; reflexivity.
Qed.

Lemma lastv_app : forall es1 es2 a,
  lastv (es1 ++ es2) a = match lastv es2 a with Some v => Some v | None => lastv es1 a end.
Proof.
  intros es1 es2 a. induction es1 as [|[k v] es1 IH]; [cbn [app lastv]; destruct (lastv es2 a); reflexivity|].
  cbn [app lastv]. rewrite IH. destruct (lastv es2 a); reflexivity.
Qed.

(* the dictionary after the whole block *)
Definition item_merge (d : list (Z * extra)) (it : pitem) : list (Z * extra) :=
  match it with PLine k es _ => merge_extra k (map dec es) d | _ => d end.
Definition final_dict (items : list pitem) (d : list (Z * extra)) : list (Z * extra) :=
  fold_left item_merge items d.

Lemma pkind_eqb_refl : forall k, pkind_eqb k k = true.
Proof. destruct k; reflexivity. Qed.

Lemma final_dict_fld : forall k items d a,
  fld k (getx a (final_dict items d))
  = match lastv (ents k items) a with Some v => Some v | None => fld k (getx a d) end.
Proof.
  intros k items. induction items as [|it items IH]; intros d a; [reflexivity|].
  cbn [final_dict fold_left]. fold (final_dict items (item_merge d it)). rewrite IH.
  unfold ents. cbn [flat_map]. fold (ents k items). rewrite lastv_app.
  destruct (lastv (ents k items) a); [reflexivity|].
  destruct it as [k' es rest| |]; cbn [item_merge item_ents lastv]; try reflexivity.
  destruct (pkind_eqb k k') eqn:E.
  - assert (k = k') by (destruct k, k'; try discriminate E; reflexivity). subst k'. apply merge_fld_same.
  - cbn [lastv]. apply merge_fld_other. exact E.
Qed.

Lemma starts_with_app_le : forall p q x, length p <= length q -> starts_with p (q ++ x) = starts_with p q.
Proof.
  induction p as [|a p IH]; intros q x H; [reflexivity|].
  destruct q as [|b q]; [cbn [length] in H; lia|].
  cbn [app starts_with]. rewrite IH; [reflexivity|]. cbn [length] in H. lia.
Qed.

Lemma text_eqb_length : forall a b, length a <> length b -> text_eqb a b = false.
Proof.
  induction a as [|x a IH]; destruct b as [|y b]; cbn [length text_eqb]; intro H; try reflexivity; [congruence|].
  rewrite IH; [apply andb_false_r|]. congruence.
Qed.

Lemma prop_line_dispatch : forall k es rest,
  starts_with (t "A  ") (prop_line k es rest) = false /\
  starts_with (t "G  ") (prop_line k es rest) = false /\
  starts_with (t "M  CHG") (prop_line k es rest) = pkind_eqb PChg k /\
  starts_with (t "M  RAD") (prop_line k es rest) = pkind_eqb PRad k /\
  starts_with (t "M  ISO") (prop_line k es rest) = pkind_eqb PIso k.
Proof.
  intros k es rest. unfold prop_line.
  repeat split; (rewrite starts_with_app_le; [destruct k; vm_compute; reflexivity|rewrite phead_length; vm_compute; lia]).
Qed.

Section Block.
  Variable n : nat.
  Hypothesis Hn : n <= 999.

  Theorem attribute_block_render : forall items trailer d reset,
    Forall (ok_item n) items ->
    attribute_block n (flat_map item_lines items ++ [m_end] ++ trailer) d reset
    = ok (final_dict items d, reset || has_chgrad items).
  Proof.
    intros items trailer. induction items as [|it items IH]; intros d reset H.
    - cbn [flat_map app attribute_block]. change (starts_with (t "A  ") m_end) with false.
      cbn [orb final_dict fold_left has_chgrad existsb]. rewrite orb_false_r. reflexivity.
    - inversion H as [|? ? Hi Hr]; subst.
      destruct it as [k es rest|l|l1 l2]; cbn [item_lines flat_map].
      + destruct Hi as [Hl [He Hnn]]. rewrite <- app_assoc. cbn [app attribute_block].
        destruct (prop_line_dispatch k es rest) as [D1 [D2 [D3 [D4 D5]]]].
        rewrite D1, D2, D3, D4, D5. cbn [orb].
        destruct k; cbn [pkind_eqb nonneg_kind] in *;
          [rewrite (parse_assignments_render n Hn _ es rest Hl He)
          |rewrite (parse_assignments_nonneg_render n Hn _ es rest Hl He Hnn)..];
          cbn [bind ok]; rewrite (IH _ _ Hr);
          cbn [final_dict fold_left item_merge has_chgrad existsb is_chgrad orb];
          rewrite ?orb_true_r; reflexivity.
      + destruct Hi as [U1 [U2 [U3 [U4 [U5 U6]]]]]. rewrite <- app_assoc. cbn [app attribute_block].
        rewrite U1, U2, U3, U4, U5. cbn [orb]. fold m_end. rewrite U6.
        rewrite (IH _ _ Hr). reflexivity.
      + cbn [ok_item] in Hi. rewrite <- app_assoc. cbn [app attribute_block]. rewrite Hi.
        rewrite (IH _ _ Hr). reflexivity.
  Qed.
End Block.

(* ------------------------------------------------------------------------------------ *)
(* 6. the whole file                                                                     *)
(* ------------------------------------------------------------------------------------ *)

Lemma apply_extra_fld : forall d reset a,
  apply_extra d reset a
  = mkRatom (r_idx a) (r_sym a) (r_zn a)
            (over (fld PChg (getx (r_idx a) d)) (if reset then None else r_chg a))
            (over (fld PIso (getx (r_idx a) d)) (r_mass a))
            (over (fld PRad (getx (r_idx a) d)) (if reset then None else r_rad a))
            (r_x a) (r_y a) (r_z a).
Proof.
  intros d reset a. unfold apply_extra.
  change ((fix get (l : list (Z * extra)) : option extra :=
             match l with [] => None | (k', e) :: r' => if Z.eqb k' (r_idx a) then Some e else get r' end) d)
    with (getx (r_idx a) d).
  destruct (getx (r_idx a) d); reflexivity.
Qed.

Lemma firstn_app_exact : forall (A : Type) (a b : list A) n, length a = n -> firstn n (a ++ b) = a.
Proof.
  intros A a b n H. subst n. rewrite firstn_app, Nat.sub_diag, firstn_all. cbn [firstn]. apply app_nil_r.
Qed.

(* where the blocks of a connection table sit *)
Lemma layout : forall (h1 h2 h3 c : text) (AL BL L S PB : list text),
  let lines := h1 :: h2 :: h3 :: c :: AL ++ BL ++ L ++ S ++ PB in
  nth_tok 3 lines = ok c /\
  firstn (length AL) (skipn 4 lines) = AL /\
  firstn (length BL) (skipn (4 + length AL) lines) = BL /\
  skipn (4 + length AL + length BL + length L + length S) lines = PB.
Proof.
  intros h1 h2 h3 c AL BL L S PB lines. unfold lines. split; [reflexivity|]. split; [|split].
  - cbn [skipn]. apply firstn_app_exact. reflexivity.
  - cbn [Nat.add skipn]. rewrite skipn_app_exact by reflexivity. apply firstn_app_exact. reflexivity.
  - replace (4 + length AL + length BL + length L + length S)
      with (4 + (length AL + length BL + length L + length S)) by lia.
    cbn [Nat.add skipn].
    replace (AL ++ BL ++ L ++ S ++ PB) with ((AL ++ BL ++ L ++ S) ++ PB)
      by (repeat rewrite <- app_assoc; reflexivity).
    apply skipn_app_exact. rewrite !app_length. lia.
Qed.

Lemma counts_slices : forall M ch, okM2000 M -> okch2000 M ch ->
  slice 0 3 (counts_line M ch) = zfield 3 (c_cblank ch) (Zn (length (m_atoms M))) /\
  slice 3 6 (counts_line M ch) = zfield 3 (c_cblank ch) (Zn (length (m_bonds M))) /\
  slice 6 9 (counts_line M ch) = zfield 3 (c_cblank ch) (Zn (length (c_alist ch))) /\
  slice 15 18 (counts_line M ch) = zfield 3 (c_cblank ch) (Zn (c_sc ch)).
Proof.
  intros M ch [Ha [Hb _]] [Hm [Hl [Hs _]]].
  pose proof (zfield3_length (c_cblank ch) _ (in3_nat _ Ha)) as L1.
  pose proof (zfield3_length (c_cblank ch) _ (in3_nat _ Hb)) as L2.
  pose proof (zfield3_length (c_cblank ch) _ (in3_nat _ Hl)) as L3.
  pose proof (zfield3_length (c_cblank ch) _ (in3_nat _ Hs)) as L4.
  unfold counts_line.
  set (F1 := zfield 3 (c_cblank ch) (Zn (length (m_atoms M)))) in *.
  set (F2 := zfield 3 (c_cblank ch) (Zn (length (m_bonds M)))) in *.
  set (F3 := zfield 3 (c_cblank ch) (Zn (length (c_alist ch)))) in *.
  set (F4 := zfield 3 (c_cblank ch) (Zn (c_sc ch))) in *.
  split; [|split; [|split]].
  - apply (slice_field 0 3 []); [reflexivity|exact L1].
  - apply slice_field; [exact L1|exact L2].
  - rewrite (app_assoc F1). apply slice_field; [rewrite app_length; unfold text in *; lia|exact L3].
  - replace (F1 ++ F2 ++ F3 ++ c_cmid ch ++ F4 ++ c_crest ch)
      with ((F1 ++ F2 ++ F3 ++ c_cmid ch) ++ F4 ++ c_crest ch)
      by (repeat rewrite <- app_assoc; reflexivity).
    apply slice_field; [rewrite !app_length; unfold text in *; lia|exact L4].
Qed.

Lemma to_nat_idx_nat : forall k, to_nat_idx (Zn k) = ok k.
Proof.
  intro k. unfold to_nat_idx, Zn. destruct (Z.ltb (Z.of_nat k) 0) eqn:E; [apply Z.ltb_lt in E; lia|].
  rewrite Nat2Z.id. reflexivity.
Qed.

Lemma no_chgrad_ents : forall items, has_chgrad items = false -> ents PChg items = [] /\ ents PRad items = [].
Proof.
  induction items as [|it items IH]; intro H; [split; reflexivity|].
  cbn [has_chgrad existsb] in H. apply orb_false_iff in H. destruct H as [H1 H2].
  destruct (IH H2) as [E1 E2]. unfold ents in *. cbn [flat_map]. rewrite E1, E2.
  destruct it as [[| |] es rest| |]; try discriminate H1; split; reflexivity.
Qed.

Lemma over_none : forall lv, over lv None = nz lv.
Proof. intro lv. unfold over. destruct (nz lv); reflexivity. Qed.

Theorem read_v2000_render : forall M ch,
  okM2000 M -> okch2000 M ch -> read_v2000 (render2000 M ch) = ok (expected2000 M).
Proof.
  intros M ch HM Hch.
  destruct (counts_slices M ch HM Hch) as [C1 [C2 [C3 C4]]].
  destruct HM as [Hna [Hnb [Hats [Hbds Hnd]]]].
  destruct Hch as [_ [_ [_ [Hst [Hitems Hper]]]]].
  unfold read_v2000, render2000. cbn [app].
  set (AL := map (fun p => atom_line (snd p) (c_atom ch (fst p))) (enumerate_from 0 (m_atoms M))).
  set (BL := map (fun p => bond_line (snd p) (c_bond ch (fst p))) (enumerate_from 0 (m_bonds M))).
  set (PB := flat_map item_lines (c_items ch) ++ m_end :: c_trailer ch).
  assert (LA : length AL = length (m_atoms M)) by (unfold AL; rewrite map_length; apply enumerate_from_length).
  assert (LB : length BL = length (m_bonds M)) by (unfold BL; rewrite map_length; apply enumerate_from_length).
  destruct (layout (c_h1 ch) (c_h2 ch) (c_h3 ch) (counts_line M ch) AL BL (c_alist ch) (c_stext ch) PB)
    as [Y1 [Y2 [Y3 Y4]]].
  rewrite LA in Y2, Y3, Y4. rewrite LB in Y3, Y4. rewrite Hst in Y4.
  rewrite Y1. cbn [bind ok]. rewrite C1, C2, C3, C4, !to_int_zfield. cbn [bind ok].
  rewrite !to_nat_idx_nat. cbn [bind ok].
  rewrite Y2, Y3, Y4.
  unfold AL. rewrite (parse_atom_lines_render (c_atom ch) (m_atoms M) 0 Hats)
    by (intros j a Hj; apply (Hper j a Hj)).
  cbn [bind ok]. rewrite map_length, enumerate_from_length.
  unfold BL. rewrite (parse_bond_lines_render (length (m_atoms M)) Hna (c_bond ch) (m_bonds M) 0 [] Hbds)
    by (cbn [map app]; apply bkey_NoDup, Hnd).
  cbn [bind ok app]. unfold PB. change (m_end :: c_trailer ch) with ([m_end] ++ c_trailer ch).
  rewrite (attribute_block_render (length (m_atoms M)) Hna (c_items ch) (c_trailer ch) [] false Hitems).
  cbn [bind ok orb]. unfold expected2000, ok. apply f_equal. apply f_equal2.
  - rewrite map_map. apply map_ext_in. intros [i a] Hin. cbn [fst snd].
    destruct (Hper i a Hin) as [_ [Hiso Hcr]].
    rewrite apply_extra_fld. unfold pre_atom, expected_atom.
    cbn [r_idx r_sym r_zn r_chg r_mass r_rad r_x r_y r_z].
    rewrite !final_dict_fld. cbn [getx fld].
    assert (G : forall o : option Z, match o with Some v => Some v | None => None end = o) by (destruct o; reflexivity).
    rewrite !G.
    assert (Em : over (lastv (ents PIso (c_items ch)) (Z.of_N i)) (sym_mass (a_sym a))
                 = match nzz (a_mass a) with Some v => Some v | None => sym_mass (a_sym a) end).
    { unfold over. rewrite Hiso. reflexivity. }
    rewrite Em.
    destruct (has_chgrad (c_items ch)) eqn:R.
    + destruct Hcr as [Hc Hr]. rewrite !over_none, Hc, Hr. reflexivity.
    + destruct Hcr as [Hc Hr]. destruct (no_chgrad_ents _ R) as [E1 E2]. rewrite E1, E2.
      cbn [lastv]. unfold over. cbn [nz]. rewrite Hc, Hr. reflexivity.
  - rewrite map_map. apply map_ext. intro b. reflexivity.
Qed.

(* ---- corollaries ---- *)

(* the result does not depend on anything the format leaves open *)
Corollary render_choice_independent : forall M ch1 ch2,
  okM2000 M -> okch2000 M ch1 -> okch2000 M ch2 ->
  read_v2000 (render2000 M ch1) = read_v2000 (render2000 M ch2).
Proof.
  intros M ch1 ch2 HM H1 H2.
  rewrite (read_v2000_render M ch1 HM H1), (read_v2000_render M ch2 HM H2). reflexivity.
Qed.

(* M  CHG / M  RAD lines supersede the atom-block charge codes: once such a line exists the codes
   may be replaced by any values whatsoever *)
Definition with_codes (ch : choices) (codes : N -> Z) : choices :=
  mkChoices (c_h1 ch) (c_h2 ch) (c_h3 ch) (c_cblank ch) (c_cmid ch) (c_crest ch)
            (fun i => let c := c_atom ch i in mkAchoice (ac_g1 c) (ac_g2 c) (codes i) (ac_blank c) (ac_rest c))
            (c_bond ch) (c_alist ch) (c_sc ch) (c_stext ch) (c_items ch) (c_trailer ch).

Corollary chg_rad_lines_supersede_codes : forall M ch codes,
  okM2000 M -> okch2000 M ch -> has_chgrad (c_items ch) = true -> (forall i, in3 (codes i)) ->
  read_v2000 (render2000 M (with_codes ch codes)) = ok (expected2000 M).
Proof.
  intros M ch codes HM Hch R Hcodes. apply (read_v2000_render M _ HM).
  destruct Hch as [H1 [H2 [H3 [H4 [H5 H6]]]]].
  unfold okch2000, with_codes. cbn [c_cmid c_alist c_sc c_stext c_items c_atom].
  repeat (split; [assumption|]).
  intros i a Hin. destruct (H6 i a Hin) as [[G1 [G2 G3]] [S1 S2]]. split.
  - unfold ok_achoice. cbn [ac_g1 ac_g2 ac_code]. auto.
  - unfold states in *. cbn [c_items c_atom]. rewrite R in *. split; assumption.
Qed.

(* ---- "any grouping, any order": a sufficient condition for [states] ---- *)
Definition kval (k : pkind) (a : atom2) : Z :=
  match k with PChg => a_chg a | PRad => a_rad a | PIso => a_mass a end.

(* the entries that must appear for kind k: one per atom with a non-zero value, as (atom number, value) *)
Definition stated_from (k : pkind) (i : N) (ats : list atom2) : list (Z * Z) :=
  flat_map (fun p => if Z.eqb (kval k (snd p)) 0 then [] else [((Z.of_N (fst p) + 1)%Z, kval k (snd p))])
           (enumerate_from i ats).
Definition stated (k : pkind) (M : mol2) : list (Z * Z) := stated_from k 0 (m_atoms M).

(* the entries of kind k as written in the file, in file order *)
Definition item_raw (k : pkind) (it : pitem) : list (Z * Z) :=
  match it with PLine k' es _ => if pkind_eqb k k' then es else [] | _ => [] end.
Definition raw (k : pkind) (items : list pitem) : list (Z * Z) := flat_map (item_raw k) items.

Lemma ents_raw : forall k items, ents k items = map dec (raw k items).
Proof.
  intros k items. unfold ents, raw. induction items as [|it items IH]; [reflexivity|].
  cbn [flat_map]. rewrite map_app, IH. f_equal.
  destruct it as [k' es rest| |]; cbn [item_ents item_raw]; try reflexivity.
  destruct (pkind_eqb k k'); reflexivity.
Qed.

Lemma lastv_in : forall es a v, lastv es a = Some v -> In (a, v) es.
Proof.
  induction es as [|[k w] es IH]; intros a v H; [discriminate H|].
  cbn [lastv] in H. destruct (lastv es a) eqn:E.
  - right. apply IH. rewrite E. exact H.
  - destruct (Z.eqb k a) eqn:E2; [|discriminate H]. apply Z.eqb_eq in E2. inversion H. subst. left. reflexivity.
Qed.

Lemma in_lastv : forall es a v, NoDup (map fst es) -> In (a, v) es -> lastv es a = Some v.
Proof.
  induction es as [|[k w] es IH]; intros a v Hnd Hin; [destruct Hin|].
  cbn [map fst] in Hnd. inversion Hnd as [|? ? Hk Hnd']; subst.
  cbn [lastv]. destruct Hin as [E|Hin].
  - inversion E; subst. destruct (lastv es a) eqn:L.
    + exfalso. apply Hk. apply lastv_in in L. apply (in_map fst) in L. exact L.
    + rewrite Z.eqb_refl. reflexivity.
  - rewrite (IH a v Hnd' Hin). reflexivity.
Qed.

Lemma enumerate_from_in : forall (A : Type) (l : list A) i j x,
  In (j, x) (enumerate_from i l) -> (i <= j)%N.
Proof.
  intros A l. induction l as [|y l IH]; intros i j x H; [destruct H|].
  cbn [enumerate_from] in H. destruct H as [E|H]; [inversion E; lia|]. apply IH in H. lia.
Qed.

Lemma enumerate_from_fun : forall (A : Type) (l : list A) i j x y,
  In (j, x) (enumerate_from i l) -> In (j, y) (enumerate_from i l) -> x = y.
Proof.
  intros A l. induction l as [|z l IH]; intros i j x y Hx Hy; [destruct Hx|].
  cbn [enumerate_from] in Hx, Hy. destruct Hx as [Ex|Hx], Hy as [Ey|Hy].
  - congruence.
  - inversion Ex; subst. apply enumerate_from_in in Hy. lia.
  - inversion Ey; subst. apply enumerate_from_in in Hx. lia.
  - exact (IH _ _ _ _ Hx Hy).
Qed.

Lemma stated_from_in : forall k ats i b v,
  In (b, v) (stated_from k i ats) <->
  exists j a, In (j, a) (enumerate_from i ats) /\ b = (Z.of_N j + 1)%Z /\ v = kval k a /\ v <> 0%Z.
Proof.
  intros k ats i b v. unfold stated_from. rewrite in_flat_map. split.
  - intros [[j a] [Hin H]]. cbn [fst snd] in H. destruct (Z.eqb (kval k a) 0) eqn:E; [destruct H|].
    destruct H as [H|[]]. inversion H; subst. exists j, a. apply Z.eqb_neq in E. auto.
  - intros [j [a [Hin [Hb [Hv Hnz]]]]]. exists (j, a). split; [exact Hin|]. cbn [fst snd].
    apply Z.eqb_neq in Hnz. rewrite Hv in Hnz. rewrite Hnz. left. subst. reflexivity.
Qed.

Lemma stated_from_NoDup : forall k ats i, NoDup (map fst (stated_from k i ats)).
Proof.
  intros k ats. induction ats as [|a ats IH]; intro i; [constructor|].
  unfold stated_from. cbn [enumerate_from flat_map fst snd]. fold (stated_from k (N.succ i) ats).
  destruct (Z.eqb (kval k a) 0); [apply IH|].
  cbn [app map fst]. constructor; [|apply IH].
  intro H. apply in_map_iff in H. destruct H as [[b v] [Eb Hin]]. cbn [fst] in Eb. subst b.
  apply stated_from_in in Hin. destruct Hin as [j [a' [Hin [Hb _]]]].
  apply enumerate_from_in in Hin. lia.
Qed.

Lemma dec_keys_NoDup : forall es, NoDup (map fst es) -> NoDup (map fst (map dec es)).
Proof.
  intros es H. rewrite map_map.
  replace (map (fun x => fst (dec x)) es) with (map (fun z => (z - 1)%Z) (map fst es)) by (rewrite map_map; reflexivity).
  apply FinFun.Injective_map_NoDup; [|exact H]. intros x y E. lia.
Qed.

(* the entries of kind k in the file are, in some order and grouped into lines in some way,
   exactly the non-zero values of the molecule *)
Theorem grouping_states : forall k M items i a,
  Permutation (raw k items) (stated k M) ->
  In (i, a) (enumerate_from 0 (m_atoms M)) ->
  nz (lastv (ents k items) (Z.of_N i)) = nzz (kval k a).
Proof.
  intros k M items i a HP Hin. rewrite ents_raw.
  assert (ND : NoDup (map fst (map dec (raw k items)))).
  { apply dec_keys_NoDup. apply (Permutation_NoDup (l := map fst (stated k M))).
    - apply Permutation_map, Permutation_sym, HP.
    - apply stated_from_NoDup. }
  unfold nzz. destruct (Z.eqb (kval k a) 0) eqn:E.
  - destruct (lastv (map dec (raw k items)) (Z.of_N i)) as [w|] eqn:L; [|reflexivity].
    apply lastv_in in L. apply in_map_iff in L. destruct L as [[b v] [Eb Hb]].
    unfold dec in Eb. cbn [fst snd] in Eb. inversion Eb; subst.
    apply (Permutation_in _ HP) in Hb. apply stated_from_in in Hb.
    destruct Hb as [j [a' [Hj [Hb [Hv Hnz]]]]].
    assert (j = i) by lia. subst j.
    rewrite (enumerate_from_fun _ _ _ _ _ _ Hj Hin) in Hv. apply Z.eqb_eq in E. congruence.
  - apply Z.eqb_neq in E.
    assert (Hs : In ((Z.of_N i + 1)%Z, kval k a) (stated k M)).
    { apply stated_from_in. exists i, a. auto. }
    apply (Permutation_in _ (Permutation_sym HP)) in Hs.
    apply (in_map dec) in Hs. unfold dec at 1 in Hs. cbn [fst snd] in Hs.
    replace (Z.of_N i + 1 - 1)%Z with (Z.of_N i) in Hs by lia.
    rewrite (in_lastv _ _ _ ND Hs). cbn [nz]. apply Z.eqb_neq in E. rewrite E. reflexivity.
Qed.

(* the side conditions with the grouping stated as permutations *)
Definition okch2000_grouped (M : mol2) (ch : choices) : Prop :=
  length (c_cmid ch) = 6 /\ length (c_alist ch) <= 999 /\ c_sc ch <= 999 /\
  length (c_stext ch) = 2 * c_sc ch /\
  Forall (ok_item (length (m_atoms M))) (c_items ch) /\
  Permutation (raw PIso (c_items ch)) (stated PIso M) /\
  (if has_chgrad (c_items ch)
   then Permutation (raw PChg (c_items ch)) (stated PChg M) /\
        Permutation (raw PRad (c_items ch)) (stated PRad M)
   else forall i a, In (i, a) (enumerate_from 0 (m_atoms M)) ->
        chg_of_code (ac_code (c_atom ch i)) = nzz (a_chg a) /\
        rad_of_code (ac_code (c_atom ch i)) = nzz (a_rad a)) /\
  (forall i a, In (i, a) (enumerate_from 0 (m_atoms M)) -> ok_achoice (c_atom ch i)).

Lemma okch2000_of_grouped : forall M ch, okch2000_grouped M ch -> okch2000 M ch.
Proof.
  intros M ch [H1 [H2 [H3 [H4 [H5 [PI [HC HA]]]]]]]. unfold okch2000. repeat (split; [assumption|]).
  intros i a Hin. split; [exact (HA i a Hin)|]. unfold states. split.
  - exact (grouping_states PIso M _ i a PI Hin).
  - destruct (has_chgrad (c_items ch)).
    + destruct HC as [PC PR]. split.
      * exact (grouping_states PChg M _ i a PC Hin).
      * exact (grouping_states PRad M _ i a PR Hin).
    + exact (HC i a Hin).
Qed.

Theorem read_v2000_render_grouped : forall M ch,
  okM2000 M -> okch2000_grouped M ch -> read_v2000 (render2000 M ch) = ok (expected2000 M).
Proof. intros M ch HM H. apply read_v2000_render; [exact HM|apply okch2000_of_grouped, H]. Qed.

(* every charge in -3..3 and the doublet radical have a code *)
Lemma code_table_complete :
  (forall c, (-3 <= c <= 3)%Z -> exists k, (0 <= k <= 7)%Z /\ chg_of_code k = nzz c /\ rad_of_code k = None) /\
  (chg_of_code 4 = None /\ rad_of_code 4 = Some 2%Z).
Proof.
  split; [|vm_compute; split; reflexivity].
  intros c H.
  assert (G : c = (-3)%Z \/ c = (-2)%Z \/ c = (-1)%Z \/ c = 0%Z \/ c = 1%Z \/ c = 2%Z \/ c = 3%Z) by lia.
  destruct G as [E|[E|[E|[E|[E|[E|E]]]]]]; subst c;
    [exists 7%Z|exists 6%Z|exists 5%Z|exists 0%Z|exists 3%Z|exists 2%Z|exists 1%Z];
    (split; [lia|vm_compute; split; reflexivity]).
Qed.

(* D and T keep denoting hydrogen-2 / hydrogen-3 whatever else the property block holds;
   an M  ISO entry for the atom (a stated mass) overrides *)
Corollary read_D_T : forall M ch i a,
  okM2000 M -> okch2000 M ch -> In (i, a) (enumerate_from 0 (m_atoms M)) ->
  (a_sym a = t "D" \/ a_sym a = t "T") ->
  exists ats bds ra, read_v2000 (render2000 M ch) = ok (ats, bds) /\ In ra ats /\
    r_idx ra = Z.of_N i /\ r_sym ra = t "H" /\
    r_mass ra = (if Z.eqb (a_mass a) 0 then (if text_eqb (a_sym a) (t "D") then Some 2%Z else Some 3%Z)
                 else Some (a_mass a)).
Proof.
  intros M ch i a HM Hch Hin Hs.
  exists (fst (expected2000 M)), (snd (expected2000 M)), (expected_atom i a).
  split; [rewrite (read_v2000_render M ch HM Hch); destruct (expected2000 M); reflexivity|].
  split; [unfold expected2000; cbn [fst]; apply (in_map (fun p => expected_atom (fst p) (snd p)) _ (i, a) Hin)|].
  unfold expected_atom. cbn [r_idx r_sym r_mass]. split; [reflexivity|].
  unfold nzz. destruct Hs as [E|E]; rewrite E; (split; [vm_compute; reflexivity|]);
    destruct (Z.eqb (a_mass a) 0); reflexivity.
Qed.

(* ------------------------------------------------------------------------------------ *)
(* 7. the graph built from the expected result; composition with the V3000 half          *)
(* ------------------------------------------------------------------------------------ *)

(* atom i of the graph: label i, attributes as stated *)
Definition graph_atom (i : N) (a : atom2) : atom rpay :=
  mkAtom i (zn_of (a_sym a))
         (match nzz (a_mass a) with Some v => Some v | None => sym_mass (a_sym a) end)
         (nzz (a_rad a)) 0%N
         (mkRpay (elem_of (a_sym a)) (nzz (a_chg a)) (a_x a) (a_y a) (a_z a)).
Definition graph_bonds (bds : list bond2) : list (N * N * Z) :=
  fold_left (fun l b => add_edge (Z.to_N (fst (fst b) - 1), Z.to_N (snd (fst b) - 1)) (snd b) l) bds [].
Definition graph2000 (M : mol2) : mol rpay Z :=
  mkMol (map (fun p => graph_atom (fst p) (snd p)) (enumerate_from 0 (m_atoms M))) (graph_bonds (m_bonds M)).

Lemma enumerate_from_fst : forall (A : Type) (l : list A) i, map fst (enumerate_from i l) = N_seq i (length l).
Proof. intros A l. induction l as [|x l IH]; intro i; [reflexivity|]. cbn [enumerate_from map length N_seq fst]. rewrite IH. reflexivity. Qed.

(* the atoms of the graph are labelled 0 .. n-1 in file order *)
Lemma graph2000_labels : forall M, labels (graph2000 M) = N_seq 0 (length (m_atoms M)).
Proof.
  intro M. unfold labels, graph2000. cbn [atoms]. rewrite map_map. cbn [graph_atom lbl].
  apply (enumerate_from_fst _ (m_atoms M) 0%N).
Qed.

Lemma index_of_Z_enum : forall (l : list atom2) s j,
  (s <= j < s + N.of_nat (length l))%N ->
  index_of_Z (Z.of_N j) (map r_idx (map (fun p => expected_atom (fst p) (snd p)) (enumerate_from s l))) s = Some j.
Proof.
  induction l as [|x l IH]; intros s j H; [cbn [length] in H; lia|].
  cbn [enumerate_from map index_of_Z fst snd expected_atom r_idx].
  destruct (Z.eqb (Z.of_N s) (Z.of_N j)) eqn:E.
  - apply Z.eqb_eq in E. f_equal. lia.
  - apply Z.eqb_neq in E. apply IH. cbn [length] in H. lia.
Qed.

Lemma graph_atoms_enum : forall (l : list atom2) i,
  map (fun p => let a := snd p in
         mkAtom (fst p) (r_zn a) (r_mass a) (r_rad a) 0%N (mkRpay (r_sym a) (r_chg a) (r_x a) (r_y a) (r_z a)))
      (enumerate_from i (map (fun p => expected_atom (fst p) (snd p)) (enumerate_from i l)))
  = map (fun p => graph_atom (fst p) (snd p)) (enumerate_from i l).
Proof.
  induction l as [|x l IH]; intro i; [reflexivity|].
  cbn [enumerate_from map fst snd]. rewrite IH. reflexivity.
Qed.

Theorem graph_from_molecule_expected : forall M, okM2000 M ->
  graph_from_molecule (fst (expected2000 M)) (snd (expected2000 M)) = ok (graph2000 M).
Proof.
  intros M [Hna [_ [_ [Hb _]]]]. unfold graph_from_molecule, expected2000. cbn [fst snd].
  rewrite graph_atoms_enum.
  set (keys := map r_idx (map (fun p => expected_atom (fst p) (snd p)) (enumerate_from 0 (m_atoms M)))).
  assert (G : forall bds acc, Forall (ok_bond (length (m_atoms M))) bds ->
    fold_left (fun (acc0 : res (list (N * N * Z))) (b : rbond) =>
       do l <- acc0;
       match index_of_Z (fst (fst b)) keys 0, index_of_Z (snd (fst b)) keys 0 with
       | Some u, Some v => ok (add_edge (u, v) (snd b) l)
       | _, _ => inl EOther
       end) (map expected_bond bds) (ok acc)
    = ok (fold_left (fun l b => add_edge (Z.to_N (fst (fst b) - 1), Z.to_N (snd (fst b) - 1)) (snd b) l) bds acc)).
  { induction bds as [|b bds IH]; intros acc H; [reflexivity|].
    inversion H as [|? ? [H1 [H2 _]] H']; subst.
    cbn [map fold_left expected_bond fst snd bind ok].
    assert (I : forall u, (1 <= u <= Z.of_nat (length (m_atoms M)))%Z ->
                index_of_Z (u - 1) keys 0 = Some (Z.to_N (u - 1))).
    { intros u Hu. rewrite <- (Z2N.id (u - 1)) at 1 by lia. apply index_of_Z_enum. lia. }
    rewrite (I _ H1), (I _ H2). apply IH, H'. }
  rewrite (G _ [] Hb). reflexivity.
Qed.

(* The V2000 half of the agreement, in the form that composes with the V3000 half
   (Proofs/V3000Render.v: read_v3000 (render3000 M' ch3) = ok (expected ...)): whatever V3000 lines are
   read as the same atom / bond dictionaries give the same reader result, hence the same graph. *)
Theorem v2000_v3000_agree : forall M ch lines3,
  okM2000 M -> okch2000 M ch ->
  V3000.read_v3000 lines3 = ok (expected2000 M) ->
  read_v2000 (render2000 M ch) = V3000.read_v3000 lines3 /\
  (do ab <- read_v2000 (render2000 M ch); graph_from_molecule (fst ab) (snd ab)) = ok (graph2000 M) /\
  (do ab <- V3000.read_v3000 lines3; graph_from_molecule (fst ab) (snd ab)) = ok (graph2000 M).
Proof.
  intros M ch lines3 HM Hch H3. rewrite H3, (read_v2000_render M ch HM Hch). cbn [bind ok].
  split; [reflexivity|]. split; apply graph_from_molecule_expected, HM.
Qed.

(* ---- the file as one string: version dispatch on the counts line ---- *)
Lemma last_split_on_aux : forall f Y cur s tok,
  f s = true -> Forall (fun c => f c = false) tok ->
  last (split_on_aux f cur (Y ++ s :: tok)) [] = tok.
Proof.
  intros f Y. induction Y as [|c Y IH]; intros cur s tok Hs Ht.
  - cbn [app split_on_aux]. rewrite Hs. rewrite <- (app_nil_r tok) at 1.
    rewrite (split_on_aux_tok f tok [] [] Ht). cbn [split_on_aux last].
    rewrite app_nil_r. apply rev_involutive.
  - cbn [app split_on_aux]. destruct (f c).
    + destruct (split_on_aux_head f (Y ++ s :: tok) []) as [h [tl E]].
      pose proof (IH [] s tok Hs Ht) as L. rewrite E in *. exact L.
    + apply IH; assumption.
Qed.

Lemma version_v2000 : forall pre,
  last_text (split_on (is_code 32%N) (rstrip (pre ++ t " V2000"))) = t "V2000".
Proof.
  intro pre. rewrite rstrip_ends_nonspace.
  - change (t " V2000") with (sp :: t "V2000"). unfold last_text, split_on.
    apply last_split_on_aux; [apply is_code_sp|]. repeat constructor.
  - apply ends_nonspace_app. exists (t " V200"), "0"%char. split; reflexivity.
Qed.

Theorem read_molfile_render : forall M ch crest,
  okM2000 M -> okch2000 M ch ->
  c_crest ch = crest ++ t " V2000" ->
  Forall nolb (render2000 M ch) -> last (render2000 M ch) [] <> [] ->
  read_molfile (join_with [Writer.nl] (render2000 M ch)) = ok (graph2000 M).
Proof.
  intros M ch crest HM Hch Hv Hnl Hlast. unfold read_molfile.
  rewrite splitlines_join; [|exact Hnl|discriminate|exact Hlast].
  assert (E3 : nth_tok 3 (render2000 M ch) = ok (counts_line M ch)) by reflexivity.
  rewrite E3. cbn [bind ok].
  assert (Ev : last_text (split_on (is_code 32%N) (rstrip (counts_line M ch))) = t "V2000").
  { unfold counts_line. rewrite Hv. repeat rewrite app_assoc. apply version_v2000. }
  rewrite Ev. change (text_eqb (t "V2000") (t "V3000")) with false.
  change (text_eqb (t "V2000") (t "V2000")) with true. cbv iota.
  rewrite (read_v2000_render M ch HM Hch). cbn [bind ok].
  apply graph_from_molecule_expected, HM.
Qed.

(* ---- every molecule whose values fit the columns has a rendering: the hypotheses of the main
        theorem are satisfiable for each such M (one entry per property line, codes left 0) ---- *)
Definition bounded (M : mol2) : Prop :=
  Forall (fun a => in3 (a_chg a) /\ in3 (a_rad a) /\ in3 (a_mass a) /\ (0 <= a_rad a)%Z /\ (0 <= a_mass a)%Z) (m_atoms M).

Definition lines_of (k : pkind) (M : mol2) : list pitem := map (fun e => PLine k [e] []) (stated k M).
Definition canon (M : mol2) : choices :=
  mkChoices [] [] [] false (blanks 6) (t " V2000")
            (fun _ => mkAchoice [sp] (blanks 2) 0%Z false []) (fun _ => [])
            [] 0 []
            (lines_of PChg M ++ lines_of PRad M ++ lines_of PIso M) [].

Lemma raw_app : forall k a b, raw k (a ++ b) = raw k a ++ raw k b.
Proof. intros k a b. unfold raw. apply flat_map_app. Qed.

Lemma raw_lines : forall k k' (L : list (Z * Z)),
  raw k (map (fun e => PLine k' [e] []) L) = if pkind_eqb k k' then L else [].
Proof.
  intros k k' L. unfold raw. induction L as [|e L IH]; [destruct (pkind_eqb k k'); reflexivity|].
  cbn [map flat_map item_raw]. rewrite IH. destruct (pkind_eqb k k'); reflexivity.
Qed.

Lemma raw_canon : forall k M, raw k (c_items (canon M)) = stated k M.
Proof.
  intros k M. cbn [canon c_items]. unfold lines_of. rewrite !raw_app, !raw_lines.
  destruct k; cbn [pkind_eqb app]; rewrite ?app_nil_r; reflexivity.
Qed.

Lemma enumerate_from_in_lt : forall (A : Type) (l : list A) i j x,
  In (j, x) (enumerate_from i l) -> (j < i + N.of_nat (length l))%N /\ In x l.
Proof.
  intros A l. induction l as [|y l IH]; intros i j x H; [destruct H|].
  cbn [enumerate_from] in H. cbn [length]. destruct H as [E|H].
  - inversion E; subst. split; [lia|left; reflexivity].
  - apply IH in H. destruct H as [H1 H2]. split; [lia|right; exact H2].
Qed.

Lemma stated_ok_entry : forall k M e, bounded M -> In e (stated k M) -> ok_entry (length (m_atoms M)) e.
Proof.
  intros k M [b v] HB Hin. apply stated_from_in in Hin. destruct Hin as [j [a [Hj [Hb [Hv _]]]]].
  apply enumerate_from_in_lt in Hj. destruct Hj as [Hlt Ha].
  unfold bounded in HB. rewrite Forall_forall in HB. destruct (HB a Ha) as [B1 [B2 [B3 _]]].
  split; cbn [fst snd]; [lia|]. subst v. destruct k; assumption.
Qed.

Lemma stated_nonneg_entry : forall k M e, bounded M -> In e (stated k M) -> nonneg_kind k [e].
Proof.
  intros k M [b v] HB Hin. apply stated_from_in in Hin. destruct Hin as [j [a [Hj [Hb [Hv _]]]]].
  apply enumerate_from_in_lt in Hj. destruct Hj as [Hlt Ha].
  unfold bounded in HB. rewrite Forall_forall in HB. destruct (HB a Ha) as [_ [_ [_ [B4 B5]]]].
  subst v. destruct k; cbn [nonneg_kind kval]; [exact I|..]; (constructor; [cbn [snd]; assumption|constructor]).
Qed.

Lemma has_chgrad_app : forall a b, has_chgrad (a ++ b) = has_chgrad a || has_chgrad b.
Proof. intros a b. unfold has_chgrad. apply existsb_app. Qed.

Lemma kval_zero_of_stated_nil : forall k M i a,
  stated k M = [] -> In (i, a) (enumerate_from 0 (m_atoms M)) -> kval k a = 0%Z.
Proof.
  intros k M i a E Hin. destruct (Z.eqb (kval k a) 0) eqn:Z0; [apply Z.eqb_eq, Z0|].
  apply Z.eqb_neq in Z0.
  assert (H : In ((Z.of_N i + 1)%Z, kval k a) (stated k M)) by (apply stated_from_in; exists i, a; auto).
  rewrite E in H. destruct H.
Qed.

Theorem canon_ok : forall M, bounded M -> okch2000_grouped M (canon M).
Proof.
  intros M HB. unfold okch2000_grouped.
  split; [reflexivity|]. split; [cbn; lia|]. split; [cbn; lia|]. split; [reflexivity|]. split; [|split; [|split]].
  - cbn [canon c_items]. rewrite !Forall_app. repeat split; unfold lines_of; apply Forall_forall;
      intros it Hit; apply in_map_iff in Hit; destruct Hit as [e [<- He]];
      (split; [cbn [length]; lia|]);
      (split; [constructor; [|constructor]; eapply stated_ok_entry; eauto|eapply stated_nonneg_entry; eauto]).
  - rewrite raw_canon. apply Permutation_refl.
  - destruct (has_chgrad (c_items (canon M))) eqn:R.
    + rewrite !raw_canon. split; apply Permutation_refl.
    + intros i a Hin. cbn [canon c_items] in R. rewrite !has_chgrad_app in R.
      apply orb_false_iff in R. destruct R as [R1 R2]. apply orb_false_iff in R2. destruct R2 as [R2 _].
      assert (E1 : stated PChg M = []).
      { unfold lines_of in R1. destruct (stated PChg M); [reflexivity|discriminate R1]. }
      assert (E2 : stated PRad M = []).
      { unfold lines_of in R2. destruct (stated PRad M); [reflexivity|discriminate R2]. }
      pose proof (kval_zero_of_stated_nil PChg M i a E1 Hin) as K1.
      pose proof (kval_zero_of_stated_nil PRad M i a E2 Hin) as K2.
      cbn [kval] in K1, K2. rewrite K1, K2. cbn [canon c_atom ac_code]. vm_compute. split; reflexivity.
  - intros i a _. cbn [canon c_atom]. unfold ok_achoice, in3. cbn [ac_g1 ac_g2 ac_code length]. repeat split; lia.
Qed.

Corollary every_molecule_has_a_rendering : forall M, okM2000 M -> bounded M ->
  exists ch, okch2000 M ch /\ read_v2000 (render2000 M ch) = ok (expected2000 M).
Proof.
  intros M HM HB. exists (canon M).
  pose proof (okch2000_of_grouped M _ (canon_ok M HB)) as H. split; [exact H|apply read_v2000_render; assumption].
Qed.

(* ------------------------------------------------------------------------------------ *)
(* 8. a concrete file: the hypotheses are satisfiable, the model runs                    *)
(* ------------------------------------------------------------------------------------ *)

Module Example.
  Definition c0 : text := t "    0.0000".
  Definition c1 : text := t "    1.2500".
  Definition c2 : text := t "   -1.2500".
  (* 13C, O-, D, 14C doublet radical; bonds 1-2, 1-3, 1=4 *)
  Definition exM : mol2 :=
    mkMol2 [ mkAtom2 (t "C") 0 0 13 c0 c0 c0;
             mkAtom2 (t "O") (-1) 0 0 c1 c0 c0;
             mkAtom2 (t "D") 0 0 0 c2 c0 c0;
             mkAtom2 (t "C") 0 2 14 c0 c1 c0 ]
           [ ((1, 2), 1); ((1, 3), 1); ((1, 4), 2) ]%Z.

  Definition arest : text := t "  0  0  0  0  0  0  0  0  0  0".
  Definition alias : pitem := PAlias (t "A    3") (t "M  ISO  1   1  77").

  (* variant A: charges and radicals on property lines; atom 1 carries a stale code 3 (+1) *)
  Definition exA : choices :=
    mkChoices (t "example") (t "  model") (t "") false (t "  0  0") (t "  0  0  0  0  0999 V2000")
              (fun i => mkAchoice (t " ") (t " 0") (if N.eqb i 0 then 3 else 0)%Z false arest)
              (fun _ => t "  0  0  0  0")
              [] 0 []
              [ alias;
                PLine PChg [(2, -1)%Z] (t "");
                PText (t "M  STY  1   1 SUP");
                PLine PRad [(4, 2)%Z] (t "");
                PLine PIso [(1, 13); (4, 14)]%Z (t "") ]
              [t "$$$$"].

  (* variant B: no M  CHG / M  RAD line; charge code 5 (-1) and 4 (doublet); an atom list line;
     the isotope entries on two lines in the other order *)
  Definition exB : choices :=
    mkChoices (t "") (t "") (t "") true (t "      ") (t " V2000")
              (fun i => mkAchoice (t " ") (t "  ")
                          (if N.eqb i 1 then 5 else if N.eqb i 3 then 4 else 0)%Z true (t ""))
              (fun _ => t "")
              [t "  1 F    2   7   8"] 0 []
              [ PLine PIso [(4, 14)%Z] (t "");
                alias;
                PLine PIso [(1, 13)%Z] (t "") ]
              [].

  Example exA_lines : render2000 exM exA =
    [ t "example"; t "  model"; t "";
      t "  4  3  0  0  0  0  0  0  0  0  0999 V2000";
      t "    0.0000    0.0000    0.0000 C   0  3  0  0  0  0  0  0  0  0  0  0";
      t "    1.2500    0.0000    0.0000 O   0  0  0  0  0  0  0  0  0  0  0  0";
      t "   -1.2500    0.0000    0.0000 D   0  0  0  0  0  0  0  0  0  0  0  0";
      t "    0.0000    1.2500    0.0000 C   0  0  0  0  0  0  0  0  0  0  0  0";
      t "  1  2  1  0  0  0  0";
      t "  1  3  1  0  0  0  0";
      t "  1  4  2  0  0  0  0";
      t "A    3";
      t "M  ISO  1   1  77";
      t "M  CHG  1   2  -1";
      t "M  STY  1   1 SUP";
      t "M  RAD  1   4   2";
      t "M  ISO  2   1  13   4  14";
      t "M  END";
      t "$$$$" ].
  Proof. vm_compute. reflexivity. Qed.

  Example exB_lines : render2000 exM exB =
    [ t ""; t ""; t "";
      t "  4  3  1          V2000";
      t "    0.0000    0.0000    0.0000 C       ";
      t "    1.2500    0.0000    0.0000 O      5";
      t "   -1.2500    0.0000    0.0000 D       ";
      t "    0.0000    1.2500    0.0000 C      4";
      t "  1  2  1";
      t "  1  3  1";
      t "  1  4  2";
      t "  1 F    2   7   8";
      t "M  ISO  1   4  14";
      t "A    3";
      t "M  ISO  1   1  77";
      t "M  ISO  1   1  13";
      t "M  END" ].
  Proof. vm_compute. reflexivity. Qed.

  Example exM_expected : expected2000 exM =
    ( [ mkRatom 0 (t "C") 6 None (Some 13%Z) None c0 c0 c0;
        mkRatom 1 (t "O") 8 (Some (-1)%Z) None None c1 c0 c0;
        mkRatom 2 (t "H") 1 None (Some 2%Z) None c2 c0 c0;
        mkRatom 3 (t "C") 6 None (Some 14%Z) (Some 2%Z) c0 c1 c0 ],
      [ (0, 1, 1); (0, 2, 1); (0, 3, 2) ]%Z ).
  Proof. vm_compute. reflexivity. Qed.

  (* the executable model on both files *)
  Example exA_read : read_v2000 (render2000 exM exA) = ok (expected2000 exM).
  Proof. vm_compute. reflexivity. Qed.
  Example exB_read : read_v2000 (render2000 exM exB) = ok (expected2000 exM).
  Proof. vm_compute. reflexivity. Qed.

  (* the hypotheses of the theorems hold for them *)
  Ltac arith := unfold in3, ok_bond, ok_entry; cbn [fst snd length]; lia.

  Lemma exM_ok : okM2000 exM.
  Proof.
    unfold okM2000, exM. cbn [m_atoms m_bonds length].
    split; [lia|]. split; [lia|]. split; [|split].
    - repeat constructor; try (vm_compute; reflexivity); try (vm_compute; lia); vm_compute; discriminate.
    - repeat constructor; arith.
    - cbn [map fst]. repeat constructor; cbn [In]; intro H; decompose [or] H; try discriminate; assumption.
  Qed.

  Ltac each_atom H :=
    cbn [exM m_atoms enumerate_from In] in H; decompose [or] H; clear H;
    match goal with
    | E : (_, _) = (_, _) |- _ => inversion E; subst; clear E
    | F : False |- _ => destruct F
    end.

  Ltac ok_item_tac :=
    match goal with
    | |- ok_item _ (PLine _ _ _) =>
        split; [cbn [length]; lia|split; [repeat (apply Forall_cons || apply Forall_nil); split; arith|
          cbn [nonneg_kind]; try exact Logic.I; repeat (apply Forall_cons || apply Forall_nil); arith]]
    | |- ok_item _ (PText _) => vm_compute; repeat split; reflexivity
    | |- ok_item _ alias => vm_compute; reflexivity
    end.

  Lemma exA_ok : okch2000 exM exA.
  Proof.
    unfold okch2000. split; [reflexivity|]. split; [cbn; lia|]. split; [cbn; lia|]. split; [reflexivity|]. split.
    - cbn [exA c_items exM m_atoms length]. repeat (apply Forall_cons || apply Forall_nil); ok_item_tac.
    - intros i a H. each_atom H; (split; [unfold ok_achoice; cbn; repeat split; try reflexivity; lia|]);
        vm_compute; repeat split; reflexivity.
  Qed.

  Lemma exB_ok : okch2000 exM exB.
  Proof.
    unfold okch2000. split; [reflexivity|]. split; [cbn; lia|]. split; [cbn; lia|]. split; [reflexivity|]. split.
    - cbn [exB c_items exM m_atoms length]. repeat (apply Forall_cons || apply Forall_nil); ok_item_tac.
    - intros i a H. each_atom H; (split; [unfold ok_achoice; cbn; repeat split; try reflexivity; lia|]);
        vm_compute; repeat split; reflexivity.
  Qed.

  (* ... and also in the "any grouping" form *)
  Lemma exB_ok_grouped : okch2000_grouped exM exB.
  Proof.
    unfold okch2000_grouped. split; [reflexivity|]. split; [cbn; lia|]. split; [cbn; lia|]. split; [reflexivity|].
    split; [exact (proj1 (proj2 (proj2 (proj2 (proj2 exB_ok)))))|].
    split; [|split].
    - change (Permutation [(4, 14); (1, 13)]%Z [(1, 13); (4, 14)]%Z). apply perm_swap.
    - change (has_chgrad (c_items exB)) with false. cbv iota.
      intros i a H. destruct (proj2 (proj2 (proj2 (proj2 (proj2 exB_ok)))) i a H) as [_ [_ S]].
      change (has_chgrad (c_items exB)) with false in S. exact S.
    - intros i a H. exact (proj1 (proj2 (proj2 (proj2 (proj2 (proj2 exB_ok)))) i a H)).
  Qed.

  (* the two files read the same, by the theorem rather than by computation *)
  Example exA_exB : read_v2000 (render2000 exM exA) = read_v2000 (render2000 exM exB).
  Proof. exact (render_choice_independent exM exA exB exM_ok exA_ok exB_ok). Qed.

  (* the free text line after "A    3" spells an isotope line; it is not read *)
  Example alias_text_not_read :
    In (t "M  ISO  1   1  77") (render2000 exM exA) /\
    exists a rest, fst (expected2000 exM) = a :: rest /\ r_mass a = Some 13%Z.
  Proof. split; [vm_compute; tauto|]. eexists. eexists. split; [vm_compute; reflexivity|reflexivity]. Qed.

  (* the two new side conditions are needed: a bond 2-2, an M  ISO entry -1 that a later line
     overrides, an M  RAD entry -1 -- each file is rejected *)
  Example ex_rejected :
    read_v2000 (render2000 (mkMol2 (m_atoms exM) [ ((1, 2), 1); ((2, 2), 1) ]%Z) exA) = inl EParser /\
    read_v2000 (render2000 exM (mkChoices (c_h1 exB) (c_h2 exB) (c_h3 exB) (c_cblank exB) (c_cmid exB) (c_crest exB)
                                  (c_atom exB) (c_bond exB) (c_alist exB) (c_sc exB) (c_stext exB)
                                  (PLine PIso [(1, -1)%Z] (t "") :: c_items exB) (c_trailer exB))) = inl EParser /\
    read_v2000 (render2000 exM (mkChoices (c_h1 exB) (c_h2 exB) (c_h3 exB) (c_cblank exB) (c_cmid exB) (c_crest exB)
                                  (c_atom exB) (c_bond exB) (c_alist exB) (c_sc exB) (c_stext exB)
                                  (c_items exB ++ [PLine PRad [(4, -1)%Z] (t "")]) (c_trailer exB))) = inl EParser.
  Proof. vm_compute. repeat split. Qed.

  (* the whole path from the text of the file *)
  Example exA_molfile : read_molfile (join_with [Writer.nl] (render2000 exM exA)) = ok (graph2000 exM).
  Proof.
    apply (read_molfile_render exM exA (t "  0  0  0  0  0999") exM_ok exA_ok); [reflexivity| |vm_compute; discriminate].
    rewrite exA_lines. repeat constructor.
  Qed.
End Example.
