(* RefCanon.v -- the contract assumed of the canonical labelling oracle (CanonProofs.H1, H2) is
   satisfiable: a brute-force canonical labelling (try every ordering of the labels, keep the
   first one whose labelled coloured graph is minimal) is defined in Gallina and shown to meet it.
   Every theorem of the development stated "for every oracle with H1 and H2" is therefore
   non-vacuous. *)
From Coq Require Import List NArith ZArith Bool Lia Permutation.
Require Import Base Mol Serialize SortProofs MolProofs PartitionProofs SameMol CanonProofs
               FinalProofs SerializeProofs.
Import ListNotations.

(* ---------- all permutations of a list ---------- *)
Section Perms.
  Context {A : Type}.
  (* x inserted at every position of l *)
  Fixpoint ins_all (x : A) (l : list A) : list (list A) :=
    match l with
    | [] => [[x]]
    | y :: t => (x :: l) :: map (cons y) (ins_all x t)
    end.
  Fixpoint perms (l : list A) : list (list A) :=
    match l with
    | [] => [[]]
    | x :: t => flat_map (ins_all x) (perms t)
    end.

  Lemma ins_all_sound x l p : In p (ins_all x l) -> Permutation p (x :: l).
  Proof.
    revert p; induction l as [|y t IH]; simpl; intros p Hp.
    - destruct Hp as [<-|[]]. reflexivity.
    - destruct Hp as [<-|Hp]; [reflexivity|].
      rewrite in_map_iff in Hp. destruct Hp as (q & <- & Hq).
      rewrite perm_swap. constructor. apply IH, Hq.
  Qed.
  Lemma ins_all_complete x l1 l2 : In (l1 ++ x :: l2) (ins_all x (l1 ++ l2)).
  Proof.
    induction l1 as [|y t IH]; simpl.
    - destruct l2; simpl; left; reflexivity.
    - right. apply in_map, IH.
  Qed.
  Lemma perms_sound l p : In p (perms l) -> Permutation p l.
  Proof.
    revert p; induction l as [|x t IH]; simpl; intros p Hp.
    - destruct Hp as [<-|[]]. constructor.
    - rewrite in_flat_map in Hp. destruct Hp as (q & Hq & Hp).
      rewrite (ins_all_sound _ _ _ Hp). constructor. apply IH, Hq.
  Qed.
  Lemma perms_complete l p : Permutation p l -> In p (perms l).
  Proof.
    revert p; induction l as [|x t IH]; simpl; intros p HP.
    - apply Permutation_sym, Permutation_nil in HP. left. symmetry. exact HP.
    - assert (Hx : In x p) by (eapply Permutation_in; [apply Permutation_sym, HP | left; reflexivity]).
      destruct (in_split _ _ Hx) as (l1 & l2 & ->).
      rewrite in_flat_map. exists (l1 ++ l2). split; [|apply ins_all_complete].
      apply IH. apply Permutation_sym in HP. apply Permutation_cons_app_inv in HP.
      apply Permutation_sym, HP.
  Qed.
  Theorem perms_spec l p : In p (perms l) <-> Permutation p l.
  Proof. split; [apply perms_sound | apply perms_complete]. Qed.
  Lemma perms_self l : In l (perms l).
  Proof. apply perms_complete. reflexivity. Qed.
End Perms.

(* ---------- lexicographic product of two total orders ---------- *)
Section ProdOrder.
  Variables X Y : Type.
  Variable lx : X -> X -> bool.
  Variable ly : Y -> Y -> bool.
  Hypothesis lx_total : forall a b, lx a b = true \/ lx b a = true.
  Hypothesis lx_trans : forall a b c, lx a b = true -> lx b c = true -> lx a c = true.
  Hypothesis lx_antisym : forall a b, lx a b = true -> lx b a = true -> a = b.
  Hypothesis ly_total : forall a b, ly a b = true \/ ly b a = true.
  Hypothesis ly_trans : forall a b c, ly a b = true -> ly b c = true -> ly a c = true.
  Hypothesis ly_antisym : forall a b, ly a b = true -> ly b a = true -> a = b.

  Definition prod_leb (a b : X * Y) : bool :=
    if lx (fst a) (fst b) then (if lx (fst b) (fst a) then ly (snd a) (snd b) else true) else false.

  Lemma prod_leb_total a b : prod_leb a b = true \/ prod_leb b a = true.
  Proof.
    unfold prod_leb. destruct a as [a1 a2], b as [b1 b2]; simpl.
    destruct (lx a1 b1) eqn:E1, (lx b1 a1) eqn:E2; auto.
    destruct (lx_total a1 b1); congruence.
  Qed.
  Lemma prod_leb_antisym a b : prod_leb a b = true -> prod_leb b a = true -> a = b.
  Proof.
    unfold prod_leb. destruct a as [a1 a2], b as [b1 b2]; simpl.
    destruct (lx a1 b1) eqn:E1, (lx b1 a1) eqn:E2; try discriminate.
    intros H1 H2. f_equal; [apply lx_antisym | apply ly_antisym]; assumption.
  Qed.
  Lemma prod_leb_trans a b c : prod_leb a b = true -> prod_leb b c = true -> prod_leb a c = true.
  Proof.
    unfold prod_leb. destruct a as [a1 a2], b as [b1 b2], c as [c1 c2]; simpl.
    destruct (lx a1 b1) eqn:Eab; [|discriminate].
    destruct (lx b1 c1) eqn:Ebc; [|intros _; discriminate].
    rewrite (lx_trans _ _ _ Eab Ebc).
    destruct (lx c1 a1) eqn:Eca; [|reflexivity].
    rewrite (lx_trans _ _ _ Ebc Eca), (lx_trans _ _ _ Eca Eab). apply ly_trans.
  Qed.
  Lemma prod_leb_refl a : prod_leb a a = true.
  Proof. destruct (prod_leb_total a a); assumption. Qed.
End ProdOrder.

(* ---------- first minimal element of a non-empty list, w.r.t. a key ---------- *)
Section ArgMin.
  Variables X K : Type.
  Variable kleb : K -> K -> bool.
  Variable key : X -> K.
  Hypothesis kleb_total : forall a b, kleb a b = true \/ kleb b a = true.
  Hypothesis kleb_trans : forall a b c, kleb a b = true -> kleb b c = true -> kleb a c = true.

  (* [best] is kept on ties: the result is the first minimal element of best :: l *)
  Fixpoint argmin (best : X) (l : list X) : X :=
    match l with
    | [] => best
    | x :: t => argmin (if kleb (key best) (key x) then best else x) t
    end.

  Lemma argmin_in best l : In (argmin best l) (best :: l).
  Proof.
    revert best; induction l as [|x t IH]; intros best; simpl; [left; reflexivity|].
    destruct (IH (if kleb (key best) (key x) then best else x)) as [H|H].
    - rewrite <- H. destruct (kleb (key best) (key x)); auto.
    - right; right; exact H.
  Qed.
  Lemma argmin_le_best best l : kleb (key (argmin best l)) (key best) = true.
  Proof.
    revert best; induction l as [|x t IH]; intros best; simpl.
    - destruct (kleb_total (key best) (key best)); assumption.
    - destruct (kleb (key best) (key x)) eqn:E; [apply IH|].
      eapply kleb_trans; [apply IH|]. destruct (kleb_total (key best) (key x)); congruence.
  Qed.
  Lemma argmin_min best l x : In x (best :: l) -> kleb (key (argmin best l)) (key x) = true.
  Proof.
    revert best; induction l as [|y t IH]; intros best Hin.
    - destruct Hin as [<-|[]]. apply argmin_le_best.
    - simpl. destruct Hin as [<-|[<-|Hin]].
      + eapply kleb_trans; [apply argmin_le_best|].
        destruct (kleb (key best) (key y)) eqn:E; [|destruct (kleb_total (key best) (key y)); congruence].
        destruct (kleb_total (key best) (key best)); assumption.
      + eapply kleb_trans; [apply argmin_le_best|].
        destruct (kleb (key best) (key y)) eqn:E; [exact E|].
        destruct (kleb_total (key y) (key y)); assumption.
      + apply IH. right. exact Hin.
  Qed.
End ArgMin.

(* ---------- the code of a labelling: the labelled coloured graph, listing order erased ---------- *)
Definition code_t : Type := list (N * N) * list (N * N).
Definition code_leb : code_t -> code_t -> bool := prod_leb _ _ (lex pair_leb) (lex pair_leb).

Lemma lexp_total k1 k2 : lex pair_leb k1 k2 = true \/ lex pair_leb k2 k1 = true.
Proof. apply lex_total, pair_leb_total. Qed.
Lemma lexp_trans k1 k2 k3 : lex pair_leb k1 k2 = true -> lex pair_leb k2 k3 = true -> lex pair_leb k1 k3 = true.
Proof. apply lex_trans; [apply pair_leb_trans]. Qed.
Lemma lexp_antisym k1 k2 : lex pair_leb k1 k2 = true -> lex pair_leb k2 k1 = true -> k1 = k2.
Proof. apply lex_antisym, pair_leb_antisym. Qed.

Lemma code_leb_total a b : code_leb a b = true \/ code_leb b a = true.
Proof. apply prod_leb_total; apply lexp_total. Qed.
Lemma code_leb_trans a b c : code_leb a b = true -> code_leb b c = true -> code_leb a c = true.
Proof. apply prod_leb_trans; [apply lexp_trans | apply lexp_trans]. Qed.
Lemma code_leb_antisym a b : code_leb a b = true -> code_leb b a = true -> a = b.
Proof. apply prod_leb_antisym; [apply lexp_antisym | apply lexp_antisym]. Qed.

Definition lab_of (p : list N) : list (N * N) := position_map p.
Definition code (lam V E : list (N * N)) : code_t :=
  (isort pair_leb (map (relab lam) V), isort pair_leb (map (relab_edge lam) E)).
Definition code_of (V E : list (N * N)) (p : list N) : code_t := code (lab_of p) V E.

(* ---------- the reference canonical labelling ---------- *)
Definition ref_canon (V E : list (N * N)) : list (N * N) :=
  match perms (map fst V) with
  | [] => []
  | p :: ps => lab_of (argmin _ _ code_leb (code_of V E) p ps)
  end.

(* the chosen ordering is one of the orderings, and its code is minimal among all of them *)
Lemma ref_canon_choice V E :
  exists p, ref_canon V E = lab_of p /\ Permutation p (map fst V) /\
            forall q, Permutation q (map fst V) -> code_leb (code_of V E p) (code_of V E q) = true.
Proof.
  unfold ref_canon. pose proof (@perms_spec N (map fst V)) as Hspec.
  destruct (perms (map fst V)) as [|p0 ps] eqn:Ep.
  - exfalso. apply (proj2 (Hspec (map fst V))). reflexivity.
  - exists (argmin _ _ code_leb (code_of V E) p0 ps). split; [reflexivity|]. split.
    + apply Hspec. apply argmin_in.
    + intros q Hq. apply argmin_min; [apply code_leb_total | apply code_leb_trans | apply Hspec, Hq].
Qed.

(* ---------- H1 ---------- *)
Lemma fun_of_map_keys o : NoDup (map fst o) -> map (fun_of_map o) (map fst o) = map snd o.
Proof.
  intros Hnd. rewrite map_map. apply map_ext_in. intros [k v] Hin. unfold fun_of_map; simpl.
  rewrite (lookup_in _ o k v Hnd Hin). reflexivity.
Qed.
Lemma lab_of_onto p : NoDup p -> map (fun_of_map (lab_of p)) p = N_seq 0 (length p).
Proof.
  intros Hnd. unfold lab_of. rewrite <- (position_map_fst p) at 2.
  rewrite fun_of_map_keys; [apply position_map_snd | rewrite position_map_fst; exact Hnd].
Qed.

Theorem ref_canon_H1 : H1 ref_canon.
Proof.
  intros V E [Hnd _]. destruct (ref_canon_choice V E) as (p & -> & HP & _).
  assert (Hndp : NoDup p) by (eapply Permutation_NoDup; [apply Permutation_sym, HP | exact Hnd]).
  split.
  - unfold lab_of. apply fun_of_map_inj.
    + rewrite position_map_fst. exact Hndp.
    + rewrite position_map_snd. apply N_seq_NoDup.
    + rewrite position_map_fst. exact HP.
  - rewrite <- (Permutation_map _ HP), lab_of_onto by exact Hndp.
    rewrite (Permutation_length HP), map_length. reflexivity.
Qed.

(* ---------- H2 ---------- *)
Lemma norm_pair_sym a b : norm_pair (a, b) = norm_pair (b, a).
Proof.
  unfold norm_pair; simpl. destruct (N.leb_spec a b), (N.leb_spec b a); try reflexivity; try lia.
  f_equal; lia.
Qed.
Lemma norm_fpair_norm g e : norm_pair (fpair g (norm_pair e)) = norm_pair (fpair g e).
Proof.
  destruct e as [a b]. unfold norm_pair at 2; simpl. destruct (N.leb a b); [reflexivity|].
  unfold fpair; simpl. apply norm_pair_sym.
Qed.

Lemma enumerate_from_map {A B} (f : A -> B) (l : list A) i :
  enumerate_from i (map f l) = map (fun kv => (fst kv, f (snd kv))) (enumerate_from i l).
Proof. revert i; induction l as [|x t IH]; intros i; simpl; [reflexivity|]. rewrite IH. reflexivity. Qed.
Lemma position_map_map f p : position_map (map f p) = map (fun kv => (f (fst kv), snd kv)) (position_map p).
Proof. unfold position_map. rewrite enumerate_from_map, !map_map. reflexivity. Qed.

(* transporting an ordering along an injective renaming transports its labelling *)
Lemma lab_of_map f p x : inj_on f p -> In x p ->
  fun_of_map (lab_of (map f p)) (f x) = fun_of_map (lab_of p) x.
Proof.
  intros Hinj Hx. unfold fun_of_map, lab_of. rewrite position_map_map.
  rewrite lookup_map_key; rewrite ?position_map_fst; try assumption.
  destruct (lookup (position_map p) x) as [v|] eqn:El; [reflexivity|].
  exfalso. destruct (in_dec N.eq_dec x (map fst (position_map p))) as [Hin|Hnot].
  - rewrite in_map_iff in Hin. destruct Hin as ([k v] & <- & Hin). simpl in El.
    (* some entry with this key exists, so the lookup cannot fail *)
    clear - El Hin. induction (position_map p) as [|[k' v'] t IH]; simpl in *; [contradiction|].
    destruct (N.eqb_spec k' k) as [->|Hne]; [discriminate|].
    destruct Hin as [E|Hin]; [inversion E; congruence | apply IH; assumption].
  - apply Hnot. rewrite position_map_fst. exact Hx.
Qed.

Section Iso.
  Variables V E V' E' : list (N * N).
  Variable f : N -> N.
  Hypothesis Hwf : wfc V E.
  Hypothesis HS : SameC f V E V' E'.

  Lemma SameC_labels : Permutation (map f (map fst V)) (map fst V').
  Proof.
    destruct HS as (_ & HV & _). rewrite <- (Permutation_map fst HV), !map_map. reflexivity.
  Qed.

  (* 5(a), forward: an ordering p of V's labels and the ordering map f p of V''s labels give the same code *)
  Lemma code_transport p : Permutation p (map fst V) -> code_of V' E' (map f p) = code_of V E p.
  Proof.
    intros HP. destruct HS as (Hinj & HV & HE). destruct Hwf as [Hnd Hends].
    assert (Hinjp : inj_on f p).
    { intros x y Hx Hy. apply Hinj; eapply Permutation_in; try exact HP; assumption. }
    assert (Hlab : forall x, In x (map fst V) ->
                     fun_of_map (lab_of (map f p)) (f x) = fun_of_map (lab_of p) x).
    { intros x Hx. apply lab_of_map; [exact Hinjp|]. eapply Permutation_in; [apply Permutation_sym, HP | exact Hx]. }
    unfold code_of, code. f_equal.
    - apply (isort_perm_invariant _ pair_leb pair_leb_total pair_leb_trans pair_leb_antisym).
      rewrite <- (Permutation_map _ HV), map_map.
      apply Permutation_refl'. apply map_ext_in. intros [l c] Hin. unfold relab, flv; simpl.
      rewrite Hlab; [reflexivity|]. apply (in_map fst) in Hin. exact Hin.
    - apply (isort_perm_invariant _ pair_leb pair_leb_total pair_leb_trans pair_leb_antisym).
      transitivity (map (relab_edge (lab_of (map f p))) (map norm_pair E')).
      { rewrite map_map. apply Permutation_refl'. apply map_ext. intros e. unfold relab_edge.
        symmetry. apply norm_fpair_norm. }
      rewrite <- (Permutation_map _ HE), map_map.
      apply Permutation_refl'. apply map_ext_in. intros e Hin. unfold relab_edge.
      rewrite norm_fpair_norm. destruct (Hends e Hin) as (_ & Hu & Hv).
      unfold fpair; simpl. rewrite !Hlab by assumption. reflexivity.
  Qed.

  Lemma ordering_forward p : Permutation p (map fst V) -> Permutation (map f p) (map fst V').
  Proof. intros HP. rewrite <- SameC_labels. apply Permutation_map, HP. Qed.

  (* 5(a), backward: every ordering of V''s labels is the image of an ordering of V's labels *)
  Lemma ordering_backward p' : Permutation p' (map fst V') ->
    exists p, p' = map f p /\ Permutation p (map fst V).
  Proof.
    intros HP'. rewrite <- SameC_labels in HP'.
    destruct (Permutation_map_inv _ _ HP') as (p & -> & Hp). exists p. split; [reflexivity|].
    apply Permutation_sym, Hp.
  Qed.

  (* 5(b): the two minima coincide *)
  Lemma ref_canon_code : code (ref_canon V E) V E = code (ref_canon V' E') V' E'.
  Proof.
    destruct (ref_canon_choice V E) as (p & -> & HP & Hmin).
    destruct (ref_canon_choice V' E') as (p' & -> & HP' & Hmin').
    fold (code_of V E p). fold (code_of V' E' p').
    destruct (ordering_backward p' HP') as (q & -> & Hq).
    rewrite (code_transport q Hq).
    apply code_leb_antisym.
    - apply Hmin, Hq.
    - rewrite <- (code_transport q Hq), <- (code_transport p HP).
      apply Hmin', ordering_forward, HP.
  Qed.
End Iso.

(* 5(c): equal codes are equal labelled coloured graphs up to listing order *)
Lemma code_eq_perm lam V E lam' V' E' : code lam V E = code lam' V' E' ->
  Permutation (map (relab lam) V) (map (relab lam') V') /\
  Permutation (map (relab_edge lam) E) (map (relab_edge lam') E').
Proof.
  unfold code. intros H. inversion H as [[HV HE]]. split.
  - rewrite (isort_perm _ pair_leb (map (relab lam) V)), HV. apply Permutation_sym, isort_perm.
  - rewrite (isort_perm _ pair_leb (map (relab_edge lam) E)), HE. apply Permutation_sym, isort_perm.
Qed.

Theorem ref_canon_H2 : H2 ref_canon.
Proof.
  intros V E V' E' f Hwf HS. apply code_eq_perm. apply (ref_canon_code V E V' E' f Hwf HS).
Qed.

Theorem contract_satisfiable : exists canon, H1 canon /\ H2 canon.
Proof. exists ref_canon. split; [apply ref_canon_H1 | apply ref_canon_H2]. Qed.

(* ---------- a run: the 4-cycle with colours 0,1,0,1 under two labellings and listings ---------- *)
Definition ex_V1 : list (N * N) := [(0, 0); (1, 1); (2, 0); (3, 1)]%N.
Definition ex_E1 : list (N * N) := [(0, 1); (1, 2); (2, 3); (3, 0)]%N.
(* renamed by 0->7, 1->5, 2->9, 3->2, vertices and edges listed in another order and orientation *)
Definition ex_V2 : list (N * N) := [(2, 1); (9, 0); (7, 0); (5, 1)]%N.
Definition ex_E2 : list (N * N) := [(9, 5); (7, 2); (5, 7); (2, 9)]%N.

Example ref_canon_run1 : ref_canon ex_V1 ex_E1 = [(0, 0); (2, 1); (1, 2); (3, 3)]%N.
Proof. vm_compute. reflexivity. Qed.
Example ref_canon_run_codes :
  code (ref_canon ex_V1 ex_E1) ex_V1 ex_E1 = code (ref_canon ex_V2 ex_E2) ex_V2 ex_E2 /\
  code (ref_canon ex_V1 ex_E1) ex_V1 ex_E1 =
    ([(0, 0); (1, 0); (2, 1); (3, 1)]%N, [(0, 2); (0, 3); (1, 2); (1, 3)]%N).
Proof. vm_compute. split; reflexivity. Qed.

Print Assumptions ref_canon_H1.
Print Assumptions ref_canon_H2.
Print Assumptions contract_satisfiable.
