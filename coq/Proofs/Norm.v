(* Norm.v -- C11: norm = serialize . canonicalize . parse on strings.
   Every graph the reference reader returns is in the domain of the pipeline theorems (well-formed,
   simple, positive attribute values, atomic numbers with symbols); hence
     - norm is idempotent (the canonical string is a fixed point),
     - norm is defined on every accepted string with at least one atom,
     - norm gives the same string on every respelling of an accepted string,
     - equal norms only for the same molecule. *)
From Coq Require Import List NArith ZArith Bool Lia Permutation String.
Require Import Base Mol Canon Text Token Parse Pipeline MolProofs SameMol CanonProofs ViewProofs AstOf TotalProofs.
Require ParseProofs Respell RoundTrip2 RefCanon.
Import ListNotations.

(* ====================================================================== *)
(* 1. graphs returned by the reference reader are well-formed              *)
(* ====================================================================== *)

(* every bond once: the listener's graph is a set of normalised pairs *)
Lemma sem_mol_simple a : RoundTrip2.simple (ParseProofs.sem_mol a).
Proof.
  unfold RoundTrip2.simple.
  change (NoDup (map (fun b : N * N * unit => norm_pair (ends b)) (bonds (ParseProofs.sem_mol a)))).
  rewrite Respell.sem_mol_nbonds. apply ParseProofs.dedup_pairs_NoDup.
Qed.

(* a stored mass/rad value is the value of a property written in the string; the grammar
   (node_property_value ::= greater_than_zero) bounds it below by 1 *)
Lemma sem_mol_pos_attrs a : ParseProofs.ast_wf a -> ParseProofs.NoDupAttr a -> pos_attrs (ParseProofs.sem_mol a).
Proof.
  intros Hwf ND x Hx. apply Respell.sem_mol_atoms_In in Hx. destruct Hx as (l & _ & ->).
  unfold Respell.atom_of. cbn [mass rad].
  split; intros v E; apply (ParseProofs.find_prop_In _ _ _ _ ND) in E; apply ParseProofs.flat_props_In in E;
    destruct E as (ps & Hb & Hp); destruct (ParseProofs.wf_blocks Hwf _ _ Hb) as (_ & _ & Hv); apply Hv in Hp; exact Hp.
Qed.

(* the element rules of the grammar only mention symbols of the element table *)
Lemma order_of_rule_known r z : In z (map fst (order_of_rule r)) -> symbol_of z <> None.
Proof.
  unfold order_of_rule. rewrite in_map_iff. intros ([z' o] & E & Hin). cbn [fst] in E. subst z'.
  apply in_flat_map in Hin. destruct Hin as (p & _ & Hp).
  destruct (z_of_symbol (t (fst p))) as [z0|] eqn:Ez; [|destruct Hp].
  destruct Hp as [Hp|[]]. inversion Hp; subst z0.
  rewrite (ParseProofs.z_of_symbol_symbol_of _ Ez). discriminate.
Qed.

Lemma Formula_known tf it z : ParseProofs.Formula tf it -> In z (map fst it) -> symbol_of z <> None.
Proof.
  intros [H|H] Hz; apply ParseProofs.OptSeq_syms_incl in H; apply H in Hz.
  - apply (order_of_rule_known Grammar.with_carbon_g4 z Hz).
  - apply (order_of_rule_known Grammar.without_carbon_g4 z Hz).
Qed.

Lemma expand_In it z : In z (expand it) -> In z (map fst it).
Proof.
  unfold expand. rewrite in_flat_map. intros (p & Hp & Hz). apply repeat_spec in Hz. subst z. apply in_map, Hp.
Qed.

Lemma Sentence_Formula ts a : ParseProofs.Sentence ts a -> exists tf, ParseProofs.Formula tf (items a).
Proof. intros H; inversion H; subst; cbn [items]; eauto. Qed.

Lemma N_seq_length i n : length (N_seq i n) = n.
Proof. revert i; induction n as [|n IH]; intros i; simpl; [reflexivity|]. rewrite IH. reflexivity. Qed.

Theorem parsed_graph_wf (s : text) (g : mol unit unit) :
  ref_parse s = inr g ->
  wfg g /\ RoundTrip2.simple g /\ pos_attrs g /\ known_elements g /\ labels g = N_seq 0 (length (atoms g)).
Proof.
  intros Hp. pose proof Hp as Hp0. apply ParseProofs.ref_parse_accepts_iff in Hp.
  destruct Hp as (ts & a & Hl & HS & HL & ND & HI & ->).
  pose proof (ParseProofs.Sentence_wf HS) as Hwf.
  split; [apply (Respell.sem_mol_wfg (Respell.ast_wf_IndexPos Hwf) HL HI)|].
  split; [apply sem_mol_simple|].
  split; [apply (sem_mol_pos_attrs a Hwf ND)|].
  assert (Hs : sem a = inr (ParseProofs.sem_mol a)).
  { assert (Hex : exists g, sem a = inr g) by (apply ParseProofs.sem_accepts_iff; auto).
    destruct Hex as (g & Hg). rewrite Hg. f_equal. apply (ParseProofs.sem_accepts_value _ Hg). }
  destruct (ParseProofs.sem_graph_spec _ Hs) as (Hlab & _ & _ & Hperm & _).
  split.
  - intros x Hx. destruct (Sentence_Formula ts a HS) as (tf & HF).
    apply (Formula_known tf (items a) (zn x) HF). apply expand_In.
    apply (Permutation_in _ Hperm). apply in_map, Hx.
  - pose proof (f_equal (@length N) Hlab) as Hlen. unfold labels in Hlen at 1.
    rewrite map_length, N_seq_length in Hlen. rewrite Hlen. exact Hlab.
Qed.

(* ====================================================================== *)
(* 2. the normalisation on strings                                         *)
(* ====================================================================== *)
(* norm = serialize . canonicalize . parse; None when the string is rejected (or when the
   pipeline fails, which for an accepted string only happens on the empty molecule, see
   norm_defined below) *)
Definition norm (canon : list (N * N) -> list (N * N) -> list (N * N)) (s : text) : option text :=
  match ref_parse s with inr g => tucan canon g | inl _ => None end.

Lemma norm_some canon s c : norm canon s = Some c -> exists g, ref_parse s = inr g /\ tucan canon g = Some c.
Proof. unfold norm. destruct (ref_parse s) as [e|g]; [discriminate|]. intros H. exists g. auto. Qed.
Lemma norm_of_parse canon s g : ref_parse s = inr g -> norm canon s = tucan canon g.
Proof. unfold norm. intros ->. reflexivity. Qed.

(* a string spells a syntax tree: it lexes, and the token list parses to the tree *)
Definition spells (s : text) (a : ast) : Prop := exists ts, lex_text s = Some ts /\ parse_tokens ts = Some a.
(* s' is a respelling of s: their syntax trees are related by a finite sequence of the respelling
   steps of the property text (Respell.Respell: tuple order, tuple direction, repeating or dropping
   a repeated tuple, block order, splitting/merging blocks, property order inside a block,
   renumbering atoms inside their element blocks with tuples and attributes renamed) *)
Definition RespellText (s s' : text) : Prop := exists a a', spells s a /\ spells s' a' /\ Respell.Respell a a'.

Lemma spells_wf s a : spells s a -> ParseProofs.ast_wf a.
Proof.
  intros (ts & Hl & Hp). apply (@ParseProofs.Sentence_wf ts a).
  apply ParseProofs.parse_tokens_sound; [apply (ParseProofs.lex_text_tok_ok _ Hl) | exact Hp].
Qed.
Lemma spells_parse s a : spells s a -> ref_parse s = sem a.
Proof. intros (ts & Hl & Hp). unfold ref_parse. rewrite Hl, Hp. reflexivity. Qed.
Lemma RespellText_sym s s' : RespellText s s' -> RespellText s' s.
Proof. intros (a & a' & H1 & H2 & HR). exists a', a. split; [exact H2|]. split; [exact H1|]. apply Respell.Respell_sym, HR. Qed.
Lemma RespellText_refl s g : ref_parse s = inr g -> RespellText s s.
Proof.
  intros H. apply ParseProofs.ref_parse_sound_complete in H. destruct H as (ts & a & Hl & HS & _).
  assert (Hsp : spells s a) by (exists ts; split; [exact Hl | apply ParseProofs.parse_tokens_complete, HS]).
  exists a, a. split; [exact Hsp|]. split; [exact Hsp|]. apply Respell.Rs_refl.
Qed.

Section Norm.
  Variable canon : list (N * N) -> list (N * N) -> list (N * N).
  Hypothesis HH1 : H1 canon.

  (* norm is defined on every accepted string that has at least one atom.  The only accepted
     string without atoms is "/" (empty formula): there the model's `classes` is undefined (max of
     an empty list), i.e. the empty molecule is outside the model's domain; the implementation
     returns "/" for it after the repair commit. *)
  Theorem norm_defined s g : ref_parse s = inr g -> atoms g <> [] -> exists s', norm canon s = Some s'.
  Proof.
    intros Hp Hne. destruct (parsed_graph_wf s g Hp) as (Hw & _ & _ & Hk & _).
    rewrite (norm_of_parse canon s g Hp). apply (tucan_total canon g HH1 Hw Hne Hk).
  Qed.

  (* C02 on strings: two accepted strings with the same normal form denote the same molecule *)
  Theorem norm_complete_invariant s1 s2 g1 g2 c :
    ref_parse s1 = inr g1 -> ref_parse s2 = inr g2 -> norm canon s1 = Some c -> norm canon s2 = Some c ->
    exists pi, SameMol pi g1 g2.
  Proof.
    intros Hp1 Hp2 Hn1 Hn2. rewrite (norm_of_parse canon _ _ Hp1) in Hn1. rewrite (norm_of_parse canon _ _ Hp2) in Hn2.
    destruct (parsed_graph_wf _ _ Hp1) as (Hw1 & Hs1 & Hpa1 & _). destruct (parsed_graph_wf _ _ Hp2) as (Hw2 & Hs2 & Hpa2 & _).
    apply (RoundTrip2.tucan_complete canon HH1 g1 g2 c Hw1 Hs1 Hpa1 Hw2 Hs2 Hpa2 Hn1 Hn2).
  Qed.

  Hypothesis HH2 : H2 canon.

  (* applying the normalisation twice gives the same string as applying it once *)
  Theorem norm_idempotent s s' : norm canon s = Some s' -> norm canon s' = Some s'.
  Proof.
    intros Hn. destruct (norm_some canon s s' Hn) as (g & Hp & Ht).
    destruct (parsed_graph_wf s g Hp) as (Hw & Hs & Hpa & _).
    destruct (RoundTrip2.tucan_fixed_point canon HH1 HH2 g s' Hw Hs Hpa Ht) as (g' & Hp' & Ht').
    rewrite (norm_of_parse canon s' g' Hp'). exact Ht'.
  Qed.

  (* two accepted strings that denote the same molecule (graphs related by a renaming) have the
     same normal form *)
  Theorem norm_same_molecule s1 s2 g1 g2 pi :
    ref_parse s1 = inr g1 -> ref_parse s2 = inr g2 -> SameMol pi g1 g2 -> norm canon s1 = norm canon s2.
  Proof.
    intros Hp1 Hp2 HS. rewrite (norm_of_parse canon _ _ Hp1), (norm_of_parse canon _ _ Hp2).
    destruct (parsed_graph_wf _ _ Hp1) as (Hw1 & _ & Hpa1 & _).
    apply (TucanProofs.tucan_invariant canon HH1 HH2 pi g1 g2 Hw1 HS (RoundTrip2.pos_attrs_nozero g1 Hpa1)).
  Qed.

  (* respelling does not change the result: both strings are rejected, or both are accepted and
     normalise to the same string *)
  Lemma norm_respell_ast s s' a a' : spells s a -> spells s' a' -> Respell.Respell a a' -> norm canon s' = norm canon s.
  Proof.
    intros Hsp Hsp' HR. unfold norm. rewrite (spells_parse s a Hsp), (spells_parse s' a' Hsp').
    destruct (sem a) as [e|g] eqn:Es.
    - destruct (sem a') as [e'|g'] eqn:Es'; [reflexivity|]. exfalso.
      destruct (Respell.respell_same_tucan HH1 HH2 (Respell.Respell_sym HR) (spells_wf s' a' Hsp') Es') as (g0 & Es0 & _).
      rewrite Es in Es0. discriminate.
    - destruct (Respell.respell_same_tucan HH1 HH2 HR (spells_wf s a Hsp) Es) as (g' & Es' & Ht & _).
      rewrite Es'. symmetry. exact Ht.
  Qed.

  Theorem norm_respell s s' : RespellText s s' -> norm canon s' = norm canon s.
  Proof. intros (a & a' & H1 & H2 & HR). apply (norm_respell_ast s s' a a' H1 H2 HR). Qed.

  (* the form asked for: token lists and trees named *)
  Corollary norm_respell_tokens s ts a a' s' ts' :
    lex_text s = Some ts -> parse_tokens ts = Some a -> Respell.Respell a a' ->
    lex_text s' = Some ts' -> parse_tokens ts' = Some a' -> norm canon s' = norm canon s.
  Proof. intros Hl Hp HR Hl' Hp'. apply (norm_respell_ast s s' a a'); [exists ts | exists ts' | exact HR]; auto. Qed.

  (* "canonical or not": the one canonical string c of an accepted string s is its own normal form,
     is the normal form of every respelling of s, and an accepted respelling of c itself
     normalises to c as well *)
  Corollary norm_canonical s c : norm canon s = Some c ->
    norm canon c = Some c /\
    (forall s', RespellText s s' -> norm canon s' = Some c) /\
    (forall c', RespellText c c' -> norm canon c' = Some c).
  Proof.
    intros Hn. pose proof (norm_idempotent s c Hn) as Hc. split; [exact Hc|]. split.
    - intros s' HR. rewrite (norm_respell s s' HR). exact Hn.
    - intros c' HR. rewrite (norm_respell c c' HR). exact Hc.
  Qed.
End Norm.

(* ====================================================================== *)
(* 3. non-vacuity: spellings of deuterated, 13C-labelled methanol radical   *)
(* ====================================================================== *)
(* atoms: 1-4 H, 5 C, 6 O; the hydroxyl hydrogen carries mass=2 and rad=1, the carbon mass=13 *)
Definition ex_c : text := t "CH4O/(1-5)(2-5)(3-5)(4-6)(5-6)/(4:mass=2,rad=1)(5:mass=13)".
(* hydrogens 1 and 4 exchanged; tuples in reverse order, two written backwards, one repeated;
   blocks reordered, the block of atom 1 split in two *)
Definition ex_s1 : text := t "CH4O/(6-5)(1-6)(5-3)(2-5)(4-5)(2-5)/(5:mass=13)(1:rad=1)(1:mass=2)".
(* hydroxyl hydrogen numbered 3; another tuple order *)
Definition ex_s2 : text := t "CH4O/(2-5)(5-1)(4-5)(3-6)(6-5)/(5:mass=13)(3:mass=2,rad=1)".

Example ex_norm_s1 : norm RefCanon.ref_canon ex_s1 = Some ex_c.
Proof. vm_compute. reflexivity. Qed.
Example ex_norm_s2 : norm RefCanon.ref_canon ex_s2 = Some ex_c.
Proof. vm_compute. reflexivity. Qed.
Example ex_norm_c : norm RefCanon.ref_canon ex_c = Some ex_c.
Proof. vm_compute. reflexivity. Qed.
Example ex_strings_differ : ex_s1 <> ex_c /\ ex_s2 <> ex_c /\ ex_s1 <> ex_s2.
Proof. repeat split; vm_compute; discriminate. Qed.
Example ex_graphs_differ : ref_parse ex_s1 <> ref_parse ex_c.
Proof. vm_compute. discriminate. Qed.
(* a string that spells a different graph (tuple 4-6 replaced by 4-5: the labelled hydrogen hangs
   on the carbon instead of the oxygen) gets a different normal form *)
Example ex_other_molecule :
  norm RefCanon.ref_canon (t "CH4O/(1-5)(2-5)(3-5)(4-5)(5-6)/(4:mass=2,rad=1)(5:mass=13)") <> Some ex_c.
Proof. vm_compute. discriminate. Qed.
(* rejected strings have no normal form; the empty molecule is accepted but outside the model's domain *)
Example ex_rejected : norm RefCanon.ref_canon (t "CH4/(1-1)") = None /\ norm RefCanon.ref_canon (t "H2C/") = None.
Proof. split; vm_compute; reflexivity. Qed.
Example ex_empty : ref_parse (t "/") = inr (mkMol [] []) /\ norm RefCanon.ref_canon (t "/") = None.
Proof. split; vm_compute; reflexivity. Qed.

(* the theorems applied (nothing computed through the pipeline): ex_s1 is a respelling of ex_c *)
Lemma spells_compute s a :
  match lex_text s with Some ts => parse_tokens ts | None => None end = Some a -> spells s a.
Proof. destruct (lex_text s) as [ts|] eqn:E; [|discriminate]. intros H. exists ts. auto. Qed.

Local Open Scope Z_scope.
Definition ex_ast_c : ast :=
  mkAst [(6%N, 1); (1%N, 4); (8%N, 1)]
        [(1, 5); (2, 5); (3, 5); (4, 6); (5, 6)]
        [(4, [(KMass, 2); (KRad, 1)]); (5, [(KMass, 13)])].
Definition ex_ast_s1 : ast :=
  mkAst [(6%N, 1); (1%N, 4); (8%N, 1)]
        [(6, 5); (1, 6); (5, 3); (2, 5); (4, 5); (2, 5)]
        [(5, [(KMass, 13)]); (1, [(KRad, 1)]); (1, [(KMass, 2)])].
Definition ex_f (i : Z) : Z := match i with 1 => 4 | 4 => 1 | _ => i end.

Example ex_spells_c : spells ex_c ex_ast_c.
Proof. apply spells_compute. vm_compute. reflexivity. Qed.
Example ex_spells_s1 : spells ex_s1 ex_ast_s1.
Proof. apply spells_compute. vm_compute. reflexivity. Qed.

Example ex_renumbering : Respell.Renumbering ex_ast_c ex_f ex_f.
Proof.
  assert (Hinv : forall i, ex_f (ex_f i) = i).
  { intros i. destruct i as [|p|p]; try reflexivity.
    destruct p as [p|p|]; try reflexivity; destruct p as [p|p|]; try reflexivity;
      destruct p as [p|p|]; reflexivity. }
  assert (Hcases : forall i, Respell.in_range ex_ast_c i -> i = 1 \/ i = 2 \/ i = 3 \/ i = 4 \/ i = 5 \/ i = 6).
  { intros i Hi. unfold Respell.in_range in Hi. change (ParseProofs.n_atoms ex_ast_c) with 6 in Hi. lia. }
  constructor; try exact Hinv.
  - intros i Hi. apply Hcases in Hi. unfold Respell.in_range. change (ParseProofs.n_atoms ex_ast_c) with 6.
    repeat (destruct Hi as [->|Hi]; [simpl; lia|]). subst i. simpl. lia.
  - intros i Hi. apply Hcases in Hi. unfold Respell.in_range. change (ParseProofs.n_atoms ex_ast_c) with 6.
    repeat (destruct Hi as [->|Hi]; [simpl; lia|]). subst i. simpl. lia.
  - intros i Hi. apply Hcases in Hi.
    repeat (destruct Hi as [->|Hi]; [reflexivity|]). subst i. reflexivity.
Qed.

Example ex_respell_ast : Respell.Respell ex_ast_c ex_ast_s1.
Proof.
  eapply Respell.Rs_trans; [apply (Respell.Rs_renumber ex_renumbering)|].
  unfold Respell.renumber, ex_ast_c, ex_ast_s1; cbn [items tuples blocks map fst snd ex_f].
  eapply Respell.Rs_trans; [apply (Respell.Rs_block_split _ _ [] 1 [(KMass, 2)] [(KRad, 1)])|]. cbn [app].
  eapply Respell.Rs_trans; [apply Respell.Rs_block_order, Permutation_rev|]. cbn [rev app].
  eapply Respell.Rs_trans; [apply Respell.Rs_tuple_order, Permutation_rev|]. cbn [rev app].
  eapply Respell.Rs_trans; [apply (Respell.Rs_tuple_swap _ [] 5 6)|].
  eapply Respell.Rs_trans; [apply (Respell.Rs_tuple_swap _ [_; _] 3 5)|].
  apply (Respell.Rs_tuple_repeat _ [_; _; _; _; _] [] (2, 5)). simpl. auto 8.
Qed.

Example ex_respell_text : RespellText ex_c ex_s1.
Proof. exists ex_ast_c, ex_ast_s1. split; [exact ex_spells_c|]. split; [exact ex_spells_s1 | exact ex_respell_ast]. Qed.

(* from the theorems: for EVERY oracle satisfying the contract, ex_s1 and ex_c have the same
   normal form, and it is a fixed point *)
Example ex_by_theorem canon : H1 canon -> H2 canon ->
  norm canon ex_s1 = norm canon ex_c /\ exists c, norm canon ex_c = Some c /\ norm canon c = Some c.
Proof.
  intros HH1 HH2. split; [apply (norm_respell canon HH1 HH2 _ _ ex_respell_text)|].
  destruct (norm_defined canon HH1 ex_c (ParseProofs.sem_mol ex_ast_c)) as (c & Hc).
  - rewrite (spells_parse _ _ ex_spells_c). vm_compute. reflexivity.
  - vm_compute. discriminate.
  - exists c. split; [exact Hc | apply (norm_idempotent canon HH1 HH2 _ _ Hc)].
Qed.

Print Assumptions parsed_graph_wf.
Print Assumptions norm_defined.
Print Assumptions norm_idempotent.
Print Assumptions norm_respell.
Print Assumptions norm_respell_tokens.
Print Assumptions norm_canonical.
Print Assumptions norm_same_molecule.
Print Assumptions norm_complete_invariant.
Print Assumptions ex_norm_s1.
Print Assumptions ex_respell_text.
Print Assumptions ex_by_theorem.
