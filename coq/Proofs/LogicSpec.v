(* LogicSpec.v -- the decisions the hand-written model hard-codes, tied to the decisions read from the
   Python AST on every run (harness/gen_logic.py -> gen/Logic.v).
   gen_tables.py / ParamsSpec.v tie constants and tables; this file ties comparison operators of guards,
   index offsets and "sorted before use" flags.  Each lemma has the form

        <the model's decision, as written in Model/*.v>  =  <the decision gen/Logic.v reports, interpreted>

   for ALL arguments, so that an edit of the Python that flips `>=` to `>`, drops a `sorted`, or shifts an
   offset makes this file stop compiling (and with it ParamsSpec.v and every Props file).  A rewrite of the
   Python that the translator does not recognise falls back to the committed value (fail-soft) and is then
   tied by the behavioural correspondences only. *)
From Coq Require Import List NArith ZArith Bool String Lia.
Require Logic.
Require Import Base Mol Partition Final Text Token Serialize Parse.
Import ListNotations.
Open Scope string_scope.

(* ---- interpretation of Python comparison operator names (ast class names) ---- *)
Definition cmpZ (op : string) (a b : Z) : bool :=
  if String.eqb op "Eq" then Z.eqb a b
  else if String.eqb op "NotEq" then negb (Z.eqb a b)
  else if String.eqb op "Lt" then Z.ltb a b
  else if String.eqb op "LtE" then Z.leb a b
  else if String.eqb op "Gt" then Z.ltb b a
  else if String.eqb op "GtE" then Z.leb b a
  else false.

(* ------------------------------------------------------------------ parser.py : TucanListenerImpl *)

(* enterTuple: `if index1 == index2: raise` -- Parse.sem: existsb (fun e => Z.eqb (fst e) (snd e)) *)
Lemma listener_selfloop_decision :
  forall a b : Z, Z.eqb a b = cmpZ Logic.listener_selfloop_test a b.
Proof. intros; reflexivity. Qed.

(* _add_bond stores (index1 - 1, index2 - 1) and _add_node_attribute keys by node_index - 1;
   _validate_atom_index raises when `index >= len(self._atoms)`.
   Parse.sem works on the 1-based numbers of the text and rejects with `Z.ltb n i`. *)
Lemma listener_bond_index_decision :
  forall (n i : Z) (off : Z), In off Logic.listener_bond_offsets ->
    Z.ltb n i = cmpZ Logic.listener_validate_op (i - off) n.
Proof.
  intros n i off [<-|[<-|[]]]; unfold Logic.listener_validate_op, cmpZ; simpl String.eqb; cbv iota;
  destruct (Z.ltb_spec n i), (Z.leb_spec n (i - 1)); try reflexivity; lia.
Qed.
Lemma listener_attr_index_decision :
  forall n i : Z, Z.ltb n i = cmpZ Logic.listener_validate_op (i - Logic.listener_attr_offset) n.
Proof.
  intros; unfold Logic.listener_validate_op, Logic.listener_attr_offset, cmpZ; simpl String.eqb; cbv iota;
  destruct (Z.ltb_spec n i), (Z.leb_spec n (i - 1)); try reflexivity; lia.
Qed.
(* the model's bond endpoints are the text's numbers minus the same offsets *)
Lemma listener_bond_offsets_are_model's :
  forall e : Z * Z,
    (Z.to_N (fst e - 1), Z.to_N (snd e - 1)) =
    (Z.to_N (fst e - nth 0 Logic.listener_bond_offsets 0%Z), Z.to_N (snd e - nth 1 Logic.listener_bond_offsets 0%Z)).
Proof. intros; reflexivity. Qed.
(* every bond endpoint and every attribute index is validated (to_graph calls the validator on both loop
   variables of the bond loop and on the key of the attribute loop) *)
Example listener_validates_everything : Logic.listener_validate_calls = [2; 1]%Z. Proof. reflexivity. Qed.
(* `if attr_key in attrs_for_node: raise` (Parse.has_dup) *)
Example listener_dup_attr_membership : Logic.listener_dup_attr_test = "In". Proof. reflexivity. Qed.
(* sorted(self._atoms, key=lambda a: a[ATOMIC_NUMBER]), ascending, stable (Parse.sem: isort Nleb) *)
Example listener_sorts_by_Z_ascending :
  Logic.listener_sort_key = "ATOMIC_NUMBER" /\ Logic.listener_sort_reverse = false.
Proof. split; reflexivity. Qed.
(* a symbol without a count stands for one atom (Parse.parse_items) *)
Lemma listener_default_count_is_model's :
  forall z, Parse.expand [(z, Logic.listener_default_count)] = [z].
Proof. intros; reflexivity. Qed.

(* ------------------------------------------------------------------ serialization.py *)

(* f"({edge[0] + 1}-{edge[1] + 1})" over sorted([sorted(edge) ...]) *)
Lemma edge_tuple_is_model's :
  forall e : N * N,
    [TLp; TNum (Z.of_N (fst e) + 1); TDash; TNum (Z.of_N (snd e) + 1); TRp] =
    [TLp; TNum (Z.of_N (fst e) + nth 0 Logic.edge_offsets 0%Z); TDash;
     TNum (Z.of_N (snd e) + nth 1 Logic.edge_offsets 0%Z); TRp].
Proof. intros; reflexivity. Qed.
Example edge_list_spelling : Logic.edge_literals = ["("; "-"; ")"]. Proof. reflexivity. Qed.
Example edge_list_sorted_twice : Logic.edge_inner_sorted = true /\ Logic.edge_outer_sorted = true.
Proof. split; reflexivity. Qed.
(* f"({label + 1}:" over sorted(m.nodes(data=True)) *)
Lemma attr_label_is_model's :
  forall l : N, TNum (Z.of_N l + 1) = TNum (Z.of_N l + Logic.attr_label_offset).
Proof. intros; reflexivity. Qed.
Example attr_nodes_in_label_order : Logic.attr_nodes_sorted = true. Proof. reflexivity. Qed.
(* sort_molecule_by_attribute(_assign_final_labels(m), ATOMIC_NUMBER) *)
Example final_sort_by_Z : Logic.final_sort_key = "ATOMIC_NUMBER". Proof. reflexivity. Qed.
(* f"{k}{v}" if v > 1 else k  -- Serialize.formula_item: if N.ltb 1 c *)
Lemma formula_count_decision :
  forall c : N, N.ltb 1 c = cmpZ Logic.formula_count_test (Z.of_N c) Logic.formula_count_bound.
Proof.
  intros; unfold Logic.formula_count_test, Logic.formula_count_bound, cmpZ; simpl String.eqb; cbv iota.
  destruct (N.ltb_spec 1 c), (Z.ltb_spec 1 (Z.of_N c)); try reflexivity; lia.
Qed.
Lemma formula_item_is_model's :
  forall z c,
    formula_item z c =
    if cmpZ Logic.formula_count_test (Z.of_N c) Logic.formula_count_bound then [TSym z; TNum (Z.of_N c)] else [TSym z].
Proof. intros; unfold formula_item; rewrite formula_count_decision; reflexivity. Qed.
Example formula_rest_alphabetical : Logic.formula_rest_sorted = true. Proof. reflexivity. Qed.
(* _labels_by_partition sorts descending and _assign_final_labels pops from the end = smallest label first;
   the outer loop starts at the smallest unexplored label; neighbours of one priority are visited in label order *)
Example traversal_orders :
  Logic.labels_by_partition_reverse = true /\ Logic.unexplored_sorted = true /\ Logic.neighbors_sorted = true.
Proof. repeat split; reflexivity. Qed.

(* ------------------------------------------------------------------ canonicalization.py *)

(* refine_partitions stops when get_number_of_partitions(m_refined) == get_number_of_partitions(m), where
   get_number_of_partitions is max(partition values) -- Partition.refine: N.eqb k' k on nparts = maxN_list *)
Lemma refine_stop_decision :
  forall k' k : N, N.eqb k' k = cmpZ Logic.refine_stop_test (Z.of_N k') (Z.of_N k).
Proof.
  intros; unfold Logic.refine_stop_test, cmpZ; simpl String.eqb; cbv iota.
  destruct (N.eqb_spec k' k), (Z.eqb_spec (Z.of_N k') (Z.of_N k)); try reflexivity; lia.
Qed.
Lemma refine_step_is_model's :
  forall (P B : Type) (f : nat) (m : mol P B),
    refine (S f) m =
    let m' := partition_by_part m in
    match nparts m', nparts m with
    | Some k', Some k => if cmpZ Logic.refine_stop_test (Z.of_N k') (Z.of_N k) then Some m' else refine f m'
    | _, _ => None
    end.
Proof.
  intros; cbn [refine]; cbv zeta.
  destruct (nparts (partition_by_part m)) as [k'|]; [|reflexivity].
  destruct (nparts m) as [k|]; [|reflexivity].
  rewrite refine_stop_decision; reflexivity.
Qed.
Example partition_count_is_max : Logic.partition_count_fn = "max". Proof. reflexivity. Qed.
Example partition_ranks_from_sorted_set : Logic.partition_unique_sorted = true. Proof. reflexivity. Qed.
(* `if m.number_of_nodes() == 0: return m.copy()`; relabel_nodes(..., copy=True) *)
Example canon_empty_guard : Logic.canon_empty_test = ("Eq", 0%Z). Proof. reflexivity. Qed.
Example canon_relabels_a_copy : Logic.canon_relabel_copy = true. Proof. reflexivity. Qed.

(* ------------------------------------------------------------------ graph_utils.py *)

(* INVARIANT_CODE is built from InvariantCodeDefinition(KEY[, default]) entries only, the value being attrs[key] or
   attrs.get(key, default): no further field that could identify distinct values (Mol.inv_code = (zn, mass or 0, rad or 0);
   the entries themselves are Params.invariant_code_defs, checked in ParamsSpec.v) *)
Example invariant_code_has_no_further_rule : Logic.invariant_code_plain = true. Proof. reflexivity. Qed.
(* attribute_sequence returns the atom's own value first, then the (sorted) neighbour values (Partition.keyL) *)
Example attribute_sequence_own_value_first : Logic.attribute_sequence_own_first = true. Proof. reflexivity. Qed.

(* ------------------------------------------------------------------ molfile_v3000_reader.py *)
Require V3000.

(* `if val and val[-1] != 0: atom_attrs[key] = val[-1]` -- V3000.last_nonzero: the last statement of a keyword wins, and it is
   stored exactly when the source's test (operator and constant read from the AST) holds *)
Lemma v3000_store_decision :
  forall l : list Z,
    V3000.last_nonzero l =
    match rev l with
    | v :: _ => if cmpZ (fst Logic.v3000_store_test) v (snd Logic.v3000_store_test) then Some v else None
    | [] => None
    end.
Proof.
  intros l; unfold V3000.last_nonzero; destruct (rev l) as [|v r]; [reflexivity|].
  unfold Logic.v3000_store_test, cmpZ; cbn [fst snd]; simpl String.eqb; cbv iota.
  destruct (Z.eqb v 0); reflexivity.
Qed.
(* `if key != CHG and val and val[-1] < 0: raise` -- V3000.last_negative, applied to MASS and RAD only *)
Lemma v3000_negative_decision :
  forall l : list Z,
    V3000.last_negative l =
    match rev l with
    | v :: _ => cmpZ (fst Logic.v3000_negative_test) v (snd Logic.v3000_negative_test)
    | [] => false
    end.
Proof. intros l; unfold V3000.last_negative; destruct (rev l) as [|v r]; reflexivity. Qed.
Example v3000_charge_may_be_negative : Logic.v3000_negative_exempt = "CHG". Proof. reflexivity. Qed.
(* every use of the collected values is val[-1] (or emptiness), and the loop over CHG / MASS / RAD has no break / continue:
   each of the three keywords is treated, whatever the others state *)
Example v3000_last_statement_wins : Logic.v3000_last_wins = true /\ Logic.v3000_attr_loop_plain = true.
Proof. split; reflexivity. Qed.

(* ------------------------------------------------------------------ molfile_v2000_reader.py *)
(* any `M  CHG` or `M  RAD` line clears both the charges and the radicals that came from the atom block (V2000.apply_extra: one
   reset flag for both) *)
Example v2000_chg_or_rad_line_resets_both : Logic.v2000_reset_both = true. Proof. reflexivity. Qed.
