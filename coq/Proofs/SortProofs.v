(* SortProofs.v -- insertion sort is Python's sorted(): a sorted permutation, and therefore
   independent of the listing order of its input; the lexicographic order is a total order. *)
From Coq Require Import List NArith ZArith Bool Lia Permutation Sorting.Sorted.
Require Import Base.
Import ListNotations.

Section Sort.
  Variable A : Type.
  Variable leb : A -> A -> bool.

  Lemma insert_perm x l : Permutation (x :: l) (insert leb x l).
  Proof.
    induction l as [|y t IH]; simpl; [reflexivity|].
    destruct (leb x y); [reflexivity|].
    rewrite perm_swap. constructor. exact IH.
  Qed.
  Lemma isort_perm l : Permutation l (isort leb l).
  Proof.
    induction l as [|x t IH]; simpl; [constructor|].
    rewrite <- insert_perm. constructor. exact IH.
  Qed.
  Lemma isort_length l : length (isort leb l) = length l.
  Proof. symmetry. apply Permutation_length, isort_perm. Qed.
  Lemma isort_in x l : In x (isort leb l) <-> In x l.
  Proof.
    split; intros H.
    - eapply Permutation_in; [apply Permutation_sym, isort_perm | exact H].
    - eapply Permutation_in; [apply isort_perm | exact H].
  Qed.

  Hypothesis leb_total : forall x y, leb x y = true \/ leb y x = true.
  Hypothesis leb_trans : forall x y z, leb x y = true -> leb y z = true -> leb x z = true.

  Definition sorted := Sorted (fun x y => leb x y = true).
  Lemma insert_sorted x l : sorted l -> sorted (insert leb x l).
  Proof.
    induction 1 as [|y t Hs IH Hhd]; simpl.
    - repeat constructor.
    - destruct (leb x y) eqn:E.
      + constructor; [constructor; assumption| constructor; exact E].
      + constructor; [exact IH|].
        destruct (leb_total x y) as [H|H]; [congruence|].
        destruct t as [|z t']; simpl; [constructor; exact H|].
        destruct (leb x z); constructor; [exact H|]. inversion Hhd; assumption.
  Qed.
  Lemma isort_sorted l : sorted (isort leb l).
  Proof. induction l; simpl; [constructor| apply insert_sorted; assumption]. Qed.

  Lemma sorted_all_le x t : sorted (x :: t) -> forall z, In z t -> leb x z = true.
  Proof.
    intros HS. apply Sorted_extends in HS; [|intros a b c; apply leb_trans].
    intros z Hz. rewrite Forall_forall in HS. apply HS, Hz.
  Qed.

  Hypothesis leb_antisym : forall x y, leb x y = true -> leb y x = true -> x = y.

  Lemma sorted_perm_eq l l' : sorted l -> sorted l' -> Permutation l l' -> l = l'.
  Proof.
    intros Hl. revert l'.
    induction Hl as [|x t Hs IH Hhd]; intros l' Hl' HP.
    - apply Permutation_nil in HP. subst; reflexivity.
    - destruct l' as [|y t']; [apply Permutation_sym, Permutation_nil in HP; discriminate|].
      assert (Hx : forall z, In z t -> leb x z = true) by (apply sorted_all_le; constructor; assumption).
      assert (Hy : forall z, In z t' -> leb y z = true) by (apply sorted_all_le; exact Hl').
      assert (x = y).
      { assert (H : In x (y :: t')) by (eapply Permutation_in; [exact HP| left; reflexivity]).
        assert (H0 : In y (x :: t)) by (eapply Permutation_in; [apply Permutation_sym; exact HP| left; reflexivity]).
        simpl in *. destruct H as [->|H]; [reflexivity|]. destruct H0 as [->|H0]; [reflexivity|].
        apply leb_antisym; [apply Hx, H0 | apply Hy, H]. }
      subst y. f_equal. apply IH.
      + inversion Hl'; assumption.
      + eapply Permutation_cons_inv; exact HP.
  Qed.

  (* order independence of sorted(): any two listings of the same multiset sort to the same list *)
  Theorem isort_perm_invariant l l' : Permutation l l' -> isort leb l = isort leb l'.
  Proof.
    intros HP. apply sorted_perm_eq; try apply isort_sorted.
    rewrite <- isort_perm, <- isort_perm. exact HP.
  Qed.
  Lemma isort_sorted_id l : sorted l -> isort leb l = l.
  Proof. intros H. apply sorted_perm_eq; [apply isort_sorted | exact H | apply Permutation_sym, isort_perm]. Qed.
End Sort.

(* ---------- the lexicographic order inherits totality, transitivity, antisymmetry ---------- *)
Section Lex.
  Variable V : Type.
  Variable leb : V -> V -> bool.
  Hypothesis leb_total : forall x y, leb x y = true \/ leb y x = true.
  Hypothesis leb_trans : forall x y z, leb x y = true -> leb y z = true -> leb x z = true.
  Hypothesis leb_antisym : forall x y, leb x y = true -> leb y x = true -> x = y.
  Lemma lex_total k1 k2 : lex leb k1 k2 = true \/ lex leb k2 k1 = true.
  Proof.
    revert k2; induction k1 as [|x t1 IH]; intros [|y t2]; simpl; auto.
    destruct (leb x y) eqn:A, (leb y x) eqn:B; auto.
    destruct (leb_total x y); congruence.
  Qed.
  Lemma lex_antisym k1 k2 : lex leb k1 k2 = true -> lex leb k2 k1 = true -> k1 = k2.
  Proof.
    revert k2; induction k1 as [|x t1 IH]; intros [|y t2]; simpl; auto; try discriminate.
    destruct (leb x y) eqn:A, (leb y x) eqn:B; try discriminate.
    intros H1 H2. f_equal; [apply leb_antisym; assumption | apply IH; assumption].
  Qed.
  Lemma lex_trans k1 k2 k3 : lex leb k1 k2 = true -> lex leb k2 k3 = true -> lex leb k1 k3 = true.
  Proof.
    revert k2 k3; induction k1 as [|x t1 IH]; intros [|y t2] [|z t3]; simpl; auto; try discriminate.
    destruct (leb x y) eqn:A; try discriminate.
    destruct (leb y z) eqn:B; try discriminate.
    rewrite (leb_trans _ _ _ A B).
    destruct (leb y x) eqn:C; destruct (leb z y) eqn:D; destruct (leb z x) eqn:E; auto;
      intros H1 H2; try (eapply IH; eassumption); exfalso;
      repeat match goal with
             | Hab : leb ?a ?b = true, Hbc : leb ?b ?c = true, Hac : leb ?a ?c = false |- _ =>
               rewrite (leb_trans _ _ _ Hab Hbc) in Hac; discriminate
             end.
  Qed.
  Lemma lex_refl k : lex leb k k = true.
  Proof. destruct (lex_total k k); assumption. Qed.
End Lex.

(* ---------- the concrete orders used by the model ---------- *)
Lemma Nleb_total x y : Nleb x y = true \/ Nleb y x = true.
Proof. unfold Nleb. rewrite !N.leb_le. lia. Qed.
Lemma Nleb_trans x y z : Nleb x y = true -> Nleb y z = true -> Nleb x z = true.
Proof. unfold Nleb. rewrite !N.leb_le. lia. Qed.
Lemma Nleb_antisym x y : Nleb x y = true -> Nleb y x = true -> x = y.
Proof. unfold Nleb. rewrite !N.leb_le. lia. Qed.
Lemma Ngeb_total x y : Ngeb x y = true \/ Ngeb y x = true.
Proof. unfold Ngeb. rewrite !N.leb_le. lia. Qed.
Lemma Ngeb_trans x y z : Ngeb x y = true -> Ngeb y z = true -> Ngeb x z = true.
Proof. unfold Ngeb. rewrite !N.leb_le. lia. Qed.
Lemma Ngeb_antisym x y : Ngeb x y = true -> Ngeb y x = true -> x = y.
Proof. unfold Ngeb. rewrite !N.leb_le. lia. Qed.
Lemma Zleb_total x y : Zleb x y = true \/ Zleb y x = true.
Proof. unfold Zleb. rewrite !Z.leb_le. lia. Qed.
Lemma Zleb_trans x y z : Zleb x y = true -> Zleb y z = true -> Zleb x z = true.
Proof. unfold Zleb. rewrite !Z.leb_le. lia. Qed.
Lemma Zleb_antisym x y : Zleb x y = true -> Zleb y x = true -> x = y.
Proof. unfold Zleb. rewrite !Z.leb_le. lia. Qed.
