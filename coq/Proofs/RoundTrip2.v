(* RoundTrip2.v -- C03 / C02 / C05: the emitted string is read back by the reference reader as
   the molecule it was produced from (up to renaming); hence different molecules never share a
   string, the string is a fixed point of the pipeline, and it is a sentence of the grammar. *)
From Coq Require Import List NArith ZArith Bool Lia Permutation.
Require Import Base Mol Partition Canon Final Text Token Serialize Parse Pipeline
               SortProofs MolProofs PartitionProofs SameMol CanonProofs ViewProofs CanonView FinalProofs SerializeProofs TucanProofs
               FinalTotal TotalProofs AstOf RoundTrip.
Require LexPrint ParseSer SemSer ParseProofs Equitable Layout.
Import ListNotations.

Definition simple {P B} (m : mol P B) : Prop := NoDup (map nbond (bonds m)).

Lemma SameMol_bond_count {P B P' B'} f (a : mol P B) (b : mol P' B') : SameMol f a b -> length (bonds b) = length (bonds a).
Proof. intros (_ & _ & Hb). apply Permutation_length in Hb. rewrite !map_length in Hb. congruence. Qed.

Lemma pos_attrs_nozero {P B} (m : mol P B) : pos_attrs m -> forall x, In x (atoms m) -> nozero x.
Proof.
  intros H x Hx. destruct (H x Hx) as [Hm Hr]. split; intros E; [specialize (Hm _ E) | specialize (Hr _ E)]; lia.
Qed.

(* the canonical graph is the molecule under a bijective renaming, still simple and positive *)
Lemma canonical_graph_props {P B} canon (m c : mol P B) :
  H1 canon -> wfg m -> simple m -> pos_attrs m -> canonicalize canon m = Some c ->
  wfg c /\ simple c /\ pos_attrs c /\ exists lam, SameMol lam m c.
Proof.
  intros HH1 Hwf Hs Hp Hc. pose proof (canonicalize_wfg canon m c HH1 Hwf Hc) as Hwc.
  unfold canonicalize in Hc. destruct (classes m) as [r|] eqn:Hr; [|discriminate]. inversion Hc; subst c; clear Hc.
  pose proof (classes_wfg m r Hr Hwf) as Hwr. destruct (classes_frame m r Hr) as [Hf Hb].
  destruct (HH1 _ _ (wfg_wfc r Hwr)) as [Hinj _]. rewrite canon_vertices_fst in Hinj.
  set (lam := fun_of_map (canon (canon_vertices r) (canon_edges r))) in *.
  split; [exact Hwc|]. split; [|split].
  - apply nbond_relabel_NoDup; [exact Hwr | exact Hinj|]. unfold simple in Hs. rewrite Hb. exact Hs.
  - apply pos_attrs_relabel. apply (pos_attrs_frame m r Hf Hp).
  - exists (fun x => lam x). apply (SameMol_trans (fun x => x) lam m r (relabel lam r) Hwf).
    + apply SameMol_frame; assumption.
    + apply SameMol_relabel, Hinj.
Qed.

Section RoundTrip.
  Variable canon : list (N * N) -> list (N * N) -> list (N * N).
  Hypothesis HH1 : H1 canon.

  (* C03 (a): parsing the emitted string gives the molecule back, up to renaming *)
  Theorem parse_tucan_roundtrip {P B} (m : mol P B) s :
    wfg m -> simple m -> pos_attrs m -> tucan canon m = Some s ->
    exists (g : mol unit unit) (f : N -> N),
      ref_parse s = inr g /\ SameMol f m g /\
      length (atoms g) = length (atoms m) /\ length (bonds g) = length (bonds m).
  Proof.
    intros Hwf Hs Hp Ht. unfold tucan in Ht.
    destruct (canonicalize canon m) as [c|] eqn:Hc; [|discriminate].
    destruct (canonical_graph_props canon m c HH1 Hwf Hs Hp Hc) as (Hwc & Hsc & Hpc & lam & HSc).
    unfold serialize in Ht. destruct (serialize_tokens c) as [ts|] eqn:Ets; [|discriminate]. inversion Ht; subst s; clear Ht.
    destruct (serializer_last_stage c ts Hwc Hsc Hpc Ets) as (m2 & h & Htok & Hready & HS2).
    destruct (ParseSer.tokens_of_parse_ex P B m2 ts Htok) as (syms & Hsyms & Hparse).
    assert (Hpos2 : pos_attrs m2) by (destruct Hready as (_ & _ & _ & _ & Hp2); exact Hp2).
    pose proof (LexPrint.serialize_lex m2 ts Hpos2 Htok) as Hlex.
    destruct (SemSer.sem_ast_of P B m2 syms Hready Hsyms) as (g & Hsem & HSg & Hla & Hlb & _).
    assert (HS : SameMol (fun x => (fun y => y) (h (lam x))) m g).
    { apply (SameMol_trans (fun x => h (lam x)) (fun y => y) m m2 g Hwf); [|exact HSg].
      apply (SameMol_trans lam h m c m2 Hwf HSc HS2). }
    exists g, (fun x => h (lam x)). split; [|split; [exact HS|split]].
    - unfold ref_parse. rewrite Hlex, Hparse. exact Hsem.
    - apply (SameMol_length _ m g HS).
    - apply (SameMol_bond_count _ m g HS).
  Qed.

  (* C02: equal strings only for the same molecule *)
  Theorem tucan_complete {P B P' B'} (m1 : mol P B) (m2 : mol P' B') s :
    wfg m1 -> simple m1 -> pos_attrs m1 -> wfg m2 -> simple m2 -> pos_attrs m2 ->
    tucan canon m1 = Some s -> tucan canon m2 = Some s -> exists pi, SameMol pi m1 m2.
  Proof.
    intros Hw1 Hs1 Hp1 Hw2 Hs2 Hp2 Ht1 Ht2.
    destruct (parse_tucan_roundtrip m1 s Hw1 Hs1 Hp1 Ht1) as (g1 & f1 & Hr1 & HS1 & _).
    destruct (parse_tucan_roundtrip m2 s Hw2 Hs2 Hp2 Ht2) as (g2 & f2 & Hr2 & HS2 & _).
    rewrite Hr1 in Hr2. inversion Hr2; subst g2.
    pose proof (SameMol_sym f2 m2 g1 Hw2 HS2) as HS2'.
    eexists. apply (SameMol_trans f1 (inv_on f2 (labels m2)) m1 g1 m2 Hw1 HS1 HS2').
  Qed.

  (* C03 (b): the string is a fixed point of parse . canonicalize . serialize *)
  Hypothesis HH2 : H2 canon.
  Theorem tucan_fixed_point {P B} (m : mol P B) s :
    wfg m -> simple m -> pos_attrs m -> tucan canon m = Some s ->
    exists g : mol unit unit, ref_parse s = inr g /\ tucan canon g = Some s.
  Proof.
    intros Hwf Hs Hp Ht. destruct (parse_tucan_roundtrip m s Hwf Hs Hp Ht) as (g & f & Hr & HS & _).
    exists g. split; [exact Hr|]. rewrite <- Ht. symmetry.
    apply (tucan_invariant canon HH1 HH2 f m g Hwf HS (pos_attrs_nozero m Hp)).
  Qed.

  (* C05, grammar part: the emitted string lexes into a sentence of the published grammar *)
  Theorem tucan_in_grammar {P B} (m : mol P B) s :
    wfg m -> simple m -> pos_attrs m -> tucan canon m = Some s ->
    exists ts a, lex_text s = Some ts /\ ParseProofs.Sentence ts a /\ print_tokens ts = s.
  Proof.
    intros Hwf Hs Hp Ht. unfold tucan in Ht.
    destruct (canonicalize canon m) as [c|] eqn:Hc; [|discriminate].
    destruct (canonical_graph_props canon m c HH1 Hwf Hs Hp Hc) as (Hwc & Hsc & Hpc & lam & HSc).
    unfold serialize in Ht. destruct (serialize_tokens c) as [ts|] eqn:Ets; [|discriminate]. inversion Ht; subst s; clear Ht.
    destruct (serializer_last_stage c ts Hwc Hsc Hpc Ets) as (m2 & h & Htok & Hready & HS2).
    destruct (ParseSer.tokens_of_parse_ex P B m2 ts Htok) as (syms & Hsyms & Hparse).
    assert (Hpos2 : pos_attrs m2) by (destruct Hready as (_ & _ & _ & _ & Hp2); exact Hp2).
    exists ts, (ast_of m2 syms). split; [apply (LexPrint.serialize_lex m2 ts Hpos2 Htok)|]. split; [|reflexivity].
    apply (ParseSer.tokens_of_Sentence P B m2 syms ts Hpos2 Hsyms Htok).
  Qed.

  (* C05, layout part *)
  Theorem tucan_layout {P B} (m : mol P B) s :
    wfg m -> simple m -> pos_attrs m -> tucan canon m = Some s ->
    exists ts (m2 : mol P B) syms h,
      print_tokens ts = s /\ lex_text s = Some ts /\ parse_tokens ts = Some (ast_of m2 syms) /\
      SameMol h m m2 /\ ser_ready m2 /\ Layout.layout_ok m2 (ast_of m2 syms).
  Proof.
    intros Hwf Hs Hp Ht. unfold tucan in Ht.
    destruct (canonicalize canon m) as [c|] eqn:Hc; [|discriminate].
    destruct (canonical_graph_props canon m c HH1 Hwf Hs Hp Hc) as (Hwc & Hsc & Hpc & lam & HSc).
    unfold serialize in Ht. destruct (serialize_tokens c) as [ts|] eqn:Ets; [|discriminate]. inversion Ht; subst s; clear Ht.
    destruct (serializer_last_stage c ts Hwc Hsc Hpc Ets) as (m2 & h & Htok & Hready & HS2).
    destruct (ParseSer.tokens_of_parse_ex P B m2 ts Htok) as (syms & Hsyms & Hparse).
    assert (Hpos2 : pos_attrs m2) by (destruct Hready as (_ & _ & _ & _ & Hp2); exact Hp2).
    exists ts, m2, syms, (fun x => h (lam x)).
    split; [reflexivity|]. split; [apply (LexPrint.serialize_lex m2 ts Hpos2 Htok)|]. split; [exact Hparse|].
    split; [apply (SameMol_trans lam h m c m2 Hwf HSc HS2)|]. split; [exact Hready|].
    apply (Layout.ast_of_layout P B m2 syms Hready Hsyms).
  Qed.
End RoundTrip.
