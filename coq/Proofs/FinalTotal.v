(* FinalTotal.v -- serialization._assign_final_labels is total on a well-formed molecule (C15):
   the worklist machine never pops an empty class list, never misses a key, never runs out of
   fuel, and the final assertion len(final_labels) == len(m.nodes) holds. *)
From Coq Require Import List NArith ZArith Bool Lia Permutation.
Require Import Base Mol Final SortProofs MolProofs FinalProofs.
Require Equitable.
Import ListNotations.

(* ---------- sums over label lists, handshake lemma ---------- *)
Fixpoint sumf (f : N -> nat) (l : list N) : nat :=
  match l with [] => 0 | a :: t => f a + sumf f t end.

Lemma sumf_plus f g l : sumf (fun a => f a + g a) l = sumf f l + sumf g l.
Proof. induction l as [|a t IH]; simpl; [reflexivity | rewrite IH; lia]. Qed.
Lemma sumf_le f g l : (forall a, In a l -> f a <= g a) -> sumf f l <= sumf g l.
Proof.
  induction l as [|a t IH]; simpl; intros H; [lia|].
  pose proof (H a (or_introl eq_refl)). assert (sumf f t <= sumf g t) by (apply IH; intros x Hx; apply H; right; exact Hx). lia.
Qed.
Lemma sumf_ext f g l : (forall a, In a l -> f a = g a) -> sumf f l = sumf g l.
Proof.
  induction l as [|a t IH]; simpl; intros H; [reflexivity|].
  rewrite (H a (or_introl eq_refl)), IH; [reflexivity|]. intros x Hx; apply H; right; exact Hx.
Qed.
Lemma sumf_const_S f l : sumf (fun a => S (f a)) l = length l + sumf f l.
Proof. induction l as [|a t IH]; simpl; [reflexivity | rewrite IH; lia]. Qed.

Definition ind (x a : N) : nat := if N.eqb x a then 1 else 0.
Lemma sumf_ind_notin x l : ~ In x l -> sumf (ind x) l = 0.
Proof.
  induction l as [|a t IH]; simpl; intros H; [reflexivity|].
  unfold ind at 1. destruct (N.eqb_spec x a) as [->|_]; [exfalso; apply H; left; reflexivity|].
  apply IH. intros Hin; apply H; right; exact Hin.
Qed.
Lemma sumf_ind_le x l : NoDup l -> sumf (ind x) l <= 1.
Proof.
  induction 1 as [|a t Hnotin Hnd IH]; simpl; [lia|].
  unfold ind at 1. destruct (N.eqb_spec x a) as [->|_]; [rewrite (sumf_ind_notin a t Hnotin); lia | exact IH].
Qed.
Lemma sumf_ind_in x l : NoDup l -> In x l -> sumf (ind x) l = 1.
Proof.
  induction 1 as [|a t Hnotin Hnd IH]; simpl; intros Hin; [contradiction|].
  unfold ind at 1. destruct (N.eqb_spec x a) as [->|Hne].
  - rewrite (sumf_ind_notin a t Hnotin); reflexivity.
  - destruct Hin as [E|Hin]; [congruence | apply IH, Hin].
Qed.

Lemma nb1_length_le a e : length (nb1 a e) <= ind (fst e) a + ind (snd e) a.
Proof. unfold nb1, ind. destruct (N.eqb (fst e) a), (N.eqb (snd e) a); simpl; lia. Qed.
Lemma nb1_length_eq a e : fst e <> snd e -> length (nb1 a e) = ind (fst e) a + ind (snd e) a.
Proof.
  intros Hne. unfold nb1, ind.
  destruct (N.eqb_spec (fst e) a), (N.eqb_spec (snd e) a); simpl; lia.
Qed.

(* each bond is seen from at most two atoms *)
Lemma degree_sum_le {P B} (m : mol P B) l : NoDup l ->
  sumf (fun a => length (nbrs m a)) l <= 2 * length (bonds m).
Proof.
  intros Hnd. unfold nbrs. induction (bonds m) as [|b bs IH]; simpl.
  - induction l as [|a t IHl]; simpl; [lia|]. inversion Hnd; subst. apply IHl; assumption.
  - rewrite (sumf_ext _ (fun a => length (nb1 a (ends b)) + length (flat_map (fun b0 => nb1 a (ends b0)) bs)))
      by (intros a _; apply app_length).
    rewrite sumf_plus.
    assert (H : sumf (fun a => length (nb1 a (ends b))) l <= 2).
    { etransitivity; [apply sumf_le; intros a _; apply nb1_length_le|].
      rewrite sumf_plus. pose proof (sumf_ind_le (fst (ends b)) l Hnd). pose proof (sumf_ind_le (snd (ends b)) l Hnd). lia. }
    lia.
Qed.
(* handshake lemma: in a simple graph the degrees add up to twice the number of bonds *)
Theorem degree_sum {P B} (m : mol P B) : wfg m ->
  sumf (fun a => length (nbrs m a)) (labels m) = 2 * length (bonds m).
Proof.
  intros [Hnd Hb]. unfold nbrs. revert Hb. induction (bonds m) as [|b bs IH]; intros Hb; simpl.
  - clear. induction (labels m) as [|a t IHl]; simpl; [reflexivity | exact IHl].
  - rewrite (sumf_ext _ (fun a => length (nb1 a (ends b)) + length (flat_map (fun b0 => nb1 a (ends b0)) bs)))
      by (intros a _; apply app_length).
    rewrite sumf_plus, IH by (intros b0 Hb0; apply Hb; right; exact Hb0).
    destruct (Hb b (or_introl eq_refl)) as (Hne & Hu & Hv).
    rewrite (sumf_ext _ (fun a => ind (fst (ends b)) a + ind (snd (ends b)) a)) by (intros a _; apply nb1_length_eq, Hne).
    rewrite sumf_plus, (sumf_ind_in _ _ Hnd Hu), (sumf_ind_in _ _ Hnd Hv). lia.
Qed.

(* ---------- the per-class label store ---------- *)
Definition avail_of (p : N) (av : list (N * list N)) : list N :=
  match lookup av p with Some l => l | None => [] end.

Lemma pop_class_some p av : avail_of p av <> [] -> exists l av', pop_class p av = Some (l, av').
Proof.
  unfold avail_of. induction av as [|[q ls] t IH]; simpl; intros H; [congruence|].
  destruct (N.eqb q p).
  - destruct ls as [|l ls']; [congruence|]. eexists; eexists; reflexivity.
  - destruct (IH H) as (l & av' & E). rewrite E. eexists; eexists; reflexivity.
Qed.
Lemma pop_class_avail p av l av' : pop_class p av = Some (l, av') ->
  forall p', length (avail_of p' av) = length (avail_of p' av') + (if N.eqb p' p then 1 else 0).
Proof.
  revert l av'. induction av as [|[q ls] t IH]; intros l av'; simpl; [discriminate|].
  destruct (N.eqb_spec q p) as [->|Hqp].
  - destruct ls as [|l0 ls']; [discriminate|]. intros E; inversion E; subst. intros p'.
    unfold avail_of; simpl. rewrite (N.eqb_sym p' p). destruct (N.eqb p p'); simpl; lia.
  - destruct (pop_class p t) as [[l1 t1]|]; [|discriminate]. intros E; inversion E; subst. intros p'.
    specialize (IH l t1 eq_refl p'). unfold avail_of in *; simpl.
    destruct (N.eqb_spec q p') as [->|_]; [|exact IH].
    destruct (N.eqb_spec p' p); [congruence | lia].
Qed.

Lemma lookup_tabulate {V} (F : N -> V) ps p : In p ps -> lookup (map (fun q => (q, F q)) ps) p = Some (F p).
Proof.
  induction ps as [|q t IH]; simpl; intros H; [contradiction|].
  destruct (N.eqb_spec q p) as [->|Hne]; [reflexivity|]. destruct H as [E|H]; [congruence | apply IH, H].
Qed.

(* ---------- the three default priorities are mutually exclusive ---------- *)
Lemma order_of_default part_of nb a pa :
  exists ord, order_of part_of nb default_prios a pa = Some ord /\ length ord <= length (nb a).
Proof.
  unfold order_of, default_prios. cbn [fold_right]. eexists; split; [reflexivity|].
  rewrite app_nil_r, !app_length. induction (nb a) as [|n t IH]; simpl; [lia|].
  destruct (part_of n) as [pn|]; [|simpl; lia].
  rewrite !app_length.
  destruct (N.eqb_spec pa pn), (N.ltb_spec pn pa), (N.ltb_spec pa pn); simpl; lia.
Qed.

Lemma memN_notin a l : ~ In a l -> memN a l = false.
Proof.
  intros H. unfold memN. destruct (existsb (N.eqb a) l) eqn:E; [|reflexivity].
  apply existsb_exists in E. destruct E as (x & Hx & Ex). apply N.eqb_eq in Ex. subst x. contradiction.
Qed.
Lemma memN_in a l : memN a l = true -> In a l.
Proof.
  unfold memN. intros E. apply existsb_exists in E. destruct E as (x & Hx & Ex). apply N.eqb_eq in Ex. subst x. exact Hx.
Qed.

(* ---------- totality of the machine from any state satisfying the invariants ---------- *)
Section Total.
  Variable ls : list N.
  Variable part_of : N -> option N.
  Variable nb : N -> list N.
  Variable L : list N.                 (* the label set *)
  Hypothesis HL : NoDup L.
  Hypothesis Hls : incl ls L.
  Hypothesis Hls' : incl L ls.
  Hypothesis Hnb : forall a, incl (nb a) L.
  Hypothesis Hpart : forall a, In a L -> part_of a <> None.

  Definition inclass (p a : N) : bool := match part_of a with Some q => N.eqb q p | None => false end.
  Definition cnt (p : N) (l : list N) : nat := length (filter (inclass p) l).
  (* per class: labels still available + atoms already explored = atoms of the class *)
  Definition Cnt (s : st) : Prop := forall p, length (avail_of p (avail s)) + cnt p (explored s) = cnt p L.
  Definition wsum (ex l : list N) : nat := sumf (fun a => if memN a ex then 0 else S (length (nb a))) l.
  Definition phi (s : st) : nat := length (queue s) + wsum (explored s) L.

  Lemma memN_cons x a ex : memN x (a :: ex) = N.eqb x a || memN x ex.
  Proof. reflexivity. Qed.
  Lemma wsum_mono a ex l : wsum (a :: ex) l <= wsum ex l.
  Proof.
    unfold wsum. apply sumf_le. intros x _. rewrite memN_cons.
    destruct (N.eqb x a), (memN x ex); simpl; lia.
  Qed.
  Lemma wsum_cons a ex l : In a l -> ~ In a ex -> wsum (a :: ex) l + S (length (nb a)) <= wsum ex l.
  Proof.
    intros Hin Hnot. induction l as [|x t IH]; [contradiction|].
    change (wsum (a :: ex) (x :: t)) with ((if memN x (a :: ex) then 0 else S (length (nb x))) + wsum (a :: ex) t).
    change (wsum ex (x :: t)) with ((if memN x ex then 0 else S (length (nb x))) + wsum ex t).
    rewrite memN_cons.
    destruct Hin as [->|Hin].
    - rewrite N.eqb_refl, (memN_notin a ex Hnot). simpl. pose proof (wsum_mono a ex t). lia.
    - specialize (IH Hin). destruct (N.eqb x a), (memN x ex); simpl; lia.
  Qed.

  Lemma cnt_lt a pa ex : NoDup ex -> incl ex L -> In a L -> ~ In a ex -> part_of a = Some pa -> cnt pa ex < cnt pa L.
  Proof.
    intros Hnd Hi Ha Hna Hpa. unfold cnt.
    assert (H : length (filter (inclass pa) (a :: ex)) <= length (filter (inclass pa) L)).
    { apply NoDup_incl_length.
      - apply NoDup_filter. constructor; assumption.
      - intros x Hx. apply filter_In in Hx. destruct Hx as [Hx Hc]. apply filter_In. split; [|exact Hc].
        destruct Hx as [<-|Hx]; [exact Ha | apply Hi, Hx]. }
    simpl in H. unfold inclass at 1 in H. rewrite Hpa, N.eqb_refl in H. simpl in H. lia.
  Qed.

  Lemma explore_total a q s : Inv L s -> Cnt s -> In a L -> ~ In a (explored s) ->
    exists s', explore part_of nb default_prios a q s = Step s' /\ Cnt s' /\
               explored s' = a :: explored s /\ length (queue s') <= length q + length (nb a).
  Proof.
    intros (He & Hk & Hv & Hi & Hq) HC Ha Hna. unfold explore.
    destruct (part_of a) as [pa|] eqn:Epa; [|exfalso; exact (Hpart a Ha Epa)].
    assert (Hlt : cnt pa (explored s) < cnt pa L).
    { apply (cnt_lt a); try assumption; rewrite He; assumption. }
    destruct (pop_class_some pa (avail s)) as (l & av' & Ep).
    { pose proof (HC pa). destruct (avail_of pa (avail s)); [simpl in *; lia | discriminate]. }
    rewrite Ep. destruct (order_of_default part_of nb a pa) as (ord & Eo & Hlen). rewrite Eo.
    eexists; split; [reflexivity|]. simpl. split; [|split; [reflexivity | rewrite app_length; lia]].
    intros p. simpl. pose proof (HC p) as HCp. pose proof (pop_class_avail pa (avail s) l av' Ep p) as Hpop.
    unfold cnt in *. simpl. unfold inclass at 1. rewrite Epa. rewrite (N.eqb_sym pa p).
    destruct (N.eqb p pa); simpl; lia.
  Qed.

  Lemma step_total s : Inv L s -> Cnt s ->
    match step ls part_of nb default_prios s with
    | Done s' => s' = s /\ incl L (explored s)
    | Step s' => Inv L s' /\ Cnt s' /\ phi s' < phi s
    | Fail => False
    end.
  Proof.
    intros HI HC. pose proof (step_inv ls part_of nb default_prios L Hls Hnb s HI) as HS.
    pose proof HI as (He & Hk & Hv & Hi & Hq). unfold step in *.
    destruct (queue s) as [|a q] eqn:Eq.
    - destruct (filter (fun l => negb (memN l (explored s))) ls) as [|u t] eqn:Ef.
      + split; [reflexivity|]. intros x Hx. apply Hls' in Hx.
        destruct (memN x (explored s)) eqn:Em; [apply memN_in, Em|].
        assert (Hin : In x (filter (fun l => negb (memN l (explored s))) ls)) by (apply filter_In; split; [exact Hx | rewrite Em; reflexivity]).
        rewrite Ef in Hin. destruct Hin.
      + assert (Hu : In u (filter (fun l => negb (memN l (explored s))) ls)) by (rewrite Ef; left; reflexivity).
        apply filter_In in Hu. destruct Hu as [Hul Hun]. apply negb_true_iff in Hun.
        destruct (explore_total u [] s HI HC (Hls u Hul) (memN_false u _ Hun)) as (s' & Es & HC' & Hex & Hql).
        rewrite Es in *. split; [exact HS|]. split; [exact HC'|].
        unfold phi. rewrite Eq, Hex. simpl in *.
        pose proof (wsum_cons u (explored s) L (Hls u Hul) (memN_false u _ Hun)). lia.
    - destruct (memN a (explored s)) eqn:Em.
      + split; [exact HS|]. split; [exact HC|]. unfold phi; rewrite Eq; simpl. lia.
      + assert (HaL : In a L) by (apply Hq; left; reflexivity).
        destruct (explore_total a q s HI HC HaL (memN_false a _ Em)) as (s' & Es & HC' & Hex & Hql).
        rewrite Es in *. split; [exact HS|]. split; [exact HC'|].
        unfold phi. rewrite Eq, Hex. simpl.
        pose proof (wsum_cons a (explored s) L HaL (memN_false a _ Em)). lia.
  Qed.

  Theorem run_total fuel : forall s, Inv L s -> Cnt s -> phi s < fuel ->
    exists o, run ls part_of nb default_prios fuel s = Some o /\ length o = length L.
  Proof.
    induction fuel as [|f IH]; intros s HI HC Hphi; [lia|]. simpl.
    pose proof (step_total s HI HC) as HS.
    destruct (step ls part_of nb default_prios s) as [s'|s'|]; [| |contradiction].
    - destruct HS as [-> Hall]. exists (out s). split; [reflexivity|].
      destruct HI as (He & Hk & Hv & Hi & Hq).
      rewrite <- (map_length fst (out s)). apply Nat.le_antisymm.
      + apply NoDup_incl_length; assumption.
      + apply NoDup_incl_length; [exact HL | rewrite <- He; exact Hall].
    - destruct HS as (HI' & HC' & Hlt). apply IH; [assumption | assumption | lia].
  Qed.
End Total.

(* ---------- instantiation at the initial state of a well-formed molecule ---------- *)
Lemma filter_map_comm {A} (f : N -> bool) (g : A -> N) l : filter f (map g l) = map g (filter (fun x => f (g x)) l).
Proof. induction l as [|x t IH]; simpl; [reflexivity|]. destruct (f (g x)); simpl; rewrite IH; reflexivity. Qed.

Lemma part_lookup_some {P B} (m : mol P B) x : NoDup (labels m) -> In x (atoms m) -> part_lookup m (lbl x) = Some (part x).
Proof. intros Hnd Hx. unfold part_lookup. rewrite (find_atom_in (atoms m) x Hnd Hx). reflexivity. Qed.

Lemma init_cnt {P B} (m : mol P B) : NoDup (labels m) ->
  Cnt (part_lookup m) (labels m) (mkSt [] [] (init_avail m) []).
Proof.
  intros Hnd p. unfold Cnt, cnt; simpl. rewrite Nat.add_0_r.
  transitivity (length (filter (fun x : atom P => N.eqb (part x) p) (atoms m))).
  - unfold init_avail, avail_of.
    destruct (in_dec N.eq_dec p (part_values m)) as [Hin|Hnot].
    + rewrite (lookup_tabulate (fun p => isort Nleb (map (@lbl P) (filter (fun x => N.eqb (part x) p) (atoms m)))) _ _ Hin).
      rewrite isort_length, map_length. reflexivity.
    + rewrite lookup_none by (rewrite map_map; simpl; rewrite map_id; exact Hnot).
      destruct (filter (fun x : atom P => N.eqb (part x) p) (atoms m)) as [|x t] eqn:Ef; [reflexivity|].
      exfalso. apply Hnot.
      assert (Hx : In x (filter (fun x : atom P => N.eqb (part x) p) (atoms m))) by (rewrite Ef; left; reflexivity).
      apply filter_In in Hx. destruct Hx as [Hx Hp]. apply N.eqb_eq in Hp. subst p.
      apply (Equitable.distinct_in N Nleb Nleb_total Nleb_antisym). apply in_map, Hx.
  - unfold labels. rewrite filter_map_comm, map_length. f_equal. apply filter_ext_in.
    intros x Hx. unfold inclass. rewrite (part_lookup_some m x Hnd Hx). reflexivity.
Qed.

(* the potential starts at n + sum of degrees <= n + 2|E|, so n + 2|E| + 1 steps are enough;
   final_fuel m = 2 (n + 2|E|) + 1 is more than needed (needs only NoDup labels) *)
Lemma init_phi {P B} (m : mol P B) : NoDup (labels m) ->
  phi (fun a => isort Nleb (nbrs m a)) (labels m) (mkSt [] [] (init_avail m) []) < final_fuel m.
Proof.
  intros Hnd. unfold phi, wsum, final_fuel; simpl.
  rewrite sumf_const_S.
  rewrite (sumf_ext _ (fun a => length (nbrs m a))) by (intros a _; apply isort_length).
  pose proof (degree_sum_le m (labels m) Hnd). unfold labels at 1. rewrite map_length. lia.
Qed.

Theorem run_final_total {P B} (m : mol P B) : wfg m ->
  exists o, run (isort Nleb (labels m)) (part_lookup m) (fun a => isort Nleb (nbrs m a)) default_prios
                (final_fuel m) (mkSt [] [] (init_avail m) []) = Some o /\ length o = length (atoms m).
Proof.
  intros [Hnd Hb].
  destruct (run_total (isort Nleb (labels m)) (part_lookup m) (fun a => isort Nleb (nbrs m a)) (labels m) Hnd
              (fun x Hx => proj1 (isort_in _ Nleb x (labels m)) Hx)
              (fun x Hx => proj2 (isort_in _ Nleb x (labels m)) Hx)
              (fun a x Hx => nbrs_in_labels m a x (conj Hnd Hb) (proj1 (isort_in _ Nleb x (nbrs m a)) Hx)))
    with (fuel := final_fuel m) (s := mkSt [] [] (init_avail m) []) as (o & Er & Hlen).
  - intros a Ha. unfold labels in Ha. apply in_map_iff in Ha. destruct Ha as (x & <- & Hx).
    rewrite (part_lookup_some m x Hnd Hx). discriminate.
  - unfold Inv; simpl. split; [reflexivity|]. split; [constructor|]. split.
    + eapply Permutation_NoDup; [apply Permutation_sym, init_avail_perm | exact Hnd].
    + split; apply incl_nil_l.
  - apply init_cnt, Hnd.
  - apply init_phi, Hnd.
  - exists o. split; [exact Er|]. rewrite Hlen. unfold labels. apply map_length.
Qed.

(* C15: no pop from an empty list, no KeyError, no failed assertion, termination within the fuel *)
Theorem final_labels_total {P B} (m : mol P B) : wfg m -> exists o, final_labels m = Some o.
Proof.
  intros Hwf. destruct (run_final_total m Hwf) as (o & Er & Hlen).
  exists o. unfold final_labels. rewrite Er, Hlen, Nat.eqb_refl. reflexivity.
Qed.
Theorem assign_final_labels_total {P B} (m : mol P B) : wfg m -> exists m1, assign_final_labels m = Some m1.
Proof.
  intros Hwf. destruct (final_labels_total m Hwf) as (o & Eo).
  unfold assign_final_labels. rewrite Eo. eexists; reflexivity.
Qed.
(* total, and what it returns is a bijection of the label set *)
Corollary final_labels_total_bijection {P B} (m : mol P B) : wfg m ->
  exists o, final_labels m = Some o /\ Permutation (map fst o) (labels m) /\ Permutation (map snd o) (labels m).
Proof.
  intros Hwf. destruct (final_labels_total m Hwf) as (o & Eo). exists o. split; [exact Eo|].
  destruct (final_labels_bijection m o Hwf Eo) as (H1 & H2 & _). split; assumption.
Qed.

(* ---------- non-vacuity ---------- *)
Definition ex_atom (l p : N) : atom unit := mkAtom l 6 None None p tt.
(* a six-ring with shuffled labels, all atoms in class 0 *)
Definition ex_ring : mol unit unit :=
  mkMol (map (fun l => ex_atom l 0) [3; 0; 5; 1; 4; 2]%N)
        [(3, 0, tt); (5, 0, tt); (5, 1, tt); (1, 4, tt); (2, 4, tt); (2, 3, tt)]%N.
(* two components {0,5,3} and {1,2,4}; atoms 3 and 1 share class 2, so 3 (reached first) takes label 1 *)
Definition ex_two : mol unit unit :=
  mkMol [ex_atom 4 3; ex_atom 0 0; ex_atom 2 3; ex_atom 5 1; ex_atom 1 2; ex_atom 3 2]%N
        [(5, 0, tt); (3, 5, tt); (4, 2, tt); (1, 2, tt)]%N.
Definition ex_empty : mol unit unit := mkMol [] [].

Example ex_ring_some : final_labels ex_ring
  = Some [(4, 5); (1, 4); (2, 3); (5, 2); (3, 1); (0, 0)]%N.
Proof. vm_compute. reflexivity. Qed.
Example ex_two_some : final_labels ex_two
  = Some [(4, 4); (2, 2); (1, 3); (3, 1); (5, 5); (0, 0)]%N.
Proof. vm_compute. reflexivity. Qed.
Example ex_empty_some : final_labels ex_empty = Some [].
Proof. vm_compute. reflexivity. Qed.
Example ex_ring_assign : exists m1, assign_final_labels ex_ring = Some m1.
Proof. vm_compute. eexists; reflexivity. Qed.

Print Assumptions degree_sum.
Print Assumptions run_total.
Print Assumptions final_labels_total.
Print Assumptions assign_final_labels_total.
Print Assumptions final_labels_total_bijection.
