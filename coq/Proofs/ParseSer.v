(* ParseSer.v -- the reference token parser reads the token list emitted by the serializer's
   last stage (Serialize.tokens_of) back as the abstract syntax tree AstOf.ast_of.

   Main results
     parse_tokens_of       : syms_of m = Some syms -> parse_tokens (formula ++ / ++ edges ++ attrs) = Some (ast_of m syms)
     tokens_of_parse       : syms_of m = Some syms -> tokens_of m = Some ts -> parse_tokens ts = Some (ast_of m syms)
     tokens_of_parse_ex    : tokens_of m = Some ts -> exists syms, syms_of m = Some syms /\ parse_tokens ts = Some (ast_of m syms)
     tokens_of_Sentence    : with pos_attrs, the token list is a sentence of the token grammar of ParseProofs
     expand_ast_items_perm : the formula's atom multiset is the molecule's multiset of atomic numbers
   No hypothesis on labels, bonds or attribute values is needed. *)
From Coq Require Import List NArith ZArith Bool Lia Permutation Sorting.Sorted String.
Require Import Base Mol Partition Final Text Token Serialize Parse.
Require Import MolProofs ViewProofs SortProofs SerializeProofs ParseProofs Equitable AstOf.
Import ListNotations.

(* ====================================================================== *)
(* 0.  Small list facts                                                    *)
(* ====================================================================== *)
Lemma flat_map_ext_in {A C} (f g : A -> list C) l :
  (forall a, In a l -> f a = g a) -> flat_map f l = flat_map g l.
Proof.
  induction l as [|x l IH]; intros H; simpl; [reflexivity|].
  rewrite H by (left; reflexivity). rewrite IH; [reflexivity|].
  intros a Ha. apply H. right; exact Ha.
Qed.

Lemma filter_split_perm {A} (p : A -> bool) l :
  Permutation l (filter p l ++ filter (fun x => negb (p x)) l).
Proof.
  induction l as [|x l IH]; simpl; [constructor|].
  destruct (p x); simpl.
  - constructor. exact IH.
  - apply Permutation_cons_app. exact IH.
Qed.

Lemma filter_filter {A} (p q : A -> bool) l :
  filter p (filter q l) = filter (fun x => q x && p x) l.
Proof.
  induction l as [|x l IH]; simpl; [reflexivity|].
  destruct (q x); simpl; [destruct (p x)|]; rewrite IH; reflexivity.
Qed.

Lemma filter_none {A} (p : A -> bool) l : (forall x, In x l -> p x = false) -> filter p l = [].
Proof.
  induction l as [|x l IH]; intros H; simpl; [reflexivity|].
  rewrite H by (left; reflexivity). apply IH. intros y Hy. apply H. right; exact Hy.
Qed.

Lemma StronglySorted_filter {A} (R : A -> A -> Prop) (p : A -> bool) l :
  StronglySorted R l -> StronglySorted R (filter p l).
Proof.
  induction 1 as [|x l HS IH HF]; simpl; [constructor|].
  destruct (p x); [|exact IH]. constructor; [exact IH|].
  rewrite Forall_forall in *. intros y Hy. apply filter_In in Hy. apply HF, Hy.
Qed.

Lemma StronglySorted_map {A C} (R : A -> A -> Prop) (R' : C -> C -> Prop) (f : A -> C) l :
  (forall x y, In x l -> In y l -> R x y -> R' (f x) (f y)) ->
  StronglySorted R l -> StronglySorted R' (map f l).
Proof.
  intros H HS. induction HS as [|x l HS IH HF]; simpl; [constructor|].
  constructor.
  - apply IH. intros a b Ha Hb. apply H; right; assumption.
  - rewrite Forall_forall in *. intros y Hy. apply in_map_iff in Hy. destruct Hy as (a & <- & Ha).
    apply H; [left; reflexivity | right; exact Ha | apply HF, Ha].
Qed.

(* ====================================================================== *)
(* 1.  Text equality and the strict order on texts                         *)
(* ====================================================================== *)
Lemma ascii_eqb_refl a : ascii_eqb a a = true.
Proof. apply N.eqb_refl. Qed.
Lemma text_eqb_refl a : text_eqb a a = true.
Proof. induction a as [|x a IH]; simpl; [reflexivity|]. rewrite ascii_eqb_refl, IH. reflexivity. Qed.
Lemma text_eqb_iff a b : text_eqb a b = true <-> a = b.
Proof. split; [apply text_eqb_eq | intros ->; apply text_eqb_refl]. Qed.
Lemma text_eqb_neq a b : text_eqb a b = false <-> a <> b.
Proof.
  split.
  - intros H E. subst. rewrite text_eqb_refl in H. discriminate.
  - intros H. destruct (text_eqb a b) eqn:E; [|reflexivity]. apply text_eqb_eq in E. contradiction.
Qed.
Lemma existsb_text_in c l : existsb (text_eqb c) l = true <-> In c l.
Proof.
  rewrite existsb_exists. split.
  - intros (x & Hx & E). apply text_eqb_eq in E. subst; exact Hx.
  - intros H. exists c. split; [exact H | apply text_eqb_refl].
Qed.

Definition text_ltb (a b : text) : bool := text_leb a b && negb (text_leb b a).
Lemma text_ltb_irrefl a : text_ltb a a = false.
Proof. unfold text_ltb. destruct (text_leb a a); reflexivity. Qed.
Lemma text_ltb_trans a b c : text_ltb a b = true -> text_ltb b c = true -> text_ltb a c = true.
Proof.
  unfold text_ltb. rewrite !andb_true_iff, !negb_true_iff. intros [H1 H2] [H3 H4]. split.
  - eapply text_leb_trans; eassumption.
  - destruct (text_leb c a) eqn:E; [|reflexivity].
    rewrite (text_leb_trans _ _ _ E H1) in H4. discriminate.
Qed.
Lemma text_leb_neq_ltb a b : text_leb a b = true -> a <> b -> text_ltb a b = true.
Proof.
  intros H N. unfold text_ltb. rewrite H. simpl. apply negb_true_iff.
  destruct (text_leb b a) eqn:E; [|reflexivity]. exfalso. apply N. apply text_leb_antisym; assumption.
Qed.

(* the distinct symbols: NoDup and strictly ascending *)
Definition dsyms (syms : list text) : list text := dedup text_leb (isort text_leb syms).
Lemma dsyms_in syms s : In s (dsyms syms) <-> In s syms.
Proof. exact (Equitable.distinct_in _ text_leb text_leb_total text_leb_antisym syms s). Qed.
Lemma dsyms_NoDup syms : NoDup (dsyms syms).
Proof. exact (Equitable.distinct_NoDup _ text_leb text_leb_total text_leb_trans text_leb_antisym syms). Qed.
Lemma NoDup_ssorted_strict l :
  NoDup l -> StronglySorted (fun x y => text_leb x y = true) l -> StronglySorted (fun x y => text_ltb x y = true) l.
Proof.
  intros ND HS. induction HS as [|x l HS IH HF]; [constructor|].
  inversion ND as [|? ? Hnin ND']; subst. constructor; [apply IH, ND'|].
  rewrite Forall_forall in *. intros y Hy. apply text_leb_neq_ltb; [apply HF, Hy|].
  intros ->. contradiction.
Qed.
Lemma dsyms_strict syms : StronglySorted (fun x y => text_ltb x y = true) (dsyms syms).
Proof.
  apply NoDup_ssorted_strict; [apply dsyms_NoDup|].
  exact (Equitable.distinct_ssorted _ text_leb text_leb_total text_leb_trans syms).
Qed.

(* ====================================================================== *)
(* 2.  match_order accepts an ascending selection from an ascending, all-optional rule *)
(* ====================================================================== *)
Section MatchOrder.
  Variable ltb : N -> N -> bool.
  Hypothesis ltb_irrefl : forall a, ltb a a = false.
  Hypothesis ltb_trans : forall a b c, ltb a b = true -> ltb b c = true -> ltb a c = true.
  Let lt (a b : N) : Prop := ltb a b = true.

  Lemma match_order_ascending : forall rule l,
    forallb snd rule = true ->
    StronglySorted lt (map fst rule) -> StronglySorted lt l -> incl l (map fst rule) ->
    match_order rule l = true.
  Proof.
    induction rule as [|[z opt] rule IH]; intros l Hopt HR HL Hincl.
    - destruct l as [|s l]; [reflexivity|]. destruct (Hincl s); left; reflexivity.
    - simpl in Hopt. apply andb_true_iff in Hopt. destruct Hopt as [Ho Hopt]. simpl in Ho. subst opt.
      simpl in HR. apply StronglySorted_inv in HR. destruct HR as [HR HzR].
      rewrite Forall_forall in HzR.
      destruct l as [|s l].
      + simpl. apply IH; [exact Hopt | exact HR | constructor | intros x []].
      + apply StronglySorted_inv in HL. destruct HL as [HL HsL]. rewrite Forall_forall in HsL.
        simpl. destruct (N.eqb s z) eqn:E.
        * apply N.eqb_eq in E. subst s. apply IH; [exact Hopt | exact HR | exact HL |].
          intros x Hx. destruct (Hincl x (or_intror Hx)) as [Hxz|Hxr]; [|exact Hxr].
          simpl in Hxz. subst x. specialize (HsL _ Hx). unfold lt in HsL. rewrite ltb_irrefl in HsL. discriminate.
        * apply N.eqb_neq in E. apply IH; [exact Hopt | exact HR | constructor; [exact HL | rewrite Forall_forall; exact HsL] |].
          assert (Hs : In s (map fst rule)).
          { destruct (Hincl s (or_introl eq_refl)) as [Hsz|Hsr]; [simpl in Hsz; congruence | exact Hsr]. }
          intros x [<-|Hx]; [exact Hs|].
          destruct (Hincl x (or_intror Hx)) as [Hxz|Hxr]; [|exact Hxr].
          simpl in Hxz. subst x. exfalso.
          specialize (HsL _ Hx). specialize (HzR _ Hs). unfold lt in *.
          pose proof (ltb_trans _ _ _ HzR HsL) as Hc. rewrite ltb_irrefl in Hc. discriminate.
  Qed.
End MatchOrder.

(* ====================================================================== *)
(* 3.  Facts about the element table and the two rule tables (by computation) *)
(* ====================================================================== *)
Definition symz (z : N) : text := match symbol_of z with Some s => s | None => [] end.
Definition zof (s : text) : N := match z_of_symbol s with Some z => z | None => 0%N end.
Definition zltb (a b : N) : bool := text_ltb (symz a) (symz b).
Lemma zltb_irrefl a : zltb a a = false.
Proof. apply text_ltb_irrefl. Qed.
Lemma zltb_trans a b c : zltb a b = true -> zltb b c = true -> zltb a c = true.
Proof. apply text_ltb_trans. Qed.

Fixpoint strictly_sorted (l : list N) : bool :=
  match l with
  | [] => true
  | x :: r => match r with [] => true | y :: _ => zltb x y && strictly_sorted r end
  end.
Lemma strictly_sorted_sound l :
  strictly_sorted l = true -> StronglySorted (fun a b => zltb a b = true) l.
Proof.
  intros H. apply Sorted_StronglySorted; [intros a b c; apply zltb_trans|].
  induction l as [|x r IH]; [constructor|].
  destruct r as [|y r'].
  - repeat constructor.
  - simpl in H. apply andb_true_iff in H. destruct H as [H1 H2].
    constructor; [apply IH, H2 | constructor; exact H1].
Qed.

Definition wc_tail : list (N * bool) := tl (tl Parse.with_carbon).

Lemma wc_shape : Parse.with_carbon = (6%N, false) :: (1%N, true) :: wc_tail.
Proof. vm_compute. reflexivity. Qed.
Lemma wc_tail_optional : forallb snd wc_tail = true.
Proof. vm_compute. reflexivity. Qed.
(* the rule tail lists its symbols in strictly ascending order of their spelling *)
Lemma wc_tail_ascending : strictly_sorted (map fst wc_tail) = true.
Proof. vm_compute. reflexivity. Qed.
Lemma wc_tail_complete :
  forallb (fun p => N.eqb (snd p) 6 || N.eqb (snd p) 1 || memN (snd p) (map fst wc_tail)) elem_table = true.
Proof. vm_compute. reflexivity. Qed.
Lemma woc_optional : forallb snd Parse.without_carbon = true.
Proof. vm_compute. reflexivity. Qed.
Lemma woc_ascending : strictly_sorted (map fst Parse.without_carbon) = true.
Proof. vm_compute. reflexivity. Qed.
Lemma woc_complete :
  forallb (fun p => N.eqb (snd p) 6 || memN (snd p) (map fst Parse.without_carbon)) elem_table = true.
Proof. vm_compute. reflexivity. Qed.
Lemma z_of_C : z_of_symbol (t "C") = Some 6%N.
Proof. vm_compute. reflexivity. Qed.
Lemma z_of_H : z_of_symbol (t "H") = Some 1%N.
Proof. vm_compute. reflexivity. Qed.
(* no symbol is listed twice: looking a listed symbol up gives its own line *)
Lemma elem_table_consistent :
  forallb (fun p => match z_of_symbol (fst p) with Some z => N.eqb z (snd p) | None => false end) elem_table = true.
Proof. vm_compute. reflexivity. Qed.

Lemma assoc_text_in {V} (l : list (text * V)) s v : assoc_text l s = Some v -> In (s, v) l.
Proof.
  induction l as [|[k w] r IH]; simpl; [discriminate|].
  destruct (text_eqb k s) eqn:E.
  - intros H. inversion H; subst. apply text_eqb_eq in E. subst. left; reflexivity.
  - intros H. right. apply IH, H.
Qed.
Lemma symbol_of_in_in l z s : symbol_of_in l z = Some s -> In (s, z) l.
Proof.
  induction l as [|[k w] r IH]; simpl; [discriminate|].
  destruct (N.eqb w z) eqn:E.
  - intros H. inversion H; subst. apply N.eqb_eq in E. subst. left; reflexivity.
  - intros H. right. apply IH, H.
Qed.
Lemma z_of_symbol_in_table s z : z_of_symbol s = Some z -> In (s, z) elem_table.
Proof. apply assoc_text_in. Qed.
Lemma symbol_of_z_of_symbol z s : symbol_of z = Some s -> z_of_symbol s = Some z.
Proof.
  intros H. apply symbol_of_in_in in H.
  pose proof elem_table_consistent as HC. rewrite forallb_forall in HC.
  specialize (HC _ H). cbv beta in HC. cbn [snd fst] in HC.
  destruct (z_of_symbol s) as [z'|]; [|discriminate]. apply N.eqb_eq in HC. subst. reflexivity.
Qed.

(* every symbol of the list is an element symbol *)
Definition known (l : list text) : Prop := forall s, In s l -> exists z, z_of_symbol s = Some z.
Lemma known_zof l s : known l -> In s l -> z_of_symbol s = Some (zof s).
Proof. intros K H. destruct (K s H) as (z & E). unfold zof. rewrite E. reflexivity. Qed.
Lemma known_symz l s : known l -> In s l -> symz (zof s) = s.
Proof.
  intros K H. unfold symz. rewrite (z_of_symbol_symbol_of _ (known_zof l s K H)). reflexivity.
Qed.
Lemma known_incl l l' : known l -> incl l' l -> known l'.
Proof. intros K I s H. apply K, I, H. Qed.
Lemma known_flat_map {C} (F : N -> text -> C) l : known l ->
  flat_map (fun s => match z_of_symbol s with Some z => [F z s] | None => [] end) l = map (fun s => F (zof s) s) l.
Proof.
  intros K. induction l as [|s l IH]; cbn [flat_map map]; [reflexivity|].
  rewrite (known_zof (s :: l) s K) by (left; reflexivity). cbn [app]. f_equal.
  apply IH. eapply known_incl; [exact K | apply incl_tl, incl_refl].
Qed.
Lemma zof_C : zof (t "C") = 6%N.
Proof. unfold zof. rewrite z_of_C. reflexivity. Qed.
Lemma zof_H : zof (t "H") = 1%N.
Proof. unfold zof. rewrite z_of_H. reflexivity. Qed.
Lemma zof_inj_C l s : known l -> In s l -> zof s = 6%N -> s = t "C".
Proof.
  intros K H E. pose proof (known_zof l s K H) as Hz. rewrite E in Hz.
  apply z_of_symbol_symbol_of in Hz. pose proof (z_of_symbol_symbol_of _ z_of_C) as HC. congruence.
Qed.
Lemma zof_inj_H l s : known l -> In s l -> zof s = 1%N -> s = t "H".
Proof.
  intros K H E. pose proof (known_zof l s K H) as Hz. rewrite E in Hz.
  apply z_of_symbol_symbol_of in Hz. pose proof (z_of_symbol_symbol_of _ z_of_H) as HC. congruence.
Qed.

(* the symbols of a graph whose atomic numbers all have a symbol are known *)
Lemma all_some_known zs syms : map symbol_of zs = map Some syms -> known syms.
Proof.
  revert syms. induction zs as [|z zs IH]; intros [|s syms] H; cbn [map] in H; try discriminate.
  - intros s [].
  - inversion H as [[H1 H2]]. intros s' [<-|H']; [exists z; apply symbol_of_z_of_symbol, H1 | apply (IH _ H2), H'].
Qed.
Lemma syms_of_known {P B} (m : mol P B) syms : syms_of m = Some syms -> known syms.
Proof.
  unfold syms_of. intros H. apply all_some_spec in H. rewrite <- map_map in H. eapply all_some_known, H.
Qed.

(* ====================================================================== *)
(* 4.  (a) the formula tokens are the items of ast_items                   *)
(* ====================================================================== *)
Definition notCH (s : text) : bool := negb (text_eqb s (t "C")) && negb (text_eqb s (t "H")).

Lemma hill_syms_eq syms :
  hill_syms syms =
  if existsb (text_eqb (t "C")) syms
  then t "C" :: (if existsb (text_eqb (t "H")) syms then [t "H"] else []) ++ filter notCH (dsyms syms)
  else dsyms syms.
Proof. reflexivity. Qed.

Lemma formula_tokens_hill syms : formula_tokens syms = flat_map (sym_tokens syms) (hill_syms syms).
Proof.
  rewrite hill_syms_eq. unfold formula_tokens. cbv zeta. fold (dsyms syms). fold notCH.
  destruct (existsb (text_eqb (t "C")) syms); [|reflexivity].
  cbn [flat_map]. f_equal. rewrite flat_map_app. f_equal.
  destruct (existsb (text_eqb (t "H")) syms); cbn [flat_map]; [rewrite app_nil_r|]; reflexivity.
Qed.

Lemma hill_syms_incl syms s : In s (hill_syms syms) -> In s syms.
Proof.
  rewrite hill_syms_eq.
  destruct (existsb (text_eqb (t "C")) syms) eqn:EC; [|apply dsyms_in].
  intros [<-|H]; [apply existsb_text_in, EC|].
  apply in_app_or in H. destruct H as [H|H].
  - destruct (existsb (text_eqb (t "H")) syms) eqn:EH; [|destruct H].
    destruct H as [<-|[]]. apply existsb_text_in, EH.
  - apply filter_In in H. apply dsyms_in, H.
Qed.

Lemma count_text_pos s syms : In s syms -> (1 <= count_text s syms)%N.
Proof.
  intros H. unfold count_text.
  assert (In s (filter (text_eqb s) syms)) by (apply filter_In; split; [exact H | apply text_eqb_refl]).
  destruct (filter (text_eqb s) syms); [contradiction|]. simpl length. lia.
Qed.

Lemma Items_app ts1 it1 ts2 it2 : Items ts1 it1 -> Items ts2 it2 -> Items (ts1 ++ ts2) (it1 ++ it2).
Proof. induction 1; intros H2; simpl; [exact H2 | constructor; auto | constructor; auto]. Qed.

Lemma formula_item_Items z c : (1 <= c)%N -> Items (formula_item z c) [(z, Z.of_N c)].
Proof.
  intros H. unfold formula_item. destruct (N.ltb 1 c) eqn:E.
  - apply N.ltb_lt in E. constructor; [unfold Count; lia | constructor].
  - apply N.ltb_ge in E. assert (c = 1%N) by lia. subst c. constructor. constructor.
Qed.

Lemma sym_tokens_Items syms l : (forall s, In s l -> In s syms) ->
  Items (flat_map (sym_tokens syms) l)
        (flat_map (fun s => match z_of_symbol s with Some z => [(z, Z.of_N (count_text s syms))] | None => [] end) l).
Proof.
  induction l as [|s l IH]; intros H; cbn [flat_map]; [constructor|].
  apply Items_app; [|apply IH; intros x Hx; apply H; right; exact Hx].
  unfold sym_tokens. destruct (z_of_symbol s); [|constructor].
  apply formula_item_Items, count_text_pos, H. left; reflexivity.
Qed.

Theorem formula_tokens_Items syms : Items (formula_tokens syms) (ast_items syms).
Proof. rewrite formula_tokens_hill. apply sym_tokens_Items. apply hill_syms_incl. Qed.

Corollary parse_items_formula_tokens syms fuel rest : (length (formula_tokens syms) <= fuel)%nat ->
  parse_items fuel (formula_tokens syms ++ TSlash :: rest) = (ast_items syms, TSlash :: rest).
Proof. apply (parse_items_complete (formula_tokens_Items syms)). Qed.

(* ====================================================================== *)
(* 5.  (b) Hill order is the order of the grammar rules                    *)
(* ====================================================================== *)
Lemma ast_items_fst syms : known syms -> map fst (ast_items syms) = map zof (hill_syms syms).
Proof.
  intros K. unfold ast_items.
  rewrite (known_flat_map (fun z s => (z, Z.of_N (count_text s syms)))).
  - rewrite map_map. reflexivity.
  - eapply known_incl; [exact K | intros s; apply hill_syms_incl].
Qed.

Lemma match_order_hit z o r l : match_order ((z, o) :: r) (z :: l) = match_order r l.
Proof. simpl. rewrite N.eqb_refl. reflexivity. Qed.
Lemma match_order_skip z r l : ~ In z l -> match_order ((z, true) :: r) l = match_order r l.
Proof.
  intros H. destruct l as [|s l]; [reflexivity|]. simpl.
  destruct (N.eqb s z) eqn:E; [|reflexivity]. apply N.eqb_eq in E. subst. destruct H. left; reflexivity.
Qed.

Lemma zof_ascending syms l : known syms -> incl l syms ->
  StronglySorted (fun x y => text_ltb x y = true) l ->
  StronglySorted (fun a b => zltb a b = true) (map zof l).
Proof.
  intros K I. apply StronglySorted_map. intros x y Hx Hy H. unfold zltb.
  rewrite (known_symz syms x K (I _ Hx)), (known_symz syms y K (I _ Hy)). exact H.
Qed.

Lemma notCH_spec s : notCH s = true <-> s <> t "C" /\ s <> t "H".
Proof. unfold notCH. rewrite andb_true_iff, !negb_true_iff, !text_eqb_neq. tauto. Qed.

Theorem formula_ok_ast_items syms : known syms -> formula_ok (ast_items syms) = true.
Proof.
  intros K. unfold formula_ok. cbv zeta. rewrite (ast_items_fst syms K). rewrite hill_syms_eq.
  apply orb_true_iff.
  destruct (existsb (text_eqb (t "C")) syms) eqn:EC.
  - left. rewrite wc_shape. cbn [map]. rewrite zof_C, match_order_hit, map_app.
    assert (HF : incl (filter notCH (dsyms syms)) syms).
    { intros s H. apply filter_In in H. apply dsyms_in, H. }
    assert (Htail : match_order wc_tail (map zof (filter notCH (dsyms syms))) = true).
    { apply (match_order_ascending zltb zltb_irrefl zltb_trans).
      - exact wc_tail_optional.
      - apply strictly_sorted_sound, wc_tail_ascending.
      - apply (zof_ascending syms); [exact K | exact HF |].
        apply StronglySorted_filter, dsyms_strict.
      - intros z Hz. apply in_map_iff in Hz. destruct Hz as (s & <- & Hs).
        pose proof (HF _ Hs) as Hin. apply filter_In in Hs. destruct Hs as [_ Hs]. apply notCH_spec in Hs.
        pose proof (z_of_symbol_in_table _ _ (known_zof syms s K Hin)) as Ht.
        pose proof wc_tail_complete as HC. rewrite forallb_forall in HC. specialize (HC _ Ht). cbv beta in HC. cbn [snd fst] in HC.
        apply orb_true_iff in HC. destruct HC as [HC|HC]; [|apply memN_In, HC].
        exfalso. apply orb_true_iff in HC. destruct HC as [HC|HC]; apply N.eqb_eq in HC.
        + apply (proj1 Hs). eapply zof_inj_C; eassumption.
        + apply (proj2 Hs). eapply zof_inj_H; eassumption. }
    destruct (existsb (text_eqb (t "H")) syms) eqn:EH.
    + cbn [map app]. rewrite zof_H, match_order_hit. exact Htail.
    + cbn [map app]. rewrite match_order_skip; [exact Htail|].
      intros Hz. apply in_map_iff in Hz. destruct Hz as (s & E & Hs).
      pose proof (HF _ Hs) as Hin. apply filter_In in Hs. destruct Hs as [_ Hs]. apply notCH_spec in Hs.
      apply (proj2 Hs). eapply zof_inj_H; eassumption.
  - right.
    assert (HnC : ~ In (t "C") syms).
    { intros H. apply existsb_text_in in H. congruence. }
    apply (match_order_ascending zltb zltb_irrefl zltb_trans).
    + exact woc_optional.
    + apply strictly_sorted_sound, woc_ascending.
    + apply (zof_ascending syms); [exact K | intros s; apply dsyms_in | apply dsyms_strict].
    + intros z Hz. apply in_map_iff in Hz. destruct Hz as (s & <- & Hs). apply (proj1 (dsyms_in _ _)) in Hs.
      pose proof (z_of_symbol_in_table _ _ (known_zof syms s K Hs)) as Ht.
      pose proof woc_complete as HC. rewrite forallb_forall in HC. specialize (HC _ Ht). cbv beta in HC. cbn [snd fst] in HC.
      apply orb_true_iff in HC. destruct HC as [HC|HC]; [|apply memN_In, HC].
      exfalso. apply N.eqb_eq in HC. apply HnC. rewrite <- (zof_inj_C syms s K Hs HC). exact Hs.
Qed.

(* ====================================================================== *)
(* 6.  (c) the edge tokens are the tuples of ast_tuples                    *)
(* ====================================================================== *)
Definition tuple_tokens (e : N * N) : list token :=
  [TLp; TNum (Z.of_N (fst e) + 1); TDash; TNum (Z.of_N (snd e) + 1); TRp].
Definition tuple_ast (e : N * N) : Z * Z := ((Z.of_N (fst e) + 1)%Z, (Z.of_N (snd e) + 1)%Z).

Lemma tuples_of_pairs l : Tuples (flat_map tuple_tokens l) (map tuple_ast l).
Proof.
  induction l as [|e l IH]; simpl; [constructor|].
  change (Tuples (tuple_tokens e ++ flat_map tuple_tokens l) (tuple_ast e :: map tuple_ast l)).
  constructor; [|exact IH]. constructor; unfold Index; lia.
Qed.

Theorem edge_tokens_Tuples {P B} (m : mol P B) : Tuples (edge_tokens m) (ast_tuples m).
Proof. exact (tuples_of_pairs (isort pair_leb (map nbond (bonds m)))). Qed.

Corollary parse_tuples_edge_tokens {P B} (m : mol P B) fuel rest :
  (length (edge_tokens m) <= fuel)%nat -> not_lp rest ->
  parse_tuples fuel (edge_tokens m ++ rest) = (ast_tuples m, rest).
Proof. apply (parse_tuples_complete (edge_tokens_Tuples m)). Qed.

Lemma edge_tokens_length {P B} (m : mol P B) : length (edge_tokens m) = (5 * length (bonds m))%nat.
Proof.
  unfold edge_tokens.
  assert (H : forall l : list (N * N), length (flat_map tuple_tokens l) = (5 * length l)%nat).
  { induction l as [|e l IH]; [reflexivity|]. cbn [flat_map]. rewrite app_length, IH. simpl. lia. }
  change (length (flat_map tuple_tokens (isort pair_leb (map (fun b => norm_pair (ends b)) (bonds m)))) = (5 * length (bonds m))%nat).
  rewrite H, SortProofs.isort_length, map_length. reflexivity.
Qed.

Theorem ast_tuples_length {P B} (m : mol P B) : length (ast_tuples m) = length (bonds m).
Proof. unfold ast_tuples. rewrite map_length, SortProofs.isort_length, map_length. reflexivity. Qed.

(* ====================================================================== *)
(* 7.  (d) the attribute tokens are the blocks of ast_blocks               *)
(* ====================================================================== *)
Definition block_tokens {P} (x : atom P) : list token :=
  match prop_tokens x with
  | [] => []
  | ps => [TLp; TNum (Z.of_N (lbl x) + 1); TColon] ++ join_comma ps ++ [TRp]
  end.
Definition block_ast {P} (x : atom P) : list (Z * list (key * Z)) :=
  match props_of x with [] => [] | ps => [((Z.of_N (lbl x) + 1)%Z, ps)] end.

Lemma attr_tokens_eq {P B} (m : mol P B) : attr_tokens m = flat_map block_tokens (isort (@atom_leb P) (atoms m)).
Proof. reflexivity. Qed.
Lemma ast_blocks_eq {P B} (m : mol P B) : ast_blocks m = flat_map block_ast (isort (@atom_leb P) (atoms m)).
Proof. reflexivity. Qed.

Lemma block_empty_iff {P} (x : atom P) : block_tokens x = [] <-> block_ast x = [].
Proof.
  unfold block_tokens, block_ast, prop_tokens, props_of.
  destruct (mass x), (rad x); simpl; split; intros H; try discriminate; reflexivity.
Qed.

Lemma flat_map_nil_iff {A C} (f : A -> list C) l : flat_map f l = [] <-> forall x, In x l -> f x = [].
Proof.
  induction l as [|a l IH]; simpl.
  - split; [intros _ x [] | reflexivity].
  - split.
    + intros H. apply app_eq_nil in H. destruct H as [H1 H2]. intros x [<-|Hx]; [exact H1 | apply IH; assumption].
    + intros H. rewrite (H a) by (left; reflexivity). apply IH. intros x Hx. apply H. right; exact Hx.
Qed.

Theorem ast_blocks_nil_iff {P B} (m : mol P B) : ast_blocks m = [] <-> attr_tokens m = [].
Proof.
  rewrite attr_tokens_eq, ast_blocks_eq, !flat_map_nil_iff.
  split; intros H x Hx; apply block_empty_iff, H, Hx.
Qed.

Lemma parse_blocks_atoms {P} (l : list (atom P)) : forall fuel,
  (length (flat_map block_tokens l) < fuel)%nat ->
  parse_blocks fuel (flat_map block_tokens l) = Some (flat_map block_ast l, []).
Proof.
  induction l as [|x l IH]; intros fuel Hf.
  - destruct fuel; [simpl in Hf; lia | reflexivity].
  - cbn [flat_map] in *. rewrite app_length in Hf.
    unfold block_tokens at 1, block_ast at 1. unfold block_tokens at 1 in Hf.
    unfold prop_tokens, props_of in *.
    destruct (mass x) as [v|], (rad x) as [w|]; cbn [app join_comma length] in *.
    + destruct fuel as [|[|[|f]]]; try lia.
      rewrite parse_blocks_S. rewrite parse_props_S. cbn [parse_prop]. rewrite parse_props_S. cbn [parse_prop].
      rewrite IH by lia. reflexivity.
    + destruct fuel as [|[|f]]; try lia.
      rewrite parse_blocks_S. rewrite parse_props_S. cbn [parse_prop].
      rewrite IH by lia. reflexivity.
    + destruct fuel as [|[|f]]; try lia.
      rewrite parse_blocks_S. rewrite parse_props_S. cbn [parse_prop].
      rewrite IH by lia. reflexivity.
    + apply IH. lia.
Qed.

Theorem parse_blocks_attr_tokens {P B} (m : mol P B) fuel :
  (length (attr_tokens m) < fuel)%nat -> parse_blocks fuel (attr_tokens m) = Some (ast_blocks m, []).
Proof. rewrite attr_tokens_eq, ast_blocks_eq. apply parse_blocks_atoms. Qed.

(* ====================================================================== *)
(* 8.  (e) the whole token list                                            *)
(* ====================================================================== *)
Theorem parse_tokens_of : forall P B (m : mol P B) syms, syms_of m = Some syms ->
  parse_tokens (formula_tokens syms ++ [TSlash] ++ edge_tokens m
                ++ (match attr_tokens m with [] => [] | at_ => TSlash :: at_ end))
  = Some (ast_of m syms).
Proof.
  intros P B m syms Hs. pose proof (syms_of_known m syms Hs) as K.
  unfold parse_tokens, ast_of. cbn [app].
  rewrite (parse_items_complete (formula_tokens_Items syms)) by (rewrite app_length; lia).
  rewrite (formula_ok_ast_items syms K). cbn [negb].
  destruct (attr_tokens m) as [|k at_] eqn:Ea.
  - rewrite (proj2 (ast_blocks_nil_iff m) Ea).
    rewrite (parse_tuples_complete (edge_tokens_Tuples m)); [reflexivity | | exact I].
    repeat (rewrite app_length; cbn [length]). lia.
  - rewrite (parse_tuples_complete (edge_tokens_Tuples m)); [| | exact I].
    + rewrite <- Ea. rewrite parse_blocks_attr_tokens; [reflexivity|].
      repeat (rewrite app_length; cbn [length]). lia.
    + repeat (rewrite app_length; cbn [length]). lia.
Qed.

Theorem tokens_of_parse_ex : forall P B (m : mol P B) ts, tokens_of m = Some ts ->
  exists syms, syms_of m = Some syms /\ parse_tokens ts = Some (ast_of m syms).
Proof.
  intros P B m ts H. unfold tokens_of in H. fold (syms_of m) in H.
  destruct (syms_of m) as [syms|] eqn:Es; [|discriminate].
  exists syms. split; [reflexivity|]. inversion H; subst ts. clear H.
  rewrite <- (parse_tokens_of P B m syms Es). do 3 f_equal.
  destruct (attr_tokens m); reflexivity.
Qed.

Corollary tokens_of_parse : forall P B (m : mol P B) syms ts, syms_of m = Some syms -> tokens_of m = Some ts ->
  parse_tokens ts = Some (ast_of m syms).
Proof.
  intros P B m syms ts Hs H. destruct (tokens_of_parse_ex P B m ts H) as (syms' & Hs' & Hp). congruence.
Qed.

(* ====================================================================== *)
(* 9.  The formula lists every atom once: expand (ast_items syms) ~ atomic numbers *)
(* ====================================================================== *)
Lemma map_repeat' {A C} (f : A -> C) x n : map f (repeat x n) = repeat (f x) n.
Proof. induction n; simpl; [reflexivity | rewrite IHn; reflexivity]. Qed.

Lemma filter_eq_repeat s l : filter (text_eqb s) l = repeat s (length (filter (text_eqb s) l)).
Proof.
  induction l as [|x l IH]; simpl; [reflexivity|].
  destruct (text_eqb s x) eqn:E; [|exact IH].
  apply text_eqb_eq in E. subst x. simpl. f_equal. exact IH.
Qed.

(* splitting a list into the classes of its distinct elements *)
Lemma filter_classes D : NoDup D -> forall l, incl l D ->
  Permutation (flat_map (fun s => filter (text_eqb s) l) D) l.
Proof.
  induction 1 as [|a D Hnin ND IH]; intros l Hl.
  - destruct l as [|x l]; [constructor | destruct (Hl x); left; reflexivity].
  - cbn [flat_map].
    set (l' := filter (fun x => negb (text_eqb a x)) l).
    assert (Hl' : incl l' D).
    { intros x Hx. apply filter_In in Hx. destruct Hx as [Hx Hne].
      destruct (Hl x Hx) as [<-|H]; [|exact H]. rewrite text_eqb_refl in Hne. discriminate. }
    assert (E : flat_map (fun s => filter (text_eqb s) l) D = flat_map (fun s => filter (text_eqb s) l') D).
    { apply flat_map_ext_in. intros s Hs. unfold l'. rewrite filter_filter. apply filter_ext.
      intros x. destruct (text_eqb s x) eqn:Esx; [|rewrite andb_false_r; reflexivity].
      apply text_eqb_eq in Esx. subst x.
      assert (Hne : text_eqb a s = false) by (apply text_eqb_neq; intros ->; contradiction).
      rewrite Hne. reflexivity. }
    rewrite E. rewrite (IH l' Hl'). apply Permutation_sym. apply filter_split_perm.
Qed.

Lemma dsyms_classes syms : Permutation (flat_map (fun s => filter (text_eqb s) syms) (dsyms syms)) syms.
Proof. apply filter_classes; [apply dsyms_NoDup | intros s; apply dsyms_in]. Qed.

Lemma filter_is_NoDup a l : NoDup l ->
  filter (fun s => text_eqb s a) l = if existsb (text_eqb a) l then [a] else [].
Proof.
  induction 1 as [|x l Hnin ND IH]; simpl; [reflexivity|].
  destruct (text_eqb x a) eqn:E.
  - apply text_eqb_eq in E. subst x. rewrite text_eqb_refl. simpl. f_equal.
    apply filter_none. intros y Hy. apply text_eqb_neq. intros ->. contradiction.
  - assert (E' : text_eqb a x = false) by (apply text_eqb_neq; apply text_eqb_neq in E; congruence).
    rewrite E'. simpl. exact IH.
Qed.

Theorem hill_syms_perm syms : Permutation (hill_syms syms) (dsyms syms).
Proof.
  rewrite hill_syms_eq. destruct (existsb (text_eqb (t "C")) syms) eqn:EC; [|reflexivity].
  apply Permutation_sym.
  eapply Permutation_trans; [apply (filter_split_perm (fun s => text_eqb s (t "C")))|].
  rewrite (filter_is_NoDup _ _ (dsyms_NoDup syms)).
  assert (EC' : existsb (text_eqb (t "C")) (dsyms syms) = true).
  { apply existsb_text_in, dsyms_in, existsb_text_in, EC. }
  rewrite EC'. cbn [app]. constructor.
  set (D1 := filter (fun x => negb (text_eqb x (t "C"))) (dsyms syms)).
  eapply Permutation_trans; [apply (filter_split_perm (fun s => text_eqb s (t "H")))|].
  assert (ND1 : NoDup D1) by (apply NoDup_filter, dsyms_NoDup).
  rewrite (filter_is_NoDup _ _ ND1).
  assert (EH : existsb (text_eqb (t "H")) D1 = existsb (text_eqb (t "H")) syms).
  { apply eq_true_iff_eq. rewrite !existsb_text_in. unfold D1. rewrite filter_In, dsyms_in.
    split; [tauto|]. intros H. split; [exact H | reflexivity]. }
  rewrite EH. unfold D1. rewrite filter_filter. reflexivity.
Qed.

Lemma expand_app a b : expand (a ++ b) = expand a ++ expand b.
Proof. unfold expand. apply flat_map_app. Qed.

Lemma expand_items_classes syms l : known l ->
  expand (flat_map (fun s => match z_of_symbol s with Some z => [(z, Z.of_N (count_text s syms))] | None => [] end) l)
  = map zof (flat_map (fun s => filter (text_eqb s) syms) l).
Proof.
  intros K. induction l as [|s l IH]; [reflexivity|].
  cbn [flat_map]. rewrite expand_app, map_app. f_equal.
  - rewrite (known_zof (s :: l) s K) by (left; reflexivity).
    unfold expand. cbn [flat_map fst snd]. rewrite app_nil_r.
    unfold count_text. rewrite nat_N_Z, Nat2Z.id.
    rewrite (filter_eq_repeat s syms) at 2. rewrite map_repeat'. reflexivity.
  - apply IH. eapply known_incl; [exact K | apply incl_tl, incl_refl].
Qed.

Lemma zof_symbols zs syms : map symbol_of zs = map Some syms -> map zof syms = zs.
Proof.
  revert syms. induction zs as [|z zs IH]; intros [|s syms] H; cbn [map] in H; try discriminate; [reflexivity|].
  inversion H as [[H1 H2]]. cbn [map]. f_equal; [|apply IH, H2].
  unfold zof. rewrite (symbol_of_z_of_symbol _ _ H1). reflexivity.
Qed.

Theorem expand_ast_items_perm : forall syms zs, map symbol_of zs = map Some syms ->
  Permutation (expand (ast_items syms)) zs.
Proof.
  intros syms zs H. pose proof (all_some_known zs syms H) as K.
  unfold ast_items. rewrite expand_items_classes.
  - rewrite <- (zof_symbols zs syms H). apply Permutation_map.
    rewrite (Permutation_flat_map _ (hill_syms_perm syms)). apply dsyms_classes.
  - eapply known_incl; [exact K | intros s; apply hill_syms_incl].
Qed.

Corollary expand_ast_items_mol : forall P B (m : mol P B) syms, syms_of m = Some syms ->
  Permutation (expand (ast_items syms)) (map (@zn P) (atoms m)).
Proof.
  intros P B m syms H. apply expand_ast_items_perm.
  unfold syms_of in H. apply all_some_spec in H. rewrite map_map. exact H.
Qed.

(* ====================================================================== *)
(* 10.  With positive attribute values the token list is a sentence of the grammar *)
(* ====================================================================== *)
Lemma Forall_flat_map' {A C} (Q : C -> Prop) (f : A -> list C) l :
  (forall x, In x l -> Forall Q (f x)) -> Forall Q (flat_map f l).
Proof.
  induction l as [|a l IH]; intros H; simpl; [constructor|].
  apply Forall_app. split; [apply H; left; reflexivity | apply IH; intros x Hx; apply H; right; exact Hx].
Qed.

Lemma formula_tokens_tok_ok syms : Forall tok_ok (formula_tokens syms).
Proof.
  rewrite formula_tokens_hill. apply Forall_flat_map'. intros s _.
  unfold sym_tokens. destruct (z_of_symbol s); [|constructor].
  unfold formula_item. destruct (N.ltb 1 (count_text s syms)) eqn:E; repeat constructor.
  apply N.ltb_lt in E. simpl. lia.
Qed.
Lemma edge_tokens_tok_ok {P B} (m : mol P B) : Forall tok_ok (edge_tokens m).
Proof. unfold edge_tokens. apply Forall_flat_map'. intros e _. repeat constructor; simpl; lia. Qed.
Lemma attr_tokens_tok_ok {P B} (m : mol P B) : pos_attrs m -> Forall tok_ok (attr_tokens m).
Proof.
  intros Hp. rewrite attr_tokens_eq. apply Forall_flat_map'. intros x Hx.
  apply SortProofs.isort_in in Hx. destruct (Hp x Hx) as [Hm Hr].
  unfold block_tokens, prop_tokens.
  destruct (mass x) as [v|], (rad x) as [w|]; cbn [app join_comma]; repeat constructor; simpl;
    try lia; try (apply Hm; reflexivity); try (apply Hr; reflexivity).
Qed.

Theorem tokens_of_Sentence : forall P B (m : mol P B) syms ts,
  pos_attrs m -> syms_of m = Some syms -> tokens_of m = Some ts -> Sentence ts (ast_of m syms).
Proof.
  intros P B m syms ts Hp Hs H. apply parse_tokens_sound; [|eapply tokens_of_parse; eassumption].
  unfold tokens_of in H. fold (syms_of m) in H. rewrite Hs in H. inversion H; subst ts. clear H.
  apply Forall_app. split; [apply formula_tokens_tok_ok|].
  cbn [app]. constructor; [exact I|].
  apply Forall_app. split; [apply edge_tokens_tok_ok|].
  pose proof (attr_tokens_tok_ok m Hp) as Ha.
  destruct (attr_tokens m); [constructor | constructor; [exact I | exact Ha]].
Qed.

(* ====================================================================== *)
(* 11.  Non-vacuity: ethanol, one labelled carbon, scrambled listing        *)
(* ====================================================================== *)
Module Example.
  Definition at_ (l z : N) (ms : option Z) : atom unit := mkAtom l z ms None 0 tt.
  (* labels ascend with the atomic number, as sort_by_Z leaves them; atoms and bonds are listed in no particular order *)
  Definition ethanol : mol unit unit :=
    mkMol [at_ 8 8 None; at_ 6 6 (Some 13%Z); at_ 0 1 None; at_ 1 1 None; at_ 7 6 None;
           at_ 2 1 None; at_ 3 1 None; at_ 4 1 None; at_ 5 1 None]
          [(7, 6, tt); (6, 0, tt); (1, 6, tt); (6, 2, tt); (8, 7, tt); (7, 3, tt); (4, 7, tt); (5, 8, tt)]%N.
  Definition syms : list text := [t "O"; t "C"; t "H"; t "H"; t "C"; t "H"; t "H"; t "H"; t "H"].
  Definition ts : list token :=
    [TSym 6; TNum 2; TSym 1; TNum 6; TSym 8; TSlash;
     TLp; TNum 1; TDash; TNum 7; TRp; TLp; TNum 2; TDash; TNum 7; TRp; TLp; TNum 3; TDash; TNum 7; TRp;
     TLp; TNum 4; TDash; TNum 8; TRp; TLp; TNum 5; TDash; TNum 8; TRp; TLp; TNum 6; TDash; TNum 9; TRp;
     TLp; TNum 7; TDash; TNum 8; TRp; TLp; TNum 8; TDash; TNum 9; TRp;
     TSlash; TLp; TNum 7; TColon; TMass; TEq; TNum 13; TRp].
  Example ethanol_syms : syms_of ethanol = Some syms.
  Proof. vm_compute. reflexivity. Qed.
  Example ethanol_tokens : tokens_of ethanol = Some ts.
  Proof. vm_compute. reflexivity. Qed.
  Example ethanol_text : print_tokens ts = t "C2H6O/(1-7)(2-7)(3-7)(4-8)(5-8)(6-9)(7-8)(8-9)/(7:mass=13)".
  Proof. vm_compute. reflexivity. Qed.
  Example ethanol_ast :
    ast_of ethanol syms =
    mkAst [(6%N, 2%Z); (1%N, 6%Z); (8%N, 1%Z)]
          [(1, 7); (2, 7); (3, 7); (4, 8); (5, 8); (6, 9); (7, 8); (8, 9)]%Z
          [(7%Z, [(KMass, 13%Z)])].
  Proof. vm_compute. reflexivity. Qed.
  Example ethanol_parse : parse_tokens ts = Some (ast_of ethanol syms).
  Proof. vm_compute. reflexivity. Qed.
  (* the same, as an instance of the theorem *)
  Example ethanol_parse_thm : parse_tokens ts = Some (ast_of ethanol syms).
  Proof. exact (tokens_of_parse _ _ ethanol syms ts ethanol_syms ethanol_tokens). Qed.
  Example ethanol_expand : Permutation (expand (ast_items syms)) (map (@zn unit) (atoms ethanol)).
  Proof. exact (expand_ast_items_mol _ _ ethanol syms ethanol_syms). Qed.
End Example.

Print Assumptions parse_tokens_of.
Print Assumptions tokens_of_parse_ex.
Print Assumptions tokens_of_parse.
Print Assumptions formula_tokens_Items.
Print Assumptions formula_ok_ast_items.
Print Assumptions edge_tokens_Tuples.
Print Assumptions parse_blocks_attr_tokens.
Print Assumptions ast_blocks_nil_iff.
Print Assumptions ast_tuples_length.
Print Assumptions hill_syms_perm.
Print Assumptions expand_ast_items_perm.
Print Assumptions expand_ast_items_mol.
Print Assumptions tokens_of_Sentence.
