(* EndToEnd.v -- property C05, the quantifier closed: "for all molecules the readers or the
   parser can produce, the emitted string satisfies the grammar and the layout rules".

   RoundTrip2.tucan_in_grammar / tucan_layout speak about a graph m with wfg m, simple m,
   pos_attrs m.  Here the graph is no longer a hypothesis: the statements start from a molfile
   TEXT (V2000.read_molfile, the entry point for both molfile versions) or from a TUCAN STRING
   (Parse.ref_parse), and everything about the graph that can be proved for every input is proved.

   Contents
     1. what the readers return on EVERY text: read_molfile_symbols, read_molfile_simple,
        read_graph_props (wfg: distinct labels, no bond from an atom to itself, endpoints in range;
        every unordered pair at most once; no explicit zero and no negative value, hence positive
        masses / radicals; every atomic number has a symbol)
     2. what the readers reject: a bond from an atom to itself; a negative MASS= / RAD= value
        (two texts, rejected by computation; the general statements are ReadersNoZero section 6)
     3. molfile_text_in_grammar / molfile_text_layout: EVERY text that is read and has an atom
     4. spec-conformant files: v3000_file_in_grammar / _layout, v2000_file_in_grammar / _layout
        (every admissible rendering of a well-formed abstract molecule, LF or CR LF)
     5. tucan_string_in_grammar / tucan_string_layout: every accepted string with an atom
     6. non-vacuity with the reference oracle RefCanon.ref_canon, by computation                *)
From Coq Require Import List NArith ZArith Bool Lia Arith Permutation String.
Require Import Base Mol Text Token Parse Molfile Pipeline MolProofs SameMol CanonProofs CanonView AstOf TotalProofs.
Require V2000 V3000 Elements ReadersNoZero NonIdentity V3000Render V2000Render RoundTrip2 Norm Layout ParseProofs RefCanon.
Import ListNotations.

Local Open Scope list_scope.

Module R3 := V3000Render.
Module R2 := V2000Render.
Module NI := NonIdentity.
Module RZ := ReadersNoZero.

Ltac inv_step H := RZ.inv_step H.

(* ------------------------------------------------------------------------------------ *)
(* 1. what the readers return on every text                                              *)
(* ------------------------------------------------------------------------------------ *)

(* the stored atomic number is the table entry of the stored element symbol *)
Definition ratom_known (a : ratom) : Prop := z_of_symbol (r_sym a) = Some (r_zn a).

Lemma of_opt_ok {A} e (o : option A) x : of_opt e o = ok x -> o = Some x.
Proof. destruct o as [y|]; simpl; intros H; [injection H as ->; reflexivity|discriminate H]. Qed.

(* ---- V3000 ---- *)
Lemma v3000_parse_atom_line_known line a : V3000.parse_atom_line line = ok (Some a) -> ratom_known a.
Proof.
  unfold V3000.parse_atom_line. intros H.
  do 3 inv_step H. inv_step H.
  inv_step H. do 4 inv_step H. inv_step H. do 3 inv_step H. inv_step H.
  injection H as <-. unfold ratom_known; simpl.
  match goal with E : of_opt EOther (z_of_symbol _) = ok _ |- _ => exact (of_opt_ok _ _ _ E) end.
Qed.

Lemma v3000_parse_atoms_known ls : forall atoms stars atoms' stars',
  Forall (fun p => ratom_known (snd p)) atoms ->
  V3000.parse_atoms ls atoms stars = ok (atoms', stars') ->
  Forall (fun p => ratom_known (snd p)) atoms'.
Proof.
  induction ls as [|l r IH]; intros atoms stars atoms' stars' Hinv H; simpl in H.
  - injection H as <- <-. exact Hinv.
  - do 3 inv_step H.
    match goal with E : V3000.parse_atom_line l = ok ?o |- _ => destruct o as [a'|];
      [ apply (IH _ _ _ _ (RZ.dict_set_Forall Z.eqb (fun p => ratom_known (snd p)) _ _ _ Hinv (v3000_parse_atom_line_known l a' E)) H)
      | apply (IH _ _ _ _ Hinv H) ] end.
Qed.

Lemma read_v3000_known : forall lines atoms bonds,
  V3000.read_v3000 lines = ok (atoms, bonds) -> Forall ratom_known atoms.
Proof.
  intros lines atoms bonds H. unfold V3000.read_v3000 in H.
  repeat inv_step H. injection H as <- _.
  match goal with E : V3000.parse_atoms _ [] [] = ok (?l, ?l0) |- _ =>
    apply (v3000_parse_atoms_known _ [] [] l l0) in E; [|constructor]; apply Forall_map; exact E end.
Qed.

(* ---- V2000 ---- *)
Lemma v2000_parse_atom_line_known i line a : V2000.parse_atom_line i line = ok a -> ratom_known a.
Proof.
  unfold V2000.parse_atom_line. intros H.
  inv_step H. inv_step H. inv_step H. inv_step H. cbv zeta in H.
  injection H as <-. unfold ratom_known; simpl.
  match goal with E : of_opt EOther (z_of_symbol _) = ok _ |- _ => exact (of_opt_ok _ _ _ E) end.
Qed.

Lemma v2000_parse_atom_lines_known ls : forall i atoms, V2000.parse_atom_lines i ls = ok atoms -> Forall ratom_known atoms.
Proof.
  induction ls as [|l r IH]; intros i atoms H; simpl in H.
  - injection H as <-. constructor.
  - do 2 inv_step H. injection H as <-. constructor.
    + match goal with E : V2000.parse_atom_line _ _ = ok _ |- _ => exact (v2000_parse_atom_line_known _ _ _ E) end.
    + match goal with E : V2000.parse_atom_lines _ _ = ok _ |- _ => exact (IH _ _ E) end.
Qed.

(* the property block changes charge, mass and radical only *)
Lemma apply_extra_known d reset a : ratom_known a -> ratom_known (V2000.apply_extra d reset a).
Proof.
  unfold ratom_known, V2000.apply_extra. intros H.
  match goal with |- context [match ?g with Some _ => _ | None => _ end] => destruct g as [e|] end; simpl; exact H.
Qed.

Lemma read_v2000_known : forall lines atoms bonds,
  V2000.read_v2000 lines = ok (atoms, bonds) -> Forall ratom_known atoms.
Proof.
  intros lines atoms bonds H. unfold V2000.read_v2000 in H.
  repeat first [inv_step H | progress (cbv zeta in H)]. injection H as <- _.
  match goal with E : V2000.parse_atom_lines _ _ = ok _ |- _ => rename E into E8 end.
  apply v2000_parse_atom_lines_known in E8.
  apply Forall_map. revert E8. apply Forall_impl. intros a. apply apply_extra_known.
Qed.

(* ---- graph_from_molecule and the entry point ---- *)
Lemma read_molfile_inv s g : V2000.read_molfile s = ok g ->
  exists ats bds, Forall ratom_known ats /\ graph_from_molecule ats bds = ok g.
Proof.
  unfold V2000.read_molfile. intros H. cbv zeta in H. do 2 inv_step H.
  match goal with H : graph_from_molecule (fst ?p) (snd ?p) = ok g |- _ => destruct p as [ats bds] end.
  simpl in H. exists ats, bds. split; [|exact H].
  match goal with E : (if _ then _ else _) = ok (ats, bds) |- _ =>
    inv_step E; [exact (read_v3000_known _ _ _ E)|]; inv_step E; exact (read_v2000_known _ _ _ E) end.
Qed.

(* the element symbol kept in the payload and the atomic number agree, for every text *)
Theorem read_molfile_symbols : forall s g, V2000.read_molfile s = ok g ->
  forall x, In x (atoms g) -> z_of_symbol (p_sym (pay x)) = Some (zn x) /\ symbol_of (zn x) = Some (p_sym (pay x)).
Proof.
  intros s g H x Hx. destruct (read_molfile_inv s g H) as (ats & bds & Hk & Hg).
  destruct (RZ.graph_from_molecule_shape _ _ _ Hg) as [Ea _]. rewrite Ea in Hx.
  apply in_map_iff in Hx. destruct Hx as (p & <- & Hp). apply RZ.enum_snd_in in Hp.
  rewrite Forall_forall in Hk. pose proof (Hk _ Hp) as Hz. unfold ratom_known in Hz.
  unfold RZ.gfm_atom; simpl. split; [exact Hz|apply ParseProofs.z_of_symbol_symbol_of, Hz].
Qed.

Corollary read_molfile_known_elements : forall s g, V2000.read_molfile s = ok g -> known_elements g.
Proof. intros s g H x Hx. destruct (read_molfile_symbols s g H x Hx) as [_ E]. rewrite E. discriminate. Qed.

(* nx.Graph: the bond list never holds the same unordered pair twice, whatever the bond block says *)
Lemma graph_from_molecule_simple ats bds g : graph_from_molecule ats bds = ok g -> RoundTrip2.simple g.
Proof.
  unfold graph_from_molecule. intros H. cbv zeta in H. inv_step H. injection H as <-.
  unfold RoundTrip2.simple. simpl.
  match goal with E : fold_left _ bds (ok []) = ok _ |- _ => revert E end.
  apply (RZ.fold_res_inv _ (fun l : list (N * N * Z) => NoDup (map NI.npair l)));
    [|intros l El; injection El as <-; constructor].
  clear. intros acc b l' H. apply RZ.bind_ok in H. destruct H as (l0 & E & H). cbv beta in H.
  exists l0. split; [exact E|]. intros Hinv.
  destruct (index_of_Z (fst (fst b)) (map r_idx ats) 0) as [u|]; [|discriminate H].
  destruct (index_of_Z (snd (fst b)) (map r_idx ats) 0) as [v|]; [|discriminate H].
  injection H as <-. apply NI.add_edge_NoDup, Hinv.
Qed.

Theorem read_molfile_simple : forall s g, V2000.read_molfile s = ok g -> RoundTrip2.simple g.
Proof.
  intros s g H. destruct (read_molfile_inv s g H) as (ats & bds & _ & Hg). exact (graph_from_molecule_simple _ _ _ Hg).
Qed.

(* the readers reject a bond from an atom to itself (ReadersNoZero section 6): the graph is wfg *)
Definition has_no_self_bond {P B} (m : mol P B) : Prop := forall b, In b (bonds m) -> fst (ends b) <> snd (ends b).

Theorem read_graph_no_self_bond : forall s g, V2000.read_molfile s = ok g -> has_no_self_bond g.
Proof. exact RZ.read_molfile_no_self_bond. Qed.

Theorem read_graph_wfg : forall s g, V2000.read_molfile s = ok g -> wfg g.
Proof. exact RZ.read_molfile_wfg. Qed.

(* no explicit zero + no negative value (both readers reject one) = positive values *)
Definition nonneg_attrs {P B} (m : mol P B) : Prop :=
  forall x, In x (atoms m) -> (forall v, mass x = Some v -> (0 <= v)%Z) /\ (forall v, rad x = Some v -> (0 <= v)%Z).

Lemma nozero_nonneg_pos {P B} (m : mol P B) :
  (forall x, In x (atoms m) -> nozero x) -> nonneg_attrs m -> pos_attrs m.
Proof.
  intros Hz Hn x Hx. destruct (Hz x Hx) as [Zm Zr]. destruct (Hn x Hx) as [Nm Nr].
  split; intros v E; [specialize (Nm v E); assert (v <> 0%Z) by congruence | specialize (Nr v E); assert (v <> 0%Z) by congruence]; lia.
Qed.

Theorem read_graph_nonneg : forall s g, V2000.read_molfile s = ok g -> nonneg_attrs g.
Proof. exact RZ.read_molfile_nonneg. Qed.

Theorem read_graph_pos_attrs : forall s g, V2000.read_molfile s = ok g -> pos_attrs g.
Proof. exact RZ.read_molfile_positive. Qed.

(* Everything about the graph that holds for EVERY text the entry point accepts: the hypotheses of
   tucan_in_grammar / tucan_layout / tucan_total except "at least one atom". *)
Theorem read_graph_props : forall s g, V2000.read_molfile s = ok g ->
  wfg g /\ RoundTrip2.simple g /\ (forall x, In x (atoms g) -> nozero x) /\ pos_attrs g /\ known_elements g.
Proof.
  intros s g H. split; [exact (read_graph_wfg s g H)|]. split; [exact (read_molfile_simple s g H)|].
  split; [|split; [exact (read_graph_pos_attrs s g H)|exact (read_molfile_known_elements s g H)]].
  intros x Hx. exact (proj1 (RZ.read_molfile_nozero s g H x Hx)).
Qed.

(* ------------------------------------------------------------------------------------ *)
(* 2. what the readers reject                                                            *)
(* ------------------------------------------------------------------------------------ *)
(* Two hypotheses of tucan_in_grammar / tucan_layout used to be open on arbitrary text:

   (a) no self-bond.  A bond block may name the same atom twice ("M  V30 1 1 1 1").  nx.Graph would
       keep the loop and the pipeline would emit the tuple (1-1), which violates the layout rule
       a < b and which the reference reader rejects (ESelfLoop, see ex_selfbond_string below).
   (b) positive mass / radical values.  "MASS=-3", "RAD=-1": the serializer would print "mass=-3",
       which is not a sentence (node_property_value ::= greater_than_zero).

   Both readers now raise MolfileParserException on such a file, so both are consequences of
   "the text was read" (section 1).  The two texts below are the witnesses that used to be accepted:
   the model reader rejects them. *)

Definition nl : text := [ascii_of_N 10].
Definition ex_header : list text :=
  [t "not conformant"; t ""; t ""; t "  0  0  0     0  0            999 V3000"; t "M  V30 BEGIN CTAB"].

Definition ex_selfbond_text : text := join_with nl (ex_header ++
  [t "M  V30 COUNTS 2 2 0 0 0"; t "M  V30 BEGIN ATOM";
   t "M  V30 1 C 0 0 0 0"; t "M  V30 2 O 1 0 0 0";
   t "M  V30 END ATOM"; t "M  V30 BEGIN BOND";
   t "M  V30 1 1 1 1"; t "M  V30 2 1 1 2";
   t "M  V30 END BOND"; t "M  V30 END CTAB"; t "M  END"]).

Definition ex_negative_text : text := join_with nl (ex_header ++
  [t "M  V30 COUNTS 2 1 0 0 0"; t "M  V30 BEGIN ATOM";
   t "M  V30 1 C 0 0 0 0 MASS=-3"; t "M  V30 2 O 1 0 0 0 RAD=-1";
   t "M  V30 END ATOM"; t "M  V30 BEGIN BOND";
   t "M  V30 1 1 1 2";
   t "M  V30 END BOND"; t "M  V30 END CTAB"; t "M  END"]).

Definition graph_view (r : res (mol rpay Z)) : option (list (N * N * option Z * option Z) * list (N * N * Z)) :=
  match r with inr g => Some (map (fun x => (lbl x, zn x, mass x, rad x)) (atoms g), bonds g) | inl _ => None end.
Definition run_text (s : text) : option text :=
  match V2000.read_molfile s with inr g => tucan RefCanon.ref_canon g | inl _ => None end.

(* (a) the file with the bond line "1 1 1 1" is rejected ... *)
Lemma ex_selfbond_rejected : V2000.read_molfile ex_selfbond_text = inl EParser.
Proof. vm_compute. reflexivity. Qed.

(* ... and without that line it is read: the self-bond is the only reason *)
Definition ex_selfbond_text_repaired : text := join_with nl (ex_header ++
  [t "M  V30 COUNTS 2 1 0 0 0"; t "M  V30 BEGIN ATOM";
   t "M  V30 1 C 0 0 0 0"; t "M  V30 2 O 1 0 0 0";
   t "M  V30 END ATOM"; t "M  V30 BEGIN BOND";
   t "M  V30 2 1 1 2";
   t "M  V30 END BOND"; t "M  V30 END CTAB"; t "M  END"]).
Example ex_selfbond_repaired_read :
  graph_view (V2000.read_molfile ex_selfbond_text_repaired)
  = Some ([(0, 6, None, None); (1, 8, None, None)]%N, [(0%N, 1%N, 1%Z)])
  /\ run_text ex_selfbond_text_repaired = Some (t "CO/(1-2)").
Proof. vm_compute. split; reflexivity. Qed.

(* the string a self-bond would give is not a TUCAN string: the reference reader rejects it *)
Definition ex_selfbond_string : text := t "CO/(1-1)(1-2)".
Example ex_selfbond_string_rejected : ref_parse ex_selfbond_string = inl ESelfLoop.
Proof. vm_compute. reflexivity. Qed.

(* (b) the file with MASS=-3 / RAD=-1 is rejected (each of the two values alone suffices) *)
Lemma ex_negative_rejected : V2000.read_molfile ex_negative_text = inl EParser.
Proof. vm_compute. reflexivity. Qed.

(* the string negative values would give is not a sentence of the grammar *)
Definition ex_negative_string : text := t "CO/(1-2)/(1:mass=-3)(2:rad=-1)".
Example ex_negative_no_sentence : forall ts a,
  lex_text ex_negative_string = Some ts -> ~ ParseProofs.Sentence ts a.
Proof.
  intros ts a Hl HS. apply ParseProofs.parse_tokens_complete in HS.
  revert Hl HS. generalize (eq_refl (lex_text ex_negative_string)).
  generalize (lex_text ex_negative_string) at 1 3. intros o Eo. vm_compute in Eo. subst o.
  intros Hl. injection Hl as <-. intros HS. vm_compute in HS. discriminate HS.
Qed.

(* "at least one atom" stays a hypothesis below: a file that announces no atom is read, into the empty
   graph, and the pipeline returns no string for it *)
Definition ex_empty_text : text := join_with nl (ex_header ++
  [t "M  V30 COUNTS 0 0 0 0 0"; t "M  V30 BEGIN ATOM"; t "M  V30 END ATOM"; t "M  V30 END CTAB"; t "M  END"]).
Example ex_empty_read :
  graph_view (V2000.read_molfile ex_empty_text) = Some ([], []) /\ run_text ex_empty_text = None.
Proof. vm_compute. split; reflexivity. Qed.

(* ------------------------------------------------------------------------------------ *)
(* 3. the closure for the readers: any text                                              *)
(* ------------------------------------------------------------------------------------ *)

Section Closure.
  Variable canon : list (N * N) -> list (N * N) -> list (N * N).
  Hypothesis HH1 : H1 canon.

  (* tucan_total + tucan_in_grammar: the string exists and is a sentence *)
  Lemma graph_in_grammar {P B} (m : mol P B) :
    wfg m -> RoundTrip2.simple m -> pos_attrs m -> atoms m <> [] -> known_elements m ->
    exists c ts a, tucan canon m = Some c /\ lex_text c = Some ts /\ ParseProofs.Sentence ts a /\ print_tokens ts = c.
  Proof.
    intros Hw Hs Hp Hne Hk. destruct (tucan_total canon m HH1 Hw Hne Hk) as [c Hc].
    destruct (RoundTrip2.tucan_in_grammar canon HH1 m c Hw Hs Hp Hc) as (ts & a & H).
    exists c, ts, a. split; [exact Hc|exact H].
  Qed.

  (* tucan_total + tucan_layout: the string exists and is laid out canonically *)
  Lemma graph_layout {P B} (m : mol P B) :
    wfg m -> RoundTrip2.simple m -> pos_attrs m -> atoms m <> [] -> known_elements m ->
    exists c ts (m2 : mol P B) syms h,
      tucan canon m = Some c /\ print_tokens ts = c /\ lex_text c = Some ts /\ parse_tokens ts = Some (ast_of m2 syms) /\
      SameMol h m m2 /\ ser_ready m2 /\ Layout.layout_ok m2 (ast_of m2 syms).
  Proof.
    intros Hw Hs Hp Hne Hk. destruct (tucan_total canon m HH1 Hw Hne Hk) as [c Hc].
    destruct (RoundTrip2.tucan_layout canon HH1 m c Hw Hs Hp Hc) as (ts & m2 & syms & h & H).
    exists c, ts, m2, syms, h. split; [exact Hc|exact H].
  Qed.

  (* C05 for the readers.  For EVERY text s the entry point reads, provided the graph has an atom (the
     only hypothesis left: a file with "COUNTS 0 0" is read into the empty graph, for which the pipeline
     returns nothing), the pipeline returns a string, and that string is the spelling of a sentence of
     the published grammar. *)
  Theorem molfile_text_in_grammar : forall (s : text) (g : mol rpay Z),
    V2000.read_molfile s = ok g -> atoms g <> [] ->
    exists c ts a, tucan canon g = Some c /\ lex_text c = Some ts /\ ParseProofs.Sentence ts a /\ print_tokens ts = c.
  Proof.
    intros s g H Hne. destruct (read_graph_props s g H) as (Hw & Hs & _ & Hp & Hk).
    exact (graph_in_grammar g Hw Hs Hp Hne Hk).
  Qed.

  Theorem molfile_text_layout : forall (s : text) (g : mol rpay Z),
    V2000.read_molfile s = ok g -> atoms g <> [] ->
    exists c ts (m2 : mol rpay Z) syms h,
      tucan canon g = Some c /\ print_tokens ts = c /\ lex_text c = Some ts /\ parse_tokens ts = Some (ast_of m2 syms) /\
      SameMol h g m2 /\ ser_ready m2 /\ Layout.layout_ok m2 (ast_of m2 syms).
  Proof.
    intros s g H Hne. destruct (read_graph_props s g H) as (Hw & Hs & _ & Hp & Hk).
    exact (graph_layout g Hw Hs Hp Hne Hk).
  Qed.
End Closure.

(* ------------------------------------------------------------------------------------ *)
(* 4. spec-conformant files: the hypotheses discharged                                   *)
(* ------------------------------------------------------------------------------------ *)

(* ---- V3000 ---- *)
(* at least one atom entry (not only star atoms) *)
Definition has_atom3 (M : R3.molM) : Prop := exists a, In (Some a) (R3.m_entries M).

Lemma m_atoms_nonempty es : forall i a, In (Some a) es -> R3.m_atoms i es <> [].
Proof.
  induction es as [|[b|] es IH]; intros i a H; cbn [R3.m_atoms]; [destruct H|discriminate|].
  destruct H as [E|H]; [discriminate E|apply (IH _ _ H)].
Qed.

Lemma graph_of_nonempty M : has_atom3 M -> atoms (R3.graph_of M) <> [].
Proof. intros [a Ha]. exact (m_atoms_nonempty _ 0%N a Ha). Qed.

(* ---- V2000 ---- *)
Lemma graph2000_nonempty M : R2.m_atoms M <> [] -> atoms (R2.graph2000 M) <> [].
Proof. intros H. cbn [R2.graph2000 atoms]. destruct (R2.m_atoms M); [congruence|discriminate]. Qed.

Section Files.
  Variable canon : list (N * N) -> list (N * N) -> list (N * N).
  Hypothesis HH1 : H1 canon.

  (* C05 for V3000 files.  M: any well-formed abstract molecule (R3.okM: this now contains "no bond line
     joins an atom to itself" and "no negative stated mass / radical", without which the reader rejects
     the file) with an atom; ch: any admissible rendering choices (header lines, index values, blank runs,
     continuation points, order and repetition of CHG= / RAD= / MASS=, explicit defaults, foreign
     keywords, trailing blocks); eol: CR LF or LF line by line.  The text is read, the pipeline returns a
     string for the graph read, and the string is a sentence. *)
  Theorem v3000_file_in_grammar : forall (M : R3.molM) (ch : R3.choices) (eol : nat -> bool),
    R3.okM M -> has_atom3 M -> R3.okch M ch -> R3.okch_text ch ->
    exists g c ts a,
      V2000.read_molfile (R3.file_text eol 0 (R3.render3000 M ch)) = ok g /\
      tucan canon g = Some c /\ lex_text c = Some ts /\ ParseProofs.Sentence ts a /\ print_tokens ts = c.
  Proof.
    intros M ch eol HM Ha Hc Ht. pose proof (R3.read_molfile_graph M ch eol HM Hc Ht) as Hr.
    destruct (molfile_text_in_grammar canon HH1 _ _ Hr (graph_of_nonempty M Ha)) as (c & ts & a & H).
    exists (R3.graph_of M), c, ts, a. split; [exact Hr|exact H].
  Qed.

  Theorem v3000_file_layout : forall (M : R3.molM) (ch : R3.choices) (eol : nat -> bool),
    R3.okM M -> has_atom3 M -> R3.okch M ch -> R3.okch_text ch ->
    exists g c ts (m2 : mol rpay Z) syms h,
      V2000.read_molfile (R3.file_text eol 0 (R3.render3000 M ch)) = ok g /\
      tucan canon g = Some c /\ print_tokens ts = c /\ lex_text c = Some ts /\ parse_tokens ts = Some (ast_of m2 syms) /\
      SameMol h g m2 /\ ser_ready m2 /\ Layout.layout_ok m2 (ast_of m2 syms).
  Proof.
    intros M ch eol HM Ha Hc Ht. pose proof (R3.read_molfile_graph M ch eol HM Hc Ht) as Hr.
    destruct (molfile_text_layout canon HH1 _ _ Hr (graph_of_nonempty M Ha)) as (c & ts & m2 & syms & h & H).
    exists (R3.graph_of M), c, ts, m2, syms, h. split; [exact Hr|exact H].
  Qed.

  (* C05 for V2000 files.  M: any well-formed abstract molecule with an atom and ch any admissible
     rendering (okM2000, okch2000 inside okfile2000: the two atom numbers of a bond line differ, no
     negative value on an M  RAD / M  ISO line; header lines, blank or zero fields, unread columns, stale
     charge codes, atom list and stext lines, grouping and order of M  CHG / RAD / ISO entries, unrelated
     property lines, aliases, trailer); eol: CR LF or LF line by line. *)
  Theorem v2000_file_in_grammar : forall (M : R2.mol2) (ch : R2.choices) (eol : nat -> bool),
    NI.okfile2000 M ch -> R2.m_atoms M <> [] ->
    exists g c ts a,
      V2000.read_molfile (R3.file_text eol 0 (R2.render2000 M ch)) = ok g /\
      tucan canon g = Some c /\ lex_text c = Some ts /\ ParseProofs.Sentence ts a /\ print_tokens ts = c.
  Proof.
    intros M ch eol HF Ha. pose proof (NI.okfile2000_read M ch eol HF) as Hr.
    destruct (molfile_text_in_grammar canon HH1 _ _ Hr (graph2000_nonempty M Ha)) as (c & ts & a & H).
    exists (R2.graph2000 M), c, ts, a. split; [exact Hr|exact H].
  Qed.

  Theorem v2000_file_layout : forall (M : R2.mol2) (ch : R2.choices) (eol : nat -> bool),
    NI.okfile2000 M ch -> R2.m_atoms M <> [] ->
    exists g c ts (m2 : mol rpay Z) syms h,
      V2000.read_molfile (R3.file_text eol 0 (R2.render2000 M ch)) = ok g /\
      tucan canon g = Some c /\ print_tokens ts = c /\ lex_text c = Some ts /\ parse_tokens ts = Some (ast_of m2 syms) /\
      SameMol h g m2 /\ ser_ready m2 /\ Layout.layout_ok m2 (ast_of m2 syms).
  Proof.
    intros M ch eol HF Ha. pose proof (NI.okfile2000_read M ch eol HF) as Hr.
    destruct (molfile_text_layout canon HH1 _ _ Hr (graph2000_nonempty M Ha)) as (c & ts & m2 & syms & h & H).
    exists (R2.graph2000 M), c, ts, m2, syms, h. split; [exact Hr|exact H].
  Qed.

  (* ---------------------------------------------------------------------------------- *)
  (* 5. the closure for the parser: any accepted string                                  *)
  (* ---------------------------------------------------------------------------------- *)
  (* Every string the reference reader accepts, with at least one atom ("/" is the only accepted
     string without: Norm.ex_empty), normalizes to a string that is a sentence.  No further
     hypothesis: Norm.parsed_graph_wf puts every parsed graph in the domain. *)
  Theorem tucan_string_in_grammar : forall (s : text) (g : mol unit unit),
    ref_parse s = inr g -> atoms g <> [] ->
    exists c ts a, Norm.norm canon s = Some c /\ lex_text c = Some ts /\ ParseProofs.Sentence ts a /\ print_tokens ts = c.
  Proof.
    intros s g H Hne. rewrite (Norm.norm_of_parse canon s g H).
    destruct (Norm.parsed_graph_wf s g H) as (Hw & Hs & Hp & Hk & _).
    exact (graph_in_grammar canon HH1 g Hw Hs Hp Hne Hk).
  Qed.

  Theorem tucan_string_layout : forall (s : text) (g : mol unit unit),
    ref_parse s = inr g -> atoms g <> [] ->
    exists c ts (m2 : mol unit unit) syms h,
      Norm.norm canon s = Some c /\ print_tokens ts = c /\ lex_text c = Some ts /\ parse_tokens ts = Some (ast_of m2 syms) /\
      SameMol h g m2 /\ ser_ready m2 /\ Layout.layout_ok m2 (ast_of m2 syms).
  Proof.
    intros s g H Hne. rewrite (Norm.norm_of_parse canon s g H).
    destruct (Norm.parsed_graph_wf s g H) as (Hw & Hs & Hp & Hk & _).
    exact (graph_layout canon HH1 g Hw Hs Hp Hne Hk).
  Qed.
End Files.

(* ------------------------------------------------------------------------------------ *)
(* 6. non-vacuity: the reference oracle, concrete files and strings                      *)
(* ------------------------------------------------------------------------------------ *)
Module Example.
  Module E := NonIdentity.Example.
  Local Notation ref := RefCanon.ref_canon.

  (* the formate files of NonIdentity.Example (4 atoms; H13C(=O)O-): a V3000 file with continuation
     lines, explicit defaults and foreign keywords under CR LF, and a V2000 file with property lines
     under mixed line ends *)
  Example formA_has_atom : has_atom3 E.formA.
  Proof. eexists. left. reflexivity. Qed.
  Example form2_has_atom : R2.m_atoms E.form2 <> [].
  Proof. discriminate. Qed.

  (* the string, computed by running the executable model on the file texts *)
  Example formate_files_computed :
    run_text (R3.file_text E.crlf 0 (R3.render3000 E.formA E.chA)) = Some (t "CHO2/(1-2)(2-3)(2-4)/(2:mass=13)") /\
    run_text (R3.file_text E.mixed 0 (R2.render2000 E.form2 E.ch2)) = Some (t "CHO2/(1-2)(2-3)(2-4)/(2:mass=13)").
  Proof. vm_compute. split; reflexivity. Qed.

  (* the theorems of section 4, instantiated: all hypotheses hold for these files *)
  Example formate_v3000_in_grammar : exists g c ts a,
    V2000.read_molfile (R3.file_text E.crlf 0 (R3.render3000 E.formA E.chA)) = ok g /\
    tucan ref g = Some c /\ lex_text c = Some ts /\ ParseProofs.Sentence ts a /\ print_tokens ts = c.
  Proof.
    exact (v3000_file_in_grammar ref RefCanon.ref_canon_H1 E.formA E.chA E.crlf
             E.formA_ok formA_has_atom E.chA_ok E.chA_text_ok).
  Qed.
  Example formate_v3000_layout : exists g c ts (m2 : mol rpay Z) syms h,
    V2000.read_molfile (R3.file_text E.crlf 0 (R3.render3000 E.formA E.chA)) = ok g /\
    tucan ref g = Some c /\ print_tokens ts = c /\ lex_text c = Some ts /\ parse_tokens ts = Some (ast_of m2 syms) /\
    SameMol h g m2 /\ ser_ready m2 /\ Layout.layout_ok m2 (ast_of m2 syms).
  Proof.
    exact (v3000_file_layout ref RefCanon.ref_canon_H1 E.formA E.chA E.crlf
             E.formA_ok formA_has_atom E.chA_ok E.chA_text_ok).
  Qed.
  Example formate_v2000_in_grammar : exists g c ts a,
    V2000.read_molfile (R3.file_text E.mixed 0 (R2.render2000 E.form2 E.ch2)) = ok g /\
    tucan ref g = Some c /\ lex_text c = Some ts /\ ParseProofs.Sentence ts a /\ print_tokens ts = c.
  Proof.
    exact (v2000_file_in_grammar ref RefCanon.ref_canon_H1 E.form2 E.ch2 E.mixed
             E.file2_ok form2_has_atom).
  Qed.

  (* the string the theorem speaks about is the computed one, and its token list is explicit *)
  Definition formate_tokens : list token :=
    [TSym 6; TSym 1; TSym 8; TNum 2; TSlash;
     TLp; TNum 1; TDash; TNum 2; TRp; TLp; TNum 2; TDash; TNum 3; TRp; TLp; TNum 2; TDash; TNum 4; TRp; TSlash;
     TLp; TNum 2; TColon; TMass; TEq; TNum 13; TRp].
  Example formate_v3000_sentence : exists a,
    tucan ref (R3.graph_of E.formA) = Some E.formate_tucan /\
    lex_text E.formate_tucan = Some formate_tokens /\
    ParseProofs.Sentence formate_tokens a /\ print_tokens formate_tokens = E.formate_tucan.
  Proof.
    destruct formate_v3000_in_grammar as (g & c & ts & a & Hr & Hc & Hl & HS & Hp).
    rewrite (R3.read_molfile_graph E.formA E.chA E.crlf E.formA_ok E.chA_ok E.chA_text_ok) in Hr. injection Hr as <-.
    assert (Ec : tucan ref (R3.graph_of E.formA) = Some E.formate_tucan) by (vm_compute; reflexivity).
    rewrite Ec in Hc. injection Hc as <-.
    assert (El : lex_text E.formate_tucan = Some formate_tokens) by (vm_compute; reflexivity).
    rewrite El in Hl. injection Hl as <-.
    exists a. repeat split; assumption.
  Qed.

  (* a text that is not a rendering of an abstract molecule: ReadersNoZero.ex3000 (explicit zeros,
     repeated MASS=), through the general theorem of section 3 *)
  Definition zeros_text : text := join_with nl RZ.ex3000.
  Definition zeros_graph : mol rpay Z :=
    match V2000.read_molfile zeros_text with inr g => g | inl _ => mkMol [] [] end.
  Example zeros_read : V2000.read_molfile zeros_text = ok zeros_graph.
  Proof. vm_compute. reflexivity. Qed.
  Example zeros_hyps : atoms zeros_graph <> [].
  Proof. vm_compute. discriminate. Qed.
  Example zeros_in_grammar : exists ts a,
    tucan ref zeros_graph = Some (t "CHO/(1-2)(2-3)/(1:mass=2)(3:rad=2)") /\
    lex_text (t "CHO/(1-2)(2-3)/(1:mass=2)(3:rad=2)") = Some ts /\ ParseProofs.Sentence ts a /\
    print_tokens ts = t "CHO/(1-2)(2-3)/(1:mass=2)(3:rad=2)".
  Proof.
    destruct (molfile_text_in_grammar ref RefCanon.ref_canon_H1 _ _ zeros_read zeros_hyps) as (c & ts & a & Hc & H).
    assert (Ec : tucan ref zeros_graph = Some (t "CHO/(1-2)(2-3)/(1:mass=2)(3:rad=2)")) by (vm_compute; reflexivity).
    rewrite Ec in Hc. injection Hc as <-. exists ts, a. split; [exact Ec|exact H].
  Qed.

  (* strings: a non-canonical spelling (Norm.ex_s1, 6 atoms) normalizes to a sentence *)
  Example string_in_grammar : exists ts a,
    Norm.norm ref Norm.ex_s1 = Some Norm.ex_c /\
    lex_text Norm.ex_c = Some ts /\ ParseProofs.Sentence ts a /\ print_tokens ts = Norm.ex_c.
  Proof.
    destruct (ref_parse Norm.ex_s1) as [e|g] eqn:Eg; [vm_compute in Eg; discriminate Eg|].
    assert (Hne : atoms g <> []).
    { intros E0. assert (El : length (atoms (match ref_parse Norm.ex_s1 with inr g => g | inl _ => mkMol [] [] end)) = 6)
        by (vm_compute; reflexivity). rewrite Eg, E0 in El. discriminate El. }
    destruct (tucan_string_in_grammar ref RefCanon.ref_canon_H1 _ g Eg Hne) as (c & ts & a & Hc & H).
    rewrite Norm.ex_norm_s1 in Hc. injection Hc as <-. exists ts, a. split; [exact Norm.ex_norm_s1|exact H].
  Qed.
End Example.

Print Assumptions read_graph_props.
Print Assumptions read_molfile_symbols.
Print Assumptions molfile_text_in_grammar.
Print Assumptions molfile_text_layout.
Print Assumptions v3000_file_in_grammar.
Print Assumptions v3000_file_layout.
Print Assumptions v2000_file_in_grammar.
Print Assumptions v2000_file_layout.
Print Assumptions tucan_string_in_grammar.
Print Assumptions tucan_string_layout.
Print Assumptions read_graph_wfg.
Print Assumptions read_graph_pos_attrs.
Print Assumptions ex_selfbond_rejected.
Print Assumptions ex_negative_rejected.
Print Assumptions ex_negative_no_sentence.
Print Assumptions Example.formate_v3000_sentence.
Print Assumptions Example.zeros_in_grammar.
Print Assumptions Example.string_in_grammar.
