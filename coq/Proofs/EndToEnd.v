(* EndToEnd.v -- property C05, the quantifier closed: "for all molecules the readers or the
   parser can produce, the emitted string satisfies the grammar and the layout rules".

   RoundTrip2.tucan_in_grammar / tucan_layout speak about a graph m with wfg m, simple m,
   pos_attrs m.  Here the graph is no longer a hypothesis: the statements start from a molfile
   TEXT (V2000.read_molfile, the entry point for both molfile versions) or from a TUCAN STRING
   (Parse.ref_parse), and everything about the graph that can be proved for every input is proved.

   Contents
     1. what the readers return on EVERY text: read_molfile_symbols, read_molfile_simple,
        read_graph_props (distinct labels, every unordered pair at most once, no explicit zero,
        every atomic number has a symbol)
     2. what they do NOT guarantee on arbitrary text, with accepted texts as witnesses: a bond from
        an atom to itself; a negative MASS= / RAD= value
     3. molfile_text_in_grammar / molfile_text_layout: every text that is read, has an atom, has no
        self-bond and no non-positive stored mass / radical
     4. the hypotheses discharged for spec-conformant files: v3000_file_in_grammar / _layout,
        v2000_file_in_grammar / _layout (every admissible rendering of a well-formed abstract
        molecule, LF or CR LF)
     5. tucan_string_in_grammar / tucan_string_layout: every accepted string with an atom
     6. non-vacuity with the reference oracle RefCanon.ref_canon, by computation                *)
From Coq Require Import List NArith ZArith Bool Lia Arith Permutation String.
Require Import Base Mol Text Token Parse Molfile Pipeline MolProofs SameMol CanonProofs CanonView AstOf TotalProofs.
Require V2000 V3000 Elements ReadersNoZero NonIdentity V3000Render V2000Render RoundTrip2 Norm Layout ParseProofs RefCanon.
Import ListNotations.

Local Open Scope list_scope.

Module R3 := V3000Render.
Module R2 := V2000Render.
Module NI := NonIdentity.
Module RZ := ReadersNoZero.

Ltac inv_step H := RZ.inv_step H.

(* ------------------------------------------------------------------------------------ *)
(* 1. what the readers return on every text                                              *)
(* ------------------------------------------------------------------------------------ *)

(* the stored atomic number is the table entry of the stored element symbol *)
Definition ratom_known (a : ratom) : Prop := z_of_symbol (r_sym a) = Some (r_zn a).

Lemma of_opt_ok {A} e (o : option A) x : of_opt e o = ok x -> o = Some x.
Proof. destruct o as [y|]; simpl; intros H; [injection H as ->; reflexivity|discriminate H]. Qed.

(* ---- V3000 ---- *)
Lemma v3000_parse_atom_line_known line a : V3000.parse_atom_line line = ok (Some a) -> ratom_known a.
Proof.
  unfold V3000.parse_atom_line. intros H.
  do 3 inv_step H. inv_step H.
  inv_step H. do 4 inv_step H. inv_step H. do 3 inv_step H.
  injection H as <-. unfold ratom_known; simpl.
  match goal with E : of_opt EOther (z_of_symbol _) = ok _ |- _ => exact (of_opt_ok _ _ _ E) end.
Qed.

Lemma v3000_parse_atoms_known ls : forall atoms stars atoms' stars',
  Forall (fun p => ratom_known (snd p)) atoms ->
  V3000.parse_atoms ls atoms stars = ok (atoms', stars') ->
  Forall (fun p => ratom_known (snd p)) atoms'.
Proof.
  induction ls as [|l r IH]; intros atoms stars atoms' stars' Hinv H; simpl in H.
  - injection H as <- <-. exact Hinv.
  - do 3 inv_step H.
    match goal with E : V3000.parse_atom_line l = ok ?o |- _ => destruct o as [a'|];
      [ apply (IH _ _ _ _ (RZ.dict_set_Forall Z.eqb (fun p => ratom_known (snd p)) _ _ _ Hinv (v3000_parse_atom_line_known l a' E)) H)
      | apply (IH _ _ _ _ Hinv H) ] end.
Qed.

Lemma read_v3000_known : forall lines atoms bonds,
  V3000.read_v3000 lines = ok (atoms, bonds) -> Forall ratom_known atoms.
Proof.
  intros lines atoms bonds H. unfold V3000.read_v3000 in H.
  repeat inv_step H. injection H as <- _.
  match goal with E : V3000.parse_atoms _ [] [] = ok (?l, ?l0) |- _ =>
    apply (v3000_parse_atoms_known _ [] [] l l0) in E; [|constructor]; apply Forall_map; exact E end.
Qed.

(* ---- V2000 ---- *)
Lemma v2000_parse_atom_line_known i line a : V2000.parse_atom_line i line = ok a -> ratom_known a.
Proof.
  unfold V2000.parse_atom_line. intros H.
  inv_step H. inv_step H. inv_step H. inv_step H. cbv zeta in H.
  injection H as <-. unfold ratom_known; simpl.
  match goal with E : of_opt EOther (z_of_symbol _) = ok _ |- _ => exact (of_opt_ok _ _ _ E) end.
Qed.

Lemma v2000_parse_atom_lines_known ls : forall i atoms, V2000.parse_atom_lines i ls = ok atoms -> Forall ratom_known atoms.
Proof.
  induction ls as [|l r IH]; intros i atoms H; simpl in H.
  - injection H as <-. constructor.
  - do 2 inv_step H. injection H as <-. constructor.
    + match goal with E : V2000.parse_atom_line _ _ = ok _ |- _ => exact (v2000_parse_atom_line_known _ _ _ E) end.
    + match goal with E : V2000.parse_atom_lines _ _ = ok _ |- _ => exact (IH _ _ E) end.
Qed.

(* the property block changes charge, mass and radical only *)
Lemma apply_extra_known d reset a : ratom_known a -> ratom_known (V2000.apply_extra d reset a).
Proof.
  unfold ratom_known, V2000.apply_extra. intros H.
  match goal with |- context [match ?g with Some _ => _ | None => _ end] => destruct g as [e|] end; simpl; exact H.
Qed.

Lemma read_v2000_known : forall lines atoms bonds,
  V2000.read_v2000 lines = ok (atoms, bonds) -> Forall ratom_known atoms.
Proof.
  intros lines atoms bonds H. unfold V2000.read_v2000 in H.
  repeat first [inv_step H | progress (cbv zeta in H)]. injection H as <- _.
  match goal with E : V2000.parse_atom_lines _ _ = ok _ |- _ => rename E into E8 end.
  apply v2000_parse_atom_lines_known in E8.
  apply Forall_map. revert E8. apply Forall_impl. intros a. apply apply_extra_known.
Qed.

(* ---- graph_from_molecule and the entry point ---- *)
Lemma read_molfile_inv s g : V2000.read_molfile s = ok g ->
  exists ats bds, Forall ratom_known ats /\ graph_from_molecule ats bds = ok g.
Proof.
  unfold V2000.read_molfile. intros H. cbv zeta in H. do 2 inv_step H.
  match goal with H : graph_from_molecule (fst ?p) (snd ?p) = ok g |- _ => destruct p as [ats bds] end.
  simpl in H. exists ats, bds. split; [|exact H].
  match goal with E : (if _ then _ else _) = ok (ats, bds) |- _ =>
    inv_step E; [exact (read_v3000_known _ _ _ E)|]; inv_step E; exact (read_v2000_known _ _ _ E) end.
Qed.

(* the element symbol kept in the payload and the atomic number agree, for every text *)
Theorem read_molfile_symbols : forall s g, V2000.read_molfile s = ok g ->
  forall x, In x (atoms g) -> z_of_symbol (p_sym (pay x)) = Some (zn x) /\ symbol_of (zn x) = Some (p_sym (pay x)).
Proof.
  intros s g H x Hx. destruct (read_molfile_inv s g H) as (ats & bds & Hk & Hg).
  destruct (RZ.graph_from_molecule_shape _ _ _ Hg) as [Ea _]. rewrite Ea in Hx.
  apply in_map_iff in Hx. destruct Hx as (p & <- & Hp). apply RZ.enum_snd_in in Hp.
  rewrite Forall_forall in Hk. pose proof (Hk _ Hp) as Hz. unfold ratom_known in Hz.
  unfold RZ.gfm_atom; simpl. split; [exact Hz|apply ParseProofs.z_of_symbol_symbol_of, Hz].
Qed.

Corollary read_molfile_known_elements : forall s g, V2000.read_molfile s = ok g -> known_elements g.
Proof. intros s g H x Hx. destruct (read_molfile_symbols s g H x Hx) as [_ E]. rewrite E. discriminate. Qed.

(* nx.Graph: the bond list never holds the same unordered pair twice, whatever the bond block says *)
Lemma graph_from_molecule_simple ats bds g : graph_from_molecule ats bds = ok g -> RoundTrip2.simple g.
Proof.
  unfold graph_from_molecule. intros H. cbv zeta in H. inv_step H. injection H as <-.
  unfold RoundTrip2.simple. simpl.
  match goal with E : fold_left _ bds (ok []) = ok _ |- _ => revert E end.
  apply (RZ.fold_res_inv _ (fun l : list (N * N * Z) => NoDup (map NI.npair l)));
    [|intros l El; injection El as <-; constructor].
  clear. intros acc b l' H. apply RZ.bind_ok in H. destruct H as (l0 & E & H). cbv beta in H.
  exists l0. split; [exact E|]. intros Hinv.
  destruct (index_of_Z (fst (fst b)) (map r_idx ats) 0) as [u|]; [|discriminate H].
  destruct (index_of_Z (snd (fst b)) (map r_idx ats) 0) as [v|]; [|discriminate H].
  injection H as <-. apply NI.add_edge_NoDup, Hinv.
Qed.

Theorem read_molfile_simple : forall s g, V2000.read_molfile s = ok g -> RoundTrip2.simple g.
Proof.
  intros s g H. destruct (read_molfile_inv s g H) as (ats & bds & _ & Hg). exact (graph_from_molecule_simple _ _ _ Hg).
Qed.

(* Everything about the graph that holds for EVERY text the entry point accepts. *)
Theorem read_graph_props : forall s g, V2000.read_molfile s = ok g ->
  NoDup (labels g) /\ RoundTrip2.simple g /\ (forall x, In x (atoms g) -> nozero x) /\ known_elements g.
Proof.
  intros s g H. split; [exact (RZ.read_molfile_labels_nodup s g H)|]. split; [exact (read_molfile_simple s g H)|].
  split; [|exact (read_molfile_known_elements s g H)].
  intros x Hx. exact (proj1 (RZ.read_molfile_nozero s g H x Hx)).
Qed.

(* with the endpoints in range (ReadersNoZero): only "no self-bond" is missing from wfg *)
Corollary read_graph_wfg : forall s g, V2000.read_molfile s = ok g ->
  (forall b, In b (bonds g) -> fst (ends b) <> snd (ends b)) -> wfg g.
Proof.
  intros s g H Hl. split; [exact (RZ.read_molfile_labels_nodup s g H)|].
  intros b Hb. destruct (RZ.read_molfile_bonds_in_range s g H b Hb) as [H1 H2]. split; [exact (Hl b Hb)|]. split; assumption.
Qed.

(* no explicit zero + no negative value = positive values *)
Definition nonneg_attrs {P B} (m : mol P B) : Prop :=
  forall x, In x (atoms m) -> (forall v, mass x = Some v -> (0 <= v)%Z) /\ (forall v, rad x = Some v -> (0 <= v)%Z).

Lemma nozero_nonneg_pos {P B} (m : mol P B) :
  (forall x, In x (atoms m) -> nozero x) -> nonneg_attrs m -> pos_attrs m.
Proof.
  intros Hz Hn x Hx. destruct (Hz x Hx) as [Zm Zr]. destruct (Hn x Hx) as [Nm Nr].
  split; intros v E; [specialize (Nm v E); assert (v <> 0%Z) by congruence | specialize (Nr v E); assert (v <> 0%Z) by congruence]; lia.
Qed.

Corollary read_graph_pos_attrs : forall s g, V2000.read_molfile s = ok g -> nonneg_attrs g -> pos_attrs g.
Proof. intros s g H. apply nozero_nonneg_pos. intros x Hx. exact (proj1 (RZ.read_molfile_nozero s g H x Hx)). Qed.

(* ------------------------------------------------------------------------------------ *)
(* 2. what the readers do NOT guarantee on arbitrary text                                *)
(* ------------------------------------------------------------------------------------ *)
(* Two hypotheses of tucan_in_grammar / tucan_layout are not consequences of "the text was read":

   (a) no self-bond.  The bond block may name the same atom twice ("M  V30 1 1 1 1"); both readers
       only check that the indices exist, and nx.Graph keeps the loop.  The pipeline then emits the
       tuple (1-1): the string still lexes, but it violates the layout rule a < b and the reference
       reader rejects it (ESelfLoop).
   (b) positive mass / radical values.  The readers drop zeros (ReadersNoZero) but store any other
       integer: "MASS=-3", "RAD=-1" are kept.  The serializer prints "mass=-3", which is not a
       sentence (node_property_value ::= greater_than_zero).

   A file that follows the CTfile specification has neither (bonds join two different atoms; MASS is
   an absolute atomic mass, RAD a code in 0..3); section 4 discharges both for every rendering of a
   well-formed abstract molecule with non-negative stated values. *)

Definition nl : text := [ascii_of_N 10].
Definition ex_header : list text :=
  [t "not conformant"; t ""; t ""; t "  0  0  0     0  0            999 V3000"; t "M  V30 BEGIN CTAB"].

Definition ex_selfbond_text : text := join_with nl (ex_header ++
  [t "M  V30 COUNTS 2 2 0 0 0"; t "M  V30 BEGIN ATOM";
   t "M  V30 1 C 0 0 0 0"; t "M  V30 2 O 1 0 0 0";
   t "M  V30 END ATOM"; t "M  V30 BEGIN BOND";
   t "M  V30 1 1 1 1"; t "M  V30 2 1 1 2";
   t "M  V30 END BOND"; t "M  V30 END CTAB"; t "M  END"]).

Definition ex_negative_text : text := join_with nl (ex_header ++
  [t "M  V30 COUNTS 2 1 0 0 0"; t "M  V30 BEGIN ATOM";
   t "M  V30 1 C 0 0 0 0 MASS=-3"; t "M  V30 2 O 1 0 0 0 RAD=-1";
   t "M  V30 END ATOM"; t "M  V30 BEGIN BOND";
   t "M  V30 1 1 1 2";
   t "M  V30 END BOND"; t "M  V30 END CTAB"; t "M  END"]).

Definition graph_view (r : res (mol rpay Z)) : option (list (N * N * option Z * option Z) * list (N * N * Z)) :=
  match r with inr g => Some (map (fun x => (lbl x, zn x, mass x, rad x)) (atoms g), bonds g) | inl _ => None end.
Definition run_text (s : text) : option text :=
  match V2000.read_molfile s with inr g => tucan RefCanon.ref_canon g | inl _ => None end.

(* (a) the reader accepts the text and returns a graph with the bond 0-0 *)
Example ex_selfbond_read :
  graph_view (V2000.read_molfile ex_selfbond_text)
  = Some ([(0, 6, None, None); (1, 8, None, None)]%N, [(0%N, 0%N, 1%Z); (0%N, 1%N, 1%Z)]).
Proof. vm_compute. reflexivity. Qed.

Definition ex_selfbond_string : text := t "CO/(1-1)(1-2)".
Definition ex_selfbond_tokens : list token :=
  [TSym 6; TSym 8; TSlash; TLp; TNum 1; TDash; TNum 1; TRp; TLp; TNum 1; TDash; TNum 2; TRp].

(* the pipeline (reference oracle) emits a string for it that the reference reader rejects ... *)
Example ex_selfbond_run :
  run_text ex_selfbond_text = Some ex_selfbond_string /\
  lex_text ex_selfbond_string = Some ex_selfbond_tokens /\
  ref_parse ex_selfbond_string = inl ESelfLoop.
Proof. vm_compute. repeat split. Qed.

(* ... and that violates the layout (the conclusion of tucan_layout is false for this string) *)
Example ex_selfbond_no_layout : forall ts (m2 : mol rpay Z) syms,
  lex_text ex_selfbond_string = Some ts -> parse_tokens ts = Some (ast_of m2 syms) ->
  ~ Layout.layout_ok m2 (ast_of m2 syms).
Proof.
  intros ts m2 syms Hl Hp HL.
  assert (E : lex_text ex_selfbond_string = Some ex_selfbond_tokens) by (vm_compute; reflexivity).
  rewrite E in Hl. injection Hl as <-.
  assert (Ep : parse_tokens ex_selfbond_tokens = Some (mkAst [(6%N, 1%Z); (8%N, 1%Z)] [(1, 1); (1, 2)]%Z []))
    by (vm_compute; reflexivity).
  rewrite Ep in Hp.
  assert (Ha : ast_of m2 syms = mkAst [(6%N, 1%Z); (8%N, 1%Z)] [(1, 1); (1, 2)]%Z []) by congruence.
  destruct (Layout.lo_tuples_range _ _ HL 1%Z 1%Z) as (_ & Hlt & _); [rewrite Ha; left; reflexivity|lia].
Qed.

(* (b) the reader accepts the text and stores the negative values *)
Example ex_negative_read :
  graph_view (V2000.read_molfile ex_negative_text)
  = Some ([(0%N, 6%N, Some (-3)%Z, None); (1%N, 8%N, None, Some (-1)%Z)], [(0%N, 1%N, 1%Z)]).
Proof. vm_compute. reflexivity. Qed.

Definition ex_negative_string : text := t "CO/(1-2)/(1:mass=-3)(2:rad=-1)".

Example ex_negative_run : run_text ex_negative_text = Some ex_negative_string.
Proof. vm_compute. reflexivity. Qed.

(* the emitted string is not a sentence of the grammar (the conclusion of tucan_in_grammar is false) *)
Example ex_negative_no_sentence : forall ts a,
  lex_text ex_negative_string = Some ts -> ~ ParseProofs.Sentence ts a.
Proof.
  intros ts a Hl HS. apply ParseProofs.parse_tokens_complete in HS.
  revert Hl HS. generalize (eq_refl (lex_text ex_negative_string)).
  generalize (lex_text ex_negative_string) at 1 3. intros o Eo. vm_compute in Eo. subst o.
  intros Hl. injection Hl as <-. intros HS. vm_compute in HS. discriminate HS.
Qed.

(* ------------------------------------------------------------------------------------ *)
(* 3. the closure for the readers: any text                                              *)
(* ------------------------------------------------------------------------------------ *)

Definition has_no_self_bond {P B} (m : mol P B) : Prop := forall b, In b (bonds m) -> fst (ends b) <> snd (ends b).

Section Closure.
  Variable canon : list (N * N) -> list (N * N) -> list (N * N).
  Hypothesis HH1 : H1 canon.

  (* tucan_total + tucan_in_grammar: the string exists and is a sentence *)
  Lemma graph_in_grammar {P B} (m : mol P B) :
    wfg m -> RoundTrip2.simple m -> pos_attrs m -> atoms m <> [] -> known_elements m ->
    exists c ts a, tucan canon m = Some c /\ lex_text c = Some ts /\ ParseProofs.Sentence ts a /\ print_tokens ts = c.
  Proof.
    intros Hw Hs Hp Hne Hk. destruct (tucan_total canon m HH1 Hw Hne Hk) as [c Hc].
    destruct (RoundTrip2.tucan_in_grammar canon HH1 m c Hw Hs Hp Hc) as (ts & a & H).
    exists c, ts, a. split; [exact Hc|exact H].
  Qed.

  (* tucan_total + tucan_layout: the string exists and is laid out canonically *)
  Lemma graph_layout {P B} (m : mol P B) :
    wfg m -> RoundTrip2.simple m -> pos_attrs m -> atoms m <> [] -> known_elements m ->
    exists c ts (m2 : mol P B) syms h,
      tucan canon m = Some c /\ print_tokens ts = c /\ lex_text c = Some ts /\ parse_tokens ts = Some (ast_of m2 syms) /\
      SameMol h m m2 /\ ser_ready m2 /\ Layout.layout_ok m2 (ast_of m2 syms).
  Proof.
    intros Hw Hs Hp Hne Hk. destruct (tucan_total canon m HH1 Hw Hne Hk) as [c Hc].
    destruct (RoundTrip2.tucan_layout canon HH1 m c Hw Hs Hp Hc) as (ts & m2 & syms & h & H).
    exists c, ts, m2, syms, h. split; [exact Hc|exact H].
  Qed.

  (* C05 for the readers.  For EVERY text s the entry point reads, provided the graph has an atom, no
     bond from an atom to itself and no non-positive stored mass / radical (section 2: these are
     not implied), the pipeline returns a string, and that string is the spelling of a sentence of the
     published grammar. *)
  Theorem molfile_text_in_grammar : forall (s : text) (g : mol rpay Z),
    V2000.read_molfile s = ok g -> atoms g <> [] -> has_no_self_bond g -> pos_attrs g ->
    exists c ts a, tucan canon g = Some c /\ lex_text c = Some ts /\ ParseProofs.Sentence ts a /\ print_tokens ts = c.
  Proof.
    intros s g H Hne Hl Hp. destruct (read_graph_props s g H) as (_ & Hs & _ & Hk).
    exact (graph_in_grammar g (read_graph_wfg s g H Hl) Hs Hp Hne Hk).
  Qed.

  Theorem molfile_text_layout : forall (s : text) (g : mol rpay Z),
    V2000.read_molfile s = ok g -> atoms g <> [] -> has_no_self_bond g -> pos_attrs g ->
    exists c ts (m2 : mol rpay Z) syms h,
      tucan canon g = Some c /\ print_tokens ts = c /\ lex_text c = Some ts /\ parse_tokens ts = Some (ast_of m2 syms) /\
      SameMol h g m2 /\ ser_ready m2 /\ Layout.layout_ok m2 (ast_of m2 syms).
  Proof.
    intros s g H Hne Hl Hp. destruct (read_graph_props s g H) as (_ & Hs & _ & Hk).
    exact (graph_layout g (read_graph_wfg s g H Hl) Hs Hp Hne Hk).
  Qed.

  (* the same with "no negative value" in place of "positive": zeros are never stored *)
  Corollary molfile_text_in_grammar_nonneg : forall (s : text) (g : mol rpay Z),
    V2000.read_molfile s = ok g -> atoms g <> [] -> has_no_self_bond g -> nonneg_attrs g ->
    exists c ts a, tucan canon g = Some c /\ lex_text c = Some ts /\ ParseProofs.Sentence ts a /\ print_tokens ts = c.
  Proof. intros s g H Hne Hl Hn. exact (molfile_text_in_grammar s g H Hne Hl (read_graph_pos_attrs s g H Hn)). Qed.
End Closure.

(* ------------------------------------------------------------------------------------ *)
(* 4. spec-conformant files: the hypotheses discharged                                   *)
(* ------------------------------------------------------------------------------------ *)

(* ---- V3000 ---- *)
(* at least one atom entry (not only star atoms); stated masses / radicals are not negative *)
Definition has_atom3 (M : R3.molM) : Prop := exists a, In (Some a) (R3.m_entries M).
Definition stated_nonneg3 (M : R3.molM) : Prop :=
  forall a, In (Some a) (R3.m_entries M) -> (0 <= R3.a_mass a)%Z /\ (0 <= R3.a_rad a)%Z.

Lemma nz_some v w : R3.nz v = Some w -> w = v.
Proof. unfold R3.nz. destruct (Z.eqb v 0); [discriminate|]. intros E. injection E as <-. reflexivity. Qed.

Lemma m_atoms_nonempty es : forall i a, In (Some a) es -> R3.m_atoms i es <> [].
Proof.
  induction es as [|[b|] es IH]; intros i a H; cbn [R3.m_atoms]; [destruct H|discriminate|].
  destruct H as [E|H]; [discriminate E|apply (IH _ _ H)].
Qed.

(* D / T contribute the masses 2 / 3; otherwise the stated values are kept *)
Lemma m_atom_nonneg i a : (0 <= R3.a_mass a)%Z -> (0 <= R3.a_rad a)%Z ->
  (forall v, mass (R3.m_atom i a) = Some v -> (0 <= v)%Z) /\ (forall v, rad (R3.m_atom i a) = Some v -> (0 <= v)%Z).
Proof.
  intros Hm Hr. unfold R3.m_atom, R3.iso_of.
  destruct (text_eqb (R3.a_sym a) (t "D")); [|destruct (text_eqb (R3.a_sym a) (t "T"))];
    cbn [mass rad Z.eqb]; split; intros v E; apply nz_some in E; subst v; lia.
Qed.

Lemma m_atoms_nonneg es : forall i,
  (forall a, In (Some a) es -> (0 <= R3.a_mass a)%Z /\ (0 <= R3.a_rad a)%Z) ->
  forall x, In x (R3.m_atoms i es) ->
  (forall v, mass x = Some v -> (0 <= v)%Z) /\ (forall v, rad x = Some v -> (0 <= v)%Z).
Proof.
  induction es as [|[a|] es IH]; intros i H x Hx; cbn [R3.m_atoms] in Hx; [destruct Hx| |].
  - destruct Hx as [<-|Hx].
    + destruct (H a (or_introl eq_refl)) as [Hm Hr]. exact (m_atom_nonneg i a Hm Hr).
    + apply (IH (N.succ i)); [|exact Hx]. intros b Hb. apply H. right. exact Hb.
  - apply (IH i); [|exact Hx]. intros b Hb. apply H. right. exact Hb.
Qed.

Lemma graph_of_nonneg M : stated_nonneg3 M -> nonneg_attrs (R3.graph_of M).
Proof. intros H x Hx. exact (m_atoms_nonneg _ 0%N H x Hx). Qed.

Lemma graph_of_nonempty M : has_atom3 M -> atoms (R3.graph_of M) <> [].
Proof. intros [a Ha]. exact (m_atoms_nonempty _ 0%N a Ha). Qed.

(* ---- V2000 ---- *)
Definition stated_nonneg2 (M : R2.mol2) : Prop :=
  forall a, In a (R2.m_atoms M) -> (0 <= R2.a_mass a)%Z /\ (0 <= R2.a_rad a)%Z.

Lemma nzz_some v w : R2.nzz v = Some w -> w = v.
Proof. unfold R2.nzz. destruct (Z.eqb v 0); [discriminate|]. intros E. injection E as <-. reflexivity. Qed.

(* the only look at the generated isotope table: no negative mass *)
Lemma isotope_table_nonneg : forallb (fun p => Z.leb 0 (snd (snd p))) Elements.hydrogen_isotope_table = true.
Proof. vm_compute. reflexivity. Qed.

Lemma detect_isotope_nonneg s : (0 <= snd (detect_isotope s))%Z.
Proof.
  unfold detect_isotope, hydrogen_isotopes. generalize isotope_table_nonneg. generalize Elements.hydrogen_isotope_table.
  induction l as [|[k [e v]] r IH]; cbn [map assoc_text forallb fst snd]; intros Hc; [cbn; lia|].
  apply andb_prop in Hc. destruct Hc as [Hv Hr].
  destruct (text_eqb (t k) s); [cbn [snd]; apply Z.leb_le, Hv|apply IH, Hr].
Qed.

Lemma graph2000_nonneg M : stated_nonneg2 M -> nonneg_attrs (R2.graph2000 M).
Proof.
  intros H x Hx. cbn [R2.graph2000 atoms] in Hx. apply in_map_iff in Hx. destruct Hx as (p & <- & Hp).
  apply RZ.enum_snd_in in Hp. destruct (H _ Hp) as [Hm Hr]. unfold R2.graph_atom. cbn [mass rad].
  split; intros v E.
  - destruct (R2.nzz (R2.a_mass (snd p))) as [w|] eqn:Ew.
    + injection E as <-. apply nzz_some in Ew. subst w. exact Hm.
    + unfold R2.sym_mass in E. apply nzz_some in E. subst v. apply detect_isotope_nonneg.
  - apply nzz_some in E. subst v. exact Hr.
Qed.

Lemma graph2000_nonempty M : R2.m_atoms M <> [] -> atoms (R2.graph2000 M) <> [].
Proof. intros H. cbn [R2.graph2000 atoms]. destruct (R2.m_atoms M); [congruence|discriminate]. Qed.

Section Files.
  Variable canon : list (N * N) -> list (N * N) -> list (N * N).
  Hypothesis HH1 : H1 canon.

  (* what the theorems need about the graph of a rendered file, from the abstract molecule *)
  Lemma v3000_graph_ready M ch eol : R3.okM M -> NI.loopfree3 M -> has_atom3 M -> stated_nonneg3 M ->
    R3.okch M ch -> R3.okch_text ch ->
    V2000.read_molfile (R3.file_text eol 0 (R3.render3000 M ch)) = ok (R3.graph_of M) /\
    atoms (R3.graph_of M) <> [] /\ has_no_self_bond (R3.graph_of M) /\ pos_attrs (R3.graph_of M).
  Proof.
    intros HM HL Ha Hn Hc Ht. pose proof (R3.read_molfile_graph M ch eol HM Hc Ht) as Hr.
    split; [exact Hr|]. split; [exact (graph_of_nonempty M Ha)|]. split.
    - intros b Hb. exact (proj1 (proj2 (NI.graph_of_wfg M HM HL) b Hb)).
    - exact (read_graph_pos_attrs _ _ Hr (graph_of_nonneg M Hn)).
  Qed.

  (* C05 for V3000 files.  M: any well-formed abstract molecule (R3.okM) without self-bonds, with an
     atom and without negative stated masses / radicals; ch: any admissible rendering choices (header
     lines, index values, blank runs, continuation points, order and repetition of CHG= / RAD= / MASS=,
     explicit defaults, foreign keywords, trailing blocks); eol: CR LF or LF line by line.  The text is
     read, the pipeline returns a string for the graph read, and the string is a sentence. *)
  Theorem v3000_file_in_grammar : forall (M : R3.molM) (ch : R3.choices) (eol : nat -> bool),
    R3.okM M -> NI.loopfree3 M -> has_atom3 M -> stated_nonneg3 M -> R3.okch M ch -> R3.okch_text ch ->
    exists g c ts a,
      V2000.read_molfile (R3.file_text eol 0 (R3.render3000 M ch)) = ok g /\
      tucan canon g = Some c /\ lex_text c = Some ts /\ ParseProofs.Sentence ts a /\ print_tokens ts = c.
  Proof.
    intros M ch eol HM HL Ha Hn Hc Ht. destruct (v3000_graph_ready M ch eol HM HL Ha Hn Hc Ht) as (Hr & Hne & Hl & Hp).
    destruct (molfile_text_in_grammar canon HH1 _ _ Hr Hne Hl Hp) as (c & ts & a & H).
    exists (R3.graph_of M), c, ts, a. split; [exact Hr|exact H].
  Qed.

  Theorem v3000_file_layout : forall (M : R3.molM) (ch : R3.choices) (eol : nat -> bool),
    R3.okM M -> NI.loopfree3 M -> has_atom3 M -> stated_nonneg3 M -> R3.okch M ch -> R3.okch_text ch ->
    exists g c ts (m2 : mol rpay Z) syms h,
      V2000.read_molfile (R3.file_text eol 0 (R3.render3000 M ch)) = ok g /\
      tucan canon g = Some c /\ print_tokens ts = c /\ lex_text c = Some ts /\ parse_tokens ts = Some (ast_of m2 syms) /\
      SameMol h g m2 /\ ser_ready m2 /\ Layout.layout_ok m2 (ast_of m2 syms).
  Proof.
    intros M ch eol HM HL Ha Hn Hc Ht. destruct (v3000_graph_ready M ch eol HM HL Ha Hn Hc Ht) as (Hr & Hne & Hl & Hp).
    destruct (molfile_text_layout canon HH1 _ _ Hr Hne Hl Hp) as (c & ts & m2 & syms & h & H).
    exists (R3.graph_of M), c, ts, m2, syms, h. split; [exact Hr|exact H].
  Qed.

  Lemma v2000_graph_ready M ch eol : NI.okfile2000 M ch -> NI.loopfree2 M -> R2.m_atoms M <> [] -> stated_nonneg2 M ->
    V2000.read_molfile (R3.file_text eol 0 (R2.render2000 M ch)) = ok (R2.graph2000 M) /\
    atoms (R2.graph2000 M) <> [] /\ has_no_self_bond (R2.graph2000 M) /\ pos_attrs (R2.graph2000 M).
  Proof.
    intros HF HL Ha Hn. pose proof (NI.okfile2000_read M ch eol HF) as Hr.
    split; [exact Hr|]. split; [exact (graph2000_nonempty M Ha)|]. split.
    - intros b Hb. exact (proj1 (proj2 (NI.graph2000_wfg M (NI.of_M _ _ HF) HL) b Hb)).
    - exact (read_graph_pos_attrs _ _ Hr (graph2000_nonneg M Hn)).
  Qed.

  (* C05 for V2000 files.  M: any well-formed abstract molecule (okM2000, inside okfile2000) without
     self-bonds, with an atom and without negative stated masses / radicals; ch: any admissible rendering
     (header lines, blank or zero fields, unread columns, stale charge codes, atom list and stext lines,
     grouping and order of M  CHG / RAD / ISO entries, unrelated property lines, aliases, trailer);
     eol: CR LF or LF line by line. *)
  Theorem v2000_file_in_grammar : forall (M : R2.mol2) (ch : R2.choices) (eol : nat -> bool),
    NI.okfile2000 M ch -> NI.loopfree2 M -> R2.m_atoms M <> [] -> stated_nonneg2 M ->
    exists g c ts a,
      V2000.read_molfile (R3.file_text eol 0 (R2.render2000 M ch)) = ok g /\
      tucan canon g = Some c /\ lex_text c = Some ts /\ ParseProofs.Sentence ts a /\ print_tokens ts = c.
  Proof.
    intros M ch eol HF HL Ha Hn. destruct (v2000_graph_ready M ch eol HF HL Ha Hn) as (Hr & Hne & Hl & Hp).
    destruct (molfile_text_in_grammar canon HH1 _ _ Hr Hne Hl Hp) as (c & ts & a & H).
    exists (R2.graph2000 M), c, ts, a. split; [exact Hr|exact H].
  Qed.

  Theorem v2000_file_layout : forall (M : R2.mol2) (ch : R2.choices) (eol : nat -> bool),
    NI.okfile2000 M ch -> NI.loopfree2 M -> R2.m_atoms M <> [] -> stated_nonneg2 M ->
    exists g c ts (m2 : mol rpay Z) syms h,
      V2000.read_molfile (R3.file_text eol 0 (R2.render2000 M ch)) = ok g /\
      tucan canon g = Some c /\ print_tokens ts = c /\ lex_text c = Some ts /\ parse_tokens ts = Some (ast_of m2 syms) /\
      SameMol h g m2 /\ ser_ready m2 /\ Layout.layout_ok m2 (ast_of m2 syms).
  Proof.
    intros M ch eol HF HL Ha Hn. destruct (v2000_graph_ready M ch eol HF HL Ha Hn) as (Hr & Hne & Hl & Hp).
    destruct (molfile_text_layout canon HH1 _ _ Hr Hne Hl Hp) as (c & ts & m2 & syms & h & H).
    exists (R2.graph2000 M), c, ts, m2, syms, h. split; [exact Hr|exact H].
  Qed.

  (* ---------------------------------------------------------------------------------- *)
  (* 5. the closure for the parser: any accepted string                                  *)
  (* ---------------------------------------------------------------------------------- *)
  (* Every string the reference reader accepts, with at least one atom ("/" is the only accepted
     string without: Norm.ex_empty), normalizes to a string that is a sentence.  No further
     hypothesis: Norm.parsed_graph_wf puts every parsed graph in the domain. *)
  Theorem tucan_string_in_grammar : forall (s : text) (g : mol unit unit),
    ref_parse s = inr g -> atoms g <> [] ->
    exists c ts a, Norm.norm canon s = Some c /\ lex_text c = Some ts /\ ParseProofs.Sentence ts a /\ print_tokens ts = c.
  Proof.
    intros s g H Hne. rewrite (Norm.norm_of_parse canon s g H).
    destruct (Norm.parsed_graph_wf s g H) as (Hw & Hs & Hp & Hk & _).
    exact (graph_in_grammar canon HH1 g Hw Hs Hp Hne Hk).
  Qed.

  Theorem tucan_string_layout : forall (s : text) (g : mol unit unit),
    ref_parse s = inr g -> atoms g <> [] ->
    exists c ts (m2 : mol unit unit) syms h,
      Norm.norm canon s = Some c /\ print_tokens ts = c /\ lex_text c = Some ts /\ parse_tokens ts = Some (ast_of m2 syms) /\
      SameMol h g m2 /\ ser_ready m2 /\ Layout.layout_ok m2 (ast_of m2 syms).
  Proof.
    intros s g H Hne. rewrite (Norm.norm_of_parse canon s g H).
    destruct (Norm.parsed_graph_wf s g H) as (Hw & Hs & Hp & Hk & _).
    exact (graph_layout canon HH1 g Hw Hs Hp Hne Hk).
  Qed.
End Files.

(* ------------------------------------------------------------------------------------ *)
(* 6. non-vacuity: the reference oracle, concrete files and strings                      *)
(* ------------------------------------------------------------------------------------ *)
Module Example.
  Module E := NonIdentity.Example.
  Local Notation ref := RefCanon.ref_canon.

  (* the formate files of NonIdentity.Example (4 atoms; H13C(=O)O-): a V3000 file with continuation
     lines, explicit defaults and foreign keywords under CR LF, and a V2000 file with property lines
     under mixed line ends *)
  Example formA_has_atom : has_atom3 E.formA.
  Proof. eexists. left. reflexivity. Qed.
  Example formA_nonneg : stated_nonneg3 E.formA.
  Proof. intros a H. cbn in H. decompose [or] H; try contradiction; match goal with E : Some _ = Some a |- _ => injection E as <- end; cbn; lia. Qed.
  Example form2_has_atom : R2.m_atoms E.form2 <> [].
  Proof. discriminate. Qed.
  Example form2_nonneg : stated_nonneg2 E.form2.
  Proof. intros a H. cbn in H. decompose [or] H; try contradiction; subst a; cbn; lia. Qed.

  (* the string, computed by running the executable model on the file texts *)
  Example formate_files_computed :
    run_text (R3.file_text E.crlf 0 (R3.render3000 E.formA E.chA)) = Some (t "CHO2/(1-2)(2-3)(2-4)/(2:mass=13)") /\
    run_text (R3.file_text E.mixed 0 (R2.render2000 E.form2 E.ch2)) = Some (t "CHO2/(1-2)(2-3)(2-4)/(2:mass=13)").
  Proof. vm_compute. split; reflexivity. Qed.

  (* the theorems of section 4, instantiated: all hypotheses hold for these files *)
  Example formate_v3000_in_grammar : exists g c ts a,
    V2000.read_molfile (R3.file_text E.crlf 0 (R3.render3000 E.formA E.chA)) = ok g /\
    tucan ref g = Some c /\ lex_text c = Some ts /\ ParseProofs.Sentence ts a /\ print_tokens ts = c.
  Proof.
    exact (v3000_file_in_grammar ref RefCanon.ref_canon_H1 E.formA E.chA E.crlf
             E.formA_ok E.formA_loopfree formA_has_atom formA_nonneg E.chA_ok E.chA_text_ok).
  Qed.
  Example formate_v3000_layout : exists g c ts (m2 : mol rpay Z) syms h,
    V2000.read_molfile (R3.file_text E.crlf 0 (R3.render3000 E.formA E.chA)) = ok g /\
    tucan ref g = Some c /\ print_tokens ts = c /\ lex_text c = Some ts /\ parse_tokens ts = Some (ast_of m2 syms) /\
    SameMol h g m2 /\ ser_ready m2 /\ Layout.layout_ok m2 (ast_of m2 syms).
  Proof.
    exact (v3000_file_layout ref RefCanon.ref_canon_H1 E.formA E.chA E.crlf
             E.formA_ok E.formA_loopfree formA_has_atom formA_nonneg E.chA_ok E.chA_text_ok).
  Qed.
  Example formate_v2000_in_grammar : exists g c ts a,
    V2000.read_molfile (R3.file_text E.mixed 0 (R2.render2000 E.form2 E.ch2)) = ok g /\
    tucan ref g = Some c /\ lex_text c = Some ts /\ ParseProofs.Sentence ts a /\ print_tokens ts = c.
  Proof.
    exact (v2000_file_in_grammar ref RefCanon.ref_canon_H1 E.form2 E.ch2 E.mixed
             E.file2_ok E.form2_loopfree form2_has_atom form2_nonneg).
  Qed.

  (* the string the theorem speaks about is the computed one, and its token list is explicit *)
  Definition formate_tokens : list token :=
    [TSym 6; TSym 1; TSym 8; TNum 2; TSlash;
     TLp; TNum 1; TDash; TNum 2; TRp; TLp; TNum 2; TDash; TNum 3; TRp; TLp; TNum 2; TDash; TNum 4; TRp; TSlash;
     TLp; TNum 2; TColon; TMass; TEq; TNum 13; TRp].
  Example formate_v3000_sentence : exists a,
    tucan ref (R3.graph_of E.formA) = Some E.formate_tucan /\
    lex_text E.formate_tucan = Some formate_tokens /\
    ParseProofs.Sentence formate_tokens a /\ print_tokens formate_tokens = E.formate_tucan.
  Proof.
    destruct formate_v3000_in_grammar as (g & c & ts & a & Hr & Hc & Hl & HS & Hp).
    rewrite (R3.read_molfile_graph E.formA E.chA E.crlf E.formA_ok E.chA_ok E.chA_text_ok) in Hr. injection Hr as <-.
    assert (Ec : tucan ref (R3.graph_of E.formA) = Some E.formate_tucan) by (vm_compute; reflexivity).
    rewrite Ec in Hc. injection Hc as <-.
    assert (El : lex_text E.formate_tucan = Some formate_tokens) by (vm_compute; reflexivity).
    rewrite El in Hl. injection Hl as <-.
    exists a. repeat split; assumption.
  Qed.

  (* a text that is not a rendering of an abstract molecule: ReadersNoZero.ex3000 (explicit zeros,
     repeated MASS=), through the general theorem of section 3 *)
  Definition zeros_text : text := join_with nl RZ.ex3000.
  Definition zeros_graph : mol rpay Z :=
    match V2000.read_molfile zeros_text with inr g => g | inl _ => mkMol [] [] end.
  Example zeros_read : V2000.read_molfile zeros_text = ok zeros_graph.
  Proof. vm_compute. reflexivity. Qed.
  Example zeros_hyps : atoms zeros_graph <> [] /\ has_no_self_bond zeros_graph /\ nonneg_attrs zeros_graph.
  Proof.
    split; [vm_compute; discriminate|]. split.
    - intros b Hb. vm_compute in Hb. decompose [or] Hb; try contradiction; subst b; vm_compute; discriminate.
    - intros x Hx. vm_compute in Hx. decompose [or] Hx; try contradiction; subst x; cbn [mass rad];
        split; intros v E; try discriminate E; injection E as <-; lia.
  Qed.
  Example zeros_in_grammar : exists ts a,
    tucan ref zeros_graph = Some (t "CHO/(1-2)(2-3)/(1:mass=2)(3:rad=2)") /\
    lex_text (t "CHO/(1-2)(2-3)/(1:mass=2)(3:rad=2)") = Some ts /\ ParseProofs.Sentence ts a /\
    print_tokens ts = t "CHO/(1-2)(2-3)/(1:mass=2)(3:rad=2)".
  Proof.
    destruct zeros_hyps as (Hne & Hl & Hn).
    destruct (molfile_text_in_grammar_nonneg ref RefCanon.ref_canon_H1 _ _ zeros_read Hne Hl Hn) as (c & ts & a & Hc & H).
    assert (Ec : tucan ref zeros_graph = Some (t "CHO/(1-2)(2-3)/(1:mass=2)(3:rad=2)")) by (vm_compute; reflexivity).
    rewrite Ec in Hc. injection Hc as <-. exists ts, a. split; [exact Ec|exact H].
  Qed.

  (* strings: a non-canonical spelling (Norm.ex_s1, 6 atoms) normalizes to a sentence *)
  Example string_in_grammar : exists ts a,
    Norm.norm ref Norm.ex_s1 = Some Norm.ex_c /\
    lex_text Norm.ex_c = Some ts /\ ParseProofs.Sentence ts a /\ print_tokens ts = Norm.ex_c.
  Proof.
    destruct (ref_parse Norm.ex_s1) as [e|g] eqn:Eg; [vm_compute in Eg; discriminate Eg|].
    assert (Hne : atoms g <> []).
    { intros E0. assert (El : length (atoms (match ref_parse Norm.ex_s1 with inr g => g | inl _ => mkMol [] [] end)) = 6)
        by (vm_compute; reflexivity). rewrite Eg, E0 in El. discriminate El. }
    destruct (tucan_string_in_grammar ref RefCanon.ref_canon_H1 _ g Eg Hne) as (c & ts & a & Hc & H).
    rewrite Norm.ex_norm_s1 in Hc. injection Hc as <-. exists ts, a. split; [exact Norm.ex_norm_s1|exact H].
  Qed.
End Example.

Print Assumptions read_graph_props.
Print Assumptions read_molfile_symbols.
Print Assumptions molfile_text_in_grammar.
Print Assumptions molfile_text_layout.
Print Assumptions v3000_file_in_grammar.
Print Assumptions v3000_file_layout.
Print Assumptions v2000_file_in_grammar.
Print Assumptions v2000_file_layout.
Print Assumptions tucan_string_in_grammar.
Print Assumptions tucan_string_layout.
Print Assumptions ex_selfbond_no_layout.
Print Assumptions ex_negative_no_sentence.
Print Assumptions Example.formate_v3000_sentence.
Print Assumptions Example.zeros_in_grammar.
Print Assumptions Example.string_in_grammar.
