(* V3000Render.v -- property C07: the V3000 reader (Model/V3000.v: read_v3000) decodes exactly the
   molecule a file states, under every spelling the format permits.

   The molecule a file states is an abstract value [molM]; a file is obtained from it by
   [render3000 M ch], where [ch : choices] fixes everything the format leaves free:
     (a) the numeric index of every atom line: any pairwise distinct integers (positivity is not
         even needed); bond lines and ENDPTS lists refer to them;
     (b) blank runs: any number of blanks before the first token of a V30 line, 1 + k blanks in
         every gap, any number behind the last token;
     (c) the optional part of an atom line: CHG= / RAD= / MASS= in any order, any number of times,
         written as explicit defaults (=0) when nothing is stated, among arbitrary foreign tokens
         (non-empty, blank-free, key not exactly CHG / RAD / MASS: EXACHG=1 is one); further tokens
         on counts and bond lines; the bond's own number is any token;
     (d) continuation: every V30 line is cut into "M  V30 <piece>-" lines at arbitrary positions
         (any number of cuts, inside tokens, inside blank runs, empty pieces), provided the line
         itself does not end in "-";
     (e) the four header lines (arbitrary), the BEGIN CTAB line, what follows END ATOM when there is
         no bond (the bond block is then part of the unread trailer) or END BOND: arbitrary V30
         lines, cut or not, and arbitrary other lines that do not look like a continued V30 line;
     (f) star atoms ("*", everything behind it is free) and multi-attachment bonds
         "... ENDPTS=(n e1 ... en) ...": the star atom in either atom field, foreign tokens before
         (without "ENDPTS=(") and after (without ")"); LF or CR LF after every line.
   Main theorem [read_v3000_render]: for every M and admissible ch the reader returns
   [expected (ch_index ch) M], which depends on ch through the index assignment only; at the entry
   point [read_molfile_graph] the graph is [graph_of M], where the indices are not visible either.

   Not rendered (outside the statement): numerals other than str(n) ("+7", "007", "1_0" are accepted by
   int()); blanks directly inside the parentheses of ENDPTS=( ... ); a last line without line
   terminator, or other line-break characters than LF / CR LF; molecules that state the same
   ordered atom pair on two bond lines ([om_keys]: the reader keeps one bond per ordered pair, the
   later type wins at the earlier place -- see WriterProofs.ex_duplicate_bond).

   Rejected by the reader, hence excluded by okM: a bond line that joins an atom to itself
   ([om_noloop]; a star bond with the attached atom among its endpoints included) and a negative
   stated mass / radical ([am_nonneg]); both conditions are necessary -- every rendering of such a
   molecule is rejected (ex_rejected below, WriterProofs.ex_self_bond). *)
From Coq Require Import String Lia Arith.
Require Import Base Mol Text Molfile V3000 Writer WriterProofs.
Require V2000.
Require Params.

Local Open Scope list_scope.
Local Open Scope nat_scope.

(* ------------------------------------------------------------------------------------ *)
(* 1. the molecule a file states                                                          *)
(* ------------------------------------------------------------------------------------ *)

Record atomM := mkAtomM {
  a_sym : text;                       (* element symbol, or D, T *)
  a_chg : Z; a_rad : Z; a_mass : Z;   (* 0 = not stated *)
  a_x : text; a_y : text; a_z : text  (* coordinate tokens, opaque *) }.

(* endpoints are positions in the atom block (0-based line numbers), not file indices *)
Inductive bondM :=
| Bond (ty : Z) (u v : nat)
| StarBond (ty : Z) (s w : nat) (es : list nat).   (* multi-attachment: star atom s, attached atom w,
                                                      endpoints es; states one bond w-e per e in es *)

(* an entry of the atom block: an atom, or a star atom (None) *)
Record molM := mkMolM { m_entries : list (option atomM); m_bonds : list bondM }.

(* ---- what the reader has to return ---- *)
Definition nz (v : Z) : option Z := if Z.eqb v 0 then None else Some v.

Definition iso_of (s : text) : text * Z :=
  if text_eqb s (t "D") then (t "H", 2%Z)
  else if text_eqb s (t "T") then (t "H", 3%Z)
  else (s, 0%Z).

Definition exp_atom (i : Z) (a : atomM) : ratom :=
  let (sym, iso) := iso_of (a_sym a) in
  mkRatom (i - 1) sym (opt_default 0%N (z_of_symbol sym))
          (nz (a_chg a)) (nz (if Z.eqb iso 0 then a_mass a else iso)) (nz (a_rad a))
          (a_x a) (a_y a) (a_z a).

Section Expected.
  Variable I : nat -> Z.          (* file index of the entry at a position *)

  Fixpoint exp_atoms (k : nat) (es : list (option atomM)) : list ratom :=
    match es with
    | [] => []
    | Some a :: r => exp_atom (I k) a :: exp_atoms (S k) r
    | None :: r => exp_atoms (S k) r
    end.

  Definition exp_bond (b : bondM) : list rbond :=
    match b with
    | Bond ty u v => [((I u - 1)%Z, (I v - 1)%Z, ty)]
    | StarBond ty s w es => map (fun e => ((I w - 1)%Z, (I e - 1)%Z, ty)) es
    end.

  Definition expected (M : molM) : list ratom * list rbond :=
    (exp_atoms 0 (m_entries M), flat_map exp_bond (m_bonds M)).
End Expected.

(* ---- well-formed molecules ---- *)
Definition is_atom (M : molM) (p : nat) : Prop := exists a, nth_error (m_entries M) p = Some (Some a).
Definition is_star (M : molM) (p : nat) : Prop := nth_error (m_entries M) p = Some None.

Definition sym_ok (a : atomM) : Prop :=
  (exists z, z_of_symbol (a_sym a) = Some z) \/ ((a_sym a = t "D" \/ a_sym a = t "T") /\ a_mass a = 0%Z).

Record atom_okM (a : atomM) : Prop := {
  am_sym : sym_ok a;
  am_x : coord_tok (a_x a); am_y : coord_tok (a_y a); am_z : coord_tok (a_z a);
  am_nonneg : (0 <= a_mass a)%Z /\ (0 <= a_rad a)%Z }.   (* the reader rejects a negative MASS= / RAD= *)

Definition entry_okM (e : option atomM) : Prop := match e with Some a => atom_okM a | None => True end.

Definition bond_okM (M : molM) (b : bondM) : Prop :=
  match b with
  | Bond _ u v => is_atom M u /\ is_atom M v
  | StarBond _ s w es => is_star M s /\ is_atom M w /\ Forall (is_atom M) es
  end.

(* the ordered pairs of positions a bond line states; the reader keeps one bond per ordered pair *)
Definition bond_keys (b : bondM) : list (nat * nat) :=
  match b with Bond _ u v => [(u, v)] | StarBond _ _ w es => map (pair w) es end.

Record okM (M : molM) : Prop := {
  om_entries : Forall entry_okM (m_entries M);
  om_bonds : Forall (bond_okM M) (m_bonds M);
  om_keys : NoDup (flat_map bond_keys (m_bonds M));
  om_noloop : forall u, ~ In (u, u) (flat_map bond_keys (m_bonds M)) }.   (* no bond from an atom to itself:
                                                                            the reader rejects such a line *)

(* ------------------------------------------------------------------------------------ *)
(* 2. rendering choices                                                                   *)
(* ------------------------------------------------------------------------------------ *)

(* layout of one logical V30 line: blanks before the first token, 1 + k blanks in the k-th gap
   (0 when the list is exhausted), blanks after the last token, and the lengths of the pieces the
   line is cut into ("M  V30 <piece>-" for every cut, then "M  V30 <rest>") *)
Record layout := mkLayout { ly_lead : nat; ly_gaps : list nat; ly_trail : nat; ly_cuts : list nat }.

(* the optional part of an atom line: the stated value of a property (an explicit default when the
   value is 0), or any other token *)
Inductive ptok := PChg | PRad | PMass | PExtra (tk : text).

Record entryC := mkEntryC { ec_idx : Z; ec_ly : layout; ec_aamap : text; ec_tail : list ptok }.

Record bondC := mkBondC {
  bc_ly : layout;
  bc_num : text;               (* the bond's own index: never read *)
  bc_star_first : bool;        (* star bond: which of the two atom fields holds the star atom *)
  bc_extras : list text;       (* further tokens (before ENDPTS on a star bond line) *)
  bc_after : list text }.      (* further tokens (after ENDPTS on a star bond line) *)

(* a physical line group: a V30 line cut into pieces, or any other line *)
Inductive pline := V30L (content : text) (cuts : list nat) | Raw (l : text).

Record choices := mkChoices {
  ch_h1 : text; ch_h2 : text; ch_h3 : text; ch_h4 : text;      (* the four header lines *)
  ch_ctab : layout;
  ch_counts : layout; ch_counts_extra : list text;
  ch_begin_atom : layout; ch_end_atom : layout; ch_begin_bond : layout; ch_end_bond : layout;
  ch_entry : nat -> entryC;                                    (* by position in the atom block *)
  ch_bond : nat -> bondC;                                      (* by position in the bond block *)
  ch_trailer : list pline }.                                   (* everything after the last block read *)

Definition ch_index (ch : choices) (p : nat) : Z := ec_idx (ch_entry ch p).

(* ---- characters ---- *)
Definition blanks (k : nat) : text := repeat sp k.

Fixpoint spread (ts : list text) (gs : list nat) : text :=
  match ts with
  | [] => []
  | x :: r => match r with
              | [] => x
              | _ :: _ => x ++ sp :: blanks (hd 0 gs) ++ spread r (tl gs)
              end
  end.

Definition line_text (ly : layout) (ts : list text) : text :=
  blanks (ly_lead ly) ++ spread ts (ly_gaps ly) ++ blanks (ly_trail ly).

Fixpoint split_chunks (cuts : list nat) (line : text) : list text :=
  match cuts with
  | [] => [line]
  | k :: r => (firstn k line ++ [dash]) :: split_chunks r (skipn k line)
  end.
Definition split_line (cuts : list nat) (line : text) : list text := map (app v30) (split_chunks cuts line).

Definition phys (p : pline) : list text :=
  match p with V30L c cuts => split_line cuts c | Raw l => [l] end.
Definition logical (p : pline) : text :=
  match p with V30L c _ => v30 ++ c | Raw l => l end.

Definition v30l (ly : layout) (ts : list text) : pline := V30L (line_text ly ts) (ly_cuts ly).

(* ---- tokens ---- *)
Definition kv (name : string) (v : Z) : text := t name ++ t "=" ++ tZ v.
Definition rtok (chg rad mass : Z) (p : ptok) : text :=
  match p with PChg => kv "CHG" chg | PRad => kv "RAD" rad | PMass => kv "MASS" mass | PExtra tk => tk end.

(* for a star atom the reader reads nothing behind the "*": all further tokens are free *)
Definition entry_toks (c : entryC) (e : option atomM) : list text :=
  match e with
  | Some a => [tZ (ec_idx c); a_sym a; a_x a; a_y a; a_z a; ec_aamap c]
              ++ map (rtok (a_chg a) (a_rad a) (a_mass a)) (ec_tail c)
  | None => [tZ (ec_idx c); t "*"] ++ map (rtok 0 0 0) (ec_tail c)
  end.

Fixpoint close_last (l : list text) : list text :=
  match l with
  | [] => []
  | x :: r => match r with [] => [x ++ t ")"] | _ :: _ => x :: close_last r end
  end.
(* ENDPTS=(n e1 ... en), cut at its blanks *)
Definition endpts_toks (nums : list text) : list text :=
  match close_last nums with x :: r => (t "ENDPTS=(" ++ x) :: r | [] => [] end.

Definition bond_toks_of (I : nat -> Z) (c : bondC) (b : bondM) : list text :=
  match b with
  | Bond ty u v => [bc_num c; tZ ty; tZ (I u); tZ (I v)] ++ bc_extras c ++ bc_after c
  | StarBond ty s w es =>
    (if bc_star_first c then [bc_num c; tZ ty; tZ (I s); tZ (I w)] else [bc_num c; tZ ty; tZ (I w); tZ (I s)])
    ++ bc_extras c
    ++ endpts_toks (tZ (Z.of_nat (length es)) :: map (fun e => tZ (I e)) es)
    ++ bc_after c
  end.

(* ---- the file ---- *)
Definition counts_toks (M : molM) (ch : choices) : list text :=
  [t "COUNTS"; tN (N.of_nat (length (m_entries M))); tN (N.of_nat (length (m_bonds M)))] ++ ch_counts_extra ch.

Fixpoint entry_tlines (C : nat -> entryC) (k : nat) (es : list (option atomM)) : list (layout * list text) :=
  match es with
  | [] => []
  | e :: r => (ec_ly (C k), entry_toks (C k) e) :: entry_tlines C (S k) r
  end.
Fixpoint bond_tlines (I : nat -> Z) (C : nat -> bondC) (k : nat) (bs : list bondM) : list (layout * list text) :=
  match bs with
  | [] => []
  | b :: r => (bc_ly (C k), bond_toks_of I (C k) b) :: bond_tlines I C (S k) r
  end.

Definition kw (a b : string) : list text := [t a; t b].

(* the V30 lines up to the last one the reader looks at: layout and tokens *)
Definition tlines (M : molM) (ch : choices) : list (layout * list text) :=
  [(ch_ctab ch, kw "BEGIN" "CTAB"); (ch_counts ch, counts_toks M ch); (ch_begin_atom ch, kw "BEGIN" "ATOM")]
  ++ entry_tlines (ch_entry ch) 0 (m_entries M)
  ++ [(ch_end_atom ch, kw "END" "ATOM")]
  ++ (match m_bonds M with
      | [] => []
      | _ :: _ => [(ch_begin_bond ch, kw "BEGIN" "BOND")]
                  ++ bond_tlines (ch_index ch) (ch_bond ch) 0 (m_bonds M)
                  ++ [(ch_end_bond ch, kw "END" "BOND")]
      end).

Definition body (M : molM) (ch : choices) : list pline :=
  map (fun p => v30l (fst p) (snd p)) (tlines M ch) ++ ch_trailer ch.

Definition render3000 (M : molM) (ch : choices) : list text :=
  [ch_h1 ch; ch_h2 ch; ch_h3 ch; ch_h4 ch] ++ flat_map phys (body M ch).

(* ---- admissible choices ---- *)
Definition nodash (l : text) : Prop := ends_with_char 45%N l = false.

(* a token that is not read: non-empty, blank-free, and not a CHG / RAD / MASS property *)
Definition extra_ok (tk : text) : Prop := good_tok tk /\ not_a_key tk.

Definition tail_ok (l : list ptok) : Prop :=
  Forall (fun p => match p with PExtra tk => extra_ok tk | _ => True end) l.

Definition entry_okC (c : entryC) (e : option atomM) : Prop :=
  tail_ok (ec_tail c)
  /\ nodash (line_text (ec_ly c) (entry_toks c e))          (* the line does not end in "-" *)
  /\ match e with
     | Some a => extra_ok (ec_aamap c)
                 /\ (a_chg a <> 0%Z -> In PChg (ec_tail c))   (* what is stated is written *)
                 /\ (a_rad a <> 0%Z -> In PRad (ec_tail c))
                 /\ (a_mass a <> 0%Z -> In PMass (ec_tail c))
     | None => True
     end.

Definition endpts_key : text := t "ENDPTS=(".
Definition no_endpts (tk : text) : Prop := find_sub endpts_key tk = None.
Definition no_paren (tk : text) : Prop := Forall (fun c => is_code 41%N c = false) tk.

Definition bond_okC (I : nat -> Z) (c : bondC) (b : bondM) : Prop :=
  good_tok (bc_num c) /\ Forall good_tok (bc_extras c) /\ Forall good_tok (bc_after c)
  /\ nodash (line_text (bc_ly c) (bond_toks_of I c b))
  /\ match b with
     | Bond _ _ _ => True
     | StarBond _ _ _ _ => no_endpts (bc_num c) /\ Forall no_endpts (bc_extras c) /\ Forall no_paren (bc_after c)
     end.

Definition pline_ok (p : pline) : Prop :=
  match p with V30L c _ => nodash c | Raw l => continues l = false end.

Record okch (M : molM) (ch : choices) : Prop := {
  oc_index : NoDup (map (ch_index ch) (seq 0 (length (m_entries M))));
  oc_counts : Forall good_tok (ch_counts_extra ch) /\ nodash (line_text (ch_counts ch) (counts_toks M ch));
  oc_entries : forall p e, nth_error (m_entries M) p = Some e -> entry_okC (ch_entry ch p) e;
  oc_bonds : forall q b, nth_error (m_bonds M) q = Some b -> bond_okC (ch_index ch) (ch_bond ch q) b;
  oc_trailer : Forall pline_ok (ch_trailer ch) }.

(* ------------------------------------------------------------------------------------ *)
(* 3. continuation: the splice loop restores a line cut at arbitrary positions            *)
(* ------------------------------------------------------------------------------------ *)

Lemma split_chunks_nonempty : forall cuts line, exists c cs, split_chunks cuts line = c :: cs.
Proof. destruct cuts; intro line; eexists; eexists; reflexivity. Qed.

Lemma v30_length : length v30 = 7.
Proof. reflexivity. Qed.

Lemma concat_dash_chunks : forall cuts line acc c cs rest fuel,
  split_chunks cuts line = c :: cs ->
  ends_with_char 45%N (v30 ++ acc ++ line) = false ->
  S (length cs) + length rest <= fuel ->
  concat_dash fuel ((v30 ++ acc ++ c) :: map (app v30) cs ++ rest)
  = do r <- concat_dash (length rest) rest; ok ((v30 ++ acc ++ line) :: r).
Proof.
  induction cuts as [|k cuts IH]; intros line acc c cs rest fuel E Hend Hfuel.
  - cbn [split_chunks] in E. injection E as <- <-. cbn [map app].
    apply concat_dash_plain.
    + unfold continues. rewrite Hend. apply andb_false_r.
    + tlia.
  - cbn [split_chunks] in E. injection E as <- <-.
    destruct (split_chunks_nonempty cuts (skipn k line)) as [c' [cs' E']].
    rewrite E' in *. cbn [map app length] in *.
    destruct fuel as [|fuel]; [lia|].
    rewrite concat_dash_step.
    assert (Hc : continues (v30 ++ acc ++ firstn k line ++ [dash]) = true).
    { unfold continues. rewrite starts_with_app.
      rewrite !app_assoc, ends_with_char_snoc. apply is_code_dash. }
    rewrite Hc, starts_with_app.
    replace (removelast (v30 ++ acc ++ firstn k line ++ [dash]) ++ skipn 7 (v30 ++ c'))
      with (v30 ++ (acc ++ firstn k line) ++ c').
    + rewrite (IH (skipn k line) (acc ++ firstn k line) c' cs' rest fuel E').
      * rewrite <- !app_assoc, firstn_skipn. reflexivity.
      * rewrite <- !app_assoc, firstn_skipn. exact Hend.
      * lia.
    + rewrite (skipn_app_exact v30 c' 7 v30_length).
      rewrite !app_assoc, removelast_last. reflexivity.
Qed.

Lemma nodash_v30 : forall line, nodash line -> ends_with_char 45%N (v30 ++ line) = false.
Proof. intros line H. rewrite <- prefix_is_v30. apply no_dash_prefix, H. Qed.

Lemma cd_block_split : forall cuts line, nodash line -> cd_block (split_line cuts line) [v30 ++ line].
Proof.
  intros cuts line Hend rest fuel Hfuel. unfold split_line in *.
  destruct (split_chunks_nonempty cuts line) as [c [cs E]]. rewrite E in *. cbn [map app] in *.
  apply (concat_dash_chunks cuts line [] c cs rest fuel E (nodash_v30 line Hend)).
  unfold text in *. cbn [length] in Hfuel. rewrite app_length, map_length in Hfuel. lia.
Qed.

Theorem concat_dash_split : forall (cuts : list nat) (line : text) (rest : list text) (fuel : nat),
  ends_with_char 45%N line = false ->
  length (split_line cuts line ++ rest) <= fuel ->
  concat_dash fuel (split_line cuts line ++ rest)
  = do r <- concat_dash (length rest) rest; ok ((v30 ++ line) :: r).
Proof. intros cuts line rest fuel H Hf. exact (cd_block_split cuts line H rest fuel Hf). Qed.

Lemma cd_block_pline : forall p, pline_ok p -> cd_block (phys p) [logical p].
Proof.
  intros [c cuts|l] H; cbn [phys logical pline_ok] in *.
  - apply cd_block_split, H.
  - apply cd_block_plain, H.
Qed.

Lemma cd_block_plines : forall ps, Forall pline_ok ps -> cd_block (flat_map phys ps) (map logical ps).
Proof.
  intros ps H.
  replace (map logical ps) with (flat_map (fun p => [logical p]) ps)
    by (induction ps; [reflexivity|cbn [flat_map map app]; f_equal; assumption]).
  apply cd_block_flat_map. intros p Hp. apply cd_block_pline.
  rewrite Forall_forall in H. apply H, Hp.
Qed.

(* the pieces of a cut line, without prefixes and dashes, concatenate to the line *)
Lemma split_line_content : forall cuts line, unwrap_spec (split_line cuts line) = line.
Proof.
  unfold unwrap_spec, split_line. induction cuts as [|k cuts IH]; intro line.
  - cbn [split_chunks map gunwrap]. apply (skipn_app_exact v30 line 7 v30_length).
  - cbn [split_chunks map]. specialize (IH (skipn k line)).
    destruct (split_chunks_nonempty cuts (skipn k line)) as [c [cs E]]. rewrite E in *. cbn [map] in *.
    rewrite gunwrap_cons2. unfold text in *. rewrite IH.
    rewrite (skipn_app_exact v30 _ 7 v30_length), removelast_last. apply firstn_skipn.
Qed.

(* ------------------------------------------------------------------------------------ *)
(* 4. blank runs: tokenising a line with arbitrary runs of blanks                         *)
(* ------------------------------------------------------------------------------------ *)

Lemma spread_cons2 : forall x y r gs,
  spread (x :: y :: r) gs = x ++ sp :: blanks (hd 0 gs) ++ spread (y :: r) (tl gs).
Proof. reflexivity. Qed.

Lemma toks_blanks : forall k l, toks (blanks k ++ l) = toks l.
Proof. induction k as [|k IH]; intro l; [reflexivity|]. cbn [blanks repeat app]. rewrite toks_sp. apply IH. Qed.

Lemma toks_spread : forall ts gs, Forall good_tok ts -> toks (spread ts gs) = ts.
Proof.
  induction ts as [|a ts IH]; intros gs H; [reflexivity|]. inversion H as [|? ? Ha Ht]; subst.
  destruct ts as [|b ts].
  - apply toks_tok, Ha.
  - rewrite spread_cons2, (toks_tok_sp _ _ Ha), toks_blanks, (IH _ Ht). reflexivity.
Qed.

Lemma spread_ends_nonspace : forall ts gs, ts <> [] -> Forall good_tok ts -> ends_nonspace (spread ts gs).
Proof.
  induction ts as [|a ts IH]; intros gs Hne H; [congruence|]. inversion H as [|? ? Ha Ht]; subst.
  destruct ts as [|b ts].
  - apply good_tok_ends_nonspace, Ha.
  - rewrite spread_cons2. apply ends_nonspace_app.
    change (sp :: blanks (hd 0 gs) ++ spread (b :: ts) (tl gs)) with ((sp :: blanks (hd 0 gs)) ++ spread (b :: ts) (tl gs)).
    apply ends_nonspace_app, IH; [discriminate|exact Ht].
Qed.

Lemma rstrip_blanks : forall k, rstrip (blanks k) = [].
Proof.
  induction k as [|k IH]; [reflexivity|].
  change (blanks (S k)) with ([sp] ++ blanks k). rewrite rstrip_app, IH. reflexivity.
Qed.

Theorem tokenize_spread : forall a ts gs b,
  Forall good_tok ts -> tokenize (blanks a ++ spread ts gs ++ blanks b) = ts.
Proof.
  intros a ts gs b H. rewrite tokenize_toks, !rstrip_app, rstrip_blanks.
  destruct ts as [|x ts].
  - cbn [spread]. change (rstrip []) with (@nil ascii). rewrite rstrip_blanks. reflexivity.
  - assert (E : ends_nonspace (spread (x :: ts) gs)) by (apply spread_ends_nonspace; [discriminate|exact H]).
    rewrite (rstrip_ends_nonspace _ E).
    destruct (spread (x :: ts) gs) as [|c r] eqn:Es; [exfalso; exact (ends_nonspace_nonnil _ E eq_refl)|].
    rewrite <- Es. rewrite toks_blanks. apply toks_spread, H.
Qed.

Definition tokl (ts : list text) : list text := t "M" :: t "V30" :: ts.

Theorem tokenize_v30_line : forall ly ts,
  Forall good_tok ts -> tokenize (v30 ++ line_text ly ts) = tokl ts.
Proof.
  intros ly ts H. rewrite <- prefix_is_v30, tokenize_prefix. unfold line_text.
  rewrite (tokenize_spread _ _ _ _ H). reflexivity.
Qed.

(* a line whose last token does not end in "-" does not end in "-" *)
Lemma blanks_snoc : forall k, blanks (S k) = blanks k ++ [sp].
Proof.
  induction k as [|k IH]; [reflexivity|].
  change (sp :: blanks (S k) = sp :: (blanks k ++ [sp])). f_equal. exact IH.
Qed.

Lemma spread_last : forall ts gs, ts <> [] -> exists pre, spread ts gs = pre ++ last ts [].
Proof.
  induction ts as [|a ts IH]; intros gs Hne; [congruence|]. destruct ts as [|b ts].
  - exists []. reflexivity.
  - destruct (IH (tl gs)) as [pre E]; [discriminate|].
    exists (a ++ sp :: blanks (hd 0 gs) ++ pre). rewrite spread_cons2, E.
    change (last (a :: b :: ts) []) with (last (b :: ts) []).
    rewrite <- !app_assoc. cbn [app]. rewrite <- app_assoc. reflexivity.
Qed.

Lemma line_text_nodash : forall ly ts,
  ts <> [] -> Forall good_tok ts -> nodash (last ts []) -> nodash (line_text ly ts).
Proof.
  intros ly ts Hne H Hl. unfold nodash, line_text in *.
  destruct (ly_trail ly) as [|k].
  - cbn [blanks repeat]. rewrite app_nil_r.
    destruct (spread_last ts (ly_gaps ly) Hne) as [pre ->].
    assert (Hg : good_tok (last ts [])).
    { rewrite Forall_forall in H. apply H. apply exists_last in Hne. destruct Hne as [l' [x ->]].
      rewrite last_app_one. apply in_or_app. right. left. reflexivity. }
    rewrite !app_assoc, ends_with_char_app; [exact Hl|apply Hg].
  - rewrite blanks_snoc, !app_assoc, ends_with_char_snoc. reflexivity.
Qed.

(* ------------------------------------------------------------------------------------ *)
(* 5. key=value properties in any order, repeated, with explicit defaults, among others  *)
(* ------------------------------------------------------------------------------------ *)

Lemma prop_values_kv : forall key name v r, no_eq (t name) ->
  prop_values key (kv name v :: r) =
  if text_eqb (t name) key then do rest <- prop_values key r; ok (v :: rest) else prop_values key r.
Proof.
  intros key name v r Hn. cbn [prop_values]. rewrite key_matches_exact. unfold kv.
  rewrite (split_keyval name v Hn).
  destruct (text_eqb (t name) key); [|reflexivity]. cbn [nth_tok bind ok]. rewrite int_of_tZ. reflexivity.
Qed.

Definition is_p (q p : ptok) : bool :=
  match q, p with PChg, PChg | PRad, PRad | PMass, PMass => true | _, _ => false end.
(* the values the reader collects for one key: one per occurrence *)
Definition hits (q : ptok) (v : Z) (l : list ptok) : list Z := map (fun _ => v) (filter (is_p q) l).

Lemma prop_values_tail : forall key q c r m l,
  tail_ok l -> In key key_texts ->
  text_eqb (t "CHG") key = is_p q PChg -> text_eqb (t "RAD") key = is_p q PRad ->
  text_eqb (t "MASS") key = is_p q PMass ->
  prop_values key (map (rtok c r m) l)
  = ok (hits q (match q with PChg => c | PRad => r | _ => m end) l).
Proof.
  intros key q c r m l Hl Hk Hc Hr Hm. induction l as [|p l IH]; [reflexivity|].
  inversion Hl as [|? ? Hp Hl']; subst. specialize (IH Hl'). unfold hits in *.
  destruct p as [| | |tk]; cbn [map rtok filter].
  - rewrite (prop_values_kv key "CHG" c _ no_eq_CHG), Hc, IH.
    destruct (is_p q PChg) eqn:E; [|reflexivity]. destruct q; try discriminate E. reflexivity.
  - rewrite (prop_values_kv key "RAD" r _ no_eq_RAD), Hr, IH.
    destruct (is_p q PRad) eqn:E; [|reflexivity]. destruct q; try discriminate E. reflexivity.
  - rewrite (prop_values_kv key "MASS" m _ no_eq_MASS), Hm, IH.
    destruct (is_p q PMass) eqn:E; [|reflexivity]. destruct q; try discriminate E. reflexivity.
  - rewrite prop_values_skip by (apply (proj2 Hp), Hk). rewrite IH.
    destruct q; reflexivity.
Qed.

Lemma prop_values_tail_chg : forall c r m l, tail_ok l ->
  prop_values (t "CHG") (map (rtok c r m) l) = ok (hits PChg c l).
Proof. intros. apply (prop_values_tail (t "CHG") PChg); try reflexivity; [assumption|cbn; auto]. Qed.
Lemma prop_values_tail_rad : forall c r m l, tail_ok l ->
  prop_values (t "RAD") (map (rtok c r m) l) = ok (hits PRad r l).
Proof. intros. apply (prop_values_tail (t "RAD") PRad); try reflexivity; [assumption|cbn; auto]. Qed.
Lemma prop_values_tail_mass : forall c r m l, tail_ok l ->
  prop_values (t "MASS") (map (rtok c r m) l) = ok (hits PMass m l).
Proof. intros. apply (prop_values_tail (t "MASS") PMass); try reflexivity; [assumption|cbn; auto]. Qed.

(* the last value wins, and a zero means "not set": with all occurrences carrying the stated value,
   the result is the stated value whenever a non-zero value is written at least once *)
Lemma hits_last : forall q v l, is_p q q = true -> (v <> 0%Z -> In q l) -> last_nonzero (hits q v l) = nz v.
Proof.
  intros q v l Hq H. unfold last_nonzero, hits, nz. rewrite <- map_rev.
  destruct (rev (filter (is_p q) l)) as [|x r] eqn:E.
  - cbn [map]. destruct (Z.eqb_spec v 0) as [_|Hv]; [reflexivity|]. exfalso.
    assert (Hin : In q (filter (is_p q) l)) by (apply filter_In; split; [apply H, Hv|exact Hq]).
    apply (f_equal (@rev ptok)) in E. rewrite rev_involutive in E. rewrite E in Hin. exact Hin.
  - reflexivity.
Qed.

(* the reader's "negative value" test looks at the last occurrence: it never fires when the stated
   value is not negative *)
Lemma hits_not_negative : forall q v l, (0 <= v)%Z -> last_negative (hits q v l) = false.
Proof.
  intros q v l H. unfold last_negative, hits. rewrite <- map_rev.
  destruct (rev (filter (is_p q) l)); cbn [map]; [reflexivity|apply Z.ltb_ge; exact H].
Qed.

Lemma iso_of_nonneg : forall s, (0 <= snd (iso_of s))%Z.
Proof. intro s. unfold iso_of. destruct (text_eqb s (t "D")); [|destruct (text_eqb s (t "T"))]; cbn [snd]; lia. Qed.

(* ------------------------------------------------------------------------------------ *)
(* 6. one atom line                                                                       *)
(* ------------------------------------------------------------------------------------ *)

Record symF (a : atomM) : Prop := {
  sF_good : good_tok (a_sym a);
  sF_not_star : text_eqb (a_sym a) (t "*") = false;
  sF_iso : detect_isotope (a_sym a) = iso_of (a_sym a);
  sF_zn : exists z, z_of_symbol (fst (iso_of (a_sym a))) = Some z;
  sF_not_key : not_a_key (a_sym a);
  sF_mass : snd (iso_of (a_sym a)) <> 0%Z -> a_mass a = 0%Z }.

Lemma D_not_element : z_of_symbol (t "D") = None.
Proof. vm_compute. reflexivity. Qed.
Lemma T_not_element : z_of_symbol (t "T") = None.
Proof. vm_compute. reflexivity. Qed.
Lemma H_element : z_of_symbol (t "H") = Some 1%N.
Proof. vm_compute. reflexivity. Qed.

Lemma iso_of_element : forall s z, z_of_symbol s = Some z -> iso_of s = (s, 0%Z).
Proof.
  intros s z H. unfold iso_of.
  destruct (text_eqb s (t "D")) eqn:ED.
  { apply text_eqb_eq in ED. subst s. rewrite D_not_element in H. discriminate H. }
  destruct (text_eqb s (t "T")) eqn:ET.
  { apply text_eqb_eq in ET. subst s. rewrite T_not_element in H. discriminate H. }
  reflexivity.
Qed.

Lemma key_texts_cases : forall (P : text -> Prop),
  P (t "CHG") -> P (t "MASS") -> P (t "RAD") -> forall k, In k key_texts -> P k.
Proof. intros P H1 H2 H3 k Hk. cbn in Hk. destruct Hk as [<- | [<- | [<- | []]]]; assumption. Qed.

Lemma not_a_key_check : forall tk,
  forallb (fun k => negb (key_matches k tk)) key_texts = true -> not_a_key tk.
Proof. intros tk H k Hk. rewrite forallb_forall in H. apply negb_true_iff, H, Hk. Qed.

Lemma sym_ok_facts : forall a, sym_ok a -> symF a.
Proof.
  intros a [[z Hz] | [[E | E] Hm]].
  - pose proof (symbol_facts _ _ Hz) as F. pose proof (iso_of_element _ _ Hz) as Ei.
    constructor; try apply F.
    + rewrite Ei. apply F.
    + rewrite Ei. exists z. exact Hz.
    + rewrite Ei. cbn [snd]. congruence.
  - constructor; rewrite ?E.
    + split; [discriminate|repeat constructor].
    + reflexivity.
    + vm_compute. reflexivity.
    + exists 1%N. exact H_element.
    + apply not_a_key_check. reflexivity.
    + intros _. exact Hm.
  - constructor; rewrite ?E.
    + split; [discriminate|repeat constructor].
    + reflexivity.
    + vm_compute. reflexivity.
    + exists 1%N. exact H_element.
    + apply not_a_key_check. reflexivity.
    + intros _. exact Hm.
Qed.

Lemma tZ_not_a_key : forall z, not_a_key (tZ z).
Proof.
  intro z. unfold tZ. destruct (text_of_Z_shape z) as [ds [Hne [Hd [-> | ->]]]].
  - apply all_digit_not_a_key, Hd.
  - apply floatstart_not_a_key. reflexivity.
Qed.

Lemma tZ_good : forall z, good_tok (tZ z).
Proof. intro z. apply text_of_Z_good. Qed.
Lemma tN_good : forall n, good_tok (tN n).
Proof. intro n. apply text_of_N_good. Qed.

Lemma M_not_a_key : not_a_key (t "M").
Proof. apply not_a_key_check. reflexivity. Qed.
Lemma V30_not_a_key : not_a_key (t "V30").
Proof. apply not_a_key_check. reflexivity. Qed.

Definition atom_line_toks (c : entryC) (a : atomM) : list text := tokl (entry_toks c (Some a)).

Lemma prop_values_atom_line : forall key c a,
  In key key_texts -> atom_okM a -> extra_ok (ec_aamap c) ->
  prop_values key (atom_line_toks c a)
  = prop_values key (map (rtok (a_chg a) (a_rad a) (a_mass a)) (ec_tail c)).
Proof.
  intros key c a Hk [Hs Hx Hy Hz _] Ha. pose proof (sym_ok_facts a Hs) as F.
  unfold atom_line_toks, tokl, entry_toks. cbn [app].
  rewrite prop_values_skip by (apply M_not_a_key, Hk).
  rewrite prop_values_skip by (apply V30_not_a_key, Hk).
  rewrite prop_values_skip by (apply tZ_not_a_key, Hk).
  rewrite prop_values_skip by (apply (sF_not_key _ F), Hk).
  rewrite prop_values_skip by (apply (coord_not_a_key _ Hx), Hk).
  rewrite prop_values_skip by (apply (coord_not_a_key _ Hy), Hk).
  rewrite prop_values_skip by (apply (coord_not_a_key _ Hz), Hk).
  rewrite prop_values_skip by (apply (proj2 Ha), Hk).
  reflexivity.
Qed.

Lemma last_nonzero_one : forall v, last_nonzero [v] = nz v.
Proof. reflexivity. Qed.

(* the token-level part of entry_okC *)
Definition stated_ok (c : entryC) (a : atomM) : Prop :=
  tail_ok (ec_tail c) /\ extra_ok (ec_aamap c)
  /\ (a_chg a <> 0%Z -> In PChg (ec_tail c))
  /\ (a_rad a <> 0%Z -> In PRad (ec_tail c))
  /\ (a_mass a <> 0%Z -> In PMass (ec_tail c)).

Lemma entry_okC_stated : forall c a, entry_okC c (Some a) -> stated_ok c a.
Proof. intros c a [Ht [_ [Ha [Hc [Hr Hm]]]]]. exact (conj Ht (conj Ha (conj Hc (conj Hr Hm)))). Qed.

Lemma parse_atom_line_toks : forall c a,
  atom_okM a -> stated_ok c a ->
  parse_atom_line (atom_line_toks c a) = ok (Some (exp_atom (ec_idx c) a)).
Proof.
  intros c a Hok [Ht [Ha [Hc [Hr Hm]]]]. pose proof Hok as [Hs [_ Hx] [_ Hy] [_ Hz] [Hmn Hrn]].
  pose proof (sym_ok_facts a Hs) as F. pose proof (iso_of_nonneg (a_sym a)) as Hiso.
  unfold parse_atom_line.
  change (nth_tok 2 (atom_line_toks c a)) with (ok (tZ (ec_idx c))). cbn [bind ok].
  rewrite int_of_tZ. cbn [bind ok].
  change (nth_tok 3 (atom_line_toks c a)) with (ok (a_sym a)). cbn [bind ok].
  rewrite (sF_not_star _ F), (sF_iso _ F).
  unfold exp_atom. destruct (sF_zn _ F) as [z Hzn]. pose proof (sF_mass _ F) as Hmass.
  destruct (iso_of (a_sym a)) as [sym iso]. cbn [fst snd] in Hzn, Hmass, Hiso.
  rewrite Hzn. cbn [of_opt bind ok opt_default].
  change (nth_tok 4 (atom_line_toks c a)) with (ok (a_x a)).
  change (nth_tok 5 (atom_line_toks c a)) with (ok (a_y a)).
  change (nth_tok 6 (atom_line_toks c a)) with (ok (a_z a)). cbn [bind ok].
  rewrite Hx, Hy, Hz. cbn [andb negb].
  rewrite (prop_values_atom_line (t "CHG") c a) by (try assumption; cbn; auto).
  rewrite (prop_values_tail_chg _ _ _ _ Ht). cbn [bind ok].
  rewrite (prop_values_atom_line (t "RAD") c a) by (try assumption; cbn; auto).
  rewrite (prop_values_tail_rad _ _ _ _ Ht).
  destruct (Z.eqb_spec iso 0) as [E|E].
  - rewrite (prop_values_atom_line (t "MASS") c a) by (try assumption; cbn; auto).
    rewrite (prop_values_tail_mass _ _ _ _ Ht). cbn [bind ok].
    rewrite (hits_not_negative PMass _ _ Hmn), (hits_not_negative PRad _ _ Hrn). cbn [orb].
    rewrite (hits_last PChg _ _ eq_refl Hc), (hits_last PRad _ _ eq_refl Hr), (hits_last PMass _ _ eq_refl Hm).
    reflexivity.
  - cbn [bind ok].
    rewrite (hits_not_negative PRad _ _ Hrn).
    replace (last_negative [iso]) with false by (symmetry; unfold last_negative; cbn [rev app]; apply Z.ltb_ge; exact Hiso).
    cbn [orb].
    rewrite (hits_last PChg _ _ eq_refl Hc), (hits_last PRad _ _ eq_refl Hr), last_nonzero_one.
    reflexivity.
Qed.

Theorem parse_atom_line_render : forall c a,
  atom_okM a -> entry_okC c (Some a) ->
  parse_atom_line (atom_line_toks c a) = ok (Some (exp_atom (ec_idx c) a)).
Proof. intros c a Hok H. apply parse_atom_line_toks; [exact Hok|apply entry_okC_stated, H]. Qed.

Definition star_line_toks (c : entryC) : list text := tokl (entry_toks c None).

Lemma parse_atom_line_star : forall c, parse_atom_line (star_line_toks c) = ok None.
Proof.
  intro c. unfold parse_atom_line.
  change (nth_tok 2 (star_line_toks c)) with (ok (tZ (ec_idx c))). cbn [bind ok].
  rewrite int_of_tZ. reflexivity.
Qed.

(* explicit defaults mean the same as omitting them: dropping every CHG=0 / RAD=0 / MASS=0 from an
   atom line does not change what the line is read as *)
Definition is_default (a : atomM) (p : ptok) : bool :=
  match p with
  | PChg => Z.eqb (a_chg a) 0 | PRad => Z.eqb (a_rad a) 0 | PMass => Z.eqb (a_mass a) 0 | PExtra _ => false
  end.
Definition drop_defaults (a : atomM) (c : entryC) : entryC :=
  mkEntryC (ec_idx c) (ec_ly c) (ec_aamap c) (filter (fun p => negb (is_default a p)) (ec_tail c)).

Lemma stated_ok_drop : forall c a, stated_ok c a -> stated_ok (drop_defaults a c) a.
Proof.
  intros c a [Ht [Ha [Hc [Hr Hm]]]].
  assert (Hin : forall q, In q (ec_tail c) -> is_default a q = false ->
                          In q (filter (fun p => negb (is_default a p)) (ec_tail c))).
  { intros q Hq E. apply filter_In. split; [exact Hq|rewrite E; reflexivity]. }
  unfold stated_ok. cbn [drop_defaults ec_tail ec_aamap].
  split; [|split; [exact Ha|split; [|split]]].
  - unfold tail_ok in *. rewrite Forall_forall in *. intros p Hp. apply filter_In in Hp. apply Ht, Hp.
  - intro Hv. apply Hin; [apply Hc, Hv|]. cbn [is_default]. apply Z.eqb_neq, Hv.
  - intro Hv. apply Hin; [apply Hr, Hv|]. cbn [is_default]. apply Z.eqb_neq, Hv.
  - intro Hv. apply Hin; [apply Hm, Hv|]. cbn [is_default]. apply Z.eqb_neq, Hv.
Qed.

Theorem explicit_defaults_atom_line : forall c a,
  atom_okM a -> stated_ok c a ->
  parse_atom_line (atom_line_toks (drop_defaults a c) a) = parse_atom_line (atom_line_toks c a).
Proof.
  intros c a Hok H. rewrite (parse_atom_line_toks c a Hok H).
  apply (parse_atom_line_toks (drop_defaults a c) a Hok), stated_ok_drop, H.
Qed.

(* ------------------------------------------------------------------------------------ *)
(* 7. the atom block: arbitrary pairwise distinct indices                                 *)
(* ------------------------------------------------------------------------------------ *)

Fixpoint exp_keyed (I : nat -> Z) (k : nat) (es : list (option atomM)) : list (Z * ratom) :=
  match es with
  | [] => []
  | Some a :: r => ((I k - 1)%Z, exp_atom (I k) a) :: exp_keyed I (S k) r
  | None :: r => exp_keyed I (S k) r
  end.
Fixpoint exp_stars (I : nat -> Z) (k : nat) (es : list (option atomM)) : list Z :=
  match es with
  | [] => []
  | Some _ :: r => exp_stars I (S k) r
  | None :: r => (I k - 1)%Z :: exp_stars I (S k) r
  end.

Lemma exp_keyed_snd : forall I es k, map snd (exp_keyed I k es) = exp_atoms I k es.
Proof.
  intros I es. induction es as [|[a|] es IH]; intro k; [reflexivity| |].
  - cbn [exp_keyed exp_atoms map snd]. rewrite IH. reflexivity.
  - cbn [exp_keyed exp_atoms]. apply IH.
Qed.

Lemma exp_keyed_keys : forall I es k x,
  In x (map fst (exp_keyed I k es)) <-> exists j a, nth_error es j = Some (Some a) /\ x = (I (k + j)%nat - 1)%Z.
Proof.
  intros I es. induction es as [|[a|] es IH]; intros k x.
  - cbn. split; [intros []|]. intros [j [a [H _]]]. destruct j; discriminate H.
  - cbn [exp_keyed map fst In]. rewrite IH. split.
    + intros [<- | [j [a' [H ->]]]].
      * exists 0, a. rewrite Nat.add_0_r. split; reflexivity.
      * exists (S j), a'. rewrite Nat.add_succ_r. split; [exact H|reflexivity].
    + intros [[|j] [a' [H ->]]].
      * left. rewrite Nat.add_0_r. reflexivity.
      * right. exists j, a'. rewrite Nat.add_succ_r. split; [exact H|reflexivity].
  - cbn [exp_keyed]. rewrite IH. split.
    + intros [j [a' [H ->]]]. exists (S j), a'. rewrite Nat.add_succ_r. split; [exact H|reflexivity].
    + intros [[|j] [a' [H ->]]]; [discriminate H|].
      exists j, a'. rewrite Nat.add_succ_r. split; [exact H|reflexivity].
Qed.

Lemma exp_stars_in : forall I es k x,
  In x (exp_stars I k es) <-> exists j, nth_error es j = Some None /\ x = (I (k + j)%nat - 1)%Z.
Proof.
  intros I es. induction es as [|[a|] es IH]; intros k x.
  - cbn. split; [intros []|]. intros [j [H _]]. destruct j; discriminate H.
  - cbn [exp_stars]. rewrite IH. split.
    + intros [j [H ->]]. exists (S j). rewrite Nat.add_succ_r. split; [exact H|reflexivity].
    + intros [[|j] [H ->]]; [discriminate H|].
      exists j. rewrite Nat.add_succ_r. split; [exact H|reflexivity].
  - cbn [exp_stars In]. rewrite IH. split.
    + intros [<- | [j [H ->]]].
      * exists 0. rewrite Nat.add_0_r. split; reflexivity.
      * exists (S j). rewrite Nat.add_succ_r. split; [exact H|reflexivity].
    + intros [[|j] [H ->]].
      * left. rewrite Nat.add_0_r. reflexivity.
      * right. exists j. rewrite Nat.add_succ_r. split; [exact H|reflexivity].
Qed.

Lemma rtok_good : forall c r m p,
  match p with PExtra tk => extra_ok tk | _ => True end -> good_tok (rtok c r m p).
Proof.
  intros c r m p H.
  assert (K : forall name v, spacefree (t name) -> t name <> [] -> good_tok (kv name v)).
  { intros name v Hn Hne. unfold kv. split.
    - destruct (t name); [congruence|discriminate].
    - apply spacefree_app; [exact Hn|]. apply spacefree_app; [repeat constructor|apply tZ_good]. }
  destruct p as [| | |tk]; cbn [rtok].
  - apply K; [repeat constructor|discriminate].
  - apply K; [repeat constructor|discriminate].
  - apply K; [repeat constructor|discriminate].
  - apply H.
Qed.

Lemma tail_good : forall c r m l, tail_ok l -> Forall good_tok (map (rtok c r m) l).
Proof.
  intros c r m l H. apply Forall_map. eapply Forall_impl; [|exact H]. intros p Hp. apply rtok_good, Hp.
Qed.

Lemma good_star : good_tok (t "*").
Proof. split; [discriminate|repeat constructor]. Qed.

Lemma entry_toks_good : forall c e, entry_okM e -> entry_okC c e -> Forall good_tok (entry_toks c e).
Proof.
  intros c [a|] Hm [Ht [_ Hc]]; unfold entry_toks.
  - destruct Hm as [Hs [Gx _] [Gy _] [Gz _]]. destruct Hc as [[Ga _] _].
    apply Forall_app. split; [|apply tail_good, Ht].
    repeat (apply Forall_cons; [first [apply tZ_good|assumption|idtac]|]); [|apply Forall_nil].
    apply (sF_good _ (sym_ok_facts a Hs)).
  - apply Forall_app. split; [|apply tail_good, Ht].
    apply Forall_cons; [apply tZ_good|]. apply Forall_cons; [exact good_star|apply Forall_nil].
Qed.

Lemma parse_atoms_render : forall C es k acc St,
  Forall entry_okM es ->
  (forall j e, nth_error es j = Some e -> entry_okC (C (k + j)) e) ->
  NoDup (map fst acc ++ map (fun p => (ec_idx (C p) - 1)%Z) (seq k (length es))) ->
  parse_atoms (map (fun p => tokl (snd p)) (entry_tlines C k es)) acc St
  = ok (acc ++ exp_keyed (fun p => ec_idx (C p)) k es, St ++ exp_stars (fun p => ec_idx (C p)) k es).
Proof.
  intros C es. induction es as [|e es IH]; intros k acc St Hm Hc Hnd.
  - cbn [entry_tlines map parse_atoms exp_keyed exp_stars]. rewrite !app_nil_r. reflexivity.
  - inversion Hm as [|? ? He Hes]; subst.
    assert (Hc0 : entry_okC (C k) e) by (rewrite <- (Nat.add_0_r k); apply Hc; reflexivity).
    assert (Hc' : forall j e', nth_error es j = Some e' -> entry_okC (C (S k + j)) e').
    { intros j e' H. rewrite Nat.add_succ_comm. apply Hc. exact H. }
    cbn [length seq map] in Hnd.
    cbn [entry_tlines map parse_atoms snd].
    destruct e as [a|].
    + change (tokl (entry_toks (C k) (Some a))) with (atom_line_toks (C k) a).
      change (nth_tok 2 (atom_line_toks (C k) a)) with (ok (tZ (ec_idx (C k)))). cbn [bind ok].
      rewrite int_of_tZ. cbn [bind ok].
      rewrite (parse_atom_line_render (C k) a He Hc0). cbn [bind ok].
      rewrite (dict_set_fresh _ _ Z.eqb _ _ acc Zeqb_eq).
      * rewrite (IH (S k) _ St Hes Hc').
        -- cbn [exp_keyed exp_stars]. rewrite <- app_assoc. reflexivity.
        -- rewrite map_app, <- app_assoc. exact Hnd.
      * intro Hin. apply NoDup_remove_2 in Hnd. apply Hnd, in_or_app. left. exact Hin.
    + change (tokl (entry_toks (C k) None)) with (star_line_toks (C k)).
      change (nth_tok 2 (star_line_toks (C k))) with (ok (tZ (ec_idx (C k)))). cbn [bind ok].
      rewrite int_of_tZ. cbn [bind ok].
      rewrite (parse_atom_line_star (C k)). cbn [bind ok].
      rewrite (IH (S k) acc _ Hes Hc').
      * cbn [exp_keyed exp_stars]. rewrite <- app_assoc. reflexivity.
      * apply NoDup_remove_1 in Hnd. exact Hnd.
Qed.

(* ---- positions and indices ---- *)
Lemma index_inj : forall (I : nat -> Z) n p q,
  NoDup (map I (seq 0 n)) -> p < n -> q < n -> I p = I q -> p = q.
Proof.
  intros I n p q Hnd Hp Hq E.
  assert (L : length (map I (seq 0 n)) = n) by (rewrite map_length, seq_length; reflexivity).
  assert (N : forall j, j < n -> nth j (map I (seq 0 n)) (I 0) = I j).
  { intros j Hj. rewrite (map_nth I), seq_nth by exact Hj. reflexivity. }
  apply (proj1 (NoDup_nth (map I (seq 0 n)) (I 0)) Hnd); rewrite ?L; try assumption.
  rewrite (N p Hp), (N q Hq). exact E.
Qed.

Lemma NoDup_map_in : forall (A B : Type) (f : A -> B) (l : list A),
  (forall x y, In x l -> In y l -> f x = f y -> x = y) -> NoDup l -> NoDup (map f l).
Proof.
  intros A B f l. induction l as [|a l IH]; intros Hf Hnd; [constructor|].
  inversion Hnd as [|? ? Ha Hl]; subst. cbn [map]. constructor.
  - intro Hin. apply in_map_iff in Hin. destruct Hin as [x [E Hx]].
    apply Hf in E; [subst x; exact (Ha Hx)|right; exact Hx|left; reflexivity].
  - apply IH; [|exact Hl]. intros x y Hx Hy. apply Hf; right; assumption.
Qed.

Lemma memZ_not_in : forall a l, ~ In a l -> memZ a l = false.
Proof.
  intros a l H. unfold memZ. destruct (existsb (Z.eqb a) l) eqn:E; [|reflexivity].
  apply existsb_exists in E. destruct E as [x [Hx Ex]]. apply Z.eqb_eq in Ex. subst x. contradiction.
Qed.

Section Positions.
  Variable M : molM.
  Variable I : nat -> Z.
  Hypothesis Hnd : NoDup (map I (seq 0 (length (m_entries M)))).

  Lemma is_atom_lt : forall p, is_atom M p -> p < length (m_entries M).
  Proof. intros p [a H]. apply nth_error_Some. rewrite H. discriminate. Qed.
  Lemma is_star_lt : forall p, is_star M p -> p < length (m_entries M).
  Proof. intros p H. apply nth_error_Some. unfold is_star in H. rewrite H. discriminate. Qed.

  Lemma atom_key_in : forall p, is_atom M p -> In (I p - 1)%Z (map fst (exp_keyed I 0 (m_entries M))).
  Proof. intros p [a H]. apply exp_keyed_keys. exists p, a. split; [exact H|reflexivity]. Qed.

  Lemma star_key_in : forall p, is_star M p -> In (I p - 1)%Z (exp_stars I 0 (m_entries M)).
  Proof. intros p H. apply exp_stars_in. exists p. split; [exact H|reflexivity]. Qed.

  Lemma atom_key_not_star : forall p, is_atom M p -> ~ In (I p - 1)%Z (exp_stars I 0 (m_entries M)).
  Proof.
    intros p Hp Hin. apply exp_stars_in in Hin. destruct Hin as [j [Hj E]]. cbn [plus] in E.
    assert (p = j).
    { apply (index_inj I _ p j Hnd); [apply is_atom_lt, Hp|apply is_star_lt, Hj|lia]. }
    subst j. destruct Hp as [a Ha]. rewrite Ha in Hj. discriminate Hj.
  Qed.
End Positions.

(* ------------------------------------------------------------------------------------ *)
(* 8. ENDPTS=(n e1 ... en) on a bond line to a star atom                                  *)
(* ------------------------------------------------------------------------------------ *)

Lemma find_sub_cons : forall p c l,
  find_sub p (c :: l) = match strip_prefix_b p (c :: l) with Some r => Some r | None => find_sub p l end.
Proof. reflexivity. Qed.

Lemma strip_prefix_b_app : forall p x, strip_prefix_b p (p ++ x) = Some x.
Proof.
  induction p as [|a p IH]; intro x; [destruct x; reflexivity|].
  cbn [app strip_prefix_b]. rewrite ascii_eqb_refl. apply IH.
Qed.

Definition nosp (p : text) : Prop := Forall (fun a => ascii_eqb a sp = false) p.

Lemma strip_none_ext : forall p x r, nosp p ->
  strip_prefix_b p x = None -> strip_prefix_b p (x ++ sp :: r) = None.
Proof.
  induction p as [|a p IH]; intros x r Hp H.
  - destruct x; discriminate H.
  - inversion Hp as [|? ? Ha Hp']; subst. destruct x as [|b x].
    + cbn [app strip_prefix_b]. rewrite Ha. reflexivity.
    + cbn [app strip_prefix_b] in *. destruct (ascii_eqb a b); [apply IH; assumption|reflexivity].
Qed.

Lemma find_sub_skip_tok : forall p tk rest, p <> [] -> nosp p ->
  find_sub p tk = None -> find_sub p (tk ++ sp :: rest) = find_sub p rest.
Proof.
  intros p tk rest Hne Hp. induction tk as [|c tk IH]; intro H.
  - cbn [app]. rewrite find_sub_cons.
    destruct p as [|a p]; [congruence|]. inversion Hp as [|? ? Ha _]; subst.
    cbn [strip_prefix_b]. rewrite Ha. reflexivity.
  - rewrite find_sub_cons in H. destruct (strip_prefix_b p (c :: tk)) eqn:E; [discriminate H|].
    change ((c :: tk) ++ sp :: rest) with (c :: (tk ++ sp :: rest)). rewrite find_sub_cons.
    change (c :: (tk ++ sp :: rest)) with ((c :: tk) ++ sp :: rest).
    rewrite (strip_none_ext p (c :: tk) rest Hp E). apply IH, H.
Qed.

Lemma find_sub_here : forall p x, p <> [] -> find_sub p (p ++ x) = Some x.
Proof.
  intros p x Hne. destruct p as [|a p]; [congruence|]. cbn [app]. rewrite find_sub_cons.
  change (a :: p ++ x) with ((a :: p) ++ x). rewrite strip_prefix_b_app. reflexivity.
Qed.

Lemma join_sp_cons : forall (b : text) l, l <> [] -> join_sp (b :: l) = b ++ sp :: join_sp l.
Proof. intros b l H. destruct l; [congruence|reflexivity]. Qed.

Lemma endpts_key_nosp : nosp endpts_key.
Proof. repeat constructor. Qed.
Lemma endpts_key_nonnil : endpts_key <> [].
Proof. discriminate. Qed.

Lemma find_sub_join_skip : forall before x more,
  Forall no_endpts before ->
  find_sub endpts_key (join_sp (before ++ x :: more)) = find_sub endpts_key (join_sp (x :: more)).
Proof.
  induction before as [|b before IH]; intros x more H; [reflexivity|].
  inversion H as [|? ? Hb Hbs]; subst.
  change ((b :: before) ++ x :: more) with (b :: (before ++ x :: more)).
  rewrite join_sp_cons by (destruct before; discriminate).
  rewrite (find_sub_skip_tok _ _ _ endpts_key_nonnil endpts_key_nosp Hb). apply IH, Hbs.
Qed.

Lemma upto_last_paren_none : forall r, no_paren r -> upto_last_paren r = None.
Proof.
  induction r as [|c r IH]; intro H; [reflexivity|]. inversion H as [|? ? Hc Hr]; subst.
  cbn [upto_last_paren]. rewrite (IH Hr), Hc. reflexivity.
Qed.

Lemma upto_last_paren_close : forall x r, no_paren r -> upto_last_paren (x ++ t ")" ++ r) = Some x.
Proof.
  induction x as [|c x IH]; intros r H.
  - cbn [app t list_ascii_of_string upto_last_paren]. rewrite (upto_last_paren_none r H). reflexivity.
  - cbn [app upto_last_paren]. rewrite (IH r H). reflexivity.
Qed.

Lemma close_last_nonnil : forall nums, nums <> [] -> close_last nums <> [].
Proof. intros [|x [|y r]] H; [congruence|discriminate|discriminate]. Qed.

Lemma join_close_last : forall nums, nums <> [] -> join_sp (close_last nums) = join_sp nums ++ t ")".
Proof.
  induction nums as [|x nums IH]; intro H; [congruence|]. destruct nums as [|y nums]; [reflexivity|].
  change (close_last (x :: y :: nums)) with (x :: close_last (y :: nums)).
  rewrite join_sp_cons by (apply close_last_nonnil; discriminate).
  rewrite IH by discriminate. rewrite (join_sp_cons x (y :: nums)) by discriminate.
  rewrite <- app_assoc. reflexivity.
Qed.

Lemma join_sp_app : forall A B : list text, A <> [] -> B <> [] -> join_sp (A ++ B) = join_sp A ++ sp :: join_sp B.
Proof.
  induction A as [|a A IH]; intros B HA HB; [congruence|]. destruct A as [|a' A].
  - cbn [app]. apply join_sp_cons, HB.
  - change ((a :: a' :: A) ++ B) with (a :: ((a' :: A) ++ B)).
    rewrite join_sp_cons by discriminate. rewrite IH by (discriminate || exact HB).
    rewrite (join_sp_cons a (a' :: A)) by discriminate. rewrite <- app_assoc. reflexivity.
Qed.

Lemma join_endpts : forall nums, nums <> [] -> join_sp (endpts_toks nums) = endpts_key ++ join_sp nums ++ t ")".
Proof.
  intros nums H. unfold endpts_toks. rewrite <- (join_close_last nums H).
  destruct (close_last nums) as [|x r] eqn:E; [exfalso; exact (close_last_nonnil nums H E)|].
  destruct r as [|y r]; [reflexivity|].
  rewrite !join_sp_cons by discriminate. rewrite <- app_assoc. reflexivity.
Qed.

Lemma endpts_toks_nonnil : forall nums, nums <> [] -> endpts_toks nums <> [].
Proof.
  intros nums H. unfold endpts_toks.
  destruct (close_last nums) eqn:E; [exfalso; exact (close_last_nonnil nums H E)|discriminate].
Qed.

Lemma no_paren_app : forall a b, no_paren a -> no_paren b -> no_paren (a ++ b).
Proof. intros a b Ha Hb. apply Forall_app. split; assumption. Qed.

Lemma no_paren_join : forall l, Forall no_paren l -> no_paren (join_sp l).
Proof.
  induction l as [|a l IH]; intro H; [constructor|]. inversion H as [|? ? Ha Hl]; subst.
  destruct l as [|b l]; [exact Ha|]. rewrite join_sp_cons by discriminate.
  apply no_paren_app; [exact Ha|]. constructor; [reflexivity|apply IH, Hl].
Qed.

(* str.split(): the fields of a blank-separated list of tokens *)
Lemma split_ws_tok_sp : forall tok rest, good_tok tok -> split_ws (tok ++ sp :: rest) = tok :: split_ws rest.
Proof.
  intros tok rest [Hne Hsf]. unfold split_ws, split_on.
  rewrite (split_on_aux_tok _ _ [] (sp :: rest) Hsf).
  cbn [split_on_aux]. rewrite is_space_sp, app_nil_r, rev_involutive.
  cbn [filter]. rewrite (nonempty_true tok Hne). reflexivity.
Qed.

Lemma split_ws_tok : forall tok, good_tok tok -> split_ws tok = [tok].
Proof.
  intros tok [Hne Hsf]. unfold split_ws, split_on.
  rewrite <- (app_nil_r tok) at 1.
  rewrite (split_on_aux_tok _ _ [] [] Hsf).
  cbn [split_on_aux]. rewrite app_nil_r, rev_involutive.
  cbn [filter]. rewrite (nonempty_true tok Hne). reflexivity.
Qed.

Lemma split_ws_join : forall l, Forall good_tok l -> split_ws (join_sp l) = l.
Proof.
  induction l as [|a l IH]; intro H; [reflexivity|]. inversion H as [|? ? Ha Hl]; subst.
  destruct l as [|b l]; [apply split_ws_tok, Ha|].
  rewrite join_sp_cons by discriminate. rewrite (split_ws_tok_sp _ _ Ha), (IH Hl). reflexivity.
Qed.

Lemma ints_of_tZ : forall zs, ints_of (map tZ zs) = ok zs.
Proof.
  induction zs as [|z zs IH]; [reflexivity|]. cbn [map ints_of]. rewrite int_of_tZ. cbn [bind ok].
  rewrite IH. reflexivity.
Qed.

Theorem star_endpoints_render : forall before zs after start,
  Forall no_endpts before -> Forall no_paren after ->
  star_endpoints (before ++ endpts_toks (map tZ (Z.of_nat (length zs) :: zs)) ++ after) start
  = ok (map (fun e => (start, (e - 1)%Z)) zs).
Proof.
  intros before zs after start Hb Ha. unfold star_endpoints. change (t "ENDPTS=(") with endpts_key.
  set (nums := map tZ (Z.of_nat (length zs) :: zs)).
  assert (Hn : nums <> []) by discriminate.
  assert (Hg : Forall good_tok nums) by (apply Forall_map, Forall_forall; intros z _; apply tZ_good).
  destruct (endpts_toks nums ++ after) as [|x more] eqn:E.
  { exfalso. apply app_eq_nil in E. exact (endpts_toks_nonnil nums Hn (proj1 E)). }
  rewrite (find_sub_join_skip before x more Hb), <- E.
  assert (J : exists r, no_paren r /\ join_sp (endpts_toks nums ++ after) = endpts_key ++ join_sp nums ++ t ")" ++ r).
  { destruct after as [|a after].
    - exists []. split; [constructor|]. rewrite !app_nil_r. apply join_endpts, Hn.
    - exists (sp :: join_sp (a :: after)). split.
      + constructor; [reflexivity|apply no_paren_join, Ha].
      + rewrite join_sp_app by (try discriminate; apply endpts_toks_nonnil, Hn).
        rewrite (join_endpts nums Hn), <- !app_assoc. reflexivity. }
  destruct J as [r [Hr ->]].
  rewrite (find_sub_here _ _ endpts_key_nonnil), (upto_last_paren_close _ _ Hr).
  destruct (join_sp nums) as [|c inner] eqn:Ej.
  { exfalso. unfold nums in Ej. cbn [map] in Ej.
    destruct (tZ_good (Z.of_nat (length zs))) as [Hne _].
    destruct (tZ (Z.of_nat (length zs))) as [|c0 r0]; [congruence|].
    destruct (map tZ zs); discriminate Ej. }
  rewrite <- Ej, (split_ws_join nums Hg). unfold nums. rewrite ints_of_tZ. cbn [bind ok].
  rewrite Z.eqb_refl. reflexivity.
Qed.

(* tokens that cannot contain "ENDPTS=(": numerals *)
Lemma find_sub_no_E : forall l, Forall (fun c => ascii_eqb "E" c = false) l -> no_endpts l.
Proof.
  unfold no_endpts. induction l as [|c l IH]; intro H; [reflexivity|]. inversion H as [|? ? Hc Hl]; subst.
  rewrite find_sub_cons. unfold endpts_key at 1. cbn [t list_ascii_of_string strip_prefix_b].
  rewrite Hc. apply IH, Hl.
Qed.

Lemma numchar_not_E : forall c, numchar c = true -> ascii_eqb "E" c = false.
Proof.
  intros [b0 b1 b2 b3 b4 b5 b6 b7];
    destruct b0, b1, b2, b3, b4, b5, b6, b7; vm_compute; intro H; try reflexivity; discriminate H.
Qed.

Lemma tZ_no_endpts : forall z, no_endpts (tZ z).
Proof.
  intro z. apply find_sub_no_E. unfold tZ. destruct (text_of_Z_shape z) as [ds [_ [Hd [-> | ->]]]].
  - eapply Forall_impl; [|exact Hd]. intros c Hc. apply numchar_not_E, is_digit_numchar, Hc.
  - constructor; [reflexivity|]. eapply Forall_impl; [|exact Hd].
    intros c Hc. apply numchar_not_E, is_digit_numchar, Hc.
Qed.

(* ------------------------------------------------------------------------------------ *)
(* 9. the bond block                                                                      *)
(* ------------------------------------------------------------------------------------ *)

Lemma NoDup_app_left : forall (A : Type) (a b : list A), NoDup (a ++ b) -> NoDup a.
Proof.
  intros A a. induction a as [|x a IH]; intros b H; [constructor|].
  cbn [app] in H. inversion H as [|? ? Hx Ha]; subst. constructor.
  - intro Hin. apply Hx, in_or_app. left. exact Hin.
  - apply (IH b), Ha.
Qed.

Lemma fold_dict_fresh : forall (ty : Z) (tuples : list (Z * Z)) (acc : list (Z * Z * Z)),
  NoDup (map fst acc ++ tuples) ->
  fold_left (fun d k => dict_set bkey_eqb k ty d) tuples acc = acc ++ map (fun k => (k, ty)) tuples.
Proof.
  intros ty tuples. induction tuples as [|k tuples IH]; intros acc H.
  - cbn [fold_left map]. rewrite app_nil_r. reflexivity.
  - cbn [fold_left map]. rewrite (dict_set_fresh _ _ bkey_eqb k ty acc bkey_eqb_eq).
    + rewrite IH; [rewrite <- app_assoc; reflexivity|]. rewrite map_app, <- app_assoc. exact H.
    + intro Hin. apply NoDup_remove_2 in H. apply H, in_or_app. left. exact Hin.
Qed.

(* which of the two atom fields of a bond line names a star atom *)
Definition bond_mem (St : list Z) (I : nat -> Z) (b : bondM) : Prop :=
  match b with
  | Bond _ u v => memZ (I u - 1) St = false /\ memZ (I v - 1) St = false
  | StarBond _ s w _ => memZ (I s - 1) St = true /\ memZ (I w - 1) St = false
  end.

Lemma M_no_endpts : no_endpts (t "M").
Proof. reflexivity. Qed.
Lemma V30_no_endpts : no_endpts (t "V30").
Proof. reflexivity. Qed.

Lemma star_line_endpoints : forall I c ty s w es start,
  bond_okC I c (StarBond ty s w es) ->
  star_endpoints (tokl (bond_toks_of I c (StarBond ty s w es))) start
  = ok (map (fun e => (start, (I e - 1)%Z)) es).
Proof.
  intros I c ty s w es start [Hn [He [Ha [_ [Hnn [Hne Hnp]]]]]].
  unfold bond_toks_of.
  set (four := if bc_star_first c then [bc_num c; tZ ty; tZ (I s); tZ (I w)] else [bc_num c; tZ ty; tZ (I w); tZ (I s)]).
  assert (Hf : Forall no_endpts four).
  { unfold four. destruct (bc_star_first c);
      repeat (apply Forall_cons; [first [exact Hnn|apply tZ_no_endpts]|]); apply Forall_nil. }
  replace (tokl (four ++ bc_extras c ++
                 endpts_toks (tZ (Z.of_nat (length es)) :: map (fun e => tZ (I e)) es) ++ bc_after c))
    with (tokl (four ++ bc_extras c) ++
          endpts_toks (map tZ (Z.of_nat (length (map I es)) :: map I es)) ++ bc_after c).
  - rewrite star_endpoints_render.
    + rewrite map_map. reflexivity.
    + unfold tokl. apply Forall_cons; [exact M_no_endpts|]. apply Forall_cons; [exact V30_no_endpts|].
      apply Forall_app. split; assumption.
    + exact Hnp.
  - unfold tokl. cbn [map app]. rewrite map_length, map_map, <- !app_assoc. reflexivity.
Qed.

Lemma exp_bond_fst : forall I bs,
  map fst (flat_map (exp_bond I) bs)
  = map (fun uv => ((I (fst uv) - 1)%Z, (I (snd uv) - 1)%Z)) (flat_map bond_keys bs).
Proof.
  intros I bs. induction bs as [|b bs IH]; [reflexivity|].
  cbn [flat_map]. rewrite !map_app. f_equal; [|exact IH].
  destruct b as [ty u v|ty s w es]; [reflexivity|].
  cbn [exp_bond bond_keys]. rewrite !map_map. reflexivity.
Qed.

Lemma existsb_selfkey_false : forall tuples : list (Z * Z),
  Forall (fun k => fst k <> snd k) tuples -> existsb (fun k => Z.eqb (fst k) (snd k)) tuples = false.
Proof.
  intros tuples H. induction H as [|k r Hk _ IH]; [reflexivity|]. cbn [existsb]. rewrite IH, orb_false_r.
  apply Z.eqb_neq, Hk.
Qed.

Lemma parse_bonds_render : forall I CB St bs k acc,
  (forall j b, nth_error bs j = Some b -> bond_okC I (CB (k + j)) b /\ bond_mem St I b) ->
  Forall (fun key : Z * Z => fst key <> snd key) (map fst (flat_map (exp_bond I) bs)) ->
  NoDup (map fst acc ++ map fst (flat_map (exp_bond I) bs)) ->
  parse_bonds (map (fun p => tokl (snd p)) (bond_tlines I CB k bs)) St acc
  = ok (acc ++ flat_map (exp_bond I) bs).
Proof.
  intros I CB St bs. induction bs as [|b bs IH]; intros k acc Hc Hnl Hnd.
  - cbn [bond_tlines map parse_bonds flat_map]. rewrite app_nil_r. reflexivity.
  - assert (Hc0 : bond_okC I (CB k) b /\ bond_mem St I b) by (rewrite <- (Nat.add_0_r k); apply Hc; reflexivity).
    assert (Hc' : forall j b', nth_error bs j = Some b' -> bond_okC I (CB (S k + j)) b' /\ bond_mem St I b').
    { intros j b' H. rewrite Nat.add_succ_comm. apply Hc. exact H. }
    destruct Hc0 as [Hok Hmem].
    cbn [flat_map] in Hnl. rewrite map_app in Hnl. apply Forall_app in Hnl. destruct Hnl as [Hnl0 Hnl'].
    cbn [flat_map] in Hnd. rewrite map_app, app_assoc in Hnd.
    cbn [bond_tlines map parse_bonds snd flat_map].
    set (c := CB k) in *.
    destruct b as [ty u v|ty s w es].
    + destruct Hmem as [Hm1 Hm2].
      change (nth_tok 4 (tokl (bond_toks_of I c (Bond ty u v)))) with (ok (tZ (I u))).
      change (nth_tok 5 (tokl (bond_toks_of I c (Bond ty u v)))) with (ok (tZ (I v))).
      change (nth_tok 3 (tokl (bond_toks_of I c (Bond ty u v)))) with (ok (tZ ty)).
      cbn [bind ok]. rewrite !int_of_tZ. cbn [bind ok]. cbv zeta.
      rewrite Hm1, Hm2. cbn [andb bind ok].
      cbn [exp_bond map fst] in Hnl0. rewrite (existsb_selfkey_false _ Hnl0). cbn [fold_left].
      rewrite (dict_set_fresh _ _ bkey_eqb _ ty acc bkey_eqb_eq).
      * rewrite (IH (S k) _ Hc' Hnl').
        -- cbn [exp_bond]. rewrite <- app_assoc. reflexivity.
        -- rewrite map_app. exact Hnd.
      * intro Hin. cbn [exp_bond map fst] in Hnd. rewrite <- app_assoc in Hnd. cbn [app] in Hnd.
        apply NoDup_remove_2 in Hnd. apply Hnd, in_or_app. left. exact Hin.
    + destruct Hmem as [Hm1 Hm2].
      set (L := tokl (bond_toks_of I c (StarBond ty s w es))).
      pose proof (star_line_endpoints I c ty s w es (I w - 1)%Z Hok) as Hse. fold L in Hse.
      assert (E : exists a1 a2,
        nth_tok 4 L = ok (tZ a1) /\ nth_tok 5 L = ok (tZ a2) /\
        ((a1 = I s /\ a2 = I w) \/ (a1 = I w /\ a2 = I s))).
      { unfold L, bond_toks_of. destruct (bc_star_first c).
        - exists (I s), (I w). split; [reflexivity|]. split; [reflexivity|]. left. split; reflexivity.
        - exists (I w), (I s). split; [reflexivity|]. split; [reflexivity|]. right. split; reflexivity. }
      destruct E as [a1 [a2 [E4 [E5 Hor]]]].
      assert (E3 : nth_tok 3 L = ok (tZ ty)).
      { unfold L, bond_toks_of. destruct (bc_star_first c); reflexivity. }
      rewrite E4. cbn [bind ok]. rewrite int_of_tZ. cbn [bind ok].
      rewrite E5. cbn [bind ok]. rewrite int_of_tZ. cbn [bind ok].
      rewrite E3. cbn [bind ok]. rewrite int_of_tZ. cbn [bind ok]. cbv zeta.
      assert (Hnd1 : NoDup (map fst acc ++ map (fun e => ((I w - 1)%Z, (I e - 1)%Z)) es)).
      { cbn [exp_bond] in Hnd. rewrite map_map in Hnd. cbn [fst] in Hnd.
        apply NoDup_app_left in Hnd. exact Hnd. }
      assert (Hnl1 : existsb (fun k0 : Z * Z => Z.eqb (fst k0) (snd k0)) (map (fun e => ((I w - 1)%Z, (I e - 1)%Z)) es) = false).
      { apply existsb_selfkey_false. cbn [exp_bond] in Hnl0. rewrite map_map in Hnl0. cbn [fst] in Hnl0. exact Hnl0. }
      destruct Hor as [[-> ->]|[-> ->]]; rewrite Hm1, Hm2; cbn [andb]; rewrite Hse; cbn [bind ok];
        rewrite Hnl1;
        (rewrite fold_dict_fresh by exact Hnd1);
        (rewrite (IH (S k) _ Hc' Hnl') by (rewrite map_app; cbn [exp_bond] in Hnd; rewrite !map_map in *; cbn [fst] in *; exact Hnd));
        cbn [exp_bond]; rewrite map_map, <- app_assoc; reflexivity.
Qed.

(* ------------------------------------------------------------------------------------ *)
(* 10. the whole file                                                                     *)
(* ------------------------------------------------------------------------------------ *)

Definition line_ok (p : layout * list text) : Prop :=
  Forall good_tok (snd p) /\ nodash (line_text (fst p) (snd p)).

Lemma kw_line_ok : forall ly a b,
  good_tok (t a) -> good_tok (t b) -> nodash (t b) -> line_ok (ly, kw a b).
Proof.
  intros ly a b Ha Hb Hd. assert (G : Forall good_tok (kw a b)) by (apply Forall_cons; [exact Ha|apply Forall_cons; [exact Hb|apply Forall_nil]]).
  split; [exact G|]. apply line_text_nodash; [discriminate|exact G|exact Hd].
Qed.

Lemma good_check : forall s, nonempty s && forallb (fun c => negb (is_space c)) s = true -> good_tok s.
Proof.
  intros s H. apply andb_true_iff in H. destruct H as [Hn Hs]. split.
  - destruct s; [discriminate Hn|discriminate].
  - apply Forall_forall. intros c Hc. rewrite forallb_forall in Hs. apply negb_true_iff, Hs, Hc.
Qed.

Lemma endpts_toks_good : forall nums, Forall good_tok nums -> Forall good_tok (endpts_toks nums).
Proof.
  intros nums H.
  assert (Hc : Forall good_tok (close_last nums)).
  { induction nums as [|x nums IH]; [constructor|]. inversion H as [|? ? Hx Hn]; subst.
    destruct nums as [|y nums].
    - constructor; [|constructor]. destruct Hx as [Hne Hsf]. split.
      + destruct x; [congruence|discriminate].
      + apply spacefree_app; [exact Hsf|repeat constructor].
    - change (close_last (x :: y :: nums)) with (x :: close_last (y :: nums)).
      constructor; [exact Hx|apply IH, Hn]. }
  unfold endpts_toks. destruct (close_last nums) as [|x r]; [constructor|].
  inversion Hc as [|? ? [Hne Hsf] Hr]; subst. constructor; [|exact Hr]. split.
  - discriminate.
  - apply spacefree_app; [repeat constructor|exact Hsf].
Qed.

Lemma bond_toks_good : forall I c b, bond_okC I c b -> Forall good_tok (bond_toks_of I c b).
Proof.
  intros I c b [Hn [He [Ha _]]]. destruct b as [ty u v|ty s w es]; unfold bond_toks_of.
  - repeat (apply Forall_app; split); try assumption.
    repeat (apply Forall_cons; [first [exact Hn|apply tZ_good]|]). apply Forall_nil.
  - repeat (apply Forall_app; split); try assumption.
    + destruct (bc_star_first c); repeat (apply Forall_cons; [first [exact Hn|apply tZ_good]|]); apply Forall_nil.
    + apply endpts_toks_good. apply Forall_cons; [apply tZ_good|].
      apply Forall_map, Forall_forall. intros e _. apply tZ_good.
Qed.

Lemma entry_tlines_ok : forall C es k,
  Forall entry_okM es -> (forall j e, nth_error es j = Some e -> entry_okC (C (k + j)) e) ->
  Forall line_ok (entry_tlines C k es).
Proof.
  intros C es. induction es as [|e es IH]; intros k Hm Hc; [constructor|].
  inversion Hm as [|? ? He Hes]; subst.
  assert (Hc0 : entry_okC (C k) e) by (rewrite <- (Nat.add_0_r k); apply Hc; reflexivity).
  cbn [entry_tlines]. constructor.
  - split; [apply entry_toks_good; assumption|apply Hc0].
  - apply IH; [exact Hes|]. intros j e' H. rewrite Nat.add_succ_comm. apply Hc. exact H.
Qed.

Lemma bond_tlines_ok : forall I CB bs k,
  (forall j b, nth_error bs j = Some b -> bond_okC I (CB (k + j)) b) ->
  Forall line_ok (bond_tlines I CB k bs).
Proof.
  intros I CB bs. induction bs as [|b bs IH]; intros k Hc; [constructor|].
  assert (Hc0 : bond_okC I (CB k) b) by (rewrite <- (Nat.add_0_r k); apply Hc; reflexivity).
  cbn [bond_tlines]. constructor.
  - split; [apply bond_toks_good, Hc0|apply Hc0].
  - apply IH. intros j b' H. rewrite Nat.add_succ_comm. apply Hc. exact H.
Qed.

Lemma entry_tlines_length : forall C es k, length (entry_tlines C k es) = length es.
Proof. intros C es. induction es as [|e es IH]; intro k; [reflexivity|]. cbn [entry_tlines length]. rewrite IH. reflexivity. Qed.
Lemma bond_tlines_length : forall I CB bs k, length (bond_tlines I CB k bs) = length bs.
Proof. intros I CB bs. induction bs as [|b bs IH]; intro k; [reflexivity|]. cbn [bond_tlines length]. rewrite IH. reflexivity. Qed.

Lemma tlines_ok : forall M ch, okM M -> okch M ch -> Forall line_ok (tlines M ch).
Proof.
  intros M ch [Hent Hbonds Hkeys] [Hidx [Hcg Hcd] Hce Hcb Htr]. unfold tlines.
  repeat (apply Forall_app; split).
  - apply Forall_cons; [apply kw_line_ok; [apply good_check; reflexivity..|reflexivity]|].
    apply Forall_cons; [|apply Forall_cons; [apply kw_line_ok; [apply good_check; reflexivity..|reflexivity]|apply Forall_nil]].
    split; [|exact Hcd]. cbn [snd]. unfold counts_toks. apply Forall_app. split; [|exact Hcg].
    apply Forall_cons; [apply good_check; reflexivity|].
    apply Forall_cons; [apply tN_good|]. apply Forall_cons; [apply tN_good|apply Forall_nil].
  - apply entry_tlines_ok; [exact Hent|]. intros j e H. apply Hce, H.
  - apply Forall_cons; [apply kw_line_ok; [apply good_check; reflexivity..|reflexivity]|apply Forall_nil].
  - destruct (m_bonds M) as [|b bs] eqn:Eb; [constructor|].
    repeat (apply Forall_app; split).
    + apply Forall_cons; [apply kw_line_ok; [apply good_check; reflexivity..|reflexivity]|apply Forall_nil].
    + apply bond_tlines_ok. intros j b' H. apply Hcb, H.
    + apply Forall_cons; [apply kw_line_ok; [apply good_check; reflexivity..|reflexivity]|apply Forall_nil].
Qed.

(* the reader's token lines: the splice loop restores every logical line, the tokeniser drops the
   blank runs *)
Theorem tokenize_lines_render : forall M ch, okM M -> okch M ch ->
  tokenize_lines (render3000 M ch)
  = ok (map tokenize [ch_h1 ch; ch_h2 ch; ch_h3 ch; ch_h4 ch]
        ++ map (fun p => tokl (snd p)) (tlines M ch)
        ++ map tokenize (map logical (ch_trailer ch))).
Proof.
  intros M ch HM Hch. pose proof (tlines_ok M ch HM Hch) as Hl. unfold render3000.
  rewrite (tokenize_lines_block [ch_h1 ch; ch_h2 ch; ch_h3 ch; ch_h4 ch] _ (map logical (body M ch)) eq_refl).
  - f_equal. rewrite map_app. f_equal. unfold body. rewrite !map_app. f_equal.
    rewrite !map_map. apply map_ext_in. intros p Hp. cbn [v30l logical].
    rewrite Forall_forall in Hl. apply tokenize_v30_line, (Hl p Hp).
  - apply cd_block_plines. unfold body. apply Forall_app. split; [|apply (oc_trailer _ _ Hch)].
    apply Forall_map. eapply Forall_impl; [|exact Hl]. intros p [_ Hd]. exact Hd.
Qed.

Lemma rbond_eta : forall l : list rbond, map (fun b => (fst (fst b), snd (fst b), snd b)) l = l.
Proof. induction l as [|[[a b] c] l IH]; [reflexivity|]. cbn [map fst snd]. rewrite IH. reflexivity. Qed.

Lemma bond_keys_atoms : forall M bs u v,
  Forall (bond_okM M) bs -> In (u, v) (flat_map bond_keys bs) -> is_atom M u /\ is_atom M v.
Proof.
  intros M bs u v H Hin. apply in_flat_map in Hin. destruct Hin as [b [Hb Hk]].
  rewrite Forall_forall in H. specialize (H b Hb). destruct b as [ty u' v'|ty s w es]; cbn [bond_okM bond_keys] in *.
  - destruct Hk as [E|[]]. injection E as <- <-. exact H.
  - apply in_map_iff in Hk. destruct Hk as [e [E He]]. injection E as <- <-.
    destruct H as [_ [Hw Hes]]. split; [exact Hw|]. rewrite Forall_forall in Hes. apply Hes, He.
Qed.

Theorem read_v3000_render : forall M ch, okM M -> okch M ch ->
  read_v3000 (render3000 M ch) = ok (expected (ch_index ch) M).
Proof.
  intros M ch HM Hch. unfold read_v3000. rewrite (tokenize_lines_render M ch HM Hch). cbn [bind ok].
  destruct HM as [Hent Hbonds Hkeys Hnoloop]. destruct Hch as [Hidx [Hcg Hcd] Hce Hcb Htr].
  set (I := ch_index ch) in *.
  set (n := length (m_entries M)) in *.
  set (TT := map tokenize (map logical (ch_trailer ch))).
  set (A := map (fun p => tokl (snd p)) (entry_tlines (ch_entry ch) 0 (m_entries M))).
  assert (HA : length A = n) by (unfold A; rewrite map_length; apply entry_tlines_length).
  set (BB := map (fun p : layout * list text => tokl (snd p))
                 (match m_bonds M with
                  | [] => []
                  | _ :: _ => [(ch_begin_bond ch, kw "BEGIN" "BOND")]
                              ++ bond_tlines I (ch_bond ch) 0 (m_bonds M)
                              ++ [(ch_end_bond ch, kw "END" "BOND")]
                  end)).
  set (pre := [tokenize (ch_h1 ch); tokenize (ch_h2 ch); tokenize (ch_h3 ch); tokenize (ch_h4 ch);
               tokl (kw "BEGIN" "CTAB"); tokl (counts_toks M ch); tokl (kw "BEGIN" "ATOM")]).
  set (R := tokl (kw "END" "ATOM") :: BB ++ TT).
  assert (HTL : map tokenize [ch_h1 ch; ch_h2 ch; ch_h3 ch; ch_h4 ch]
                ++ map (fun p => tokl (snd p)) (tlines M ch) ++ TT = pre ++ A ++ R).
  { unfold tlines, pre, A, R, BB. fold I. rewrite !map_app. cbn [map app snd]. rewrite <- !app_assoc. reflexivity. }
  rewrite HTL. set (TL := pre ++ A ++ R).
  (* counts line *)
  change (nth_line 5 TL) with (ok (tokl (counts_toks M ch))). cbn [bind ok].
  change (nth_tok 2 (tokl (counts_toks M ch))) with (ok (t "COUNTS")). cbn [bind ok].
  change (text_eqb (t "COUNTS") (t "COUNTS")) with true.
  change (Nat.ltb (length (tokl (counts_toks M ch))) 5) with false. cbn [negb orb].
  change (nth_tok 3 (tokl (counts_toks M ch))) with (ok (tN (N.of_nat n))). cbn [bind ok].
  rewrite int_of_tN. cbn [bind ok]. rewrite to_nat_idx_of_nat. cbn [bind ok].
  (* atom block *)
  change (nth_line 6 TL) with (ok (tokl (kw "BEGIN" "ATOM"))). cbn [bind ok].
  change (expect_block (t "BEGIN ATOM") (tokl (kw "BEGIN" "ATOM"))) with (ok tt). cbn [bind ok].
  assert (Hea : nth_line (7 + n) TL = ok (tokl (kw "END" "ATOM"))).
  { unfold TL. rewrite (nth_line_app pre (A ++ R) n) by reflexivity.
    rewrite (nth_line_app A R 0) by lia. reflexivity. }
  rewrite Hea. cbn [bind ok].
  change (expect_block (t "END ATOM") (tokl (kw "END" "ATOM"))) with (ok tt). cbn [bind ok].
  assert (Hta : take_lines 7 n TL = A) by (unfold TL; apply take_lines_app; [reflexivity|lia]).
  rewrite Hta. unfold A.
  rewrite (parse_atoms_render (ch_entry ch) (m_entries M) 0 [] [] Hent).
  2:{ intros j e H. apply Hce, H. }
  2:{ cbn [map app]. fold n.
      replace (map (fun p => (ec_idx (ch_entry ch p) - 1)%Z) (seq 0 n))
        with (map (fun z => (z - 1)%Z) (map I (seq 0 n))) by (rewrite map_map; reflexivity).
      apply FinFun.Injective_map_NoDup; [|exact Hidx]. intros a b E. lia. }
  cbn [bind ok app].
  change (fun p => ec_idx (ch_entry ch p)) with I.
  set (atoms' := exp_keyed I 0 (m_entries M)).
  set (St := exp_stars I 0 (m_entries M)).
  (* bond block *)
  change (nth_tok 4 (tokl (counts_toks M ch))) with (ok (tN (N.of_nat (length (m_bonds M))))). cbn [bind ok].
  rewrite int_of_tN. cbn [bind ok].
  assert (Hres : map snd atoms' = exp_atoms I 0 (m_entries M)) by apply exp_keyed_snd.
  unfold expected.
  destruct (m_bonds M) as [|b bs] eqn:Eb.
  - cbn [length N.of_nat Z.of_N Z.eqb bind ok forallb map flat_map]. rewrite Hres. reflexivity.
  - set (k := length (b :: bs)).
    replace (Z.eqb (Z.of_N (N.of_nat k)) 0) with false by (symmetry; apply Z.eqb_neq; unfold k; cbn [length]; lia).
    rewrite to_nat_idx_of_nat. cbn [bind ok].
    set (B := map (fun p : layout * list text => tokl (snd p)) (bond_tlines I (ch_bond ch) 0 (b :: bs))).
    assert (HB : length B = k) by (unfold B, k; rewrite map_length; apply bond_tlines_length).
    assert (HR : R = [tokl (kw "END" "ATOM"); tokl (kw "BEGIN" "BOND")] ++ B ++ (tokl (kw "END" "BOND") :: TT)).
    { unfold R, BB, B. rewrite !map_app. cbn [map app snd]. rewrite <- !app_assoc. reflexivity. }
    assert (Hbb : nth_line (7 + n + 2 - 1) TL = ok (tokl (kw "BEGIN" "BOND"))).
    { unfold TL. rewrite (nth_line_app pre (A ++ R) (n + 1)) by (unfold pre; cbn [length]; lia).
      rewrite (nth_line_app A R 1) by lia. rewrite HR. reflexivity. }
    rewrite Hbb. cbn [bind ok].
    change (expect_block (t "BEGIN BOND") (tokl (kw "BEGIN" "BOND"))) with (ok tt). cbn [bind ok].
    assert (Heb : nth_line (7 + n + 2 + k) TL = ok (tokl (kw "END" "BOND"))).
    { unfold TL. rewrite (nth_line_app pre (A ++ R) (n + (2 + k))) by (unfold pre; cbn [length]; lia).
      rewrite (nth_line_app A R (2 + k)) by lia. rewrite HR.
      rewrite (nth_line_app [tokl (kw "END" "ATOM"); tokl (kw "BEGIN" "BOND")] _ k) by reflexivity.
      rewrite (nth_line_app B _ 0) by lia. reflexivity. }
    rewrite Heb. cbn [bind ok].
    change (expect_block (t "END BOND") (tokl (kw "END" "BOND"))) with (ok tt). cbn [bind ok].
    assert (Htb : take_lines (7 + n + 2) k TL = B).
    { unfold TL. rewrite HR.
      replace (pre ++ A ++ [tokl (kw "END" "ATOM"); tokl (kw "BEGIN" "BOND")] ++ B ++ (tokl (kw "END" "BOND") :: TT))
        with ((pre ++ A ++ [tokl (kw "END" "ATOM"); tokl (kw "BEGIN" "BOND")]) ++ B ++ (tokl (kw "END" "BOND") :: TT))
        by (rewrite <- !app_assoc; reflexivity).
      apply take_lines_app; [|lia]. rewrite !app_length. unfold pre. cbn [length]. lia. }
    rewrite Htb. unfold B.
    assert (Hkeys' : NoDup (map fst (flat_map (exp_bond I) (b :: bs)))).
    { rewrite exp_bond_fst. apply NoDup_map_in; [|exact Hkeys].
      intros [u v] [u' v'] Hx Hy E. cbn [fst snd] in E. injection E as E1 E2.
      destruct (bond_keys_atoms M _ u v Hbonds Hx) as [Hu Hv].
      destruct (bond_keys_atoms M _ u' v' Hbonds Hy) as [Hu' Hv'].
      f_equal; apply (index_inj I n _ _ Hidx); try (apply is_atom_lt; assumption); lia. }
    rewrite (parse_bonds_render I (ch_bond ch) St (b :: bs) 0 []).
    2:{ intros j b' H. cbn [plus]. split; [apply Hcb, H|].
        assert (Hb' : bond_okM M b').
        { rewrite Forall_forall in Hbonds. apply Hbonds. apply nth_error_In with j. exact H. }
        destruct b' as [ty u v|ty s w es]; cbn [bond_mem bond_okM] in *.
        - destruct Hb' as [Hu Hv]. split; apply memZ_not_in, (atom_key_not_star M I Hidx); assumption.
        - destruct Hb' as [Hs [Hw _]]. split.
          + apply memZ_in, star_key_in, Hs.
          + apply memZ_not_in, (atom_key_not_star M I Hidx), Hw. }
    2:{ rewrite exp_bond_fst. apply Forall_forall. intros key Hkey. apply in_map_iff in Hkey.
        destruct Hkey as [[u v] [<- Huv]]. cbn [fst snd]. intros E.
        destruct (bond_keys_atoms M _ u v Hbonds Huv) as [Hu Hv].
        assert (u = v) by (apply (index_inj I n _ _ Hidx); try (apply is_atom_lt; assumption); lia).
        subst v. exact (Hnoloop u Huv). }
    2:{ cbn [map app]. exact Hkeys'. }
    cbn [bind ok app].
    set (bonds' := flat_map (exp_bond I) (b :: bs)).
    assert (Hchk : forallb (fun b0 : Z * Z * Z =>
                     memZ (fst (fst b0)) (map fst atoms') && memZ (snd (fst b0)) (map fst atoms')) bonds' = true).
    { apply forallb_forall. intros x Hx.
      assert (Hk : In (fst x) (map fst bonds')) by (apply in_map, Hx).
      unfold bonds' in Hk. rewrite exp_bond_fst in Hk. apply in_map_iff in Hk.
      destruct Hk as [[u v] [E Huv]]. destruct (bond_keys_atoms M _ u v Hbonds Huv) as [Hu Hv].
      rewrite <- E. cbn [fst snd].
      rewrite !memZ_in; [reflexivity| |]; apply atom_key_in; assumption. }
    rewrite Hchk, Hres, rbond_eta. reflexivity.
Qed.

(* ------------------------------------------------------------------------------------ *)
(* 11. corollaries: the result depends on the choices through the atom indices only       *)
(* ------------------------------------------------------------------------------------ *)

Lemma exp_atoms_ext : forall I J es k,
  (forall p, k <= p < k + length es -> I p = J p) -> exp_atoms I k es = exp_atoms J k es.
Proof.
  intros I J es. induction es as [|[a|] es IH]; intros k H; [reflexivity| |]; cbn [exp_atoms length] in *.
  - rewrite (H k) by lia. f_equal. apply IH. intros p Hp. apply H. lia.
  - apply IH. intros p Hp. apply H. lia.
Qed.

Lemma exp_bond_ext : forall M I J b,
  bond_okM M b -> (forall p, p < length (m_entries M) -> I p = J p) -> exp_bond I b = exp_bond J b.
Proof.
  intros M I J b Hb H. destruct b as [ty u v|ty s w es]; cbn [bond_okM exp_bond] in *.
  - destruct Hb as [Hu Hv]. rewrite (H u), (H v) by (apply is_atom_lt; assumption). reflexivity.
  - destruct Hb as [_ [Hw Hes]]. rewrite (H w) by (apply is_atom_lt; assumption).
    apply map_ext_in. intros e He. rewrite Forall_forall in Hes. rewrite (H e) by (apply is_atom_lt, Hes, He).
    reflexivity.
Qed.

Lemma expected_ext : forall M I J, okM M ->
  (forall p, p < length (m_entries M) -> I p = J p) -> expected I M = expected J M.
Proof.
  intros M I J HM H. unfold expected. f_equal.
  - apply exp_atoms_ext. intros p Hp. apply H. lia.
  - pose proof (om_bonds _ HM) as Hb. induction (m_bonds M) as [|b bs IH]; [reflexivity|].
    inversion Hb; subst. cbn [flat_map]. f_equal; [apply (exp_bond_ext M); assumption|apply IH; assumption].
Qed.

(* two renderings of the same molecule that agree on the atom indices are read alike, whatever
   their blank runs, continuation splits, property order, explicit defaults, foreign keywords,
   header and trailer lines, bond numbers, star bond orientations *)
Theorem render_choice_independent : forall M ch1 ch2,
  okM M -> okch M ch1 -> okch M ch2 ->
  (forall p, p < length (m_entries M) -> ch_index ch1 p = ch_index ch2 p) ->
  read_v3000 (render3000 M ch1) = read_v3000 (render3000 M ch2).
Proof.
  intros M ch1 ch2 HM H1 H2 HI.
  rewrite (read_v3000_render M ch1 HM H1), (read_v3000_render M ch2 HM H2), (expected_ext M _ _ HM HI).
  reflexivity.
Qed.

(* explicit defaults, at the level of the file: removing every CHG=0 / RAD=0 / MASS=0 token from
   every atom line.  The shortened lines must still not end in a dash (a line "... X- MASS=0" would
   become a continuation line): that is the only side condition. *)
Definition drop_defaults_ch (M : molM) (ch : choices) : choices :=
  mkChoices (ch_h1 ch) (ch_h2 ch) (ch_h3 ch) (ch_h4 ch) (ch_ctab ch) (ch_counts ch) (ch_counts_extra ch)
    (ch_begin_atom ch) (ch_end_atom ch) (ch_begin_bond ch) (ch_end_bond ch)
    (fun p => match nth_error (m_entries M) p with
              | Some (Some a) => drop_defaults a (ch_entry ch p)
              | _ => ch_entry ch p
              end)
    (ch_bond ch) (ch_trailer ch).

Lemma drop_defaults_index : forall M ch p, ch_index (drop_defaults_ch M ch) p = ch_index ch p.
Proof.
  intros M ch p. unfold ch_index, drop_defaults_ch. cbn [ch_entry].
  destruct (nth_error (m_entries M) p) as [[a|]|]; reflexivity.
Qed.

Lemma bond_toks_of_ext : forall I J c b, (forall p, I p = J p) -> bond_toks_of I c b = bond_toks_of J c b.
Proof.
  intros I J c b H. destruct b as [ty u v|ty s w es]; unfold bond_toks_of.
  - rewrite (H u), (H v). reflexivity.
  - rewrite (H s), (H w). rewrite (map_ext (fun e => tZ (I e)) (fun e => tZ (J e))); [reflexivity|].
    intro e. rewrite (H e). reflexivity.
Qed.

Lemma okch_drop_defaults : forall M ch, okch M ch ->
  (forall p a, nth_error (m_entries M) p = Some (Some a) ->
     nodash (line_text (ec_ly (ch_entry ch p)) (entry_toks (drop_defaults a (ch_entry ch p)) (Some a)))) ->
  okch M (drop_defaults_ch M ch).
Proof.
  intros M ch [Hidx Hcnt Hce Hcb Htr] Hd. constructor.
  - erewrite map_ext; [exact Hidx|]. intro p. apply drop_defaults_index.
  - exact Hcnt.
  - intros p e H. specialize (Hce p e H). unfold drop_defaults_ch. cbn [ch_entry]. rewrite H.
    destruct e as [a|]; [|exact Hce].
    pose proof (stated_ok_drop _ a (entry_okC_stated _ a Hce)) as [Ht [Ha [Hc [Hr Hm]]]].
    split; [exact Ht|]. split; [exact (Hd p a H)|]. exact (conj Ha (conj Hc (conj Hr Hm))).
  - intros q b H. specialize (Hcb q b H). unfold bond_okC in *.
    rewrite (bond_toks_of_ext _ (ch_index ch) _ _ (drop_defaults_index M ch)). exact Hcb.
  - exact Htr.
Qed.

Theorem explicit_defaults_file : forall M ch, okM M -> okch M ch ->
  (forall p a, nth_error (m_entries M) p = Some (Some a) ->
     nodash (line_text (ec_ly (ch_entry ch p)) (entry_toks (drop_defaults a (ch_entry ch p)) (Some a)))) ->
  read_v3000 (render3000 M (drop_defaults_ch M ch)) = read_v3000 (render3000 M ch).
Proof.
  intros M ch HM Hch Hd. apply render_choice_independent; [exact HM|apply okch_drop_defaults; assumption|exact Hch|].
  intros p _. apply drop_defaults_index.
Qed.

(* sufficient for the "does not end in a dash" conditions of okch: the last token does not *)
Lemma entry_nodash_last : forall c e,
  entry_okM e -> tail_ok (ec_tail c) -> (match e with Some _ => good_tok (ec_aamap c) | None => True end) ->
  nodash (last (entry_toks c e) []) -> nodash (line_text (ec_ly c) (entry_toks c e)).
Proof.
  intros c e He Ht Ha Hl. apply line_text_nodash; [destruct e; discriminate| |exact Hl].
  destruct e as [a|]; unfold entry_toks.
  - destruct He as [Hs [Gx _] [Gy _] [Gz _]].
    apply Forall_app. split; [|apply tail_good, Ht].
    repeat (apply Forall_cons; [first [apply tZ_good|assumption|idtac]|]); [|apply Forall_nil].
    apply (sF_good _ (sym_ok_facts a Hs)).
  - apply Forall_app. split; [|apply tail_good, Ht].
    apply Forall_cons; [apply tZ_good|]. apply Forall_cons; [exact good_star|apply Forall_nil].
Qed.

(* ------------------------------------------------------------------------------------ *)
(* 12. non-vacuity: a molecule and a rendering that uses every freedom                    *)
(* ------------------------------------------------------------------------------------ *)

Definition exM : molM :=
  mkMolM [Some (mkAtomM (t "N") 1 0 0 (t "1.25") (t "-0.5") (t "0"));
          Some (mkAtomM (t "D") 0 0 0 (t "0.0") (t "1e-3") (t ".5"));
          Some (mkAtomM (t "C") 0 2 13 (t "-1.0000") (t "2") (t "0.0"));
          None]
         [Bond 1 0 1; Bond 2 2 0; StarBond 1 3 1 [0; 2]].

Definition ex_ch : choices :=
  mkChoices (t "example") (t "  TUCAN  0930262000") [] (t "  0  0  0     0  0            999 V3000")
    (mkLayout 0 [2] 1 [3])                                        (* BEGIN CTAB, cut after "BEG" *)
    (mkLayout 1 [0; 3] 0 []) [t "0"; t "0"; t "1"]                (* COUNTS 4 3 0 0 1 *)
    (mkLayout 0 [] 0 []) (mkLayout 3 [1] 2 [0; 4]) (mkLayout 0 [] 0 [5; 100]) (mkLayout 0 [0] 0 [])
    (fun p => match p with
       | 0 => mkEntryC 7 (mkLayout 2 [1; 0; 2] 3 [10; 0; 25]) (t "0")
                       [PExtra (t "EXACHG=1"); PMass; PChg; PExtra (t "CFG=2")]
       | 1 => mkEntryC 3 (mkLayout 0 [] 0 []) (t "0") [PRad]
       | 2 => mkEntryC 12 (mkLayout 0 [4] 0 [31]) (t "5") [PRad; PExtra (t "VAL=3"); PMass; PChg; PRad]
       | _ => mkEntryC 5 (mkLayout 0 [] 1 [2]) (t "0") [PExtra (t "0"); PExtra (t "0"); PExtra (t "0"); PExtra (t "0")]
       end)
    (fun q => match q with
       | 0 => mkBondC (mkLayout 0 [] 0 []) (t "1") false [t "CFG=1"] []
       | 1 => mkBondC (mkLayout 0 [1; 1; 1] 0 [4]) (t "2") false [] []
       | _ => mkBondC (mkLayout 0 [] 0 [20]) (t "3") false [t "ATTACH=ANY"] [t "DISP=COORD"]
       end)
    [V30L (t "END CTAB") [2]; Raw (t "M  END")].

(* the physical lines *)
Example ex_render : render3000 exM ex_ch =
  [t "example"; t "  TUCAN  0930262000"; t ""; t "  0  0  0     0  0            999 V3000";
   t "M  V30 BEG-"; t "M  V30 IN   CTAB ";
   t "M  V30  COUNTS 4    3 0 0 1";
   t "M  V30 BEGIN ATOM";
   t "M  V30   7  N 1.2-"; t "M  V30 -"; t "M  V30 5   -0.5 0 0 EXACHG=1 MAS-"; t "M  V30 S=0 CHG=1 CFG=2   ";
   t "M  V30 3 D 0.0 1e-3 .5 0 RAD=0";
   t "M  V30 12     C -1.0000 2 0.0 5 RAD=2 -"; t "M  V30 VAL=3 MASS=13 CHG=0 RAD=2";
   t "M  V30 5 -"; t "M  V30 * 0 0 0 0 ";
   t "M  V30 -"; t "M  V30    E-"; t "M  V30 ND  ATOM  ";
   t "M  V30 BEGIN-"; t "M  V30  BOND-"; t "M  V30 ";
   t "M  V30 1 1 7 3 CFG=1";
   t "M  V30 2  2-"; t "M  V30   12  7";
   t "M  V30 3 1 3 5 ATTACH=ANY E-"; t "M  V30 NDPTS=(2 7 12) DISP=COORD";
   t "M  V30 END BOND";
   t "M  V30 EN-"; t "M  V30 D CTAB";
   t "M  END"].
Proof. vm_compute. reflexivity. Qed.

Lemma extra_ok_check : forall tk,
  nonempty tk && forallb (fun c => negb (is_space c)) tk = true ->
  forallb (fun k => negb (key_matches k tk)) key_texts = true -> extra_ok tk.
Proof. intros tk H1 H2. split; [apply good_check, H1|apply not_a_key_check, H2]. Qed.

Example exM_ok : okM exM.
Proof.
  constructor.
  - repeat (apply Forall_cons; [|]); try apply Forall_nil; cbn [entry_okM]; try exact Logic.I.
    + constructor; [left; eexists; vm_compute; reflexivity|apply coord_tok_check; vm_compute; reflexivity..|cbn; lia].
    + constructor; [right; split; [left|]; reflexivity|apply coord_tok_check; vm_compute; reflexivity..|cbn; lia].
    + constructor; [left; eexists; vm_compute; reflexivity|apply coord_tok_check; vm_compute; reflexivity..|cbn; lia].
  - repeat (apply Forall_cons; [|]); try apply Forall_nil; cbn [bond_okM].
    + split; eexists; reflexivity.
    + split; eexists; reflexivity.
    + split; [reflexivity|]. split; [eexists; reflexivity|].
      repeat (apply Forall_cons; [eexists; reflexivity|]). apply Forall_nil.
  - cbn. repeat (apply NoDup_cons; [cbn; intuition discriminate|]). apply NoDup_nil.
  - intros u H. cbn in H. decompose [or] H; try contradiction;
      match goal with E : (_, _) = (u, u) |- _ => injection E as E1 E2; rewrite <- E1 in E2; discriminate E2 end.
Qed.

Example ex_ch_ok : okch exM ex_ch.
Proof.
  constructor.
  - cbn. repeat (apply NoDup_cons; [cbn; intuition discriminate|]). apply NoDup_nil.
  - split; [|vm_compute; reflexivity].
    repeat (apply Forall_cons; [apply good_check; reflexivity|]). apply Forall_nil.
  - intros p e H. destruct p as [|[|[|[|p]]]]; cbn in H; [| | | |destruct p; discriminate H]; injection H as <-;
      (split; [|split; [vm_compute; reflexivity|]]); cbn [ex_ch ch_entry ec_tail ec_aamap a_chg a_rad a_mass].
    + repeat (apply Forall_cons; [first [exact Logic.I|apply extra_ok_check; reflexivity]|]). apply Forall_nil.
    + split; [apply extra_ok_check; reflexivity|]. cbn. repeat split; intro H; try congruence; auto 6.
    + repeat (apply Forall_cons; [first [exact Logic.I|apply extra_ok_check; reflexivity]|]). apply Forall_nil.
    + split; [apply extra_ok_check; reflexivity|]. cbn. repeat split; intro H; try congruence; auto 6.
    + repeat (apply Forall_cons; [first [exact Logic.I|apply extra_ok_check; reflexivity]|]). apply Forall_nil.
    + split; [apply extra_ok_check; reflexivity|]. cbn. repeat split; intro H; try congruence; auto 6.
    + repeat (apply Forall_cons; [first [exact Logic.I|apply extra_ok_check; reflexivity]|]). apply Forall_nil.
    + exact Logic.I.
  - intros q b H. destruct q as [|[|[|q]]]; cbn in H; [| | |destruct q; discriminate H]; injection H as <-;
      (split; [apply good_check; reflexivity|]);
      (split; [repeat (apply Forall_cons; [apply good_check; reflexivity|]); apply Forall_nil|]);
      (split; [repeat (apply Forall_cons; [apply good_check; reflexivity|]); apply Forall_nil|]);
      (split; [vm_compute; reflexivity|]); try exact Logic.I.
    split; [reflexivity|]. split.
    + repeat (apply Forall_cons; [reflexivity|]). apply Forall_nil.
    + repeat (apply Forall_cons; [apply Forall_forall; intros c Hc; cbn in Hc; intuition (subst; reflexivity)|]).
      apply Forall_nil.
  - repeat (apply Forall_cons; [vm_compute; reflexivity|]). apply Forall_nil.
Qed.

(* what the theorem says about the example, spelled out *)
Example ex_expected : expected (ch_index ex_ch) exM =
  ([mkRatom 6 (t "N") 7 (Some 1%Z) None None (t "1.25") (t "-0.5") (t "0");
    mkRatom 2 (t "H") 1 None (Some 2%Z) None (t "0.0") (t "1e-3") (t ".5");
    mkRatom 11 (t "C") 6 None (Some 13%Z) (Some 2%Z) (t "-1.0000") (t "2") (t "0.0")],
   [(6, 2, 1); (11, 6, 2); (2, 6, 1); (2, 11, 1)]%Z).
Proof. vm_compute. reflexivity. Qed.

(* the reader run on the example file gives that value: by the theorem, and by evaluation *)
Example ex_read : read_v3000 (render3000 exM ex_ch) = ok (expected (ch_index ex_ch) exM).
Proof. exact (read_v3000_render exM ex_ch exM_ok ex_ch_ok). Qed.
Example ex_read_computed : read_v3000 (render3000 exM ex_ch) = ok (expected (ch_index ex_ch) exM).
Proof. vm_compute. reflexivity. Qed.

(* oc_index is needed: with a repeated index the later atom line replaces the earlier one *)
Example ex_repeated_index :
  let ch := mkChoices (ch_h1 ex_ch) (ch_h2 ex_ch) (ch_h3 ex_ch) (ch_h4 ex_ch) (ch_ctab ex_ch) (ch_counts ex_ch)
              (ch_counts_extra ex_ch) (ch_begin_atom ex_ch) (ch_end_atom ex_ch) (ch_begin_bond ex_ch) (ch_end_bond ex_ch)
              (fun p => match p with 2 => mkEntryC 7 (mkLayout 0 [] 0 []) (t "0") [PRad; PMass] | _ => ch_entry ex_ch p end)
              (ch_bond ex_ch) (ch_trailer ex_ch) in
  option_map (fun r => length (fst r))
             (match read_v3000 (render3000 (mkMolM (m_entries exM) [Bond 1 0 1]) ch) with inr r => Some r | inl _ => None end)
  = Some 2
  (* with all the bonds of exM the file is rejected: the bond 12-7 has become a bond 7-7 *)
  /\ read_v3000 (render3000 exM ch) = inl EParser.
Proof. vm_compute. split; reflexivity. Qed.

(* om_noloop and am_nonneg are needed: exM with a bond from atom 2 to itself, with MASS=-1 on its
   first atom, with RAD=-1 on its third atom -- the same rendering choices, every file rejected *)
Example ex_rejected :
  read_v3000 (render3000 (mkMolM (m_entries exM) [Bond 1 0 1; Bond 1 2 2]) ex_ch) = inl EParser /\
  read_v3000 (render3000 (mkMolM (Some (mkAtomM (t "N") 1 0 (-1) (t "1.25") (t "-0.5") (t "0")) :: tl (m_entries exM))
                                 (m_bonds exM)) ex_ch) = inl EParser /\
  read_v3000 (render3000 (mkMolM [nth 0 (m_entries exM) None; nth 1 (m_entries exM) None;
                                  Some (mkAtomM (t "C") 0 (-1) 13 (t "-1.0000") (t "2") (t "0.0")); None]
                                 (m_bonds exM)) ex_ch) = inl EParser.
Proof. vm_compute. repeat split. Qed.

(* ------------------------------------------------------------------------------------ *)
(* 13. the file as one string: LF or CRLF after every line, then the entry point          *)
(* ------------------------------------------------------------------------------------ *)

Definition cr : ascii := ascii_of_N 13.
Definition eol_text (crlf : bool) : text := if crlf then [cr; nl] else [nl].
(* eol k: is the k-th line terminated by CR LF (true) or by LF (false) *)
Fixpoint file_text (eol : nat -> bool) (k : nat) (lines : list text) : text :=
  match lines with
  | [] => []
  | l :: r => l ++ eol_text (eol k) ++ file_text eol (S k) r
  end.

Lemma splitlines_aux_crlf : forall x cur r, nolb x ->
  splitlines_aux cur (x ++ cr :: nl :: r) = (rev cur ++ x) :: splitlines_aux [] r.
Proof.
  intros x cur r H. rewrite (splitlines_aux_nolb x cur (cr :: nl :: r) H).
  cbn [splitlines_aux]. change (is_linebreak cr) with true. cbv iota.
  change (is_code 13 cr && is_code 10 nl) with true. cbv iota.
  rewrite rev_app_distr, rev_involutive. reflexivity.
Qed.

Theorem splitlines_file_text : forall eol lines k,
  Forall nolb lines -> splitlines (file_text eol k lines) = lines.
Proof.
  unfold splitlines. intros eol lines. induction lines as [|l lines IH]; intros k H; [reflexivity|].
  inversion H as [|? ? Hl Hls]; subst. cbn [file_text]. destruct (eol k); cbn [eol_text app].
  - rewrite (splitlines_aux_crlf l [] _ Hl). cbn [rev app]. rewrite (IH _ Hls). reflexivity.
  - rewrite (splitlines_aux_line l [] _ Hl). cbn [rev app]. rewrite (IH _ Hls). reflexivity.
Qed.

Lemma blanks_nolb : forall k, nolb (blanks k).
Proof. induction k as [|k IH]; [constructor|]. constructor; [reflexivity|exact IH]. Qed.

Lemma spread_nolb : forall ts gs, Forall good_tok ts -> nolb (spread ts gs).
Proof.
  induction ts as [|a ts IH]; intros gs H; [constructor|]. inversion H as [|? ? [_ Ha] Ht]; subst.
  destruct ts as [|b ts]; [apply spacefree_nolb, Ha|]. rewrite spread_cons2.
  apply nolb_app; [apply spacefree_nolb, Ha|].
  constructor; [reflexivity|]. apply nolb_app; [apply blanks_nolb|apply IH, Ht].
Qed.

Lemma line_text_nolb : forall ly ts, Forall good_tok ts -> nolb (line_text ly ts).
Proof.
  intros ly ts H. unfold line_text.
  apply nolb_app; [apply blanks_nolb|]. apply nolb_app; [apply spread_nolb, H|apply blanks_nolb].
Qed.

Lemma v30_nolb : nolb v30.
Proof. apply nolb_check. vm_compute. reflexivity. Qed.

Lemma split_line_nolb : forall cuts line, nolb line -> Forall nolb (split_line cuts line).
Proof.
  unfold split_line. induction cuts as [|k cuts IH]; intros line H; cbn [split_chunks map].
  - constructor; [apply nolb_app; [exact v30_nolb|exact H]|constructor].
  - constructor.
    + apply nolb_app; [exact v30_nolb|]. apply nolb_app; [apply Forall_firstn_, H|repeat constructor].
    + apply IH, Forall_skipn_, H.
Qed.

Definition pline_nolb (p : pline) : Prop := match p with V30L c _ => nolb c | Raw l => nolb l end.

(* what the entry point needs in addition: no line-break characters inside the free lines, and the
   version token *)
Record okch_text (ch : choices) : Prop := {
  ot_h1 : nolb (ch_h1 ch); ot_h2 : nolb (ch_h2 ch); ot_h3 : nolb (ch_h3 ch); ot_h4 : nolb (ch_h4 ch);
  ot_version : V2000.last_text (split_on (is_code 32%N) (rstrip (ch_h4 ch))) = t "V3000";
  ot_trailer : Forall pline_nolb (ch_trailer ch) }.

Lemma phys_nolb : forall p, pline_nolb p -> Forall nolb (phys p).
Proof.
  intros [c cuts|l] H; cbn [phys pline_nolb] in *; [apply split_line_nolb, H|].
  constructor; [exact H|constructor].
Qed.

Lemma render_nolb : forall M ch, okM M -> okch M ch -> okch_text ch -> Forall nolb (render3000 M ch).
Proof.
  intros M ch HM Hch [H1 H2 H3 H4 _ Ht]. pose proof (tlines_ok M ch HM Hch) as Hl. unfold render3000.
  apply Forall_app. split; [repeat (apply Forall_cons; [assumption|]); apply Forall_nil|].
  apply Forall_flat_map. unfold body. apply Forall_app. split.
  - apply Forall_map. eapply Forall_impl; [|exact Hl]. intros p [Hg _].
    apply phys_nolb. cbn [v30l pline_nolb]. apply line_text_nolb, Hg.
  - eapply Forall_impl; [|exact Ht]. apply phys_nolb.
Qed.

Theorem read_molfile_render : forall M ch eol, okM M -> okch M ch -> okch_text ch ->
  V2000.read_molfile (file_text eol 0 (render3000 M ch))
  = graph_from_molecule (fst (expected (ch_index ch) M)) (snd (expected (ch_index ch) M)).
Proof.
  intros M ch eol HM Hch Ht. unfold V2000.read_molfile.
  rewrite (splitlines_file_text eol _ 0 (render_nolb M ch HM Hch Ht)). cbv zeta.
  change (nth_tok 3 (render3000 M ch)) with (ok (ch_h4 ch)). cbn [bind ok].
  rewrite (ot_version _ Ht), text_eqb_refl.
  rewrite (read_v3000_render M ch HM Hch). reflexivity.
Qed.

(* ------------------------------------------------------------------------------------ *)
(* 14. the graph: nodes are renumbered consecutively, so the atom indices do not matter   *)
(* ------------------------------------------------------------------------------------ *)

(* number of atoms (non-star entries) before a position = the node name of the atom there *)
Fixpoint rank (es : list (option atomM)) (p : nat) : N :=
  match es, p with
  | Some _ :: r, S p' => N.succ (rank r p')
  | None :: r, S p' => rank r p'
  | _, _ => 0%N
  end.

Definition m_atom (i : N) (a : atomM) : atom rpay :=
  let (sym, iso) := iso_of (a_sym a) in
  mkAtom i (opt_default 0%N (z_of_symbol sym)) (nz (if Z.eqb iso 0 then a_mass a else iso)) (nz (a_rad a)) 0%N
         (mkRpay sym (nz (a_chg a)) (a_x a) (a_y a) (a_z a)).
Fixpoint m_atoms (i : N) (es : list (option atomM)) : list (atom rpay) :=
  match es with
  | [] => []
  | Some a :: r => m_atom i a :: m_atoms (N.succ i) r
  | None :: r => m_atoms i r
  end.
Definition m_edge (es : list (option atomM)) (b : bondM) : list (N * N * Z) :=
  match b with
  | Bond ty u v => [(rank es u, rank es v, ty)]
  | StarBond ty _ w es' => map (fun e => (rank es w, rank es e, ty)) es'
  end.
(* the graph a molecule denotes: nx.Graph keeps one edge per unordered pair, the later data wins *)
Definition graph_of (M : molM) : mol rpay Z :=
  mkMol (m_atoms 0 (m_entries M))
        (fold_left (fun l e => add_edge (fst (fst e), snd (fst e)) (snd e) l)
                   (flat_map (m_edge (m_entries M)) (m_bonds M)) []).

Definition gatoms (i : N) (ats : list ratom) : list (atom rpay) :=
  map (fun p => let a := snd p in
         mkAtom (fst p) (r_zn a) (r_mass a) (r_rad a) 0%N (mkRpay (r_sym a) (r_chg a) (r_x a) (r_y a) (r_z a)))
      (enumerate_from i ats).
Definition gadd (keys : list Z) (acc : res (list (N * N * Z))) (b : rbond) : res (list (N * N * Z)) :=
  do l <- acc;
  match index_of_Z (fst (fst b)) keys 0, index_of_Z (snd (fst b)) keys 0 with
  | Some u, Some v => ok (add_edge (u, v) (snd b) l)
  | _, _ => inl EOther
  end.

Lemma graph_from_molecule_eq : forall ats bds,
  graph_from_molecule ats bds
  = do bonds <- fold_left (gadd (map r_idx ats)) bds (ok []); ok (mkMol (gatoms 0 ats) bonds).
Proof. reflexivity. Qed.

Lemma gatoms_exp : forall I es k i, gatoms i (exp_atoms I k es) = m_atoms i es.
Proof.
  intros I es. induction es as [|[a|] es IH]; intros k i; [reflexivity| |].
  - cbn [exp_atoms m_atoms]. unfold gatoms in *. cbn [enumerate_from map fst snd]. rewrite IH. f_equal.
    unfold exp_atom, m_atom. destruct (iso_of (a_sym a)). reflexivity.
  - cbn [exp_atoms m_atoms]. apply IH.
Qed.

Lemma r_idx_exp_atom : forall i a, r_idx (exp_atom i a) = (i - 1)%Z.
Proof. intros i a. unfold exp_atom. destruct (iso_of (a_sym a)). reflexivity. Qed.

Lemma index_of_rank : forall I es k j a i,
  (forall p q, k <= p < k + length es -> k <= q < k + length es -> I p = I q -> p = q) ->
  nth_error es j = Some (Some a) ->
  index_of_Z (I (k + j)%nat - 1)%Z (map r_idx (exp_atoms I k es)) i = Some (i + rank es j)%N.
Proof.
  intros I es. induction es as [|e es IH]; intros k j a i Hinj H; [destruct j; discriminate H|].
  assert (Hinj' : forall p q, S k <= p < S k + length es -> S k <= q < S k + length es -> I p = I q -> p = q).
  { intros p q Hp Hq. apply Hinj; cbn [length]; lia. }
  destruct j as [|j].
  - cbn [nth_error] in H. injection H as ->. cbn [exp_atoms map index_of_Z rank].
    rewrite r_idx_exp_atom, Nat.add_0_r, Z.eqb_refl. f_equal. lia.
  - cbn [nth_error] in H.
    assert (Hj : j < length es) by (apply nth_error_Some; rewrite H; discriminate).
    replace (k + S j) with (S k + j) by lia.
    destruct e as [a'|].
    + cbn [exp_atoms map index_of_Z rank]. rewrite r_idx_exp_atom.
      destruct (Z.eqb_spec (I k - 1) (I (S k + j)%nat - 1)) as [E|_].
      * exfalso. assert (k = S k + j); [|lia]. apply Hinj; cbn [length]; lia.
      * rewrite (IH (S k) j a _ Hinj' H). f_equal. lia.
    + cbn [exp_atoms rank]. apply (IH (S k) j a _ Hinj' H).
Qed.

Lemma fold_gadd : forall keys (bz : list rbond) (bn : list (N * N * Z)) l0,
  Forall2 (fun b e => index_of_Z (fst (fst b)) keys 0 = Some (fst (fst e))
                      /\ index_of_Z (snd (fst b)) keys 0 = Some (snd (fst e)) /\ snd b = snd e) bz bn ->
  fold_left (gadd keys) bz (ok l0)
  = ok (fold_left (fun l e => add_edge (fst (fst e), snd (fst e)) (snd e) l) bn l0).
Proof.
  intros keys bz bn l0 H. revert l0. induction H as [|b e bz bn [H1 [H2 H3]] _ IH]; intro l0; [reflexivity|].
  cbn [fold_left]. unfold gadd at 2. cbn [bind ok]. rewrite H1, H2, H3. apply IH.
Qed.

Theorem graph_of_expected : forall M I,
  okM M -> NoDup (map I (seq 0 (length (m_entries M)))) ->
  graph_from_molecule (fst (expected I M)) (snd (expected I M)) = ok (graph_of M).
Proof.
  intros M I HM Hnd. unfold expected. cbn [fst snd]. rewrite graph_from_molecule_eq.
  rewrite gatoms_exp.
  assert (Hr : forall p, is_atom M p ->
    index_of_Z (I p - 1)%Z (map r_idx (exp_atoms I 0 (m_entries M))) 0 = Some (rank (m_entries M) p)).
  { intros p [a Ha]. refine (index_of_rank I (m_entries M) 0 p a 0%N _ Ha).
    intros x y Hx Hy. apply (index_inj I _ x y Hnd); lia. }
  rewrite (fold_gadd _ _ (flat_map (m_edge (m_entries M)) (m_bonds M)) []); [reflexivity|].
  pose proof (om_bonds _ HM) as Hb. induction (m_bonds M) as [|b bs IH]; [constructor|].
  inversion Hb as [|? ? Hb0 Hbs]; subst. cbn [flat_map]. apply Forall2_app; [|apply IH, Hbs].
  destruct b as [ty u v|ty s w es]; cbn [bond_okM exp_bond m_edge] in *.
  - destruct Hb0 as [Hu Hv]. constructor; [|constructor]. cbn [fst snd].
    rewrite (Hr u Hu), (Hr v Hv). repeat split.
  - destruct Hb0 as [_ [Hw Hes]]. clear Hb. induction Hes as [|e es He _ IHes]; [constructor|].
    cbn [map]. constructor; [|exact IHes]. cbn [fst snd]. rewrite (Hr w Hw), (Hr e He). repeat split.
Qed.

(* the entry point, end to end: the graph read from any admissible rendering, under LF or CRLF,
   is the graph the molecule denotes -- no choice is visible in it, not even the atom indices *)
Theorem read_molfile_graph : forall M ch eol, okM M -> okch M ch -> okch_text ch ->
  V2000.read_molfile (file_text eol 0 (render3000 M ch)) = ok (graph_of M).
Proof.
  intros M ch eol HM Hch Ht. rewrite (read_molfile_render M ch eol HM Hch Ht).
  apply graph_of_expected; [exact HM|apply (oc_index _ _ Hch)].
Qed.

Example ex_ch_text_ok : okch_text ex_ch.
Proof.
  constructor; try (apply nolb_check; vm_compute; reflexivity); [vm_compute; reflexivity|].
  repeat (apply Forall_cons; [apply nolb_check; vm_compute; reflexivity|]). apply Forall_nil.
Qed.

Example ex_graph :
  V2000.read_molfile (file_text (fun k => Nat.even k) 0 (render3000 exM ex_ch)) = ok (graph_of exM).
Proof. exact (read_molfile_graph exM ex_ch _ exM_ok ex_ch_ok ex_ch_text_ok). Qed.
Example ex_graph_computed :
  V2000.read_molfile (file_text (fun k => Nat.even k) 0 (render3000 exM ex_ch)) = ok (graph_of exM)
  /\ map (fun x => (lbl x, zn x, mass x, rad x, p_chg (pay x))) (atoms (graph_of exM))
     = [(0, 7, None, None, Some 1%Z); (1, 1, Some 2%Z, None, None); (2, 6, Some 13%Z, Some 2%Z, None)]%N
  /\ bonds (graph_of exM) = [(0, 1, 1%Z); (2, 0, 2%Z); (1, 2, 1%Z)]%N.
Proof. vm_compute. repeat split. Qed.

(* explicit defaults on the example: MASS=0, RAD=0, CHG=0 are gone from the file, the result is the same *)
Example ex_defaults_dropped_lines :
  nth 12 (render3000 exM (drop_defaults_ch exM ex_ch)) [] = t "M  V30 3 D 0.0 1e-3 .5 0"
  /\ nth 12 (render3000 exM ex_ch) [] = t "M  V30 3 D 0.0 1e-3 .5 0 RAD=0".
Proof. vm_compute. split; reflexivity. Qed.

Example ex_defaults_dropped :
  read_v3000 (render3000 exM (drop_defaults_ch exM ex_ch)) = read_v3000 (render3000 exM ex_ch).
Proof.
  apply explicit_defaults_file; [exact exM_ok|exact ex_ch_ok|].
  intros p a H. destruct p as [|[|[|[|p]]]]; cbn in H; [| | | |destruct p; discriminate H];
    try discriminate H; injection H as <-; vm_compute; reflexivity.
Qed.
