(* AntlrLex.v -- executable meaning of the lexer automaton dumped from tucanLexer.py (gen/AntlrLexer.v):
   maximal munch over the nondeterministic automaton, the first rule (lowest rule index) wins among the rules that
   accept the longest prefix, an error when no rule accepts a non-empty prefix (the error listener raises). *)
From Coq Require Import List NArith ZArith Bool Ascii Arith.
Require Import Base Text AntlrItem.
Require AntlrLexer.
Import ListNotations.

Definition edges_of (tbl : list (nat * list ledge)) (s : nat) : list ledge :=
  match find (fun p => Nat.eqb (fst p) s) tbl with Some p => snd p | None => [] end.

Definition mem_nat (x : nat) (l : list nat) : bool := existsb (Nat.eqb x) l.

(* epsilon closure: worklist, `seen` accumulates; fuel = number of states suffices *)
Fixpoint closure (tbl : list (nat * list ledge)) (fuel : nat) (work seen : list nat) : list nat :=
  match fuel with
  | O => seen
  | S f =>
    match work with
    | [] => seen
    | s :: rest =>
      if mem_nat s seen then closure tbl f rest seen
      else let eps := flat_map (fun e => match e with LEps t => [t] | LChars _ _ => [] end) (edges_of tbl s) in
           closure tbl f (eps ++ rest) (s :: seen)
    end
  end.

Definition in_ranges (c : N) (rs : list (N * N)) : bool := existsb (fun r => N.leb (fst r) c && N.leb c (snd r)) rs.

(* states reached from `cur` by consuming character code c (before closure) *)
Definition move (tbl : list (nat * list ledge)) (cur : list nat) (c : N) : list nat :=
  flat_map (fun s => flat_map (fun e => match e with LChars rs t => if in_ranges c rs then [t] else [] | LEps _ => [] end) (edges_of tbl s)) cur.

(* the first rule (in rule order) whose stop state is in the current set *)
Fixpoint accepting (acc : list (nat * Z)) (cur : list nat) : option Z :=
  match acc with
  | [] => None
  | (s, ty) :: rest => if mem_nat s cur then Some ty else accepting rest cur
  end.

Definition eps_count (tbl : list (nat * list ledge)) : nat :=
  length (flat_map (fun p => flat_map (fun e => match e with LEps t => [t] | LChars _ _ => [] end) (snd p)) tbl).

Section Sim.
  Variable tbl : list (nat * list ledge).
  Variable acc : list (nat * Z).
  Variable cfuel : nat.      (* closure fuel: every state is expanded at most once, so |work| + number of epsilon edges + 1 pops suffice *)
  Definition clos (l : list nat) : list nat := closure tbl (cfuel + length l) l [].

  (* the character edges leaving a set of states *)
  Definition out_chars (cur : list nat) : list (list (N * N) * nat) :=
    flat_map (fun s => flat_map (fun e => match e with LChars rs t => [(rs, t)] | LEps _ => [] end) (edges_of tbl s)) cur.
  Definition targets (es : list (list (N * N) * nat)) (c : N) : list nat :=
    flat_map (fun e => if in_ranges c (fst e) then [snd e] else []) es.

  (* scan: `es` = character edges leaving the closed state set reached by the characters consumed so far;
     best = last (type, rest) seen with an accepting set *)
  Fixpoint scan (es : list (list (N * N) * nat)) (inp : text) (best : option (Z * text)) : option (Z * text) :=
    match inp with
    | [] => best
    | c :: r =>
      match clos (targets es (N_of_ascii c)) with
      | [] => best
      | nxt => scan (out_chars nxt) r (match accepting acc nxt with Some ty => Some (ty, r) | None => best end)
      end
    end.

  (* init = character edges leaving the closure of the start state of the mode, computed once per text *)
  Definition lex1_nfa (init : list (list (N * N) * nat)) (inp : text) : option (Z * text) := scan init inp None.

  Fixpoint lex_nfa_fuel (fuel : nat) (init : list (list (N * N) * nat)) (inp : text) : option (list Z) :=
    match inp with
    | [] => Some []
    | _ => match fuel with
           | O => None
           | S f => match lex1_nfa init inp with
                    | None => None
                    | Some (ty, rest) => match lex_nfa_fuel f init rest with Some tys => Some (ty :: tys) | None => None end
                    end
           end
    end.
End Sim.

Definition lexer_cfuel : nat := S (eps_count AntlrLexer.lexer_edges).

(* the token types the ANTLR lexer emits for a text (EOF not included), None = the lexer reports an error *)
Definition antlr_lex (s : text) : option (list Z) :=
  let cf := lexer_cfuel in
  let init := out_chars AntlrLexer.lexer_edges (clos AntlrLexer.lexer_edges cf [AntlrLexer.lexer_start]) in
  lex_nfa_fuel AntlrLexer.lexer_edges AntlrLexer.lexer_accept cf (length s) init s.
