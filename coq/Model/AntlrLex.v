(* AntlrLex.v -- executable meaning of the lexer automaton dumped from tucanLexer.py (gen/AntlrLexer.v):
   maximal munch over the nondeterministic automaton, the first rule (lowest rule index) wins among the rules that
   accept the longest prefix, an error when no rule accepts a non-empty prefix (the error listener raises). *)
From Coq Require Import List NArith ZArith Bool Ascii Arith.
Require Import Base Text AntlrItem.
Require AntlrLexer.
Import ListNotations.

Definition edges_of (tbl : list (N * list ledge)) (s : N) : list ledge :=
  match find (fun p => N.eqb (fst p) s) tbl with Some p => snd p | None => [] end.

Definition mem_N (x : N) (l : list N) : bool := existsb (N.eqb x) l.

(* epsilon closure: worklist, `seen` accumulates; fuel = number of states suffices *)
Fixpoint closure (tbl : list (N * list ledge)) (fuel : nat) (work seen : list N) : list N :=
  match fuel with
  | O => seen
  | S f =>
    match work with
    | [] => seen
    | s :: rest =>
      if mem_N s seen then closure tbl f rest seen
      else let eps := flat_map (fun e => match e with LEps t => [t] | LChars _ _ => [] end) (edges_of tbl s) in
           closure tbl f (eps ++ rest) (s :: seen)
    end
  end.

Definition in_ranges (c : N) (rs : list (N * N)) : bool := existsb (fun r => N.leb (fst r) c && N.leb c (snd r)) rs.

(* states reached from `cur` by consuming character code c (before closure) *)
Definition move (tbl : list (N * list ledge)) (cur : list N) (c : N) : list N :=
  flat_map (fun s => flat_map (fun e => match e with LChars rs t => if in_ranges c rs then [t] else [] | LEps _ => [] end) (edges_of tbl s)) cur.

(* the first rule (in rule order) whose stop state is in the current set *)
Fixpoint accepting (acc : list (N * Z)) (cur : list N) : option Z :=
  match acc with
  | [] => None
  | (s, ty) :: rest => if mem_N s cur then Some ty else accepting rest cur
  end.

Definition eps_count (tbl : list (N * list ledge)) : nat :=
  length (flat_map (fun p => flat_map (fun e => match e with LEps t => [t] | LChars _ _ => [] end) (snd p)) tbl).

Section Sim.
  Variable tbl : list (N * list ledge).
  Variable acc : list (N * Z).
  Variable cfuel : nat.      (* closure fuel: every state is expanded at most once, so |work| + number of epsilon edges + 1 pops suffice *)
  Definition clos (l : list N) : list N := closure tbl (cfuel + length l) l [].

  (* the character edges leaving a set of states *)
  Definition out_chars (cur : list N) : list (list (N * N) * N) :=
    flat_map (fun s => flat_map (fun e => match e with LChars rs t => [(rs, t)] | LEps _ => [] end) (edges_of tbl s)) cur.
  Definition targets (es : list (list (N * N) * N)) (c : N) : list N :=
    flat_map (fun e => if in_ranges c (fst e) then [snd e] else []) es.

  (* scan: `es` = character edges leaving the closed state set reached by the characters consumed so far;
     best = last (type, rest) seen with an accepting set *)
  Fixpoint scan (es : list (list (N * N) * N)) (inp : text) (best : option (Z * text)) : option (Z * text) :=
    match inp with
    | [] => best
    | c :: r =>
      match clos (targets es (N_of_ascii c)) with
      | [] => best
      | nxt => scan (out_chars nxt) r (match accepting acc nxt with Some ty => Some (ty, r) | None => best end)
      end
    end.

  (* init = character edges leaving the closure of the start state of the mode, computed once per text *)
  Definition lex1_nfa (init : list (list (N * N) * N)) (inp : text) : option (Z * text) := scan init inp None.

  Fixpoint lex_nfa_fuel (fuel : nat) (init : list (list (N * N) * N)) (inp : text) : option (list Z) :=
    match inp with
    | [] => Some []
    | _ => match fuel with
           | O => None
           | S f => match lex1_nfa init inp with
                    | None => None
                    | Some (ty, rest) => match lex_nfa_fuel f init rest with Some tys => Some (ty :: tys) | None => None end
                    end
           end
    end.
End Sim.

Definition lexer_cfuel : nat := S (eps_count AntlrLexer.lexer_edges).

(* the character edges leaving the closure of the start state: a closed constant, so that the extracted program
   computes it once (at start-up) and not once per text *)
Definition lexer_init_edges : list (list (N * N) * N) :=
  out_chars AntlrLexer.lexer_edges (clos AntlrLexer.lexer_edges lexer_cfuel [AntlrLexer.lexer_start]).

(* the token types the ANTLR lexer emits for a text (EOF not included), None = the lexer reports an error *)
Definition antlr_lex (s : text) : option (list Z) :=
  lex_nfa_fuel AntlrLexer.lexer_edges AntlrLexer.lexer_accept lexer_cfuel (length s) lexer_init_edges s.
