(* Parse.v -- reference reader for TUCAN strings, written from the published grammar
   (tucan.ebnf / tucan.g4) and the listener semantics of parser.py.  It shares no
   structure with the ANTLR-generated recogniser. *)
From Coq Require Import String.
Require Import Base Mol Text Token.
Require Grammar.
Set Implicit Arguments.

(* ------------------------------------------------------------------ lexer *)
Definition is_upper (c : ascii) : bool := let n := N_of_ascii c in N.leb 65 n && N.leb n 90.
Definition is_lower (c : ascii) : bool := let n := N_of_ascii c in N.leb 97 n && N.leb n 122.

Fixpoint span_digits (l : text) : text * text :=
  match l with
  | c :: r => if is_digit c then let (d, rest) := span_digits r in (c :: d, rest) else ([], l)
  | [] => ([], [])
  end.
Fixpoint strip_prefix (p l : text) : option text :=
  match p, l with
  | [], _ => Some l
  | a :: p', b :: l' => if ascii_eqb a b then strip_prefix p' l' else None
  | _ :: _, [] => None
  end.

Definition punct (c : ascii) : option token :=
  let n := N_of_ascii c in
  if N.eqb n 47 then Some TSlash else if N.eqb n 40 then Some TLp else if N.eqb n 41 then Some TRp
  else if N.eqb n 45 then Some TDash else if N.eqb n 58 then Some TColon else if N.eqb n 44 then Some TComma
  else if N.eqb n 61 then Some TEq else None.

(* one maximal-munch step: the longest literal or numeral that is a prefix of the input *)
Definition lex1 (l : text) : option (token * text) :=
  match l with
  | [] => None
  | c :: r =>
    if is_digit c then
      if N.eqb (N_of_ascii c) 48 then None                         (* no token starts with 0 *)
      else let (d, rest) := span_digits r in Some (TNum (Z.of_N (digits_val 0 (c :: d))), rest)
    else if is_upper c then
      match r with
      | c2 :: r2 =>
        match (if is_lower c2 then z_of_symbol [c; c2] else None) with
        | Some z => Some (TSym z, r2)
        | None => match z_of_symbol [c] with Some z => Some (TSym z, r) | None => None end
        end
      | [] => match z_of_symbol [c] with Some z => Some (TSym z, r) | None => None end
      end
    else match punct c with
         | Some k => Some (k, r)
         | None =>
           match strip_prefix (t "mass") l with
           | Some rest => Some (TMass, rest)
           | None => match strip_prefix (t "rad") l with Some rest => Some (TRad, rest) | None => None end
           end
         end
  end.
Fixpoint lex_fuel (fuel : nat) (l : text) : option (list token) :=
  match l with
  | [] => Some []
  | _ => match fuel with
         | O => None
         | S f => match lex1 l with
                  | None => None
                  | Some (k, rest) => match lex_fuel f rest with Some ks => Some (k :: ks) | None => None end
                  end
         end
  end.
Definition lex_text (l : text) : option (list token) := lex_fuel (length l) l.

(* ------------------------------------------------------------------ token grammar *)
Inductive key := KMass | KRad.
Record ast := mkAst { items : list (N * Z);                     (* (atomic number, count as written; 1 when omitted) *)
                      tuples : list (Z * Z);
                      blocks : list (Z * list (key * Z)) }.

(* formula items: symbol, optionally followed by a count >= 2 *)
Fixpoint parse_items (fuel : nat) (l : list token) : list (N * Z) * list token :=
  match fuel with
  | O => ([], l)
  | S f =>
    match l with
    | TSym z :: TNum c :: r => if Z.leb 2 c then let (it, rest) := parse_items f r in ((z, c) :: it, rest)
                               else ([(z, 1%Z)], TNum c :: r)   (* "1" is not a count: stop; the caller rejects *)
    | TSym z :: r => let (it, rest) := parse_items f r in ((z, 1%Z) :: it, rest)
    | _ => ([], l)
    end
  end.

(* `a? b? c ...` : walk the rule, consuming matching symbols *)
Fixpoint match_order (order : list (N * bool)) (syms : list N) : bool :=
  match order with
  | [] => match syms with [] => true | _ => false end
  | (z, opt) :: o' =>
    match syms with
    | s :: syms' => if N.eqb s z then match_order o' syms' else if opt then match_order o' syms else false
    | [] => if opt then match_order o' [] else false
    end
  end.
Definition order_of_rule (r : list (string * bool)) : list (N * bool) :=
  flat_map (fun p => match z_of_symbol (t (fst p)) with Some z => [(z, snd p)] | None => [] end) r.
Definition with_carbon : list (N * bool) := order_of_rule Grammar.with_carbon_g4.
Definition without_carbon : list (N * bool) := order_of_rule Grammar.without_carbon_g4.
Definition formula_ok (it : list (N * Z)) : bool :=
  let syms := map fst it in orb (match_order with_carbon syms) (match_order without_carbon syms).

Fixpoint parse_tuples (fuel : nat) (l : list token) : list (Z * Z) * list token :=
  match fuel with
  | O => ([], l)
  | S f =>
    match l with
    | TLp :: TNum a :: TDash :: TNum b :: TRp :: r => let (ts, rest) := parse_tuples f r in ((a, b) :: ts, rest)
    | _ => ([], l)
    end
  end.

Definition parse_prop (l : list token) : option ((key * Z) * list token) :=
  match l with
  | TMass :: TEq :: TNum v :: r => Some ((KMass, v), r)
  | TRad :: TEq :: TNum v :: r => Some ((KRad, v), r)
  | _ => None
  end.
Fixpoint parse_props (fuel : nat) (l : list token) : option (list (key * Z) * list token) :=
  match fuel with
  | O => None
  | S f =>
    match parse_prop l with
    | None => None
    | Some (p, r) =>
      match r with
      | TComma :: r' => match parse_props f r' with Some (ps, rest) => Some (p :: ps, rest) | None => None end
      | _ => Some ([p], r)
      end
    end
  end.
Fixpoint parse_blocks (fuel : nat) (l : list token) : option (list (Z * list (key * Z)) * list token) :=
  match fuel with
  | O => None
  | S f =>
    match l with
    | TLp :: TNum i :: TColon :: r =>
      match parse_props f r with
      | Some (ps, TRp :: r') => match parse_blocks f r' with Some (bs, rest) => Some ((i, ps) :: bs, rest) | None => None end
      | _ => None
      end
    | _ => Some ([], l)
    end
  end.

Definition parse_tokens (l : list token) : option ast :=
  let fuel := S (length l) in
  let (it, r1) := parse_items fuel l in
  if negb (formula_ok it) then None else
  match r1 with
  | TSlash :: r2 =>
    let (ts, r3) := parse_tuples fuel r2 in
    match r3 with
    | [] => Some (mkAst it ts [])
    | TSlash :: r4 =>
      match parse_blocks fuel r4 with
      | Some (bs, []) => Some (mkAst it ts bs)
      | _ => None
      end
    | _ => None
    end
  | _ => None
  end.

(* ------------------------------------------------------------------ listener semantics *)
Inductive perr := ELex | ESyntax | ESelfLoop | EBadIndex | EDupAttr.

Definition expand (it : list (N * Z)) : list N := flat_map (fun p => repeat (fst p) (Z.to_nat (snd p))) it.

Fixpoint dup_key (k : key) (ps : list (key * Z)) : bool :=
  match ps with [] => false | (k', _) :: r => (match k, k' with KMass, KMass | KRad, KRad => true | _, _ => false end) || dup_key k r end.
(* all (index, key, value) in order of appearance *)
Definition flat_props (bs : list (Z * list (key * Z))) : list (Z * (key * Z)) :=
  flat_map (fun b => map (fun p => (fst b, p)) (snd b)) bs.
Definition key_eqb (a b : key) : bool := match a, b with KMass, KMass | KRad, KRad => true | _, _ => false end.
Fixpoint has_dup (l : list (Z * (key * Z))) : bool :=
  match l with
  | [] => false
  | (i, (k, _)) :: r => existsb (fun q => Z.eqb (fst q) i && key_eqb (fst (snd q)) k) r || has_dup r
  end.
Fixpoint find_prop (l : list (Z * (key * Z))) (i : Z) (k : key) : option Z :=
  match l with
  | [] => None
  | (j, (k', v)) :: r => if Z.eqb j i && key_eqb k' k then Some v else find_prop r i k
  end.

Definition dedup_pairs (l : list (N * N)) : list (N * N) :=
  fold_right (fun e acc => if existsb (fun e' => N.eqb (fst e') (fst e) && N.eqb (snd e') (snd e)) acc then acc else e :: acc) [] l.

Definition sem (a : ast) : perr + mol unit unit :=
  let zs := isort Nleb (expand (items a)) in                         (* sorted(self._atoms, key=atomic_number) *)
  let n := Z.of_nat (length zs) in
  if existsb (fun e => Z.eqb (fst e) (snd e)) (tuples a) then inl ESelfLoop
  else if has_dup (flat_props (blocks a)) then inl EDupAttr
  else if existsb (fun e => Z.ltb n (fst e) || Z.ltb n (snd e)) (tuples a) then inl EBadIndex
  else if existsb (fun b => Z.ltb n (fst b)) (blocks a) then inl EBadIndex
  else
    let props := flat_props (blocks a) in
    let atoms := map (fun p => mkAtom (fst p) (snd p)
                                      (find_prop props (Z.of_N (fst p) + 1) KMass)
                                      (find_prop props (Z.of_N (fst p) + 1) KRad) 0%N tt)
                     (enumerate_from 0 zs) in
    let bonds := map (fun e => (fst e, snd e, tt))
                     (dedup_pairs (map (fun e => norm_pair (Z.to_N (fst e - 1), Z.to_N (snd e - 1))) (tuples a))) in
    inr (mkMol atoms bonds).

Definition ref_parse (s : text) : perr + mol unit unit :=
  match lex_text s with
  | None => inl ELex
  | Some ts => match parse_tokens ts with None => inl ESyntax | Some a => sem a end
  end.
