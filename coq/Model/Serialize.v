(* Serialize.v -- serialization.serialize_molecule and graph_utils.sort_molecule_by_attribute. *)
From Coq Require Import String.
Require Import Base Mol Partition Final Text Token.
Set Implicit Arguments.

Section Ser.
  Variables P B : Type.

  (* ---- sort_molecule_by_attribute(m, ATOMIC_NUMBER) ---- *)
  Definition zval (x : atom P) : N := zn x.
  Definition zkey (m : mol P B) (x : atom P) : list N := keyL Ngeb zval m (lbl x, zn x).
  (* Python compares the tuples (attribute_sequence, label) *)
  Definition kl_leb (a b : list N * N) : bool :=
    if lex Nleb (fst a) (fst b) then (if lex Nleb (fst b) (fst a) then Nleb (snd a) (snd b) else true) else false.
  Definition sorted_by_Z (m : mol P B) : list N :=
    map snd (isort kl_leb (map (fun x => (zkey m x, lbl x)) (atoms m))).
  Definition position_map (l : list N) : list (N * N) := map (fun p => (snd p, fst p)) (enumerate_from 0 l).
  Definition sort_by_Z (m : mol P B) : mol P B := relabel (fun_of_map (position_map (sorted_by_Z m))) m.

  (* ---- _write_sum_formula ---- *)
  Definition count_text (s : text) (l : list text) : N := N.of_nat (length (filter (text_eqb s) l)).
  Definition formula_item (z : N) (c : N) : list token :=
    if N.ltb 1 c then [TSym z; TNum (Z.of_N c)] else [TSym z].
  Definition sym_tokens (syms : list text) (s : text) : list token :=
    match z_of_symbol s with Some z => formula_item z (count_text s syms) | None => [] end.
  Definition formula_tokens (syms : list text) : list token :=
    let c := t "C" in let h := t "H" in
    let distinct := dedup text_leb (isort text_leb syms) in
    if existsb (text_eqb c) syms then
      sym_tokens syms c
      ++ (if existsb (text_eqb h) syms then sym_tokens syms h else [])
      ++ flat_map (sym_tokens syms) (filter (fun s => negb (text_eqb s c) && negb (text_eqb s h)) distinct)
    else flat_map (sym_tokens syms) distinct.

  (* ---- _write_edge_list ---- *)
  Definition pair_leb (a b : N * N) : bool :=
    if N.ltb (fst a) (fst b) then true else if N.eqb (fst a) (fst b) then N.leb (snd a) (snd b) else false.
  Definition edge_tokens (m : mol P B) : list token :=
    flat_map (fun e => [TLp; TNum (Z.of_N (fst e) + 1); TDash; TNum (Z.of_N (snd e) + 1); TRp])
             (isort pair_leb (map (fun b => norm_pair (ends b)) (bonds m))).

  (* ---- _write_node_attributes ---- *)
  Definition prop_tokens (x : atom P) : list (list token) :=
    (match mass x with Some v => [[TMass; TEq; TNum v]] | None => [] end)
    ++ (match rad x with Some v => [[TRad; TEq; TNum v]] | None => [] end).
  Fixpoint join_comma (l : list (list token)) : list token :=
    match l with [] => [] | [x] => x | x :: r => x ++ TComma :: join_comma r end.
  Definition atom_leb (x y : atom P) : bool := N.leb (lbl x) (lbl y).
  Definition attr_tokens (m : mol P B) : list token :=
    flat_map (fun x => match prop_tokens x with
                       | [] => []
                       | ps => [TLp; TNum (Z.of_N (lbl x) + 1); TColon] ++ join_comma ps ++ [TRp]
                       end) (isort atom_leb (atoms m)).

  Fixpoint all_some {A} (l : list (option A)) : option (list A) :=
    match l with
    | [] => Some []
    | None :: _ => None
    | Some x :: r => match all_some r with Some r' => Some (x :: r') | None => None end
    end.

  Definition tokens_of (m : mol P B) : option (list token) :=
    match all_some (map (fun x => symbol_of (zn x)) (atoms m)) with
    | None => None                                      (* no element_symbol for this atomic number *)
    | Some syms =>
      let at_ := attr_tokens m in
      Some (formula_tokens syms ++ [TSlash] ++ edge_tokens m ++ (match at_ with [] => [] | _ => TSlash :: at_ end))
    end.

  Definition serialize_tokens (m : mol P B) : option (list token) :=
    match assign_final_labels m with
    | None => None
    | Some m1 => tokens_of (sort_by_Z m1)
    end.
  Definition serialize (m : mol P B) : option text := option_map print_tokens (serialize_tokens m).
End Ser.
