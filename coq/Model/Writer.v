(* Writer.v -- io/molfile_writer.py (V3000 writer).  Coordinates are already formatted
   tokens ('{:.6f}' is outside the model); header line 2 (timestamp) is a parameter. *)
From Coq Require Import String.
Require Import Base Mol Text Molfile.
Require Params.
Set Implicit Arguments.

Definition prefix : text := t Params.v30_prefix.
Definition dash : ascii := ascii_of_N 45.

(* _add_v30_line *)
Fixpoint wrap (fuel : nat) (line : text) : list text :=
  match fuel with
  | O => [prefix ++ line]
  | S f => if Nat.leb (length line) Params.wrap_limit then [prefix ++ line]
           else (prefix ++ firstn Params.wrap_chunk line ++ [dash]) :: wrap f (skipn Params.wrap_chunk line)
  end.
Definition v30_line (line : text) : list text := wrap (length line) line.

Definition tN (n : N) : text := text_of_N n.
Definition tZ (z : Z) : text := text_of_Z z.
Definition spt : text := [sp].

Definition opt_prop (name : string) (cond : Z -> bool) (o : option Z) : text :=
  match o with Some v => if cond v then spt ++ t name ++ t "=" ++ tZ v else [] | None => [] end.
Definition chg_ok (v : Z) : bool := negb (Z.eqb v 0) && Z.leb (-15) v && Z.leb v 15.
Definition rad_ok (v : Z) : bool := Z.ltb 0 v && Z.leb v 3.
Definition mass_ok (v : Z) : bool := Z.ltb 0 v.

Definition atom_line (x : atom rpay) : text :=
  tN (lbl x + 1) ++ spt ++ p_sym (pay x) ++ spt ++ p_x (pay x) ++ spt ++ p_y (pay x) ++ spt ++ p_z (pay x) ++ spt ++ t "0"
  ++ opt_prop "CHG" chg_ok (p_chg (pay x)) ++ opt_prop "RAD" rad_ok (rad x) ++ opt_prop "MASS" mass_ok (mass x).
Definition bond_line (ib : N * (N * N * option Z)) : text :=
  let b := snd ib in
  tN (fst ib) ++ spt ++ tZ (opt_default 1%Z (snd b)) ++ spt ++ tN (fst (fst b) + 1) ++ spt ++ tN (snd (fst b) + 1).

Definition header (line2 : text) : list text := [[]; line2; []; t "  0  0  0     0  0            999 V3000"].

Definition write_lines (line2 : text) (m : mol rpay (option Z)) : list text :=
  header line2
  ++ v30_line (t "BEGIN CTAB")
  ++ v30_line (t "COUNTS " ++ tN (N.of_nat (length (atoms m))) ++ spt ++ tN (N.of_nat (length (bonds m))) ++ t " 0 0 0")
  ++ v30_line (t "BEGIN ATOM") ++ flat_map (fun x => v30_line (atom_line x)) (atoms m) ++ v30_line (t "END ATOM")
  ++ (match bonds m with
      | [] => []
      | _ => v30_line (t "BEGIN BOND") ++ flat_map (fun ib => v30_line (bond_line ib)) (enumerate_from 1 (bonds m))
             ++ v30_line (t "END BOND")
      end)
  ++ v30_line (t "END CTAB") ++ [t "M  END"].
Definition nl : ascii := ascii_of_N 10.
Definition write_molfile (line2 : text) (m : mol rpay (option Z)) : text := join_with [nl] (write_lines line2 m).
