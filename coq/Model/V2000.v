(* V2000.v -- io/molfile_v2000_reader.py: fixed columns, charge codes, M  CHG / RAD / ISO. *)
From Coq Require Import String.
Require Import Base Mol Text Molfile.
Require Elements Params.
Set Implicit Arguments.
Local Open Scope Z_scope.

(* _to_int: blank field -> 0 *)
Definition to_int (s : text) : res Z := match strip_sp s with [] => ok 0 | _ => int_of s end.
(* _to_float: blank field -> 0, else float(); the model keeps the field text *)
Definition float_field_ok (s : text) : bool := match strip_sp s with [] => true | _ => py_float_ok s end.

Definition nth_slice (n : nat) (sl : list (nat * nat)) (d : nat * nat) : nat * nat := nth n sl d.
Definition aslice (n : nat) (line : text) : text :=
  let p := nth_slice n Params.v2000_atom_slices (0%nat, 0%nat) in slice (fst p) (snd p) line.
Definition bslice (n : nat) (line : text) : text :=
  let p := nth_slice n Params.v2000_bond_slices (0%nat, 0%nat) in slice (fst p) (snd p) line.

Definition charge_code (c : Z) : option (bool * Z) :=
  (fix go (l : list (Z * (bool * Z))) := match l with [] => None | (k, v) :: r => if Z.eqb k c then Some v else go r end)
    Elements.v2000_charge_table.

(* _parse_atom_line *)
Definition parse_atom_line (i : N) (line : text) : res ratom :=
  let (sym, iso) := detect_isotope (strip_sp (aslice 3 line)) in
  do zn <- of_opt EOther (z_of_symbol sym);
  let x := aslice 0 line in let y := aslice 1 line in let z := aslice 2 line in
  if negb (float_field_ok x && float_field_ok y && float_field_ok z) then inl EOther else
  do cc <- to_int (aslice 4 line);
  let cr := charge_code cc in
  ok (mkRatom (Z.of_N i) sym zn
              (match cr with Some (true, v) => Some v | _ => None end)
              (if Z.eqb iso 0 then None else Some iso)
              (match cr with Some (false, v) => Some v | _ => None end)
              x y z).
Fixpoint parse_atom_lines (i : N) (ls : list text) : res (list ratom) :=
  match ls with [] => ok [] | l :: r => do a <- parse_atom_line i l; do rest <- parse_atom_lines (N.succ i) r; ok (a :: rest) end.

Definition valid_index (n : nat) (i : Z) : bool := Z.leb 0 i && Z.ltb i (Z.of_nat n).

(* _parse_bond_line; dict([...]) keeps the first position of a repeated key with the last value *)
Fixpoint parse_bond_lines (n : nat) (ls : list text) (acc : list ((Z * Z) * Z)) : res (list ((Z * Z) * Z)) :=
  match ls with
  | [] => ok acc
  | l :: r =>
    do a1 <- to_int (bslice 0 l); do a2 <- to_int (bslice 1 l);
    if negb (valid_index n (a1 - 1)) then inl EParser else
    if negb (valid_index n (a2 - 1)) then inl EParser else
    if Z.eqb a1 a2 then inl EParser else   (* a bond from an atom to itself is rejected *)
    do ty <- to_int (bslice 2 l);
    parse_bond_lines n r (dict_set (fun a b => Z.eqb (fst a) (fst b) && Z.eqb (snd a) (snd b)) (a1 - 1, a2 - 1) ty acc)
  end.

(* _parse_atom_value_assignments: "M  XXXnn8 aaa vvv aaa vvv ..." *)
Fixpoint assignments (n : nat) (line : text) (k : nat) (i : nat) : res (list (Z * Z)) :=
  match k with
  | O => ok []
  | S k' =>
    let start := (Params.v2000_tuple_offset + i * Params.v2000_tuple_length)%nat in
    do a <- to_int (slice start (start + 3) line);
    do v <- to_int (slice (start + 4) (start + 7) line);
    if negb (valid_index n (a - 1)) then inl EParser else
    do rest <- assignments n line k' (S i);
    ok ((a - 1, v) :: rest)
  end.
Definition parse_assignments (n : nat) (line : text) : res (list (Z * Z)) :=
  let p := nth_slice 0 Params.v2000_count_slices (0%nat, 0%nat) in
  do cnt <- to_int (slice (fst p) (snd p) line);
  (* range(negative) is empty *)
  assignments n line (Z.to_nat cnt) 0.

(* _parse_non_negative_atom_value_assignments (M  RAD, M  ISO) *)
Definition parse_assignments_nonneg (n : nat) (line : text) : res (list (Z * Z)) :=
  do a <- parse_assignments n line;
  if existsb (fun p => Z.ltb (snd p) 0) a then inl EParser else ok a.

Inductive pkind := PChg | PRad | PIso.
Record extra := mkExtra { x_chg : option Z; x_rad : option Z; x_mass : option Z }.
Definition set_extra (k : pkind) (v : Z) (e : extra) : extra :=
  match k with
  | PChg => mkExtra (Some v) (x_rad e) (x_mass e)
  | PRad => mkExtra (x_chg e) (Some v) (x_mass e)
  | PIso => mkExtra (x_chg e) (x_rad e) (Some v)
  end.
Fixpoint merge_extra (k : pkind) (asg : list (Z * Z)) (d : list (Z * extra)) : list (Z * extra) :=
  match asg with
  | [] => d
  | (a, v) :: r =>
    let cur := match (fix get (l : list (Z * extra)) := match l with [] => None | (k', e) :: r' => if Z.eqb k' a then Some e else get r' end) d with
               | Some e => e | None => mkExtra None None None end in
    merge_extra k r (dict_set Z.eqb a (set_extra k v cur) d)
  end.

(* the loop over the property block; returns (additional attributes, any CHG/RAD line seen) or an error
   when "M  END" is missing *)
Fixpoint attribute_block (n : nat) (ls : list text) (d : list (Z * extra)) (reset : bool) : res (list (Z * extra) * bool) :=
  match ls with
  | [] => inl EParser
  | l :: r =>
    if starts_with (t "A  ") l || starts_with (t "G  ") l then
      (* atom alias / group abbreviation: the next line is free text *)
      match r with [] => inl EParser | _ :: r' => attribute_block n r' d reset end
    else if starts_with (t "M  CHG") l then do a <- parse_assignments n l; attribute_block n r (merge_extra PChg a d) true
    else if starts_with (t "M  RAD") l then do a <- parse_assignments_nonneg n l; attribute_block n r (merge_extra PRad a d) true
    else if starts_with (t "M  ISO") l then do a <- parse_assignments_nonneg n l; attribute_block n r (merge_extra PIso a d) reset
    else if text_eqb l (t "M  END") then ok (d, reset)
    else attribute_block n r d reset
  end.

Definition nz (o : option Z) : option Z := match o with Some v => if Z.eqb v 0 then None else Some v | None => None end.
Definition over (new old : option Z) : option Z := match nz new with Some v => Some v | None => old end.
Definition apply_extra (d : list (Z * extra)) (reset : bool) (a : ratom) : ratom :=
  let chg0 := if reset then None else r_chg a in
  let rad0 := if reset then None else r_rad a in
  match (fix get (l : list (Z * extra)) := match l with [] => None | (k', e) :: r' => if Z.eqb k' (r_idx a) then Some e else get r' end) d with
  | None => mkRatom (r_idx a) (r_sym a) (r_zn a) chg0 (r_mass a) rad0 (r_x a) (r_y a) (r_z a)
  | Some e => mkRatom (r_idx a) (r_sym a) (r_zn a) (over (x_chg e) chg0) (over (x_mass e) (r_mass a)) (over (x_rad e) rad0)
                      (r_x a) (r_y a) (r_z a)
  end.

Definition to_nat_idx (z : Z) : res nat := if Z.ltb z 0 then inl EOther else ok (Z.to_nat z).

Definition read_v2000 (lines : list text) : res (list ratom * list rbond) :=
  do l3 <- nth_tok 3%nat lines;
  do acz <- to_int (slice 0 3 l3); do bcz <- to_int (slice 3 6 l3); do lcz <- to_int (slice 6 9 l3);
  do scz <- to_int (slice 15 18 l3);
  do ac <- to_nat_idx acz; do bc <- to_nat_idx bcz; do lc <- to_nat_idx lcz; do sc <- to_nat_idx scz;
  let atom_lines := firstn ac (skipn 4 lines) in
  do atoms <- parse_atom_lines 0 atom_lines;
  let n := length atoms in
  do bonds <- parse_bond_lines n (firstn bc (skipn (4 + ac) lines)) [];
  do ex <- attribute_block n (skipn (4 + ac + bc + lc + 2 * sc) lines) [] false;
  let (d, reset) := ex in
  ok (map (apply_extra d reset) atoms, map (fun b => (fst (fst b), snd (fst b), snd b)) bonds).

(* molfile_reader.graph_from_molfile_text *)
Require Import V3000.
Inductive version := V3 | V2.
Definition last_text (l : list text) : text := last l [].
Definition read_molfile (s : text) : res (mol rpay Z) :=
  let lines := splitlines s in
  do l3 <- nth_tok 3%nat lines;
  let ver := last_text (split_on (is_code 32%N) (rstrip l3)) in
  do ab <- (if text_eqb ver (t "V3000") then read_v3000 lines
            else if text_eqb ver (t "V2000") then read_v2000 lines
            else inl EParser);
  graph_from_molecule (fst ab) (snd ab).
