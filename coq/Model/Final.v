(* Final.v -- serialization._assign_final_labels / _labels_by_partition as a worklist machine.
   The machine is written against three views of the molecule (sorted labels, class lookup,
   sorted neighbour lists); None stands for the Python failures pop-from-empty, KeyError,
   failed assertion and non-termination. *)
Require Import Base Mol.
Set Implicit Arguments.

Section Machine.
  Variable labels_sorted : list N.                 (* sorted(m.nodes) *)
  Variable part_of : N -> option N.                (* partitions[a] *)
  Variable nbrs_sorted : N -> list N.              (* sorted(m.neighbors(a)) *)
  Variable prios : list (N -> N -> bool).          (* reversed(traversal_priorities) *)

  Record st := mkSt { explored : list N; queue : list N; avail : list (N * list N); out : list (N * N) }.

  (* labels_by_partition[p].pop(): smallest label still available in class p *)
  Fixpoint pop_class (p : N) (av : list (N * list N)) : option (N * list (N * list N)) :=
    match av with
    | [] => None
    | (q, ls) :: t =>
      if N.eqb q p then match ls with [] => None | l :: ls' => Some (l, (q, ls') :: t) end
      else match pop_class p t with Some (l, t') => Some (l, (q, ls) :: t') | None => None end
    end.

  (* neighbours grouped by priority, each group ascending *)
  Definition order_of (a pa : N) : option (list N) :=
    let ns := nbrs_sorted a in
    fold_right (fun (pr : N -> N -> bool) (acc : option (list N)) =>
      match acc with None => None | Some rest =>
        let sel := flat_map (fun n => match part_of n with
                                      | Some pn => if pr pa pn then [n] else []
                                      | None => [] end) ns in
        Some (sel ++ rest) end) (Some []) prios.

  Inductive outcome := Done (s : st) | Step (s : st) | Fail.
  Definition explore (a : N) (q : list N) (s : st) : outcome :=
    match part_of a with
    | None => Fail
    | Some pa => match pop_class pa (avail s) with
                 | None => Fail
                 | Some (l, av') => match order_of a pa with
                                    | None => Fail
                                    | Some ord => Step (mkSt (a :: explored s) (q ++ ord) av' ((a, l) :: out s))
                                    end
                 end
    end.
  Definition step (s : st) : outcome :=
    match queue s with
    | [] => match filter (fun l => negb (memN l (explored s))) labels_sorted with
            | [] => Done s
            | u :: _ => explore u [] s
            end
    | a :: q => if memN a (explored s) then Step (mkSt (explored s) q (avail s) (out s)) else explore a q s
    end.
  Fixpoint run (fuel : nat) (s : st) : option (list (N * N)) :=
    match fuel with
    | O => None
    | S f => match step s with Done s' => Some (out s') | Step s' => run f s' | Fail => None end
    end.
End Machine.

Section OnMol.
  Variables P B : Type.
  Definition part_values (m : mol P B) : list N := dedup Nleb (isort Nleb (map (@part P) (atoms m))).
  Definition init_avail (m : mol P B) : list (N * list N) :=
    map (fun p => (p, isort Nleb (map (@lbl P) (filter (fun x => N.eqb (part x) p) (atoms m))))) (part_values m).
  Definition part_lookup (m : mol P B) (a : N) : option N := option_map (@part P) (find_atom (atoms m) a).
  (* traversal_priorities = (lt, gt, eq), consumed reversed: eq, gt, lt; each called as priority(p_a, p_n) *)
  Definition default_prios : list (N -> N -> bool) := [N.eqb; (fun x y => N.ltb y x); N.ltb].
  Definition final_fuel (m : mol P B) : nat := S (2 * (length (atoms m) + 2 * length (bonds m))).
  Definition final_labels (m : mol P B) : option (list (N * N)) :=
    match run (isort Nleb (labels m)) (part_lookup m) (fun a => isort Nleb (nbrs m a)) default_prios
              (final_fuel m) (mkSt [] [] (init_avail m) []) with
    | None => None
    | Some o => if Nat.eqb (length o) (length (atoms m)) then Some o else None   (* assert len(final_labels) == len(m.nodes) *)
    end.
  Definition assign_final_labels (m : mol P B) : option (mol P B) :=
    match final_labels m with None => None | Some o => Some (relabel (fun_of_map o) m) end.
End OnMol.
