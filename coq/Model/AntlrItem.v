(* AntlrItem.v -- the statement language into which harness/gen_antlr.py translates the rule methods of the
   ANTLR-generated recogniser tucan/parser/tucanParser.py (an LL(1) recursive descent: every decision tests one
   token of lookahead against a literal set). *)
From Coq Require Import List ZArith String.
Import ListNotations.

Inductive item :=
| Call (r : string)                               (* self.<rule>()                                              *)
| Match (t : Z)                                   (* self.match(tucanParser.T)   (T = -1: EOF)                  *)
| MatchSet (ts : list Z)                          (* if not (LA in ts): recoverInline else: consume             *)
| Opt (ts : list Z) (body : list item)            (* if LA in ts: body                                          *)
| Star (ts : list Z) (body : list item)           (* while LA in ts: body                                       *)
| Alt (alts : list (list Z * list item)).         (* if LA in ts1: b1 elif LA in ts2: b2 ... else: NoViableAlt  *)

(* edges of the lexer automaton dumped by harness/gen_antlr_lexer.py from the serialized ATN of tucanLexer.py *)
Inductive ledge :=
| LEps (target : N)                                    (* epsilon transition                                        *)
| LChars (ranges : list (N * N)) (target : N).       (* atom / range / set transition: inclusive code-point ranges *)
