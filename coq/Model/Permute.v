(* Permute.v -- graph_utils.permute_molecule; random.shuffle is an oracle: the stream of
   shuffled label lists is an argument. *)
Require Import Base Mol.
Set Implicit Arguments.

Section Permute.
  Variables P B : Type.
  Definition atom_lbl_leb (x y : atom P) : bool := N.leb (lbl x) (lbl y).
  (* _sort_molecule_by_label: node order = label order, edges as they come *)
  Definition sort_by_label (m : mol P B) : mol P B := mkMol (isort atom_lbl_leb (atoms m)) (bonds m).
  (* _permute_molecule for one shuffle result: mapping permuted[i] -> labels[i] *)
  Definition permute1 (perm : list N) (m : mol P B) : mol P B :=
    sort_by_label (relabel (fun_of_map (combine perm (labels m))) m).

  Definition pair_leb (a b : N * N) : bool :=
    if N.ltb (fst a) (fst b) then true else if N.eqb (fst a) (fst b) then N.leb (snd a) (snd b) else false.
  Definition edge_set (m : mol P B) : list (N * N) := isort pair_leb (map (fun b => norm_pair (ends b)) (bonds m)).
  Fixpoint pairs_eqb (a b : list (N * N)) : bool :=
    match a, b with
    | [], [] => true
    | x :: a', y :: b' => N.eqb (fst x) (fst y) && N.eqb (snd x) (snd y) && pairs_eqb a' b'
    | _, _ => false
    end.
  Definition same_edges (m m' : mol P B) : bool := pairs_eqb (edge_set m) (edge_set m').

  (* enforce_permutation = number_of_edges > 1 and density != 1 *)
  Definition enforce (m : mol P B) : bool :=
    let n := N.of_nat (length (atoms m)) in let e := N.of_nat (length (bonds m)) in
    N.ltb 1 e && negb (N.eqb (2 * e) (n * (n - 1))).

  Fixpoint retry (m : mol P B) (cur : mol P B) (shuffles : list (list N)) : option (mol P B * nat) :=
    if same_edges m cur then
      match shuffles with
      | [] => None                                   (* stream exhausted: the loop would go on *)
      | s :: r => option_map (fun p => (fst p, S (snd p))) (retry m (permute1 s m) r)
      end
    else Some (cur, O).
  (* returns the result and the number of extra shuffles drawn *)
  Definition permute (shuffles : list (list N)) (m : mol P B) : option (mol P B * nat) :=
    match shuffles with
    | [] => None
    | s :: r => let first := permute1 s m in
                if enforce m then option_map (fun p => (fst p, snd p)) (retry m first r) else Some (first, O)
    end.
End Permute.
