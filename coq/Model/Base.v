(* Base.v -- executable list utilities shared by every model file.
   Definitions only; lemmas live in Proofs/. *)
From Coq Require Export List NArith ZArith Bool Ascii.
Export ListNotations.

Set Implicit Arguments.

(* ---------- generic insertion sort (stable), as Python's sorted() on a total order ---------- *)
Section Sort.
  Variable A : Type.
  Variable leb : A -> A -> bool.
  Fixpoint insert (x : A) (l : list A) : list A :=
    match l with
    | [] => [x]
    | y :: t => if leb x y then x :: l else y :: insert x t
    end.
  Fixpoint isort (l : list A) : list A :=
    match l with [] => [] | x :: t => insert x (isort t) end.
End Sort.

(* ---------- lexicographic order on lists = Python tuple comparison ---------- *)
Section Lex.
  Variable V : Type.
  Variable leb : V -> V -> bool.
  Fixpoint lex (k1 k2 : list V) : bool :=
    match k1, k2 with
    | [], _ => true
    | _ :: _, [] => false
    | x :: t1, y :: t2 => if leb x y then (if leb y x then lex t1 t2 else true) else false
    end.
End Lex.

(* ---------- rank of a key among the distinct keys = index in sorted(set(keys)) ---------- *)
Section Rank.
  Variable K : Type.
  Variable kleb : K -> K -> bool.
  Definition keqb (x y : K) : bool := kleb x y && kleb y x.
  Fixpoint dedup (l : list K) : list K :=          (* on a sorted list: drop adjacent equals *)
    match l with
    | [] => []
    | x :: t => match t with
                | [] => [x]
                | y :: _ => if keqb x y then dedup t else x :: dedup t
                end
    end.
  Fixpoint index_of (k : K) (l : list K) : N :=
    match l with [] => 0%N | x :: t => if keqb x k then 0%N else N.succ (index_of k t) end.
  Definition rank (keys : list K) (k : K) : N := index_of k (dedup (isort kleb keys)).
End Rank.

(* ---------- association lists keyed by N ---------- *)
Fixpoint lookup {V : Type} (l : list (N * V)) (n : N) : option V :=
  match l with [] => None | (k, v) :: t => if N.eqb k n then Some v else lookup t n end.

Definition memN (a : N) (l : list N) : bool := existsb (N.eqb a) l.

Definition Nleb (x y : N) : bool := N.leb x y.
Definition Ngeb (x y : N) : bool := N.leb y x.
Definition Zleb (x y : Z) : bool := Z.leb x y.
Definition Zgeb (x y : Z) : bool := Z.leb y x.

Fixpoint N_seq (start : N) (len : nat) : list N :=
  match len with O => [] | S l => start :: N_seq (N.succ start) l end.

Fixpoint maxN_list (l : list N) : option N :=      (* Python max(); None on an empty list (ValueError) *)
  match l with
  | [] => None
  | x :: t => match maxN_list t with None => Some x | Some y => Some (N.max x y) end
  end.

Definition opt_default {A} (d : A) (o : option A) : A := match o with Some x => x | None => d end.

(* positional zip with an index *)
Fixpoint enumerate_from {A} (i : N) (l : list A) : list (N * A) :=
  match l with [] => [] | x :: t => (i, x) :: enumerate_from (N.succ i) t end.

Definition text := list ascii.
