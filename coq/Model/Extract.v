(* Extract.v -- extraction of the executable model (ExtrOcamlBasic only: bool, option, unit,
   list, prod, sumbool, sumor map to OCaml's; N, Z, positive, ascii, string stay inductive). *)
Require Import Base Mol Partition Canon Final Text Token Serialize Parse Molfile V3000 V2000 Writer Permute Pipeline Fast AntlrItem AntlrExec AntlrLex.
Require Extraction.
Require Import ExtrOcamlBasic.
Extraction Language OCaml.
Extraction "../ocaml/tucan_model.ml"
  classes_fast rounds_fast partition_by_inv_fast canonicalize_with_fast classes rounds refine_fuel partition_by_inv canonicalize_with final_labels assign_final_labels sort_by_Z
  serialize serialize_tokens tokens_of print_tokens
  lex_text parse_tokens sem ref_parse
  antlr_recognise antlr_types antlr_accepts_types antlr_lex
  splitlines read_molfile read_v3000 read_v2000 graph_from_molecule
  write_molfile write_lines wrap
  permute permute1 enforce same_edges
  relabel fun_of_map.
