(* Molfile.v -- what both molfile readers share: Python string primitives, int(),
   the reader's result records and graph_utils.graph_from_molecule. *)
From Coq Require Import String.
Require Import Base Mol Text.
Set Implicit Arguments.

Inductive merr := EParser (* MolfileParserException *) | EOther (* IndexError, ValueError, KeyError ... *).
Definition res (A : Type) := sum merr A.
Definition ok {A} (x : A) : res A := inr x.
Definition bind {A B} (r : res A) (f : A -> res B) : res B := match r with inl e => inl e | inr x => f x end.
Notation "'do' x <- r ; k" := (bind r (fun x => k)) (at level 200, x pattern, r at level 100, k at level 200).
Definition of_opt {A} (e : merr) (o : option A) : res A := match o with Some x => inr x | None => inl e end.

Definition code (c : ascii) : N := N_of_ascii c.
Definition is_code (n : N) (c : ascii) : bool := N.eqb (code c) n.
Definition sp : ascii := ascii_of_N 32.

(* ---- str.splitlines() on code points < 256 ---- *)
Definition is_linebreak (c : ascii) : bool :=
  let n := code c in
  N.eqb n 10 || N.eqb n 13 || N.eqb n 11 || N.eqb n 12 || N.eqb n 28 || N.eqb n 29 || N.eqb n 30 || N.eqb n 133.
Fixpoint splitlines_aux (cur : text) (l : text) : list text :=
  match l with
  | [] => match cur with [] => [] | _ => [rev cur] end
  | c :: r =>
    if is_linebreak c then
      rev cur :: (match r with
                  | c2 :: r2 => if is_code 13 c && is_code 10 c2 then splitlines_aux [] r2 else splitlines_aux [] r
                  | [] => [] end)
    else splitlines_aux (c :: cur) r
  end.
Definition splitlines (s : text) : list text := splitlines_aux [] s.

(* ---- str.rstrip() / strip() with no argument (whitespace left inside a line) ---- *)
Definition is_space (c : ascii) : bool :=
  let n := code c in N.eqb n 32 || N.eqb n 9 || N.eqb n 31 || N.eqb n 160 || is_linebreak c.
Fixpoint lstrip_by (f : ascii -> bool) (l : text) : text :=
  match l with c :: r => if f c then lstrip_by f r else l | [] => [] end.
Definition rstrip_by (f : ascii -> bool) (l : text) : text := rev (lstrip_by f (rev l)).
Definition rstrip (l : text) : text := rstrip_by is_space l.
Definition strip (l : text) : text := lstrip_by is_space (rstrip l).
Definition strip_sp (l : text) : text := lstrip_by (is_code 32) (rstrip_by (is_code 32) l).   (* s.strip(" ") *)

(* ---- str.split(sep) for a one-character separator: keeps empty fields ---- *)
Fixpoint split_on_aux (f : ascii -> bool) (cur : text) (l : text) : list text :=
  match l with
  | [] => [rev cur]
  | c :: r => if f c then rev cur :: split_on_aux f [] r else split_on_aux f (c :: cur) r
  end.
Definition split_on (f : ascii -> bool) (l : text) : list text := split_on_aux f [] l.
Definition nonempty (x : text) : bool := match x with [] => false | _ => true end.
(* str.split() with no argument: runs of whitespace, no empty fields *)
Definition split_ws (l : text) : list text := filter nonempty (split_on is_space l).

Fixpoint starts_with (p l : text) : bool :=
  match p, l with
  | [], _ => true
  | a :: p', b :: l' => ascii_eqb a b && starts_with p' l'
  | _ :: _, [] => false
  end.
Definition ends_with_char (n : N) (l : text) : bool := match rev l with c :: _ => is_code n c | [] => false end.
Fixpoint join_with (sep : text) (l : list text) : text :=
  match l with [] => [] | [x] => x | x :: r => x ++ sep ++ join_with sep r end.

(* Python slices l[a:b] *)
Definition slice (a b : nat) (l : text) : text := firstn (b - a) (skipn a l).

(* ---- int(s): optional surrounding whitespace, sign, decimal digits with single inner underscores ---- *)
Fixpoint int_digits (acc : N) (prev_digit : bool) (l : text) : option N :=
  match l with
  | [] => if prev_digit then Some acc else None
  | c :: r => if is_digit c then int_digits (10 * acc + digit_val c) true r
              else if is_code 95 c && prev_digit then
                     match r with c2 :: _ => if is_digit c2 then int_digits acc false r else None | [] => None end
              else None
  end.
Definition py_int (s : text) : option Z :=
  match strip s with
  | [] => None
  | c :: r => if is_code 45 c then option_map (fun n => Z.opp (Z.of_N n)) (int_digits 0 false r)
              else if is_code 43 c then option_map Z.of_N (int_digits 0 false r)
              else option_map Z.of_N (int_digits 0 false (c :: r))
  end.
Definition int_of (s : text) : res Z := of_opt EOther (py_int s).

(* float(s) accepts the token?  (only the shapes the generators produce; anything else is outside the model) *)
Fixpoint all_digits (l : text) : bool := match l with [] => true | c :: r => is_digit c && all_digits r end.
Definition float_mantissa (l : text) : bool :=
  match split_on (is_code 46) l with
  | [a] => nonempty a && all_digits a
  | [a; b] => (nonempty a || nonempty b) && all_digits a && all_digits b
  | _ => false
  end.
Definition unsign (l : text) : text := match l with c :: r => if is_code 45 c || is_code 43 c then r else l | [] => [] end.
Definition is_e (c : ascii) : bool := is_code 101 c || is_code 69 c.
Definition py_float_ok (s : text) : bool :=
  let b := unsign (strip s) in
  match split_on is_e b with
  | [m] => float_mantissa m
  | [m; e] => float_mantissa m && nonempty (unsign e) && all_digits (unsign e)
  | _ => false
  end.

Fixpoint nth_tok (n : nat) (l : list text) : res text :=          (* list indexing: IndexError *)
  match n, l with
  | O, x :: _ => ok x
  | S k, _ :: r => nth_tok k r
  | _, [] => inl EOther
  end.

(* ---- reader results ---- *)
Record ratom := mkRatom {
  r_idx : Z;                 (* dictionary key: 0-based index used by the file *)
  r_sym : text; r_zn : N;
  r_chg : option Z; r_mass : option Z; r_rad : option Z;
  r_x : text; r_y : text; r_z : text }.
Definition rbond : Type := Z * Z * Z.      (* key (i1, i2), bond_type *)

(* element symbol: D/T are spellings of hydrogen with a mass; KeyError for unknown symbols *)
Definition detect_isotope (s : text) : text * Z :=
  match assoc_text hydrogen_isotopes s with Some p => p | None => (s, 0%Z) end.

(* Python dict assignment d[k] = v on an association list: replace in place or append *)
Fixpoint dict_set {K V} (eqb : K -> K -> bool) (k : K) (v : V) (d : list (K * V)) : list (K * V) :=
  match d with
  | [] => [(k, v)]
  | (k', v') :: r => if eqb k' k then (k, v) :: r else (k', v') :: dict_set eqb k v r
  end.

(* payload carried by a molecule read from a molfile *)
Record rpay := mkRpay { p_sym : text; p_chg : option Z; p_x : text; p_y : text; p_z : text }.

Fixpoint index_of_Z (k : Z) (l : list Z) (i : N) : option N :=
  match l with [] => None | x :: r => if Z.eqb x k then Some i else index_of_Z k r (N.succ i) end.

(* nx.Graph construction: parallel / opposite bonds collapse, the later data wins *)
Definition bond_eqb (a b : N * N) : bool :=
  (N.eqb (fst a) (fst b) && N.eqb (snd a) (snd b)) || (N.eqb (fst a) (snd b) && N.eqb (snd a) (fst b)).
Fixpoint add_edge {B} (e : N * N) (d : B) (l : list (N * N * B)) : list (N * N * B) :=
  match l with
  | [] => [(fst e, snd e, d)]
  | b :: r => if bond_eqb (ends b) e then (fst (fst b), snd (fst b), d) :: r else b :: add_edge e d r
  end.

(* graph_utils.graph_from_molecule: nodes in dictionary order renamed 0..n-1 *)
Definition graph_from_molecule (ats : list ratom) (bds : list rbond) : res (mol rpay Z) :=
  let keys := map r_idx ats in
  let atoms := map (fun p => let a := snd p in
                     mkAtom (fst p) (r_zn a) (r_mass a) (r_rad a) 0%N (mkRpay (r_sym a) (r_chg a) (r_x a) (r_y a) (r_z a)))
                   (enumerate_from 0 ats) in
  let add (b : rbond) (acc : res (list (N * N * Z))) : res (list (N * N * Z)) :=
      do l <- acc;
      match index_of_Z (fst (fst b)) keys 0, index_of_Z (snd (fst b)) keys 0 with
      | Some u, Some v => ok (add_edge (u, v) (snd b) l)
      | _, _ => inl EOther
      end in
  do bonds <- fold_left (fun acc b => add b acc) bds (ok []);
  ok (mkMol atoms bonds).
