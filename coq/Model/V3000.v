(* V3000.v -- io/molfile_reader.py (dispatch) and io/molfile_v3000_reader.py. *)
From Coq Require Import String.
Require Import Base Mol Text Molfile.
Require Params.
Set Implicit Arguments.
Local Open Scope Z_scope.

Definition v30 : text := t "M  V30 ".

(* _concat_lines_with_dash: the deque loop; every splice shortens the list by one *)
Fixpoint concat_dash (fuel : nat) (lines : list text) : res (list text) :=
  match fuel with
  | O => ok lines
  | S f =>
    match lines with
    | [] => ok []
    | [cur] => ok [cur]
    | cur :: next :: rest =>
      if starts_with v30 cur && ends_with_char 45%N cur then
        if starts_with v30 next then concat_dash f ((removelast cur ++ skipn 7%nat next) :: rest)
        else inl EParser
      else do r <- concat_dash f (next :: rest); ok (cur :: r)
    end
  end.

(* line.rstrip().split(" ") without the empty fields *)
Definition tokenize (line : text) : list text := filter nonempty (split_on (is_code 32%N) (rstrip line)).
(* only the lines after the three header lines and the version line can be continued *)
Definition tokenize_lines (lines : list text) : res (list (list text)) :=
  do ls <- concat_dash (length lines) (skipn 4%nat lines); ok (map tokenize (firstn 4%nat lines ++ ls)).

Fixpoint nth_line (n : nat) (l : list (list text)) : res (list text) :=
  match n, l with
  | O, x :: _ => ok x
  | S k, _ :: r => nth_line k r
  | _, [] => inl EOther
  end.
Definition join_sp (l : list text) : text := join_with [sp] l.

(* values of key=value tokens whose key matches (exactly, or as a substring when the
   generated parameter says so) *)
Fixpoint is_infix (p l : text) : bool :=
  starts_with p l || match l with [] => false | _ :: r => is_infix p r end.
Definition key_matches (key tok : text) : bool :=
  if Params.v3000_keyword_exact
  then match split_on (is_code 61%N) tok with k :: _ => text_eqb k key | [] => false end
  else is_infix key tok.
Fixpoint prop_values (key : text) (toks : list text) : res (list Z) :=
  match toks with
  | [] => ok []
  | tk :: r =>
    if key_matches key tk then
      do v <- nth_tok 1%nat (split_on (is_code 61%N) tk);
      do n <- int_of v;
      do rest <- prop_values key r;
      ok (n :: rest)
    else prop_values key r
  end.
Definition last_nonzero (l : list Z) : option Z :=
  match rev l with v :: _ => if Z.eqb v 0 then None else Some v | [] => None end.

Definition last_negative (l : list Z) : bool :=
  match rev l with v :: _ => Z.ltb v 0 | [] => false end.

(* _parse_atom_attributes; None = star atom *)
Definition parse_atom_line (line : list text) : res (option ratom) :=
  do i <- nth_tok 2%nat line;
  do idx <- int_of i;
  do s <- nth_tok 3%nat line;
  if text_eqb s (t "*") then ok None else
  let (sym, iso) := detect_isotope s in
  do zn <- of_opt EOther (z_of_symbol sym);
  do x <- nth_tok 4%nat line; do y <- nth_tok 5%nat line; do z <- nth_tok 6%nat line;
  if negb (py_float_ok x && py_float_ok y && py_float_ok z) then inl EOther else
  do chg <- prop_values (t "CHG") line;
  do mass <- (if Z.eqb iso 0 then prop_values (t "MASS") line else ok [iso]);
  do rad <- prop_values (t "RAD") line;
  (* a negative MASS / RAD (last written value) is rejected *)
  if last_negative mass || last_negative rad then inl EParser else
  ok (Some (mkRatom (idx - 1) sym zn (last_nonzero chg) (last_nonzero mass) (last_nonzero rad) x y z)).

Definition expect_block (what : text) (line : list text) : res unit :=
  if text_eqb (join_sp (skipn 2%nat line)) what then ok tt else inl EParser.

Fixpoint parse_atoms (ls : list (list text)) (atoms : list (Z * ratom)) (stars : list Z) : res (list (Z * ratom) * list Z) :=
  match ls with
  | [] => ok (atoms, stars)
  | l :: r =>
    do i <- nth_tok 2%nat l;
    do idx <- int_of i;
    do a <- parse_atom_line l;
    match a with
    | None => parse_atoms r atoms (stars ++ [idx - 1])
    | Some a' => parse_atoms r (dict_set Z.eqb (idx - 1) a' atoms) stars
    end
  end.

(* re.search(r"ENDPTS=\(.+\)", " ".join(line)) *)
Fixpoint strip_prefix_b (p l : text) : option text :=
  match p, l with
  | [], _ => Some l
  | a :: p', b :: l' => if ascii_eqb a b then strip_prefix_b p' l' else None
  | _ :: _, [] => None
  end.
Fixpoint find_sub (p l : text) : option text :=       (* text after the first occurrence of p *)
  match strip_prefix_b p l with
  | Some r => Some r
  | None => match l with [] => None | _ :: r => find_sub p r end
  end.
(* longest prefix of l that ends just before the last ")" *)
Fixpoint upto_last_paren (l : text) : option text :=
  match l with
  | [] => None
  | c :: r => match upto_last_paren r with
              | Some x => Some (c :: x)
              | None => if is_code 41%N c then Some [] else None
              end
  end.
Fixpoint ints_of (l : list text) : res (list Z) :=
  match l with [] => ok [] | x :: r => do n <- int_of x; do ns <- ints_of r; ok (n :: ns) end.
Definition star_endpoints (line : list text) (start : Z) : res (list (Z * Z)) :=
  match find_sub (t "ENDPTS=(") (join_sp line) with
  | None => ok []
  | Some after =>
    match upto_last_paren after with
    | None | Some [] => ok []                              (* .+ needs one character *)
    | Some inner =>
      do nums <- ints_of (split_ws inner);
      match nums with
      | [] => inl EOther
      | n :: es => if Z.eqb n (Z.of_nat (length es)) then ok (map (fun e => (start, e - 1)) es) else inl EParser
      end
    end
  end.

Definition memZ (a : Z) (l : list Z) : bool := existsb (Z.eqb a) l.
Definition bkey_eqb (a b : Z * Z) : bool := Z.eqb (fst a) (fst b) && Z.eqb (snd a) (snd b).

Fixpoint parse_bonds (ls : list (list text)) (stars : list Z) (acc : list ((Z * Z) * Z)) : res (list ((Z * Z) * Z)) :=
  match ls with
  | [] => ok acc
  | l :: r =>
    do t4 <- nth_tok 4%nat l; do a1 <- int_of t4;
    do t5 <- nth_tok 5%nat l; do a2 <- int_of t5;
    do t3 <- nth_tok 3%nat l; do ty <- int_of t3;
    let i1 := a1 - 1 in let i2 := a2 - 1 in
    do tuples <- (if memZ i1 stars && memZ i2 stars then inl EParser
                  else if memZ i1 stars then star_endpoints l i2
                  else if memZ i2 stars then star_endpoints l i1
                  else ok [(i1, i2)]);
    (* a bond from an atom to itself is rejected *)
    if existsb (fun k => Z.eqb (fst k) (snd k)) tuples then inl EParser else
    parse_bonds r stars (fold_left (fun d k => dict_set bkey_eqb k ty d) tuples acc)
  end.

Definition to_nat_idx (z : Z) : res nat := if Z.ltb z 0 then inl EOther else ok (Z.to_nat z).

(* Python slicing l[a:a+n] never fails; it just returns fewer elements *)
Definition take_lines {A} (a n : nat) (l : list A) : list A := firstn n (skipn a l).

Definition read_v3000 (lines : list text) : res (list ratom * list rbond) :=
  do tl <- tokenize_lines lines;
  do counts <- nth_line 5%nat tl;
  do kw <- nth_tok 2%nat counts;
  if negb (text_eqb kw (t "COUNTS")) || Nat.ltb (length counts) 5%nat then inl EParser else
  do tc <- nth_tok 3%nat counts; do acz <- int_of tc;
  (* negative counts index from the end in Python; the model covers counts >= 0 only *)
  do ac <- to_nat_idx acz;
  do l6 <- nth_line 6%nat tl; do _ <- expect_block (t "BEGIN ATOM") l6;
  do le <- nth_line (7 + ac)%nat tl; do _ <- expect_block (t "END ATOM") le;
  do asr <- parse_atoms (take_lines 7%nat ac tl) [] [];
  let (atoms, stars) := asr in
  do tb <- nth_tok 4%nat counts; do bcz <- int_of tb;
  do bonds <-
    (if Z.eqb bcz 0 then ok [] else
     do bc <- to_nat_idx bcz;
     let off := (7 + ac + 2)%nat in
     do lb <- nth_line (off - 1)%nat tl; do _ <- expect_block (t "BEGIN BOND") lb;
     do lbe <- nth_line (off + bc)%nat tl; do _ <- expect_block (t "END BOND") lbe;
     parse_bonds (take_lines off bc tl) stars []);
  if forallb (fun b => memZ (fst (fst b)) (map fst atoms) && memZ (snd (fst b)) (map fst atoms)) bonds
  then ok (map snd atoms, map (fun b => (fst (fst b), snd (fst b), snd b)) bonds)
  else inl EParser.
