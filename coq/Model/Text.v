(* Text.v -- characters, decimal numerals, element symbols (tables come from gen/Elements.v). *)
From Coq Require Import String DecimalString DecimalN DecimalZ.
Require Import Base.
Require Elements.
Set Implicit Arguments.

Definition t (s : string) : text := list_ascii_of_string s.

Definition ascii_leb (a b : ascii) : bool := N.leb (N_of_ascii a) (N_of_ascii b).
Definition text_leb : text -> text -> bool := lex ascii_leb.           (* Python str <= str on ASCII *)
Definition ascii_eqb (a b : ascii) : bool := N.eqb (N_of_ascii a) (N_of_ascii b).
Fixpoint text_eqb (a b : text) : bool :=
  match a, b with
  | [], [] => true
  | x :: a', y :: b' => ascii_eqb x y && text_eqb a' b'
  | _, _ => false
  end.

(* str(int) *)
Definition text_of_N (n : N) : text := t (NilZero.string_of_uint (N.to_uint n)).
Definition text_of_Z (z : Z) : text := t (NilZero.string_of_int (Z.to_int z)).

Definition is_digit (c : ascii) : bool := let n := N_of_ascii c in N.leb 48 n && N.leb n 57.
Definition digit_val (c : ascii) : N := N_of_ascii c - 48.
Fixpoint digits_val (acc : N) (l : text) : N :=
  match l with [] => acc | c :: r => digits_val (10 * acc + digit_val c) r end.

(* ---- element table ---- *)
Definition elem_table : list (text * N) := map (fun p => (t (fst p), snd p)) Elements.element_table.
Fixpoint assoc_text {V} (l : list (text * V)) (s : text) : option V :=
  match l with [] => None | (k, v) :: r => if text_eqb k s then Some v else assoc_text r s end.
Definition z_of_symbol (s : text) : option N := assoc_text elem_table s.
Fixpoint symbol_of_in (l : list (text * N)) (z : N) : option text :=
  match l with [] => None | (k, v) :: r => if N.eqb v z then Some k else symbol_of_in r z end.
Definition symbol_of (z : N) : option text := symbol_of_in elem_table z.
Definition hydrogen_isotopes : list (text * (text * Z)) :=
  map (fun p => (t (fst p), (t (fst (snd p)), snd (snd p)))) Elements.hydrogen_isotope_table.
