(* Token.v -- the token alphabet of the TUCAN grammar and its concrete spelling. *)
From Coq Require Import String.
Require Import Base Text.
Set Implicit Arguments.

Inductive token :=
| TSym (z : N)          (* element symbol, by atomic number *)
| TNum (z : Z)          (* decimal numeral (the lexer only produces values >= 1) *)
| TSlash | TLp | TRp | TDash | TColon | TComma | TEq | TMass | TRad.

Definition print_token (k : token) : text :=
  match k with
  | TSym z => opt_default [] (symbol_of z)
  | TNum z => text_of_Z z
  | TSlash => t "/" | TLp => t "(" | TRp => t ")" | TDash => t "-" | TColon => t ":"
  | TComma => t "," | TEq => t "=" | TMass => t "mass" | TRad => t "rad"
  end.
Definition print_tokens (l : list token) : text := flat_map print_token l.
