(* Mol.v -- the molecule graph as the library holds it (networkx Graph with node
   and edge attribute dictionaries), with listing orders kept explicit. *)
Require Import Base.
Set Implicit Arguments.

(* P : everything on an atom that is not identity data (charge, coordinates, tracer ...)
   B : everything on a bond (bond type ...) *)
Record atom (P : Type) := mkAtom {
  lbl : N;               (* node label *)
  zn : N;                (* atomic_number (element_symbol is its image under gen/Elements) *)
  mass : option Z;       (* key absent / present *)
  rad : option Z;
  part : N;              (* partition *)
  pay : P }.
Record mol (P B : Type) := mkMol {
  atoms : list (atom P);           (* node iteration order *)
  bonds : list (N * N * B) }.      (* some listing order, some orientation *)

Definition labels {P B} (m : mol P B) : list N := map (@lbl P) (atoms m).
Definition ends {B} (b : N * N * B) : N * N := (fst (fst b), snd (fst b)).
Definition norm_pair (e : N * N) : N * N := if N.leb (fst e) (snd e) then e else (snd e, fst e).
Definition nb1 (a : N) (e : N * N) : list N :=
  if N.eqb (fst e) a then [snd e] else if N.eqb (snd e) a then [fst e] else [].
Definition nbrs {P B} (m : mol P B) (a : N) : list N := flat_map (fun b => nb1 a (ends b)) (bonds m).

Fixpoint find_atom {P} (l : list (atom P)) (a : N) : option (atom P) :=
  match l with [] => None | x :: t => if N.eqb (lbl x) a then Some x else find_atom t a end.

Definition set_lbl {P} (l : N) (x : atom P) : atom P := mkAtom l (zn x) (mass x) (rad x) (part x) (pay x).
Definition set_part {P} (p : N) (x : atom P) : atom P := mkAtom (lbl x) (zn x) (mass x) (rad x) p (pay x).

(* nx.relabel_nodes(m, mapping, copy=True) for a total mapping given as a function:
   node order, attribute dictionaries and edge data are kept; only names change. *)
Definition relabel_atom {P} (f : N -> N) (x : atom P) : atom P := set_lbl (f (lbl x)) x.
Definition map_bond {B} (f : N -> N) (b : N * N * B) : N * N * B := (f (fst (fst b)), f (snd (fst b)), snd b).
Definition relabel {P B} (f : N -> N) (m : mol P B) : mol P B :=
  mkMol (map (relabel_atom f) (atoms m)) (map (map_bond f) (bonds m)).

(* a mapping given as an association list; labels it does not mention stay (mapping.get(n, n)) *)
Definition fun_of_map (l : list (N * N)) (n : N) : N := opt_default n (lookup l n).
