(* Canon.v -- canonicalization.canonicalize_molecule with igraph/bliss as an oracle. *)
Require Import Base Mol Partition.
Set Implicit Arguments.

Section Canon.
  (* The oracle receives the vertices (label, colour) in node iteration order and the
     edges as listed, and returns the dictionary old label -> canonical label. *)
  Variable canon : list (N * N) -> list (N * N) -> list (N * N).
  Variables P B : Type.
  Definition canon_vertices (m : mol P B) : list (N * N) := map (fun x => (lbl x, part x)) (atoms m).
  Definition canon_edges (m : mol P B) : list (N * N) := map (@ends B) (bonds m).
  Definition canonicalize (m : mol P B) : option (mol P B) :=
    match classes m with
    | None => None
    | Some mr => Some (relabel (fun_of_map (canon (canon_vertices mr) (canon_edges mr))) mr)
    end.
End Canon.
