(* Pipeline.v -- compositions of the public operations. *)
Require Import Base Mol Partition Canon Final Text Token Serialize Parse Molfile V3000 V2000 Writer Permute.
Set Implicit Arguments.

Section Pipe.
  Variable canon : list (N * N) -> list (N * N) -> list (N * N).
  Variables P B : Type.
  (* serialize_molecule(canonicalize_molecule(m)) *)
  Definition tucan (m : mol P B) : option text :=
    match canonicalize canon m with Some c => serialize c | None => None end.
  Definition tucan_tokens (m : mol P B) : option (list token) :=
    match canonicalize canon m with Some c => serialize_tokens c | None => None end.
End Pipe.

(* canonicalize_molecule when the oracle's answer is already known (used by the correspondence
   check: the dictionary is read off the implementation's result) *)
Definition canonicalize_with {P B} (lam : list (N * N)) (m : mol P B) : option (mol P B) :=
  canonicalize (fun _ _ => lam) m.

Definition drop_bond_data {P B} (m : mol P B) : mol P unit :=
  mkMol (atoms m) (map (fun b => (fst (fst b), snd (fst b), tt)) (bonds m)).
