(* Fast.v -- the same refinement with the sorted list of distinct keys computed once per round
   instead of once per atom (the extracted code is call-by-value).  Definitions only; FastProofs.v
   proves they are equal to the ones the theorems are about. *)
Require Import Base Mol Partition Canon.
Set Implicit Arguments.

Section PartFast.
  Variable V : Type.
  Variable leb : V -> V -> bool.
  Variable nleb : V -> V -> bool.
  Variables P B : Type.
  Variable val : atom P -> V.
  Definition partition_by_fast (m : mol P B) : mol P B :=
    let ks := keys_of nleb val m in
    let d := dedup (kleb leb) (isort (kleb leb) ks) in
    mkMol (map (fun xk => set_part (index_of (kleb leb) (snd xk) d) (fst xk)) (combine (atoms m) ks)) (bonds m).
End PartFast.

Section RefineFast.
  Variables P B : Type.
  Definition partition_by_inv_fast (m : mol P B) : mol P B := partition_by_fast inv_leb inv_geb (@inv_code P) m.
  Definition partition_by_part_fast (m : mol P B) : mol P B := partition_by_fast Nleb Ngeb (@part P) m.
  Fixpoint refine_fast (fuel : nat) (m : mol P B) : option (mol P B) :=
    match fuel with
    | O => None
    | S f => let m' := partition_by_part_fast m in
             match nparts m', nparts m with
             | Some k', Some k => if N.eqb k' k then Some m' else refine_fast f m'
             | _, _ => None
             end
    end.
  Fixpoint rounds_fast (fuel : nat) (m : mol P B) : option nat :=
    match fuel with
    | O => None
    | S f => let m' := partition_by_part_fast m in
             match nparts m', nparts m with
             | Some k', Some k => if N.eqb k' k then Some 1%nat else option_map S (rounds_fast f m')
             | _, _ => None
             end
    end.
  Definition classes_fast (m : mol P B) : option (mol P B) := refine_fast (refine_fuel m) (partition_by_inv_fast m).
  Definition canonicalize_with_fast (lam : list (N * N)) (m : mol P B) : option (mol P B) :=
    match classes_fast m with
    | None => None
    | Some mr => Some (relabel (fun_of_map lam) mr)
    end.
End RefineFast.
