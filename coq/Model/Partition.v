(* Partition.v -- canonicalization.partition_molecule_by_attribute / refine_partitions
   and graph_utils.attribute_sequence. *)
Require Import Base Mol.
Set Implicit Arguments.

Section Part.
  Variable V : Type.
  Variable leb : V -> V -> bool.          (* order of attribute values (Python <=) *)
  Variable nleb : V -> V -> bool.         (* order in which neighbour values are sorted (reverse=True: >=) *)
  Variables P B : Type.
  Variable val : atom P -> V.

  Definition key := list V.
  Definition kleb : key -> key -> bool := lex leb.

  (* values of the neighbours of the atom labelled a, in adjacency order *)
  Definition nbr_vals (m : mol P B) (a : N) : list V :=
    flat_map (fun n => match find_atom (atoms m) n with Some x => [val x] | None => [] end) (nbrs m a).
  (* attribute_sequence(m, atom, attribute) *)
  Definition keyL (m : mol P B) (lv : N * V) : key := snd lv :: isort nleb (nbr_vals m (fst lv)).
  Definition lv_of (x : atom P) : N * V := (lbl x, val x).
  Definition keys_of (m : mol P B) : list key := map (fun x => keyL m (lv_of x)) (atoms m).
  (* index of the atom's sequence in sorted(set(all sequences)) *)
  Definition class_of (m : mol P B) (x : atom P) : N := rank kleb (keys_of m) (keyL m (lv_of x)).
  Definition partition_by (m : mol P B) : mol P B :=
    mkMol (map (fun x => set_part (class_of m x) x) (atoms m)) (bonds m).
End Part.

Section Refine.
  Variables P B : Type.
  (* INVARIANT_CODE = (atomic_number, mass or 0, rad or 0), compared as a tuple *)
  Definition inv_code (x : atom P) : list Z := [Z.of_N (zn x); opt_default 0%Z (mass x); opt_default 0%Z (rad x)].
  Definition inv_leb : list Z -> list Z -> bool := lex Zleb.
  Definition inv_geb : list Z -> list Z -> bool := fun a b => inv_leb b a.

  Definition partition_by_inv (m : mol P B) : mol P B := partition_by inv_leb inv_geb (@inv_code) m.
  Definition partition_by_part (m : mol P B) : mol P B := partition_by Nleb Ngeb (@part P) m.

  (* get_number_of_partitions: max over the partition attribute; None = max() of an empty sequence *)
  Definition nparts (m : mol P B) : option N := maxN_list (map (@part P) (atoms m)).

  (* refine_partitions as a loop with explicit fuel; None = fuel exhausted or max() failed *)
  Fixpoint refine (fuel : nat) (m : mol P B) : option (mol P B) :=
    match fuel with
    | O => None
    | S f => let m' := partition_by_part m in
             match nparts m', nparts m with
             | Some k', Some k => if N.eqb k' k then Some m' else refine f m'
             | _, _ => None
             end
    end.
  (* number of calls of partition_molecule_by_attribute inside refine_partitions *)
  Fixpoint rounds (fuel : nat) (m : mol P B) : option nat :=
    match fuel with
    | O => None
    | S f => let m' := partition_by_part m in
             match nparts m', nparts m with
             | Some k', Some k => if N.eqb k' k then Some 1%nat else option_map S (rounds f m')
             | _, _ => None
             end
    end.
  Definition refine_fuel (m : mol P B) : nat := S (length (atoms m)).
  (* the partitioned + refined molecule handed to bliss *)
  Definition classes (m : mol P B) : option (mol P B) := refine (refine_fuel m) (partition_by_inv m).
End Refine.
