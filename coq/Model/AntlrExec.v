(* AntlrExec.v -- executable meaning of the translated recogniser (gen/Antlr.v), and the bridge from the model's
   tokens to ANTLR token types through the generated parser's own literal table. *)
From Coq Require Import List ZArith String Bool Ascii.
Require Import Base Text Token Parse AntlrItem.
Require Antlr.
Import ListNotations.

(* LA(1): the type of the next token, -1 (EOF) at the end of the input *)
Definition la (inp : list Z) : Z := match inp with [] => (-1)%Z | x :: _ => x end.
Definition memz (x : Z) (l : list Z) : bool := existsb (Z.eqb x) l.

Fixpoint lookup_rule (rules : list (string * list item)) (r : string) : option (list item) :=
  match rules with
  | [] => None
  | (n, b) :: rest => if String.eqb n r then Some b else lookup_rule rest r
  end.

(* match(t): consumes a token of type t; match(EOF) succeeds at the end of the input and consumes nothing *)
Definition do_match (t : Z) (inp : list Z) : option (list Z) :=
  match inp with
  | [] => if Z.eqb t (-1) then Some [] else None
  | x :: r => if Z.eqb x t then Some r else None
  end.
Definition do_match_set (ts : list Z) (inp : list Z) : option (list Z) :=
  match inp with
  | [] => None              (* no set of the generated parser contains EOF; consuming at EOF is an error *)
  | x :: r => if memz x ts then Some r else None
  end.

Fixpoint pick_alt (alts : list (list Z * list item)) (x : Z) : option (list item) :=
  match alts with
  | [] => None
  | (ts, b) :: rest => if memz x ts then Some b else pick_alt rest x
  end.

(* one unit of fuel per statement executed; None = a syntax error was reported (or the fuel ran out) *)
Fixpoint exec (rules : list (string * list item)) (fuel : nat) (prog : list item) (inp : list Z) : option (list Z) :=
  match fuel with
  | O => None
  | S f =>
    match prog with
    | [] => Some inp
    | i :: rest =>
      let continue_with (o : option (list Z)) := match o with Some inp' => exec rules f rest inp' | None => None end in
      match i with
      | Call r => match lookup_rule rules r with Some b => continue_with (exec rules f b inp) | None => None end
      | Match t => continue_with (do_match t inp)
      | MatchSet ts => continue_with (do_match_set ts inp)
      | Opt ts b => if memz (la inp) ts then continue_with (exec rules f b inp) else exec rules f rest inp
      | Star ts b => if memz (la inp) ts
                     then match exec rules f b inp with Some inp' => exec rules f (Star ts b :: rest) inp' | None => None end
                     else exec rules f rest inp
      | Alt alts => match pick_alt alts (la inp) with Some b => continue_with (exec rules f b inp) | None => None end
      end
    end
  end.

Definition antlr_fuel (inp : list Z) : nat := 1024 * (length inp + 2).

(* parse of the start rule `tucan` (which itself matches EOF) *)
Definition antlr_accepts_types (inp : list Z) : bool :=
  match exec Antlr.antlr_rules (antlr_fuel inp) [Call "tucan"%string] inp with Some [] => true | _ => false end.

(* ------------------------------------------------------------------ token types of the model's tokens *)
Fixpoint type_of_literal (tbl : list (Z * string)) (s : text) : option Z :=
  match tbl with
  | [] => None
  | (n, l) :: rest => if text_eqb (t l) s then Some n else type_of_literal rest s
  end.
Fixpoint type_of_symbolic (tbl : list (Z * string)) (s : string) : option Z :=
  match tbl with
  | [] => None
  | (n, l) :: rest => if String.eqb l s then Some n else type_of_symbolic rest s
  end.

(* a numeral 1..9 is one of the literal tokens '1'..'9'; a longer one is GREATER_THAN_NINE (the lexer rule [1-9][0-9]+);
   every other token is the literal it is printed as *)
Definition antlr_type (k : token) : option Z :=
  match k with
  | TNum v => if Z.leb 1 v && Z.leb v 9 then type_of_literal Antlr.antlr_literals (print_token k)
              else if Z.leb 10 v then type_of_symbolic Antlr.antlr_symbolic "GREATER_THAN_NINE" else None
  | _ => match print_token k with [] => None | s => type_of_literal Antlr.antlr_literals s end
  end.
Fixpoint antlr_types (l : list token) : option (list Z) :=
  match l with
  | [] => Some []
  | k :: r => match antlr_type k, antlr_types r with Some x, Some xs => Some (x :: xs) | _, _ => None end
  end.

Inductive antlr_outcome := AntlrAccept | AntlrSyntaxError | AntlrLexError.
(* the recognition part of graph_from_tucan: lexer, then the generated parser with raising error listeners *)
Definition antlr_recognise (s : text) : antlr_outcome :=
  match lex_text s with
  | None => AntlrLexError
  | Some ts => match antlr_types ts with
               | None => AntlrLexError
               | Some tys => if antlr_accepts_types tys then AntlrAccept else AntlrSyntaxError
               end
  end.
