
val negb : bool -> bool

type nat =
| O
| S of nat

val option_map : ('a1 -> 'a2) -> 'a1 option -> 'a2 option

type ('a, 'b) sum =
| Inl of 'a
| Inr of 'b

val fst : ('a1 * 'a2) -> 'a1

val snd : ('a1 * 'a2) -> 'a2

val length : 'a1 list -> nat

val app : 'a1 list -> 'a1 list -> 'a1 list

type comparison =
| Eq
| Lt
| Gt

val compOpp : comparison -> comparison

type uint =
| Nil
| D0 of uint
| D1 of uint
| D2 of uint
| D3 of uint
| D4 of uint
| D5 of uint
| D6 of uint
| D7 of uint
| D8 of uint
| D9 of uint

type signed_int =
| Pos of uint
| Neg of uint

val revapp : uint -> uint -> uint

val rev : uint -> uint

module Little :
 sig
  val double : uint -> uint

  val succ_double : uint -> uint
 end

val add : nat -> nat -> nat

val mul : nat -> nat -> nat

val sub : nat -> nat -> nat

module Nat :
 sig
  val eqb : nat -> nat -> bool

  val leb : nat -> nat -> bool

  val ltb : nat -> nat -> bool
 end

val nth : nat -> 'a1 list -> 'a1 -> 'a1

val last : 'a1 list -> 'a1 -> 'a1

val removelast : 'a1 list -> 'a1 list

val rev0 : 'a1 list -> 'a1 list

val map : ('a1 -> 'a2) -> 'a1 list -> 'a2 list

val flat_map : ('a1 -> 'a2 list) -> 'a1 list -> 'a2 list

val fold_left : ('a1 -> 'a2 -> 'a1) -> 'a2 list -> 'a1 -> 'a1

val fold_right : ('a2 -> 'a1 -> 'a1) -> 'a1 -> 'a2 list -> 'a1

val existsb : ('a1 -> bool) -> 'a1 list -> bool

val forallb : ('a1 -> bool) -> 'a1 list -> bool

val filter : ('a1 -> bool) -> 'a1 list -> 'a1 list

val combine : 'a1 list -> 'a2 list -> ('a1 * 'a2) list

val firstn : nat -> 'a1 list -> 'a1 list

val skipn : nat -> 'a1 list -> 'a1 list

val repeat : 'a1 -> nat -> 'a1 list

type positive =
| XI of positive
| XO of positive
| XH

type n =
| N0
| Npos of positive

type z =
| Z0
| Zpos of positive
| Zneg of positive

module Pos :
 sig
  type mask =
  | IsNul
  | IsPos of positive
  | IsNeg
 end

module Coq_Pos :
 sig
  val succ : positive -> positive

  val add : positive -> positive -> positive

  val add_carry : positive -> positive -> positive

  val pred_double : positive -> positive

  type mask = Pos.mask =
  | IsNul
  | IsPos of positive
  | IsNeg

  val succ_double_mask : mask -> mask

  val double_mask : mask -> mask

  val double_pred_mask : positive -> mask

  val sub_mask : positive -> positive -> mask

  val sub_mask_carry : positive -> positive -> mask

  val mul : positive -> positive -> positive

  val compare_cont : comparison -> positive -> positive -> comparison

  val compare : positive -> positive -> comparison

  val eqb : positive -> positive -> bool

  val iter_op : ('a1 -> 'a1 -> 'a1) -> positive -> 'a1 -> 'a1

  val to_nat : positive -> nat

  val of_succ_nat : nat -> positive

  val to_little_uint : positive -> uint

  val to_uint : positive -> uint
 end

module N :
 sig
  val succ : n -> n

  val add : n -> n -> n

  val sub : n -> n -> n

  val mul : n -> n -> n

  val compare : n -> n -> comparison

  val eqb : n -> n -> bool

  val leb : n -> n -> bool

  val ltb : n -> n -> bool

  val max : n -> n -> n

  val of_nat : nat -> n

  val to_uint : n -> uint
 end

type ascii =
| Ascii of bool * bool * bool * bool * bool * bool * bool * bool

val zero : ascii

val one : ascii

val shift : bool -> ascii -> ascii

val ascii_of_pos : positive -> ascii

val ascii_of_N : n -> ascii

val n_of_digits : bool list -> n

val n_of_ascii : ascii -> n

module Z :
 sig
  val double : z -> z

  val succ_double : z -> z

  val pred_double : z -> z

  val pos_sub : positive -> positive -> z

  val add : z -> z -> z

  val opp : z -> z

  val sub : z -> z -> z

  val compare : z -> z -> comparison

  val leb : z -> z -> bool

  val ltb : z -> z -> bool

  val eqb : z -> z -> bool

  val to_nat : z -> nat

  val to_N : z -> n

  val of_nat : nat -> z

  val of_N : n -> z

  val to_int : z -> signed_int
 end

type string =
| EmptyString
| String of ascii * string

val list_ascii_of_string : string -> ascii list

val insert : ('a1 -> 'a1 -> bool) -> 'a1 -> 'a1 list -> 'a1 list

val isort : ('a1 -> 'a1 -> bool) -> 'a1 list -> 'a1 list

val lex : ('a1 -> 'a1 -> bool) -> 'a1 list -> 'a1 list -> bool

val keqb : ('a1 -> 'a1 -> bool) -> 'a1 -> 'a1 -> bool

val dedup : ('a1 -> 'a1 -> bool) -> 'a1 list -> 'a1 list

val index_of : ('a1 -> 'a1 -> bool) -> 'a1 -> 'a1 list -> n

val rank : ('a1 -> 'a1 -> bool) -> 'a1 list -> 'a1 -> n

val lookup : (n * 'a1) list -> n -> 'a1 option

val memN : n -> n list -> bool

val nleb : n -> n -> bool

val ngeb : n -> n -> bool

val zleb : z -> z -> bool

val maxN_list : n list -> n option

val opt_default : 'a1 -> 'a1 option -> 'a1

val enumerate_from : n -> 'a1 list -> (n * 'a1) list

type text = ascii list

type 'p atom = { lbl : n; zn : n; mass : z option; rad : z option; part : 
                 n; pay : 'p }

type ('p, 'b) mol = { atoms : 'p atom list; bonds : ((n * n) * 'b) list }

val labels : ('a1, 'a2) mol -> n list

val ends : ((n * n) * 'a1) -> n * n

val norm_pair : (n * n) -> n * n

val nb1 : n -> (n * n) -> n list

val nbrs : ('a1, 'a2) mol -> n -> n list

val find_atom : 'a1 atom list -> n -> 'a1 atom option

val set_lbl : n -> 'a1 atom -> 'a1 atom

val set_part : n -> 'a1 atom -> 'a1 atom

val relabel_atom : (n -> n) -> 'a1 atom -> 'a1 atom

val map_bond : (n -> n) -> ((n * n) * 'a1) -> (n * n) * 'a1

val relabel : (n -> n) -> ('a1, 'a2) mol -> ('a1, 'a2) mol

val fun_of_map : (n * n) list -> n -> n

type 'v key = 'v list

val kleb : ('a1 -> 'a1 -> bool) -> 'a1 key -> 'a1 key -> bool

val nbr_vals : ('a2 atom -> 'a1) -> ('a2, 'a3) mol -> n -> 'a1 list

val keyL :
  ('a1 -> 'a1 -> bool) -> ('a2 atom -> 'a1) -> ('a2, 'a3) mol -> (n * 'a1) ->
  'a1 key

val lv_of : ('a2 atom -> 'a1) -> 'a2 atom -> n * 'a1

val keys_of :
  ('a1 -> 'a1 -> bool) -> ('a2 atom -> 'a1) -> ('a2, 'a3) mol -> 'a1 key list

val class_of :
  ('a1 -> 'a1 -> bool) -> ('a1 -> 'a1 -> bool) -> ('a2 atom -> 'a1) -> ('a2,
  'a3) mol -> 'a2 atom -> n

val partition_by :
  ('a1 -> 'a1 -> bool) -> ('a1 -> 'a1 -> bool) -> ('a2 atom -> 'a1) -> ('a2,
  'a3) mol -> ('a2, 'a3) mol

val inv_code : 'a1 atom -> z list

val inv_leb : z list -> z list -> bool

val inv_geb : z list -> z list -> bool

val partition_by_inv : ('a1, 'a2) mol -> ('a1, 'a2) mol

val partition_by_part : ('a1, 'a2) mol -> ('a1, 'a2) mol

val nparts : ('a1, 'a2) mol -> n option

val refine : nat -> ('a1, 'a2) mol -> ('a1, 'a2) mol option

val rounds : nat -> ('a1, 'a2) mol -> nat option

val refine_fuel : ('a1, 'a2) mol -> nat

val classes : ('a1, 'a2) mol -> ('a1, 'a2) mol option

val canon_vertices : ('a1, 'a2) mol -> (n * n) list

val canon_edges : ('a1, 'a2) mol -> (n * n) list

val canonicalize :
  ((n * n) list -> (n * n) list -> (n * n) list) -> ('a1, 'a2) mol -> ('a1,
  'a2) mol option

type st = { explored : n list; queue : n list; avail : (n * n list) list;
            out : (n * n) list }

val pop_class : n -> (n * n list) list -> (n * (n * n list) list) option

val order_of :
  (n -> n option) -> (n -> n list) -> (n -> n -> bool) list -> n -> n -> n
  list option

type outcome =
| Done of st
| Step of st
| Fail

val explore :
  (n -> n option) -> (n -> n list) -> (n -> n -> bool) list -> n -> n list ->
  st -> outcome

val step :
  n list -> (n -> n option) -> (n -> n list) -> (n -> n -> bool) list -> st
  -> outcome

val run :
  n list -> (n -> n option) -> (n -> n list) -> (n -> n -> bool) list -> nat
  -> st -> (n * n) list option

val part_values : ('a1, 'a2) mol -> n list

val init_avail : ('a1, 'a2) mol -> (n * n list) list

val part_lookup : ('a1, 'a2) mol -> n -> n option

val default_prios : (n -> n -> bool) list

val final_fuel : ('a1, 'a2) mol -> nat

val final_labels : ('a1, 'a2) mol -> (n * n) list option

val assign_final_labels : ('a1, 'a2) mol -> ('a1, 'a2) mol option

module NilEmpty :
 sig
  val string_of_uint : uint -> string
 end

module NilZero :
 sig
  val string_of_uint : uint -> string

  val string_of_int : signed_int -> string
 end

val element_table : (string * n) list

val hydrogen_isotope_table : (string * (string * z)) list

val v2000_charge_table : (z * (bool * z)) list

val t : string -> text

val ascii_leb : ascii -> ascii -> bool

val text_leb : text -> text -> bool

val ascii_eqb : ascii -> ascii -> bool

val text_eqb : text -> text -> bool

val text_of_N : n -> text

val text_of_Z : z -> text

val is_digit : ascii -> bool

val digit_val : ascii -> n

val digits_val : n -> text -> n

val elem_table : (text * n) list

val assoc_text : (text * 'a1) list -> text -> 'a1 option

val z_of_symbol : text -> n option

val symbol_of_in : (text * n) list -> n -> text option

val symbol_of : n -> text option

val hydrogen_isotopes : (text * (text * z)) list

type token =
| TSym of n
| TNum of z
| TSlash
| TLp
| TRp
| TDash
| TColon
| TComma
| TEq
| TMass
| TRad

val print_token : token -> text

val print_tokens : token list -> text

val zval : 'a1 atom -> n

val zkey : ('a1, 'a2) mol -> 'a1 atom -> n list

val kl_leb : (n list * n) -> (n list * n) -> bool

val sorted_by_Z : ('a1, 'a2) mol -> n list

val position_map : n list -> (n * n) list

val sort_by_Z : ('a1, 'a2) mol -> ('a1, 'a2) mol

val count_text : text -> text list -> n

val formula_item : n -> n -> token list

val sym_tokens : text list -> text -> token list

val formula_tokens : text list -> token list

val pair_leb : (n * n) -> (n * n) -> bool

val edge_tokens : ('a1, 'a2) mol -> token list

val prop_tokens : 'a1 atom -> token list list

val join_comma : token list list -> token list

val atom_leb : 'a1 atom -> 'a1 atom -> bool

val attr_tokens : ('a1, 'a2) mol -> token list

val all_some : 'a1 option list -> 'a1 list option

val tokens_of : ('a1, 'a2) mol -> token list option

val serialize_tokens : ('a1, 'a2) mol -> token list option

val serialize : ('a1, 'a2) mol -> text option

val with_carbon_g4 : (string * bool) list

val without_carbon_g4 : (string * bool) list

val is_upper : ascii -> bool

val is_lower : ascii -> bool

val span_digits : text -> text * text

val strip_prefix : text -> text -> text option

val punct : ascii -> token option

val lex1 : text -> (token * text) option

val lex_fuel : nat -> text -> token list option

val lex_text : text -> token list option

type key0 =
| KMass
| KRad

type ast = { items : (n * z) list; tuples : (z * z) list;
             blocks : (z * (key0 * z) list) list }

val parse_items : nat -> token list -> (n * z) list * token list

val match_order : (n * bool) list -> n list -> bool

val order_of_rule : (string * bool) list -> (n * bool) list

val with_carbon : (n * bool) list

val without_carbon : (n * bool) list

val formula_ok : (n * z) list -> bool

val parse_tuples : nat -> token list -> (z * z) list * token list

val parse_prop : token list -> ((key0 * z) * token list) option

val parse_props : nat -> token list -> ((key0 * z) list * token list) option

val parse_blocks :
  nat -> token list -> ((z * (key0 * z) list) list * token list) option

val parse_tokens : token list -> ast option

type perr =
| ELex
| ESyntax
| ESelfLoop
| EBadIndex
| EDupAttr

val expand : (n * z) list -> n list

val flat_props : (z * (key0 * z) list) list -> (z * (key0 * z)) list

val key_eqb : key0 -> key0 -> bool

val has_dup : (z * (key0 * z)) list -> bool

val find_prop : (z * (key0 * z)) list -> z -> key0 -> z option

val dedup_pairs : (n * n) list -> (n * n) list

val sem : ast -> (perr, (unit, unit) mol) sum

val ref_parse : text -> (perr, (unit, unit) mol) sum

type merr =
| EParser
| EOther

type 'a res = (merr, 'a) sum

val ok : 'a1 -> 'a1 res

val bind : 'a1 res -> ('a1 -> 'a2 res) -> 'a2 res

val of_opt : merr -> 'a1 option -> 'a1 res

val code : ascii -> n

val is_code : n -> ascii -> bool

val sp : ascii

val is_linebreak : ascii -> bool

val splitlines_aux : text -> text -> text list

val splitlines : text -> text list

val is_space : ascii -> bool

val lstrip_by : (ascii -> bool) -> text -> text

val rstrip_by : (ascii -> bool) -> text -> text

val rstrip : text -> text

val strip : text -> text

val strip_sp : text -> text

val split_on_aux : (ascii -> bool) -> text -> text -> text list

val split_on : (ascii -> bool) -> text -> text list

val nonempty : text -> bool

val split_ws : text -> text list

val starts_with : text -> text -> bool

val ends_with_char : n -> text -> bool

val join_with : text -> text list -> text

val slice : nat -> nat -> text -> text

val int_digits : n -> bool -> text -> n option

val py_int : text -> z option

val int_of : text -> z res

val all_digits : text -> bool

val float_mantissa : text -> bool

val unsign : text -> text

val is_e : ascii -> bool

val py_float_ok : text -> bool

val nth_tok : nat -> text list -> text res

type ratom = { r_idx : z; r_sym : text; r_zn : n; r_chg : z option;
               r_mass : z option; r_rad : z option; r_x : text; r_y : 
               text; r_z : text }

type rbond = (z * z) * z

val detect_isotope : text -> text * z

val dict_set :
  ('a1 -> 'a1 -> bool) -> 'a1 -> 'a2 -> ('a1 * 'a2) list -> ('a1 * 'a2) list

type rpay = { p_sym : text; p_chg : z option; p_x : text; p_y : text;
              p_z : text }

val index_of_Z : z -> z list -> n -> n option

val bond_eqb : (n * n) -> (n * n) -> bool

val add_edge : (n * n) -> 'a1 -> ((n * n) * 'a1) list -> ((n * n) * 'a1) list

val graph_from_molecule : ratom list -> rbond list -> (rpay, z) mol res

val wrap_limit : nat

val wrap_chunk : nat

val v30_prefix : string

val v2000_atom_slices : (nat * nat) list

val v2000_bond_slices : (nat * nat) list

val v2000_count_slices : (nat * nat) list

val v2000_tuple_offset : nat

val v2000_tuple_length : nat

val v3000_keyword_exact : bool

val v30 : text

val concat_dash : nat -> text list -> text list res

val tokenize : text -> text list

val tokenize_lines : text list -> text list list res

val nth_line : nat -> text list list -> text list res

val join_sp : text list -> text

val is_infix : text -> text -> bool

val key_matches : text -> text -> bool

val prop_values : text -> text list -> z list res

val last_nonzero : z list -> z option

val parse_atom_line : text list -> ratom option res

val expect_block : text -> text list -> unit res

val parse_atoms :
  text list list -> (z * ratom) list -> z list -> ((z * ratom) list * z list)
  res

val strip_prefix_b : text -> text -> text option

val find_sub : text -> text -> text option

val upto_last_paren : text -> text option

val ints_of : text list -> z list res

val star_endpoints : text list -> z -> (z * z) list res

val memZ : z -> z list -> bool

val bkey_eqb : (z * z) -> (z * z) -> bool

val parse_bonds :
  text list list -> z list -> ((z * z) * z) list -> ((z * z) * z) list res

val to_nat_idx : z -> nat res

val take_lines : nat -> nat -> 'a1 list -> 'a1 list

val read_v3000 : text list -> (ratom list * rbond list) res

val to_int0 : text -> z res

val float_field_ok : text -> bool

val nth_slice : nat -> (nat * nat) list -> (nat * nat) -> nat * nat

val aslice : nat -> text -> text

val bslice : nat -> text -> text

val charge_code : z -> (bool * z) option

val parse_atom_line0 : n -> text -> ratom res

val parse_atom_lines : n -> text list -> ratom list res

val valid_index : nat -> z -> bool

val parse_bond_lines :
  nat -> text list -> ((z * z) * z) list -> ((z * z) * z) list res

val assignments : nat -> text -> nat -> nat -> (z * z) list res

val parse_assignments : nat -> text -> (z * z) list res

type pkind =
| PChg
| PRad
| PIso

type extra = { x_chg : z option; x_rad : z option; x_mass : z option }

val set_extra : pkind -> z -> extra -> extra

val merge_extra :
  pkind -> (z * z) list -> (z * extra) list -> (z * extra) list

val attribute_block :
  nat -> text list -> (z * extra) list -> bool -> ((z * extra) list * bool)
  res

val nz : z option -> z option

val over : z option -> z option -> z option

val apply_extra : (z * extra) list -> bool -> ratom -> ratom

val to_nat_idx0 : z -> nat res

val read_v2000 : text list -> (ratom list * rbond list) res

val last_text : text list -> text

val read_molfile : text -> (rpay, z) mol res

val prefix : text

val dash : ascii

val wrap : nat -> text -> text list

val v30_line : text -> text list

val tN : n -> text

val tZ : z -> text

val spt : text

val opt_prop : string -> (z -> bool) -> z option -> text

val chg_ok : z -> bool

val rad_ok : z -> bool

val mass_ok : z -> bool

val atom_line : rpay atom -> text

val bond_line : (n * ((n * n) * z option)) -> text

val header : text -> text list

val write_lines : text -> (rpay, z option) mol -> text list

val nl : ascii

val write_molfile : text -> (rpay, z option) mol -> text

val atom_lbl_leb : 'a1 atom -> 'a1 atom -> bool

val sort_by_label : ('a1, 'a2) mol -> ('a1, 'a2) mol

val permute1 : n list -> ('a1, 'a2) mol -> ('a1, 'a2) mol

val pair_leb0 : (n * n) -> (n * n) -> bool

val edge_set : ('a1, 'a2) mol -> (n * n) list

val pairs_eqb : (n * n) list -> (n * n) list -> bool

val same_edges : ('a1, 'a2) mol -> ('a1, 'a2) mol -> bool

val enforce : ('a1, 'a2) mol -> bool

val retry :
  ('a1, 'a2) mol -> ('a1, 'a2) mol -> n list list -> (('a1, 'a2) mol * nat)
  option

val permute : n list list -> ('a1, 'a2) mol -> (('a1, 'a2) mol * nat) option

val canonicalize_with :
  (n * n) list -> ('a1, 'a2) mol -> ('a1, 'a2) mol option
