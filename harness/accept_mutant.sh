#!/bin/bash
# accept_mutant.sh <Cxx> [suffix]: confirm a sub-agent's seeded change in its scratch worktree, then file it under /verif/seeded/.
set -u
P="$1"; SUF="${2:-1}"
WT=${MUTROOT:-/tmp/tucan-mut}-$P
cd $WT || exit 2
[ -f _mutant/patch.diff ] || { echo "no patch"; exit 2; }
echo "== tests with change"; T=$(PYTHONPATH=$WT /venv/bin/python -m pytest -q -p no:cacheprovider --timeout=900 -x -q 2>&1 | tail -1); echo "$T"
echo "== demo with change"; PYTHONPATH=$WT /venv/bin/python _mutant/demo.py > /tmp/demo_with.txt 2>&1; RC1=$?; tail -3 /tmp/demo_with.txt; echo "rc=$RC1"
git diff -- tucan > /tmp/accept_$P.diff; git apply -R /tmp/accept_$P.diff || exit 2
echo "== demo without change"; PYTHONPATH=$WT /venv/bin/python _mutant/demo.py > /tmp/demo_without.txt 2>&1; RC2=$?; tail -2 /tmp/demo_without.txt; echo "rc=$RC2"
git apply /tmp/accept_$P.diff
D=/verif/seeded/$P-$SUF; mkdir -p $D
git diff -- tucan > $D/patch.diff
cp _mutant/demo.py $D/demo.py
python3 - "$D" "$P" "$T" "$RC1" "$RC2" <<'PY'
import json,sys
d,p,t,rc1,rc2=sys.argv[1:]
try: meta=json.load(open('_mutant/meta.json'))
except Exception: meta={}
meta.update({"property":p,"confirmed":{"tests_with_change":t,"demo_rc_with_change":int(rc1),"demo_rc_without_change":int(rc2),
  "how":"harness/accept_mutant.sh: full pytest in the scratch worktree with the change, demo.py with and without the change"}})
json.dump(meta,open(d+'/meta.json','w'),indent=1)
PY
echo "filed in $D"
