#!/bin/bash
# record_detection.sh: run every seeded change against the check of its property (on a scratch copy) and record the outcome in meta.json
cd /verif
one() {
  d=$1
  out=$(harness/run_seeded_copy.sh /verif/$d 2>&1 | grep -E "VIOLATION|^PASS|^FAIL" | cut -c1-400)
  python3 - "$d" "$out" <<'PY'
import json,sys
d,out=sys.argv[1],sys.argv[2]
p='/verif/%s/meta.json'%d
m=json.load(open(p))
lines=out.split('\n')
m['detection']={'command':'harness/run_seeded_copy.sh /verif/%s  (= apply patch to a copy of /repo HEAD, ./check %s --tier quick)'%(d,m['property']),
                'verdict_line':next((l for l in lines if l.startswith('VIOLATION')),None),
                'summary_line':next((l for l in lines if l.startswith(('PASS','FAIL'))),None),
                'detected': any(l.startswith('VIOLATION') for l in lines),
                'with_failing_input': any(l.startswith('VIOLATION') and 'no-failing-input-found' not in l for l in lines)}
json.dump(m,open(p,'w'),indent=1)
print(d, m['detection']['detected'], m['detection']['with_failing_input'])
PY
}
export -f one
ls -d seeded/C*-* | xargs -P 4 -I{} bash -c 'one {}'
