"""Translator: the ANTLR-generated recursive-descent recogniser tucan/parser/tucanParser.py -> coq/gen/Antlr.v.

Every rule method of class tucanParser is translated statement by statement into a small program over
  Call r | Match t | MatchSet ts | Opt ts body | Star ts body | Alt [(ts, body)]
(Model/AntlrItem.v).  The translation is fail-closed: a statement that is not one of the shapes ANTLR 4 emits for an
LL(1) decision (listed below) aborts the translation, and the check that asked for it reports the obligation as broken.

Book-keeping statements carry no recognition behaviour and are dropped:
  self.enterOuterAlt(..)   self.state = N   self._errHandler.sync(self)   _la = self._input.LA(1)   token = self._input.LA(1)
  self._la = 0   pass
(`sync` either returns or reports an error through the raising listener; it reports only where the current token cannot be
consumed by anything that may follow in the rule, i.e. where a later match fails as well -- an assumption about the ANTLR
runtime that correspondence K12 tests.)
"""
import ast, os, re, sys

HERE = os.path.dirname(os.path.abspath(__file__))
VERIF = os.path.dirname(HERE)


class Untranslatable(Exception):
    pass


def _is_self_attr(node, name):
    return isinstance(node, ast.Attribute) and isinstance(node.value, ast.Name) and node.value.id == "self" and node.attr == name


def _la_name(node):
    return isinstance(node, ast.Name) and node.id in ("_la", "token")


class Translator:
    def __init__(self, src):
        self.tree = ast.parse(src)
        cls = [n for n in self.tree.body if isinstance(n, ast.ClassDef) and n.name == "tucanParser"]
        if len(cls) != 1:
            raise Untranslatable("class tucanParser not found")
        self.cls = cls[0]
        self.consts = {}
        self.lists = {}
        for n in self.cls.body:
            if isinstance(n, ast.Assign) and len(n.targets) == 1 and isinstance(n.targets[0], ast.Name):
                nm = n.targets[0].id
                v = n.value
                if isinstance(v, ast.Constant) and isinstance(v.value, int):
                    self.consts[nm] = v.value
                elif isinstance(v, ast.Attribute) and ast.unparse(v) == "Token.EOF":
                    self.consts[nm] = -1
                elif isinstance(v, ast.List) and nm in ("literalNames", "symbolicNames", "ruleNames"):
                    self.lists[nm] = [e.value for e in v.elts]
        for need in ("literalNames", "symbolicNames", "ruleNames"):
            if need not in self.lists:
                raise Untranslatable(need + " not found")
        self.methods = {n.name: n for n in self.cls.body if isinstance(n, ast.FunctionDef)}

    # ------------------------------------------------------------ lookahead tests
    def tokset(self, test):
        """the set of token types for which `test` (an expression over _la / token) is true, in ascending order"""
        if isinstance(test, ast.Compare) and len(test.ops) == 1:
            l, op, r = test.left, test.ops[0], test.comparators[0]
            if _la_name(l) and isinstance(op, ast.Eq):
                return [self.intval(r)]
            if _la_name(l) and isinstance(op, ast.In) and isinstance(r, ast.List):
                return sorted(self.intval(e) for e in r.elts)
        if isinstance(test, ast.BoolOp) and isinstance(test.op, ast.Or):
            out = set()
            for v in test.values:
                out |= set(self.tokset(v))
            return sorted(out)
        if isinstance(test, ast.BoolOp) and isinstance(test.op, ast.And) and len(test.values) == 2:
            # ((_la - off) & ~0x3f) == 0 and ((1 << (_la - off)) & MASK) != 0
            a, b = test.values
            off = self._mask_offset(a)
            mask = self._mask_value(b, off)
            return sorted(off + i for i in range(64) if mask >> i & 1)
        raise Untranslatable("lookahead test: " + ast.unparse(test))

    def _la_minus(self, node):
        """_la  -> 0 ;  _la - k -> k"""
        if _la_name(node):
            return 0
        if isinstance(node, ast.BinOp) and isinstance(node.op, ast.Sub) and _la_name(node.left):
            return self.intval(node.right)
        raise Untranslatable("mask operand: " + ast.unparse(node))

    def _mask_offset(self, a):
        # (X & ~63) == 0
        if (isinstance(a, ast.Compare) and isinstance(a.ops[0], ast.Eq) and self.intval(a.comparators[0]) == 0
                and isinstance(a.left, ast.BinOp) and isinstance(a.left.op, ast.BitAnd)
                and isinstance(a.left.right, ast.UnaryOp) and isinstance(a.left.right.op, ast.Invert) and self.intval(a.left.right.operand) == 63):
            return self._la_minus(a.left.left)
        raise Untranslatable("mask range test: " + ast.unparse(a))

    def _mask_value(self, b, off):
        # ((1 << X) & MASK) != 0
        if (isinstance(b, ast.Compare) and isinstance(b.ops[0], ast.NotEq) and self.intval(b.comparators[0]) == 0
                and isinstance(b.left, ast.BinOp) and isinstance(b.left.op, ast.BitAnd)
                and isinstance(b.left.left, ast.BinOp) and isinstance(b.left.left.op, ast.LShift) and self.intval(b.left.left.left) == 1
                and self._la_minus(b.left.left.right) == off):
            return self.intval(b.left.right)
        raise Untranslatable("mask test: " + ast.unparse(b))

    def intval(self, node):
        if isinstance(node, ast.Constant) and isinstance(node.value, int):
            return node.value
        if isinstance(node, ast.UnaryOp) and isinstance(node.op, ast.USub):
            return -self.intval(node.operand)
        if isinstance(node, ast.Attribute) and isinstance(node.value, ast.Name) and node.value.id == "tucanParser" and node.attr in self.consts:
            return self.consts[node.attr]
        raise Untranslatable("integer: " + ast.unparse(node))

    # ------------------------------------------------------------ statements
    def skip(self, st):
        if isinstance(st, ast.Pass):
            return True
        if isinstance(st, ast.Assign) and len(st.targets) == 1:
            t, v = st.targets[0], st.value
            if _is_self_attr(t, "state") and isinstance(v, ast.Constant):
                return True
            if _is_self_attr(t, "_la") and isinstance(v, ast.Constant) and v.value == 0:
                return True
            if _la_name(t) and ast.unparse(v) == "self._input.LA(1)":
                return True
        if isinstance(st, ast.Expr) and isinstance(st.value, ast.Call):
            s = ast.unparse(st.value)
            if s == "self._errHandler.sync(self)" or re.fullmatch(r"self\.enterOuterAlt\(localctx, \d+\)", s):
                return True
        return False

    def block(self, stmts):
        out = []
        for st in stmts:
            if self.skip(st):
                continue
            out.append(self.stmt(st))
        return out

    def stmt(self, st):
        if isinstance(st, ast.Expr) and isinstance(st.value, ast.Call):
            c = st.value
            if _is_self_attr(c.func, "match") and len(c.args) == 1 and not c.keywords:
                return ("Match", self.intval(c.args[0]))
            if isinstance(c.func, ast.Attribute) and isinstance(c.func.value, ast.Name) and c.func.value.id == "self" and not c.args and not c.keywords:
                name = c.func.attr
                rule = name[:-1] if name.endswith("_") and name[:-1] in self.lists["ruleNames"] else name
                if rule in self.lists["ruleNames"] and name in self.methods:
                    return ("Call", rule)
        if isinstance(st, ast.If):
            # 1. if not (SET): recoverInline  else: reportMatch; consume        -> MatchSet
            if isinstance(st.test, ast.UnaryOp) and isinstance(st.test.op, ast.Not):
                body = [ast.unparse(x) for x in st.body]
                orelse = [ast.unparse(x) for x in st.orelse]
                if body == ["self._errHandler.recoverInline(self)"] and orelse == ["self._errHandler.reportMatch(self)", "self.consume()"]:
                    return ("MatchSet", self.tokset(st.test.operand))
                raise Untranslatable("negated test with unexpected branches: " + ast.unparse(st)[:200])
            # 2. if token in [..]: .. elif token in [..]: .. else: raise NoViableAltException(self)      -> Alt
            alts = []
            cur = st
            while True:
                alts.append((self.tokset(cur.test), self.block(cur.body)))
                if len(cur.orelse) == 1 and isinstance(cur.orelse[0], ast.If):
                    cur = cur.orelse[0]
                    continue
                break
            if not cur.orelse:
                if len(alts) == 1:
                    return ("Opt", alts[0][0], alts[0][1])       # 3. if LA in SET: body         -> Opt
                raise Untranslatable("if/elif chain without else: " + ast.unparse(st)[:200])
            if [ast.unparse(x) for x in cur.orelse] == ["raise NoViableAltException(self)"]:
                return ("Alt", alts)
            raise Untranslatable("else branch: " + ast.unparse(st)[:200])
        if isinstance(st, ast.While) and not st.orelse:
            return ("Star", self.tokset(st.test), self.block(st.body))   # the body's trailing sync / LA(1) are book-keeping
        raise Untranslatable("statement: " + ast.unparse(st)[:200])

    def rule(self, name):
        mname = name if name in self.methods else name + "_"
        m = self.methods.get(mname)
        if m is None:
            raise Untranslatable("no method for rule " + name)
        trys = [s for s in m.body if isinstance(s, ast.Try)]
        if len(trys) != 1:
            raise Untranslatable("rule method without a single try block: " + name)
        tr = trys[0]
        # the frame around the body must be the standard one
        pre = [ast.unparse(s) for s in m.body if not isinstance(s, ast.Try)]
        ok_pre = all(re.fullmatch(r"localctx = tucanParser\.\w+Context\(self, self\._ctx, self\.state\)|self\.enterRule\(localctx, \d+, self\.RULE_\w+\)|"
                                  r"self\._la = 0|return localctx", p) for p in pre)
        hs = [ast.unparse(h) for h in tr.handlers]
        fin = [ast.unparse(s) for s in tr.finalbody]
        if not ok_pre or fin != ["self.exitRule()"] or len(hs) != 1 or "RecognitionException" not in hs[0] or "reportError" not in hs[0]:
            raise Untranslatable("unexpected frame of rule method " + name)
        return self.block(tr.body)


# ------------------------------------------------------------------ Coq output
def coq_z(n):
    return "(%d)%%Z" % n


def coq_set(ts):
    return "[" + "; ".join(coq_z(t) for t in ts) + "]"


def coq_item(it):
    k = it[0]
    if k == "Call":
        return 'Call "%s"' % it[1]
    if k == "Match":
        return "Match %s" % coq_z(it[1])
    if k == "MatchSet":
        return "MatchSet %s" % coq_set(it[1])
    if k == "Opt":
        return "Opt %s %s" % (coq_set(it[1]), coq_prog(it[2]))
    if k == "Star":
        return "Star %s %s" % (coq_set(it[1]), coq_prog(it[2]))
    if k == "Alt":
        return "Alt [" + "; ".join("(%s, %s)" % (coq_set(ts), coq_prog(b)) for ts, b in it[1]) + "]"
    raise ValueError(k)


def coq_prog(p):
    return "[" + "; ".join(coq_item(i) for i in p) + "]"


def emit(repo=None, out=None):
    repo = repo or os.environ.get("TUCAN_REPO", "/repo")
    out = out or os.path.join(VERIF, "coq", "gen", "Antlr.v")
    src = open(os.path.join(repo, "tucan", "parser", "tucanParser.py")).read()
    status = {"ok": True, "error": None, "rules": 0}
    lines = ["(* GENERATED by harness/gen_antlr.py from tucan/parser/tucanParser.py -- do not edit *)",
             "From Coq Require Import List ZArith String.", "Require Import AntlrItem.", "Import ListNotations.", "Open Scope string_scope.", ""]
    try:
        tr = Translator(src)
        rules = [(r, tr.rule(r)) for r in tr.lists["ruleNames"]]
        lits = [(i, s[1:-1]) for i, s in enumerate(tr.lists["literalNames"]) if s.startswith("'") and s.endswith("'")]
        syms = [(i, s) for i, s in enumerate(tr.lists["symbolicNames"]) if s != "<INVALID>"]
        lines.append("Definition antlr_translated : bool := true.")
        lines.append("Definition antlr_literals : list (Z * string) :=\n  [" + "; ".join('(%s, "%s")' % (coq_z(i), s) for i, s in lits) + "].")
        lines.append("Definition antlr_symbolic : list (Z * string) :=\n  [" + "; ".join('(%s, "%s")' % (coq_z(i), s) for i, s in syms) + "].")
        lines.append("Definition antlr_rules : list (string * list item) :=\n  [" + ";\n   ".join('("%s", %s)' % (r, coq_prog(p)) for r, p in rules) + "].")
        status["rules"] = len(rules)
    except Untranslatable as e:
        status.update(ok=False, error=str(e))
        lines.append("(* translation failed: %s *)" % str(e).replace("*)", "* )")[:300])
        lines.append("Definition antlr_translated : bool := false.")
        lines.append("Definition antlr_literals : list (Z * string) := [].")
        lines.append("Definition antlr_symbolic : list (Z * string) := [].")
        lines.append("Definition antlr_rules : list (string * list item) := [].")
    text = "\n".join(lines) + "\n"
    old = open(out).read() if os.path.exists(out) else None
    if old != text:
        open(out, "w").write(text)
    return status


if __name__ == "__main__":
    print(emit())
