#!/bin/bash
# run_seeded.sh <seeded-dir> [props...]: apply seeded/<id>/patch.diff to /repo, run the checks, revert.
# Never leaves /repo modified.
set -u
dir="$1"; shift
props="$@"
cd /verif
if [ -z "$props" ]; then props=$(python3 -c "import json;print(json.load(open('$dir/meta.json'))['property'])"); fi
if ! git -C /repo diff --quiet; then echo "/repo has uncommitted changes; refusing"; exit 2; fi
git -C /repo apply "$dir/patch.diff" || { echo "patch does not apply"; exit 2; }
trap 'git -C /repo checkout -- . ; git -C /repo clean -fdq -- tucan' EXIT
for p in $props; do
  echo "--- $p on $(basename $dir)"
  timeout 1800 ./check $p --tier quick 2>&1 | grep -E "VIOLATION|KNOWN-FINDING|PASS|FAIL" | head -5
done
