"""Shared plumbing: paths, build, model client, evidence, verdicts."""
import fcntl, hashlib, json, os, random, re, subprocess, sys, time

VERIF = os.path.dirname(os.path.dirname(os.path.abspath(__file__)))
REPO = os.environ.get("TUCAN_REPO", "/repo")
COQ = os.path.join(VERIF, "coq")
OCAML = os.path.join(VERIF, "ocaml")
BUILD = os.path.join(VERIF, ".build")
EVIDENCE = os.path.join(VERIF, "evidence")
REPLAY = os.path.join(VERIF, "replay")
DRIVER = os.path.join(OCAML, "driver")
PY = "/venv/bin/python"

TRUSTED_BASE = [
    "Coq 8.16.1 kernel and its VM (vm_compute); no native_compute; no axioms declared, none imported "
    "(Print Assumptions of every property theorem: 'Closed under the global context')",
    "hand-written Gallina model /verif/coq/Model/*.v: the theorems are about it; it is tied to /repo by the "
    "correspondence components listed under 'components' (differential tests on this run's inputs)",
    "table/constant translator harness/gen_tables.py (Python ast) -> coq/gen/{Elements,Grammar,Params}.v; "
    "recogniser translator harness/gen_antlr.py (Python ast, fail-closed) tucanParser.py -> coq/gen/Antlr.v; "
    "lexer translator harness/gen_antlr_lexer.py (ANTLR runtime ATNDeserializer, fail-closed) tucanLexer.py -> coq/gen/AntlrLexer.v",
    "extraction with ExtrOcamlBasic only (Extract Inductive bool/option/unit/list/prod/sumbool/sumor, "
    "Extract Inlined Constant andb/orb/negb/fst/snd; no Extract Constant of this development); "
    "ocaml/driver.ml (int/string conversion, line protocol); the Python harness",
    "oracles assumed and tested, not proved: igraph/bliss canonical_permutation (H1 bijection, H2 canonical form), "
    "ANTLR runtime (ATN deserialiser, maximal-munch lexer simulator, match/LA/sync with raising listeners; the generated tucanParser.py and the lexer's ATN are translated and proved; K12), random.shuffle, float()/'{:.6f}', int(), networkx containers",
]


def os_makedirs(p):
    os.makedirs(p, exist_ok=True)


def sh(cmd, timeout=None, cwd=None, env=None):
    p = subprocess.run(cmd, shell=isinstance(cmd, str), cwd=cwd, env=env, stdout=subprocess.PIPE,
                       stderr=subprocess.STDOUT, text=True, timeout=timeout)
    return p.returncode, p.stdout


# ------------------------------------------------------------------ build
class BuildResult:
    def __init__(self):
        self.gen = {}
        self.antlr = {}
        self.make_ok = False
        self.make_log = ""
        self.driver_ok = False
        self.failed_files = []


_build_cache = None


def build(force_full=False):
    """Regenerate tables from /repo, make the Coq development (full .vo), extract, compile the driver.
    Serialised across processes with a lock; cheap when nothing changed."""
    global _build_cache
    if _build_cache is not None:
        return _build_cache
    os_makedirs(BUILD)
    res = BuildResult()
    lock = open(os.path.join(BUILD, "lock"), "w")
    fcntl.flock(lock, fcntl.LOCK_EX)
    try:
        sys.path.insert(0, os.path.join(VERIF, "harness"))
        import gen_tables
        gen_tables.fallbacks.clear()
        res.gen = gen_tables.emit()
        import gen_logic
        res.logic = gen_logic.emit()         # decisions (operators, offsets, sortedness) of parser.py / serialization.py / canonicalization.py -> coq/gen/Logic.v
        if isinstance(res.gen, dict):
            res.gen["fallbacks"] = list(res.gen.get("fallbacks", [])) + ["logic: " + f for f in res.logic["fallbacks"]]
        import gen_antlr
        res.antlr = gen_antlr.emit()       # tucanParser.py -> coq/gen/Antlr.v (fail-closed translator)
        import gen_antlr_lexer
        res.antlr_lexer = gen_antlr_lexer.emit()   # serialized lexer ATN of tucanLexer.py -> coq/gen/AntlrLexer.v
        if not os.path.exists(os.path.join(COQ, "Makefile")) or \
                os.path.getmtime(os.path.join(COQ, "Makefile")) < os.path.getmtime(os.path.join(COQ, "_CoqProject")):
            sh("coq_makefile -f _CoqProject -o Makefile", cwd=COQ, timeout=120)
        rc, out = sh("timeout 3000 make -k -j16 2>&1", cwd=COQ, timeout=3100)
        res.make_ok = rc == 0
        res.make_log = out
        res.failed_files = re.findall(r"\*\*\* \[Makefile[^\]]*: ([^\]]+\.vo)\]", out)
        ml = os.path.join(OCAML, "tucan_model.ml")
        drv = DRIVER
        if os.path.exists(ml):
            need = (not os.path.exists(drv)) or os.path.getmtime(drv) < max(
                os.path.getmtime(ml), os.path.getmtime(os.path.join(OCAML, "driver.ml")))
            if need:
                rc2, out2 = sh("ocamlfind ocamlopt -O2 -w -a tucan_model.mli tucan_model.ml driver.ml -o driver.tmp && mv driver.tmp driver",
                               cwd=OCAML, timeout=600)
                res.make_log += out2
            res.driver_ok = os.path.exists(drv)
    finally:
        fcntl.flock(lock, fcntl.LOCK_UN)
        lock.close()
    _build_cache = res
    return res


def check_props_file(prop):
    """Compile Props/<prop>.v on its own and report (obligations, discharged, assumptions-text, log).
    An obligation is a Theorem of that file; it is discharged when the file compiles and the
    Print Assumptions that follows it prints 'Closed under the global context'."""
    path = os.path.join(COQ, "Props", prop + ".v")
    if not os.path.exists(path):
        return [], [], "", "no Props file"
    src = open(path).read()
    names = re.findall(r"^\s*(?:Theorem|Corollary)\s+([A-Za-z0-9_']+)", src, flags=re.M)
    rc, out = sh("timeout 900 coqc -Q gen \"\" -Q Model \"\" -Q Proofs \"\" -Q Props \"\" Props/%s.v 2>&1" % prop, cwd=COQ, timeout=1000)
    discharged = []
    if rc == 0:
        # Print Assumptions output blocks appear in order
        blocks = re.findall(r"(Closed under the global context|Axioms:(?:\n.+)+)", out)
        # all must be closed; count theorem-wise in order of Print Assumptions commands
        pa = re.findall(r"Print Assumptions\s+([A-Za-z0-9_']+)", src)
        for nm, blk in zip(pa, blocks):
            if blk.startswith("Closed") and nm in names:
                discharged.append(nm)
    return names, discharged, out[-3000:], ("ok" if rc == 0 else "coqc failed")


GATE_RE = re.compile(r"\b(Admitted|admit|Axiom|Parameter|Conjecture|Hypothesis|Variable)\b|Unset Guard|bypass_check|type-in-type|Admit Obligations")


def grep_gate():
    """No Admitted/admit/Axiom/Parameter/Conjecture/... anywhere in the development.
    Variable/Hypothesis are allowed inside a Section only."""
    bad = []
    for root, _, files in os.walk(COQ):
        for f in files:
            if not f.endswith(".v"):
                continue
            depth = 0
            for i, line in enumerate(open(os.path.join(root, f)), 1):
                code = re.sub(r"\(\*.*?\*\)", "", line)
                if re.match(r"\s*Section\b", code):
                    depth += 1
                if re.match(r"\s*End\b", code) and depth > 0:
                    depth -= 1
                for m in GATE_RE.finditer(code):
                    w = m.group(0)
                    if w in ("Variable", "Hypothesis") and depth > 0:
                        continue
                    if w in ("Variable", "Hypothesis") and not re.match(r"\s*(Variable|Hypothesis)s?\b", code):
                        continue
                    bad.append("%s:%d: %s" % (os.path.join(root, f), i, line.strip()))
    return bad


# ------------------------------------------------------------------ model client
def hx(s):
    if isinstance(s, str):
        s = s.encode("latin-1")
    return s.hex() if s else "-"


def unhx(h):
    return "" if h == "-" else bytes.fromhex(h).decode("latin-1")


class Model:
    def __init__(self):
        self.p = subprocess.Popen([DRIVER], stdin=subprocess.PIPE, stdout=subprocess.PIPE, text=True, bufsize=1)
        self.calls = 0

    def q(self, line):
        self.calls += 1
        self.p.stdin.write(line + "\n")
        self.p.stdin.flush()
        ans = self.p.stdout.readline()
        if not ans:
            raise RuntimeError("model driver died on: " + line[:200])
        return ans.rstrip("\n")

    def close(self):
        try:
            self.p.stdin.close()
            self.p.wait(timeout=5)
        except Exception:
            self.p.kill()


def enc_mol(atoms, bonds):
    """atoms: list of (lbl, zn, mass|None, rad|None, part); bonds: list of (u, v)."""
    out = [str(len(atoms))]
    for l, z, m, r, p in atoms:
        out += [str(l), str(z), "_" if m is None else str(m), "_" if r is None else str(r), str(p)]
    out.append(str(len(bonds)))
    for u, v in bonds:
        out += [str(u), str(v)]
    return " ".join(out)


def dec_mol(toks):
    """inverse of show_mol; toks: list of str. returns (atoms, bonds, rest)."""
    n = int(toks[0]); i = 1; atoms = []
    o = lambda x: None if x == "_" else int(x)
    for _ in range(n):
        atoms.append((int(toks[i]), int(toks[i + 1]), o(toks[i + 2]), o(toks[i + 3]), int(toks[i + 4]))); i += 5
    k = int(toks[i]); i += 1; bonds = []
    for _ in range(k):
        bonds.append((int(toks[i]), int(toks[i + 1]))); i += 2
    return atoms, bonds, toks[i:]


def enc_pairs(pairs):
    return " ".join([str(len(pairs))] + ["%d %d" % p for p in pairs])


# ------------------------------------------------------------------ known findings
def known_findings():
    p = os.path.join(VERIF, "known_findings.json")
    if not os.path.exists(p):
        return []
    return json.load(open(p))


# ------------------------------------------------------------------ result of one property run
class Run:
    def __init__(self, prop, tier, seed):
        self.prop, self.tier, self.seed = prop, tier, seed
        self.t0 = time.time()
        self.rng = random.Random("%s/%s/%d" % (prop, tier, seed))
        self.components = {}      # name -> dict(cases=, diffs=[...])
        self.falsifier_hits = []  # list of dict
        self.broken = []          # list of str (theorem / correspondence names)
        self.samples = []
        self.evaluations = 0
        self.nontrivial = set()
        self.hist = {}
        self.notes = []
        self.known_lines = []

    def comp(self, name):
        return self.components.setdefault(name, {"cases": 0, "diffs": []})

    def count(self, key, k=1):
        self.hist[key] = self.hist.get(key, 0) + k

    def sub_rng(self, tag):
        return random.Random("%s/%s/%d/%s%s" % (self.prop, self.tier, self.seed, tag, getattr(self, "salt", "")))


def digest(obj):
    return hashlib.sha1(json.dumps(obj, sort_keys=True, default=str).encode()).hexdigest()[:12]
