"""Text-level checks: molfile renderers, correspondences K1 (V3000 reader), K2 (V2000 reader),
K3 (writer) and the falsifiers of C06 C07 C08 C09.

Falsifiers look at the implementation only (oracle = property text: `expected(MM)` is computed
from the abstract molecule with this file's own element table and exact decimal arithmetic);
correspondences compare the implementation with the extracted Coq model on the same text.

Non-trivial case rules (what goes into run.nontrivial):
  C07: MM with >= 2 atoms rendered with at least one non-default V3000 spelling feature
       (key = digest of the text).
  C08: MM with >= 2 atoms that carries at least one charge / radical / isotope (or D/T symbol) or whose
       V2000 text contains property lines / atom lists / stext (key = digest of the V2000 text).
  C09: a graph whose molfile has at least one wrapped (continued) line (key = digest of the molfile
       without its timestamp line).
  C06: a pair of different texts of one MM with >= 2 atoms and >= 1 bond (key = digest of both texts).

Trap spellings (module flag TRAPS, knobs `header_trap` of render3000 and `text_trap` of render2000): legal
free text that looks like format syntax -- a header line "M  V30 ...-", and an alias / group / stext text
line that reads "M  CHG ..", "M  ISO ..", "M  RAD .." or "M  END".  They are kept out of the random knob
combinations and run as a handful of dedicated cases whose hits carry the stable keys
"C07:header_trap", "C06:header_trap", "C08:text_trap", "C06:text_trap".

Things deliberately *not* generated for the conformant streams (see report): control characters
that str.splitlines() treats as line breaks inside header text, float spellings `inf`/`nan`/`1_0`
(outside the model's float recogniser), negative counts.
"""
import glob, json, math, os, random, re, sys, time
from fractions import Fraction
import networkx as nx
import common, gens, impl
from common import hx, unhx, digest
from tucan.io import graph_from_molfile_text, graph_to_molfile, graph_from_tucan, MolfileParserException
from tucan.io import molfile_writer as _writer

# independent element table (not taken from /repo)
ELEMENTS = ("H He Li Be B C N O F Ne Na Mg Al Si P S Cl Ar K Ca Sc Ti V Cr Mn Fe Co Ni Cu Zn Ga Ge As Se Br Kr "
            "Rb Sr Y Zr Nb Mo Tc Ru Rh Pd Ag Cd In Sn Sb Te I Xe Cs Ba La Ce Pr Nd Pm Sm Eu Gd Tb Dy Ho Er Tm Yb Lu "
            "Hf Ta W Re Os Ir Pt Au Hg Tl Pb Bi Po At Rn Fr Ra Ac Th Pa U Np Pu Am Cm Bk Cf Es Fm Md No Lr "
            "Rf Db Sg Bh Hs Mt Ds Rg Cn Nh Fl Mc Lv Ts Og").split()
assert len(ELEMENTS) == 118
ZOF = {s: i + 1 for i, s in enumerate(ELEMENTS)}


def scale_of(run):
    return (1 if run.tier == "quick" else 10) * getattr(run, "scale", 1)


# ===================================================================== abstract molfile-level molecule
class MM:
    """atoms: [sym, chg, rad, mass, x, y, z]  (sym may be D/T; mass 0 = not stated; x,y,z decimal strings)
    bonds: [type, a, b] (atom positions, 0-based);  stars: [type, centre, [endpoints]] (one `*` atom each)."""
    __slots__ = ("atoms", "bonds", "stars", "family")

    def __init__(self, atoms, bonds, stars=None, family=""):
        self.atoms = [list(a) for a in atoms]
        self.bonds = [list(b) for b in bonds]
        self.stars = [[s[0], s[1], list(s[2])] for s in (stars or [])]
        self.family = family

    def n(self):
        return len(self.atoms)

    def to_json(self):
        return {"atoms": self.atoms, "bonds": self.bonds, "stars": self.stars, "family": self.family}

    @staticmethod
    def from_json(d):
        return MM(d["atoms"], d["bonds"], d.get("stars"), d.get("family", ""))

    def copy(self):
        return MM.from_json(json.loads(json.dumps(self.to_json())))

    def all_bonds(self):
        """bonds with star atoms expanded: (type, u, v)"""
        out = [tuple(b) for b in self.bonds]
        for t, c, es in self.stars:
            out += [(t, c, e) for e in es]
        return out

    def expanded(self):
        return MM(self.atoms, self.all_bonds(), [], self.family)

    def identity(self):
        """(element, mass, rad) per atom and the pair set: the data C06 says the string may depend on"""
        ats = []
        for sym, chg, rad, mass, *_ in self.atoms:
            el, m = ("H", 2) if sym == "D" else ("H", 3) if sym == "T" else (sym, mass)
            ats.append((ZOF[el], m, rad))
        return ats, sorted(set((min(u, v), max(u, v)) for _, u, v in self.all_bonds()))

    def has_labels(self):
        return any(a[1] or a[2] or a[3] or a[0] in "DT" for a in self.atoms)


def dec(s):
    """exact value of a decimal string, correctly rounded to a double (independent of float(str))"""
    return float(Fraction(s))


def expected(mm):
    """What the reader must return: atoms (attribute dicts, file order, labels 0..n-1) and bonds."""
    atoms = []
    for sym, chg, rad, mass, x, y, z in mm.atoms:
        el, m = ("H", 2) if sym == "D" else ("H", 3) if sym == "T" else (sym, mass)
        d = {"element_symbol": el, "atomic_number": ZOF[el], "x_coord": dec(x), "y_coord": dec(y), "z_coord": dec(z)}
        if chg:
            d["chg"] = chg
        if rad:
            d["rad"] = rad
        if m:
            d["mass"] = m
        atoms.append(d)
    bonds = sorted((min(u, v), max(u, v), t) for t, u, v in mm.all_bonds())
    return {"atoms": atoms, "bonds": bonds}


def observe(g):
    return {"labels": list(g.nodes),
            "atoms": [{k: v for k, v in d.items()} for _, d in g.nodes(data=True)],
            "bonds": sorted((min(u, v), max(u, v), dict(d)) for u, v, d in g.edges(data=True))}


STATED_ATOM_KEYS = ("element_symbol", "atomic_number", "chg", "rad", "mass", "x_coord", "y_coord", "z_coord")


def diff_expected(g, exp):
    """list of differences between a graph returned by the reader and expected(MM); [] = equal"""
    out = []
    ob = observe(g)
    n = len(exp["atoms"])
    if ob["labels"] != list(range(n)):
        out.append("node labels %s are not 0..%d in file order" % (ob["labels"][:12], n - 1))
        if len(ob["labels"]) != n:
            return out
    for i, (got, want) in enumerate(zip(ob["atoms"], exp["atoms"])):
        got = dict(got)
        part = got.pop("partition", 0)
        inv = got.pop("invariant_code", None)
        # the properties speak about element, charge, radical, isotope mass and coordinates; further attributes a reader may
        # decode in addition (atom-atom mapping, stereo marks, ...) are not part of the statement
        got = {k: v for k, v in got.items() if k in STATED_ATOM_KEYS}
        if got != want:
            ks = sorted(set(got) | set(want))
            out.append("atom %d: " % i + ", ".join("%s got %r want %r" % (k, got.get(k, "<absent>"), want.get(k, "<absent>"))
                                                  for k in ks if got.get(k, "<absent>") != want.get(k, "<absent>") or (k in got) != (k in want)))
        # (`partition` and `invariant_code` are working attributes of the pipeline, not part of what a file states: a wrong
        #  value shows up in the strings, which the falsifiers of C06 / C08 compare)
    gb = [(u, v, d.get("bond_type")) for u, v, d in ob["bonds"]]
    if gb != exp["bonds"]:
        out.append("bonds got %s want %s" % ([b for b in gb if b not in exp["bonds"]][:6], [b for b in exp["bonds"] if b not in gb][:6]))
    # (bond data beyond the bond type -- stereo configuration, topology, ... -- is likewise outside the statement)
    return out


def am_of_mm(mm):
    ats, pairs = mm.identity()
    return gens.AM([a[0] for a in ats], pairs, {i: a[1] for i, a in enumerate(ats) if a[1]},
                   {i: a[2] for i, a in enumerate(ats) if a[2]}, mm.family)


# ---------------------------------------------------------------- MM generators
def rand_digits(rng, k, lead=True):
    if k <= 0:
        return ""
    s = "".join(rng.choice("0123456789") for _ in range(k))
    if lead and s[0] == "0" and k > 1:
        s = rng.choice("123456789") + s[1:]
    return s


def rand_coord(rng, v2ok=True):
    """canonical decimal string; v2ok: fits F10.4 exactly (<= 4 int digits, <= 4 decimals)"""
    r = rng.random()
    if r < .12:
        return "0"
    sign = "-" if rng.random() < .45 else ""
    if r < .25:
        return sign + rand_digits(rng, rng.randint(1, 3))
    if v2ok or r < .75:
        ip = rand_digits(rng, rng.randint(1, 4))
        fp = rand_digits(rng, rng.randint(1, 4), lead=False)
        return sign + ip + "." + fp
    if r < .9:
        return sign + rand_digits(rng, rng.randint(1, 12)) + "." + rand_digits(rng, rng.randint(1, 12), lead=False)
    if r < .95:
        return sign + rand_digits(rng, rng.randint(15, 40))
    return sign + "0." + "0" * rng.randint(3, 9) + rand_digits(rng, 3)


def rand_btype(rng, v2ok=True):
    r = rng.random()
    if r < .55:
        return 1
    if r < .85:
        return rng.choice([2, 3, 4])
    return rng.randint(5, 8 if v2ok else 10)


def mm_of_am(am, rng, v2ok=True, charges=True, nstars=0, dt=True, family=None):
    atoms = []
    for i, z in enumerate(am.zs):
        sym = ELEMENTS[z - 1]
        mass = am.mass.get(i, 0)
        rad = am.rad.get(i, 0)
        if dt and z == 1 and mass in (2, 3) and rng.random() < .6:
            sym, mass = "DT"[mass - 2], 0
        chg = 0
        if charges and rng.random() < .3:
            chg = rng.choice([-3, -2, -1, 1, 2, 3, -1, 1, 1, -15, 15, 4, -7, 10])
        atoms.append([sym, chg, rad, mass, rand_coord(rng, v2ok), rand_coord(rng, v2ok), rand_coord(rng, v2ok)])
    seen = set()
    bonds = []
    for u, v in am.edges:
        if u != v and frozenset((u, v)) not in seen:
            seen.add(frozenset((u, v)))
            bonds.append([rand_btype(rng, v2ok), u, v])
    stars = []
    n = len(atoms)
    for _ in range(nstars):
        if n < 2:
            break
        c = rng.randrange(n)
        cand = [j for j in range(n) if j != c and frozenset((c, j)) not in seen]
        if not cand:
            continue
        es = rng.sample(cand, rng.randint(1, min(5, len(cand))))
        for e in es:
            seen.add(frozenset((c, e)))
        stars.append([rand_btype(rng, v2ok), c, es])
    return MM(atoms, bonds, stars, family or am.family)


def small_am(rng):
    r = rng.random()
    if r < .45:
        return gens.random_mol(rng, 9)
    if r < .7:
        return gens.organic(rng, rng.randint(2, 6))
    if r < .8:
        return gens.multi_component(rng)
    if r < .9:
        return gens.element_order_traps(rng)
    am = gens.random_mol(rng, 6)
    # hydrogens with isotope labels so that D / T spellings occur
    k = rng.randint(1, 4)
    base = am.n()
    am.zs += [1] * k
    for j in range(k):
        if base:
            am.edges.append((rng.randrange(base), base + j))
        if rng.random() < .8:
            am.mass[base + j] = rng.choice([2, 3, 2, 3, 1])
    am.family = "hydrogens"
    return am


def mm_stream(rng, count, v2ok, stars, nmax=40):
    made = 0
    while made < count:
        am = small_am(rng)
        if am.n() > nmax or am.n() == 0:
            continue
        ns = rng.choice([0, 0, 1, 1, 2, 3]) if stars else 0
        yield mm_of_am(am, rng, v2ok=v2ok, nstars=ns)
        made += 1


# ===================================================================== V3000 renderer
ATOM_KW = ["CFG=1", "VAL=2", "HCOUNT=1", "STBOX=1", "INVRET=1", "EXACHG=1", "SUBST=2", "UNSAT=1", "RBCNT=2", "ATTCHPT=1",
           "RGROUPS=(1 1)", "ATTCHORD=(2 1 a)", "CLASS=AA", "SEQID=3"]
BOND_KW = ["CFG=1", "TOPO=1", "RXCTR=1", "STBOX=1", "DISP=COORD"]
V30 = "M  V30 "

# knob -> (default, value used when the knob is switched on alone)
K3 = {
    "indices": (False, True),          # arbitrary unique positive atom / bond indices, not ascending
    "blanks": (1, 4),                  # runs of 1..k blanks between tokens (and after the prefix)
    "trailing": (False, True),         # trailing blanks
    "prop_order": (False, True),       # key=value properties in any order
    "defaults": (False, True),         # explicit CHG=0 RAD=0 MASS=0 for unset properties
    "atom_kw": (0, 3),                 # up to k extra spec keywords on atom lines (99 = all)
    "bond_kw": (0, 3),                 # extra spec keywords on bond lines
    "cont": (0.0, 0.7),                # probability that a V30 line is continued with dashes at arbitrary points
    "aamap": (False, True),            # non-zero atom-atom mapping number in token 7
    "header": (False, True),           # arbitrary header text, counts-line variants
    "counts_extra": (False, True),     # COUNTS na nb nsg n3d chiral REGNO=..
    "blocks": (False, True),           # SGROUP / COLLECTION / OBJ3D / LINKNODE between END BOND and END CTAB
    "crlf": (False, True),
    "ctab_name": (False, True),        # M  V30 BEGIN CTAB name
    "empty_bond_block": (False, True), # zero bonds: empty BEGIN BOND/END BOND instead of omitting the block
    "coord_spelling": (False, True),   # 1.5 / 1.500000 / 2 for 2.0
    "stars_mixed": (False, True),      # star atom lines anywhere in the atom block, star bond lines anywhere, either orientation
    "final_newline": (False, True),
    "iso_spelling": (False, True),     # D <-> H MASS=2, T <-> H MASS=3
    "wrap80": (True, True),            # physical lines longer than 80 characters are continued (format's line limit)
    "header_trap": (False, True),      # TRAP: a free-text header line that starts with "M  V30 " and ends with "-"
}
K3_DEFAULT = {k: v[0] for k, v in K3.items()}
K3_SINGLE = [k for k in K3 if k not in ("wrap80", "header_trap")]
TRAPS = True     # include the trap spellings (legal free text that looks like format syntax) in the falsifiers


def random_knobs3(rng, p=.45):
    kn = {}
    for k in K3_SINGLE:
        if rng.random() < p:
            kn[k] = K3[k][1]
    if "atom_kw" in kn and rng.random() < .3:
        kn["atom_kw"] = 99
    if "cont" in kn:
        kn["cont"] = rng.choice([.3, .7, 1.0])
    return kn


def nondefault3(kn):
    return sorted(k for k, v in kn.items() if k in K3_DEFAULT and v != K3_DEFAULT[k])


def header_text(rng):
    r = rng.random()
    if r < .2:
        return ""
    alphabet = "ABCDEFGHIJKLMNOPQRSTUVWXYZabcdefghijklmnopqrstuvwxyz0123456789 -_.,;:()[]=*#$%/\\'\"<>?!+&@^~|{}`" + "\xe4\xb5\xe9"
    if r < .35:
        return rng.choice(["M  END", "V2000", "  0  0  0     0  0            999 V2000", "M  V30 COUNTS 1 0 0 0 0", "M  V30 BEGIN ATOM",
                           "  3  2  0  0  0  0            999 V3000 x", "$$$$", "M  CHG  1   1   5", " V3000", "-", "ends with dash -"])
    return "".join(rng.choice(alphabet) for _ in range(rng.randint(1, 80)))


def spell_coord(s, rng):
    r = rng.random()
    if "." in s:
        ip, fp = s.split(".")
        if set(fp) <= {"0"} and r < .4:
            return ip
        if r < .8:
            return s + "0" * rng.randint(1, 6)
        return s
    if r < .6:
        return s + "." + "0" * rng.randint(1, 6)
    return s


def split_content(c, rng, nsplit):
    pos = sorted(rng.randint(0, len(c)) for _ in range(nsplit))
    pieces = []
    last = 0
    for p in pos:
        pieces.append(c[last:p])
        last = p
    pieces.append(c[last:])
    return pieces


def physical_lines(content, rng, cont, wrap80):
    """One logical V30 line -> physical lines (continued with a trailing dash)."""
    pieces = [content]
    if cont and rng.random() < cont:
        ns = 1
        while rng.random() < .4 and ns < 6:
            ns += 1
        pieces = split_content(content, rng, ns)
    if wrap80:
        out = []
        for i, p in enumerate(pieces):
            room = 72 if i == len(pieces) - 1 else 71
            while len(p) > room:
                cut = rng.randint(max(1, room - 30), 71)
                out.append(p[:cut])
                p = p[cut:]
            out.append(p)
        pieces = out
    return [V30 + p + "-" for p in pieces[:-1]] + [V30 + pieces[-1]]


def render3000(mm, rng, **kn):
    """Spec-conformant V3000 text of mm; every spelling feature is a knob (see K3)."""
    bad = set(kn) - set(K3)
    if bad:
        raise ValueError("unknown knobs %s" % bad)
    k = dict(K3_DEFAULT)
    k.update(kn)
    n = mm.n()
    bl = k["blanks"]

    def sep():
        return " " * (rng.randint(1, bl) if bl > 1 else 1)

    def join(tokens):
        s = ""
        for i, tkn in enumerate(tokens):
            if bl > 1 and " " in tkn:
                tkn = re.sub(" ", lambda m: sep(), tkn)
            s += (sep() if i else (" " * rng.randint(0, bl - 1) if bl > 1 else "")) + tkn
        if k["trailing"] and rng.random() < .7:
            s += " " * rng.randint(1, 5)
        return s

    # ---- atom line sequence and index assignment
    seq = [("a", i) for i in range(n)]
    for si in range(len(mm.stars)):
        seq.insert(rng.randint(0, len(seq)) if k["stars_mixed"] else len(seq), ("s", si))
    total = len(seq)
    if k["indices"]:
        top = rng.choice([total + 3, 3 * total + 10, 999, 100000, 10 ** 9, 10 ** 15])
        top = max(top, total + 3)
        idxs = rng.sample(range(1, top + 1), total)
    else:
        idxs = list(range(1, total + 1))
    aidx, sidx = {}, {}
    for (kind, j), ix in zip(seq, idxs):
        (aidx if kind == "a" else sidx)[j] = ix

    def cs(s):
        return spell_coord(s, rng) if k["coord_spelling"] else s

    def extras(pool, kmax):
        if not kmax:
            return []
        if kmax >= 99:
            ex = list(pool)
        else:
            ex = rng.sample(pool, rng.randint(1, min(kmax, len(pool))))
        rng.shuffle(ex)
        return ex

    def mix(props, ex):
        """props keep their relative order unless prop_order; extras go to random places"""
        props = list(props)
        if k["prop_order"]:
            rng.shuffle(props)
        for e in ex:
            props.insert(rng.randint(0, len(props)), e)
        return props

    atom_lines = []
    for kind, j in seq:
        if kind == "s":
            atom_lines.append(join([str(sidx[j]), "*", cs(rand_coord(rng)), cs(rand_coord(rng)), "0", "0"]))
            continue
        sym, chg, rad, mass, x, y, z = mm.atoms[j]
        if k["iso_spelling"] and rng.random() < .7:
            if sym in ("D", "T"):
                sym, mass = "H", 2 if sym == "D" else 3
            elif sym == "H" and mass in (2, 3):
                sym, mass = "DT"[mass - 2], 0
        props = []
        for key, val in (("CHG", chg), ("RAD", rad), ("MASS", mass)):
            if val:
                props.append("%s=%d" % (key, val))
            elif k["defaults"] and rng.random() < .6:
                props.append("%s=0" % key)
        toks = [str(aidx[j]), sym, cs(x), cs(y), cs(z), str(rng.randint(1, 99)) if k["aamap"] and rng.random() < .7 else "0"]
        atom_lines.append(join(toks + mix(props, extras(ATOM_KW, k["atom_kw"]))))

    # ---- bonds
    blines = []
    for t, u, v in mm.bonds:
        blines.append(("b", [str(t), str(aidx[u]), str(aidx[v])], []))
    for si, (t, c, es) in enumerate(mm.stars):
        ends = [str(aidx[c]), str(sidx[si])]
        if k["stars_mixed"] and rng.random() < .5:
            ends.reverse()
        sp = ["ENDPTS=(%d %s)" % (len(es), " ".join(str(aidx[e]) for e in es)), "ATTACH=ALL"]
        pos = rng.randint(0, len(blines)) if k["stars_mixed"] else len(blines)
        blines.insert(pos, ("s", [str(t)] + ends, sp))
    nb = len(blines)
    if k["indices"]:
        bidx = rng.sample(range(1, max(nb + 3, rng.choice([nb + 3, 999, 10 ** 7])) + 1), nb)
    else:
        bidx = list(range(1, nb + 1))
    bond_lines = [join([str(ix)] + toks + mix(sp, extras(BOND_KW, k["bond_kw"]))) for ix, (_, toks, sp) in zip(bidx, blines)]

    # ---- trailing blocks
    tail = []
    nsg = n3d = 0
    if k["blocks"] and total:
        anyidx = lambda: str(rng.choice(idxs))
        if rng.random() < .6:
            tail.append(join(["LINKNODE", "1", "3", "2", anyidx(), anyidx(), anyidx(), anyidx()]))
        if rng.random() < .8:
            nsg = rng.randint(1, 2)
            tail.append(join(["BEGIN", "SGROUP"]))
            for s in range(nsg):
                tail.append(join([str(s + 1), rng.choice(["SUP", "DAT", "GEN", "SRU"]), str(s + 1), "ATOMS=(1 %s)" % anyidx(),
                                  "LABEL=x%d" % s, "CONNECT=HT"]))
            tail.append(join(["END", "SGROUP"]))
        if rng.random() < .6:
            n3d = 1
            tail.append(join(["BEGIN", "OBJ3D"]))
            tail.append(join(["1", "-7", "0", '""', "BASIS=(2 %s %s)" % (anyidx(), anyidx()), 'COMMENT="d"']))
            tail.append(join(["END", "OBJ3D"]))
        if rng.random() < .7:
            tail.append(join(["BEGIN", "COLLECTION"]))
            tail.append(join(["MDLV30/STEABS", "ATOMS=(2 %s %s)" % (anyidx(), anyidx())]))
            tail.append(join(["END", "COLLECTION"]))

    # ---- assemble logical lines
    logical = [join(["BEGIN", "CTAB"] + (["name%d" % rng.randint(0, 99)] if k["ctab_name"] else []))]
    counts = ["COUNTS", str(total), str(nb)]
    if k["counts_extra"]:
        counts += [str(nsg), str(n3d), str(rng.randint(0, 1))]
        if rng.random() < .6:
            counts.append("REGNO=%d" % rng.randint(1, 99999))
    else:
        counts += [str(nsg), str(n3d), "0"]
    logical.append(join(counts))
    logical.append(join(["BEGIN", "ATOM"]))
    logical += atom_lines
    logical.append(join(["END", "ATOM"]))
    if nb or k["empty_bond_block"]:
        logical.append(join(["BEGIN", "BOND"]))
        logical += bond_lines
        logical.append(join(["END", "BOND"]))
    logical += tail
    logical.append(join(["END", "CTAB"]))

    if k["header"]:
        head = [header_text(rng), header_text(rng), header_text(rng),
                rng.choice(["  0  0  0     0  0            999 V3000", "  0  0  0  0  0  0  0  0  0  0999 V3000",
                            "  0  0  0     1  0            999 V3000", "  0  0  0     0  0            999 V3000   ",
                            "  0  0        0               999 V3000"])]
    else:
        head = ["", "  VERIF 0101000000", "", "  0  0  0     0  0            999 V3000"]
    if k["header_trap"]:
        for i in rng.sample([0, 1, 2], rng.randint(1, 3)):
            head[i] = V30 + rng.choice(["my molecule -", "x-", "-", "BEGIN CTAB-"])
    lines = list(head)
    for c in logical:
        lines += physical_lines(c, rng, k["cont"], k["wrap80"])
    lines.append("M  END")
    eol = "\r\n" if k["crlf"] else "\n"
    return eol.join(lines) + (eol if k["final_newline"] else "")


# ===================================================================== V2000 renderer
CODE_OF = {(3, 0): 1, (2, 0): 2, (1, 0): 3, (0, 2): 4, (-1, 0): 5, (-2, 0): 6, (-3, 0): 7, (0, 0): 0}   # (chg, rad) -> atom block code

K2 = {
    "charge_mode": ("auto", None),     # "codes" (atom block charge codes, no M  CHG/RAD at all), "lines", "auto" (random feasible)
    "stale_codes": (False, True),      # with M  CHG/RAD lines present: arbitrary (superseded) codes in the atom block
    "zero_entries": (False, True),     # explicit zero entries on property lines
    "grouping": ("max", "random"),     # entries per line: as many as fit (8) or random 1..8
    "order": (False, True),            # order of property lines arbitrary
    "unrelated": (False, True),        # M  STY / M  SAL / A / V / G ... lines interleaved
    "atom_lists": (False, True),       # lll > 0 with lll lines after the bond block
    "stext": (False, True),            # sss > 0 with 2*sss lines
    "noise_fields": (False, True),     # other atom / bond / counts fields non-zero
    "blank_zero": (False, True),       # zero integer fields left blank (Fortran reading), lines right-trimmed
    "blank_coord": (False, True),      # zero coordinate left blank
    "header": (False, True),
    "crlf": (False, True),
    "final_newline": (False, True),
    "iso_spelling": (False, True),     # D <-> H + M  ISO 2
    "iso_on_dt": (False, True),        # zero M  ISO entries naming D/T atoms (default value = keep symbol's mass)
    "text_trap": (False, True),        # TRAP: free text (alias / group / stext text line) that looks like a property line
}
K2_DEFAULT = {k: v[0] for k, v in K2.items()}
K2_SINGLE = [k for k in K2 if k not in ("charge_mode", "text_trap")]


def random_knobs2(rng, p=.4):
    kn = {}
    for k in K2_SINGLE:
        if rng.random() < p:
            kn[k] = K2[k][1]
    kn["charge_mode"] = rng.choice(["auto", "codes", "lines"])
    return kn


def f10_4(s):
    """decimal string with <= 4 decimals -> F10.4 field"""
    neg = s.startswith("-")
    if neg:
        s = s[1:]
    ip, _, fp = s.partition(".")
    if len(fp) > 4:
        raise ValueError("coordinate %r does not fit F10.4" % s)
    out = ("-" if neg else "") + ip + "." + fp.ljust(4, "0")
    if len(out) > 10:
        raise ValueError("coordinate %r does not fit F10.4" % s)
    return out.rjust(10)


def v2ok(mm):
    try:
        for a in mm.atoms:
            for c in a[4:7]:
                f10_4(c)
            if not (-15 <= a[1] <= 15 and 0 <= a[2] <= 3 and 0 <= a[3] <= 999):
                return False
    except ValueError:
        return False
    return mm.n() <= 999 and len(mm.all_bonds()) <= 999


def render2000(mm, rng, **kn):
    """Spec-conformant V2000 text of mm (star atoms are expanded first)."""
    bad = set(kn) - set(K2)
    if bad:
        raise ValueError("unknown knobs %s" % bad)
    k = dict(K2_DEFAULT)
    k.update(kn)
    mm = mm.expanded()
    n = mm.n()
    bonds = mm.bonds
    if not v2ok(mm):
        raise ValueError("molecule not expressible in V2000")

    def i3(v, w=3):
        if v == 0 and k["blank_zero"] and rng.random() < .7:
            return " " * w
        return ("%d" % v).rjust(w)

    atoms = [list(a) for a in mm.atoms]
    iso_entries, chg_entries, rad_entries = [], [], []
    for i, a in enumerate(atoms):
        if k["iso_spelling"] and rng.random() < .7:
            if a[0] in ("D", "T"):
                a[0], a[3] = "H", 2 if a[0] == "D" else 3
            elif a[0] == "H" and a[3] in (2, 3):
                a[0], a[3] = "DT"[a[3] - 2], 0
        if a[3]:
            iso_entries.append((i + 1, a[3]))
        elif a[0] in ("D", "T") and k["iso_on_dt"]:
            iso_entries.append((i + 1, 0))
        elif k["zero_entries"] and rng.random() < .3:
            iso_entries.append((i + 1, 0))
    encodable = all((a[1], a[2]) in CODE_OF for a in atoms)
    mode = k["charge_mode"]
    if mode == "auto":
        mode = rng.choice(["codes", "lines"]) if encodable else "lines"
    if mode == "codes" and not encodable:
        mode = "lines"
    if k["stale_codes"]:
        mode = "lines"
    codes = [0] * n
    if mode == "codes":
        codes = [CODE_OF[(a[1], a[2])] for a in atoms]
    else:
        for i, a in enumerate(atoms):
            if a[1]:
                chg_entries.append((i + 1, a[1]))
            elif k["zero_entries"] and rng.random() < .3:
                chg_entries.append((i + 1, 0))
            if a[2]:
                rad_entries.append((i + 1, a[2]))
            elif k["zero_entries"] and rng.random() < .3:
                rad_entries.append((i + 1, 0))
        if k["stale_codes"]:
            if not chg_entries and not rad_entries and n:
                (chg_entries if rng.random() < .5 else rad_entries).append((rng.randint(1, n), 0))
            if chg_entries or rad_entries:
                codes = [rng.randint(0, 7) for _ in range(n)]

    # ---- atom block
    atom_lines = []
    for a, code in zip(atoms, codes):
        cf = []
        for c in a[4:7]:
            if k["blank_coord"] and dec(c) == 0 and rng.random() < .7:
                cf.append(" " * 10)
            else:
                cf.append(f10_4(c))
        nz = k["noise_fields"]
        fields = [i3(0, 2), i3(code), i3(rng.randint(0, 3) if nz else 0), i3(rng.randint(0, 4) if nz else 0), i3(rng.randint(0, 1) if nz else 0),
                  i3(rng.randint(0, 15) if nz else 0), i3(rng.randint(0, 1) if nz else 0), i3(0), i3(0), i3(rng.randint(0, 99) if nz else 0),
                  i3(rng.randint(0, 2) if nz else 0), i3(rng.randint(0, 1) if nz else 0)]
        line = "".join(cf) + " " + a[0].ljust(3) + "".join(fields)
        atom_lines.append(line.rstrip(" ") if k["blank_zero"] else line)

    # ---- bond block
    bond_lines = []
    for t, u, v in bonds:
        nz = k["noise_fields"]
        line = "%3d%3d%3d" % (u + 1, v + 1, t) + i3(rng.choice([0, 1, 4, 6]) if nz else 0) + i3(0) + i3(rng.randint(0, 2) if nz else 0) + \
               i3(rng.choice([0, 1, 2, 4, 8, 12]) if nz else 0)
        bond_lines.append(line.rstrip(" ") if k["blank_zero"] else line)

    # ---- atom lists and stext
    list_lines = []
    if k["atom_lists"] and n:
        for _ in range(rng.randint(1, 3)):
            zs = [rng.randint(1, 100) for _ in range(rng.randint(1, 5))]
            list_lines.append("%3d %s    %d" % (rng.randint(1, n), rng.choice("TF"), len(zs)) + "".join(" %3d" % z for z in zs))
    stext_lines = []
    ns = 0
    if k["stext"]:
        ns = rng.randint(1, 2)
        for s in range(ns):
            stext_lines.append("%10.4f%10.4f" % (rng.uniform(-9, 9), rng.uniform(-9, 9)))
            stext_lines.append(rng.choice(["some text", "label %d" % s, "CHG", "M END", "ISO 13"]))

    # ---- property block
    def chunks(entries):
        entries = list(entries)
        if k["order"]:
            rng.shuffle(entries)
        out = []
        while entries:
            m = 8 if k["grouping"] == "max" else rng.randint(1, 8)
            out.append(entries[:m])
            entries = entries[m:]
        return out

    plines = []   # list of line groups (a group stays together)
    for tag, ents in (("CHG", chg_entries), ("RAD", rad_entries), ("ISO", iso_entries)):
        for ch in chunks(ents):
            plines.append(["M  %s%3d" % (tag, len(ch)) + "".join(" %3d %3d" % e for e in ch)])
    if k["unrelated"] and n:
        a1 = lambda: rng.randint(1, n)
        pool = [["M  STY  1   1 SUP"], ["M  SAL   1  2 %3d %3d" % (a1(), a1())], ["M  SMT   1 Ph"], ["M  SBL   1  1   1"],
                ["A  %3d" % a1(), rng.choice(["Ph", "alias text", "CHG=1", "R1"])], ["V  %3d a comment" % a1()],
                ["G  %3d%3d" % (a1(), a1()), "group text"], ["M  ALS %3d  2 F N   O   " % a1()], ["M  SUB  1 %3d   2" % a1()],
                ["M  RBC  1 %3d   3" % a1()], ["M  UNS  1 %3d   1" % a1()], ["M  MRV SMA   1 [#6]"], ["M  SDT   1 NAME"],
                ["M  SCN  1   1 HT "], ["M  LIN  1 %3d   2 %3d %3d" % (a1(), a1(), a1())]]
        for grp in rng.sample(pool, rng.randint(1, 5)):
            plines.insert(rng.randint(0, len(plines)), grp)
    if k["order"]:
        rng.shuffle(plines)
    if k["text_trap"] and n:
        a1 = rng.randint(1, n)
        trap = rng.choice(["M  CHG  1 %3d   5" % a1, "M  ISO  1 %3d  77" % a1, "M  RAD  1 %3d   3" % a1, "M  END"])
        kind = rng.choice(["A", "G", "S"])
        if kind == "S":
            ns += 1
            stext_lines += ["    1.0000    1.0000", trap]
        else:
            plines.insert(0, ["A  %3d" % a1 if kind == "A" else "G  %3d%3d" % (a1, a1), trap])

    nz = k["noise_fields"]
    counts = "%3d%3d" % (n, len(bonds)) + i3(len(list_lines)) + i3(0) + i3(rng.randint(0, 1) if nz else 0) + i3(ns) + \
             i3(0) + i3(0) + i3(0) + i3(0) + "999 V2000"
    if k["header"]:
        head = [header_text(rng), header_text(rng), header_text(rng)]
    else:
        head = ["", "  VERIF 0101000000", ""]
    lines = head + [counts] + atom_lines + bond_lines + list_lines + stext_lines + [l for grp in plines for l in grp] + ["M  END"]
    eol = "\r\n" if k["crlf"] else "\n"
    return eol.join(lines) + (eol if k["final_newline"] else "")


# ===================================================================== K1 / K2: reader vs model on one text
def _tok_float(tok):
    return float(tok) if tok.strip(" ") else 0.0


def model_read(model, text):
    """('ok', atoms, bonds) | ('parser',) | ('other',) | ('error', answer)"""
    ans = model.q("readmol " + hx(text))
    if ans.startswith("err "):
        return (ans[4:],)
    if not ans.startswith("ok "):
        return ("error", ans[:200])
    tk = ans.split()[1:]
    n = int(tk[0])
    i = 1
    o = lambda x: None if x == "_" else int(x)
    atoms = []
    for _ in range(n):
        lbl, zn, mass, rad, part, sym, chg, x, y, z = tk[i:i + 10]
        i += 10
        atoms.append((int(lbl), unhx(sym), int(zn), o(chg), o(mass), o(rad), unhx(x), unhx(y), unhx(z)))
    kb = int(tk[i])
    i += 1
    bonds = []
    for _ in range(kb):
        u, v, ty = int(tk[i]), int(tk[i + 1]), o(tk[i + 2])
        i += 3
        bonds.append((min(u, v), max(u, v), ty))
    return ("ok", atoms, sorted(bonds, key=lambda b: (b[0], b[1], -1 if b[2] is None else b[2])))


def negative_counts(text):
    """a V2000 counts line (columns aaa bbb lll, sss) or a V3000 COUNTS line with a negative number"""
    L = text.splitlines()
    try:
        if len(L) > 3 and L[3].rstrip().endswith("V2000"):
            return any(int(L[3][a:b]) < 0 for a, b in ((0, 3), (3, 6), (6, 9), (15, 18)) if L[3][a:b].strip())
        for l in L[4:8]:
            tk = l.split()
            if len(tk) > 3 and tk[:2] == ["M", "V30"] and tk[2] == "COUNTS":
                return any(int(x) < 0 for x in tk[3:5])
    except ValueError:
        return False
    return False


def compare_read(model, text, class_only=False):
    """-> (agree: bool, impl outcome, model outcome, reason)"""
    io = impl.read_outcome(text)
    mo = model_read(model, text)
    if io[0] != mo[0] and mo[0] == "other" and negative_counts(text):
        # a counts field below zero: the code then slices with negative bounds (Python semantics the model does not carry;
        # Molfile.to_nat_idx answers EOther).  No property speaks about such files; outside the correspondence.
        return True, io, mo, "outside the modelled domain (negative count)"
    if io[0] != mo[0]:
        return False, io, mo, "outcome class: impl %s, model %s" % (io[0] + ("/" + io[1] if io[0] == "other" else ""), mo[0])
    if io[0] != "ok" or class_only:
        return True, io, mo, ""
    ia, ma = io[1], mo[1]
    if len(ia) != len(ma):
        return False, io, mo, "atom counts %d / %d" % (len(ia), len(ma))
    for a, b in zip(ia, ma):
        lbl, sym, zn, chg, mass, rad, part, x, y, z, inv = a
        try:
            mx, my, mz = _tok_float(b[6]), _tok_float(b[7]), _tok_float(b[8])
        except ValueError:
            return False, io, mo, "model coordinate token not a float: %r" % (b[6:9],)
        if (lbl, sym, zn, chg, mass, rad) != b[:6] or (x, y, z) != (mx, my, mz):
            return False, io, mo, "atom %r: impl %r model %r" % (lbl, a[:6] + a[7:10], b)
    ib = sorted(io[2], key=lambda b: (b[0], b[1], -1 if b[2] is None else b[2]))
    if ib != mo[2]:
        return False, io, mo, "bonds differ: impl %s model %s" % ([b for b in ib if b not in mo[2]][:5], [b for b in mo[2] if b not in ib][:5])
    return True, io, mo, ""


def _short(o):
    s = json.dumps(o, default=str)
    return s if len(s) < 1500 else s[:1500] + "..."


def correspond(run, model, comp, text, tag, class_only=False):
    c = run.comp(comp)
    c["cases"] += 1
    ok, io, mo, why = compare_read(model, text, class_only)
    run.count("%s_outcome:%s" % (comp, io[0]))
    if ok and why:
        run.count("%s_%s" % (comp, why))
    if not ok and len(c["diffs"]) < 200:
        c["diffs"].append({"what": why, "tag": tag, "text": text, "impl": _short(io), "model": _short(mo)})
    elif not ok:
        c["diffs"].append({"what": why, "tag": tag})
    return ok, io


def repeated3000(mm, rng):
    """yield (name, text): V3000 texts in which one atom line states a property keyword more than once (the readers take the last
    statement); whatever the reader makes of them, the string emitted for an accepted text has to be a canonical sentence"""
    L = render3000(mm, rng, wrap80=False).split("\n")
    ia = [i for i, l in enumerate(L) if l.startswith(V30) and "BEGIN ATOM" in l]
    ie = [i for i, l in enumerate(L) if l.startswith(V30) and "END ATOM" in l]
    if not ia or not ie:
        return
    cand = [i for i in range(ia[0] + 1, ie[0]) if len(L[i].split()) > 3 and L[i].split()[3] != "*"]
    if not cand:
        return
    for name, tail in (("nonzero_then_zero", rng.choice([" RAD=2 RAD=0", " MASS=13 MASS=0", " RAD=2 MASS=13 RAD=0", " CHG=1 CHG=0", " MASS=2 RAD=1 MASS=0 RAD=0"])),
                       ("zero_then_nonzero", rng.choice([" RAD=0 RAD=3", " MASS=0 MASS=13", " CHG=0 CHG=-1", " RAD=0 MASS=0 RAD=1 MASS=14"])),
                       ("two_values", rng.choice([" RAD=1 RAD=2", " MASS=13 MASS=14", " CHG=1 CHG=-1"]))):
        i = rng.choice(cand)
        x = list(L)
        x[i] = x[i].rstrip() + tail
        yield name, "\n".join(x)


# ---------------------------------------------------------------- malformed streams (outcome class only)
def malformed3000(mm, rng):
    """yield (name, text): V3000 texts broken in one named way"""
    base = render3000(mm, rng, wrap80=False)
    L = base.split("\n")
    def put(i, s):
        x = list(L); x[i] = s; return "\n".join(x)
    def find(pred):
        return [i for i, l in enumerate(L) if pred(l)]
    n = mm.n()
    ia = find(lambda l: l.startswith(V30) and "BEGIN ATOM" in l)[0]
    ic = ia - 1
    yield "counts_keyword", put(ic, L[ic].replace("COUNTS", rng.choice(["COUNT", "counts", "COUNTSX", ""])))
    yield "counts_short", put(ic, V30 + "COUNTS " + " ".join(L[ic].split()[3:3 + rng.randint(0, 1)]))
    yield "counts_nonnumeric", put(ic, re.sub(r"COUNTS (\d+) (\d+)", lambda m: rng.choice(["COUNTS x %s" % m.group(2), "COUNTS %s y" % m.group(1), "COUNTS 1.0 0"]), L[ic]))
    yield "counts_too_many_atoms", put(ic, re.sub(r"COUNTS (\d+)", lambda m: "COUNTS %d" % (int(m.group(1)) + rng.randint(1, 3)), L[ic]))
    if n:
        yield "counts_too_few_atoms", put(ic, re.sub(r"COUNTS (\d+)", lambda m: "COUNTS %d" % (int(m.group(1)) - 1), L[ic]))
    yield "begin_atom_keyword", put(ia, V30 + rng.choice(["BEGIN ATOMS", "BEGIN", "BEGIN  BOND", "begin atom", "BEGINATOM"]))
    ie = find(lambda l: l == V30 + "END ATOM")[0]
    yield "end_atom_keyword", put(ie, V30 + rng.choice(["END ATOMS", "END", "END BOND", "END CTAB"]))
    ib = find(lambda l: l == V30 + "BEGIN BOND")
    if ib:
        yield "begin_bond_keyword", put(ib[0], V30 + rng.choice(["BEGIN BONDS", "BEGIN ATOM", "BEGIN"]))
        ieb = find(lambda l: l == V30 + "END BOND")[0]
        yield "end_bond_keyword", put(ieb, V30 + rng.choice(["END BONDS", "END ATOM", "END"]))
        yield "counts_too_many_bonds", put(ic, re.sub(r"COUNTS (\d+) (\d+)", lambda m: "COUNTS %s %d" % (m.group(1), int(m.group(2)) + rng.randint(1, 3)), L[ic]))
        j = rng.randint(ib[0] + 1, ieb - 1)
        t = L[j].split()
        yield "bond_unknown_index", put(j, " ".join(t[:5] + [str(len(L) + 100 + rng.randint(0, 9))] + t[6:]))
        yield "bond_index_zero", put(j, " ".join(t[:4] + ["0"] + t[5:]))
        yield "bond_nonnumeric", put(j, " ".join(t[:rng.randint(3, 5)] + ["x"] + t[6:]))
        yield "bond_short", put(j, " ".join(t[:rng.randint(2, 5)]))
    if ib:
        j = rng.randint(ib[0] + 1, ieb - 1)
        t = L[j].split()
        if "ENDPTS=" not in L[j]:
            yield "bond_to_itself", put(j, " ".join(t[:5] + [t[4]] + t[6:]))
    if n:
        j = rng.randint(ia + 1, ia + n)
        if L[j].split()[3] != "*":
            v = rng.choice([1, 2, 3, 13, 200])
            yield "negative_mass", put(j, L[j] + " MASS=-%d" % v)
            yield "negative_rad", put(j, L[j] + " RAD=-%d" % rng.choice([1, 2, 3]))
            # only the last written value counts: a negative value followed by a legal one is legal
            yield "negative_mass_overridden", put(j, re.sub(r" MASS=\d+", "", L[j]) + " MASS=-%d MASS=%d" % (v, v))
            yield "negative_chg_is_legal", put(j, re.sub(r" CHG=-?\d+", "", L[j]) + " CHG=-%d" % rng.choice([1, 2, 3]))
    last_v30 = find(lambda l: l.startswith(V30))[-1]
    yield "dangling_dash_before_M_END", put(last_v30, L[last_v30] + "-")
    yield "dash_merges_two_lines", put(rng.randint(4, last_v30 - 1), L[rng.randint(4, last_v30 - 1)] + "-")
    yield "continuation_without_prefix", "\n".join(L[:ia] + [L[ia] + "-", "BEGIN ATOM"] + L[ia + 1:])
    if n:
        j = rng.randint(ia + 1, ia + n)
        t = L[j].split()
        yield "unknown_element", put(j, " ".join(t[:3] + [rng.choice(["Xx", "c", "R#", "Q", "L", "A", "LP", "h", "CL", "0", "D2"])] + t[4:]))
        cpos = 4 + rng.randint(0, 2)
        yield "bad_coordinate", put(j, " ".join(t[:cpos] + [rng.choice(["abc", "1.2.3", "--1", "1,5", "x", "1e", "e5", ".", "-", "0x10"])] + t[cpos + 1:]))
        yield "atom_short", put(j, " ".join(t[:rng.randint(2, 6)]))
        yield "atom_index_nonnumeric", put(j, " ".join(t[:2] + ["i"] + t[3:]))
        yield "chg_garbage", put(j, L[j] + " " + rng.choice(["CHG=abc", "CHG=", "CHG", "MASS=1.5", "RAD=--1", "CHG=1=2", "CHG==1", "MASS=+13", "RAD= 2", "=1"]))
        yield "duplicate_atom_index", put(j, " ".join(t[:2] + [L[rng.randint(ia + 1, ia + n)].split()[2]] + t[3:]))
    if mm.stars:
        js = find(lambda l: "ENDPTS=" in l)
        j = rng.choice(js)
        yield "endpts_count_mismatch", put(j, re.sub(r"ENDPTS=\((\d+)", lambda m: "ENDPTS=(%d" % (int(m.group(1)) + rng.choice([-1, 1, 2])), L[j]))
        yield "endpts_unclosed", put(j, L[j].replace(")", ""))
        yield "endpts_empty", put(j, re.sub(r"ENDPTS=\([^)]*\)", rng.choice(["ENDPTS=()", "ENDPTS=( )", "ENDPTS=(x)", "ENDPTS=(1 a)"]), L[j]))
        yield "endpts_missing", put(j, re.sub(r"ENDPTS=\([^)]*\)", "", L[j]))
        t = L[j].split()
        star_ix = [l.split()[2] for l in L[ia + 1:ia + 1 + n + len(mm.stars)] if l.split()[3] == "*"]
        yield "two_star_atoms_bonded", put(j, " ".join(t[:4] + [star_ix[0], star_ix[-1]] + t[6:]))
        tj = L[j].split()
        start = tj[5] if tj[4] in star_ix else tj[4]
        yield "endpts_contains_start_atom", put(j, re.sub(r"ENDPTS=\((\d+) (\d+)", lambda m: "ENDPTS=(%s %s" % (m.group(1), start), L[j]))
        yield "endpts_unknown_index", put(j, re.sub(r"ENDPTS=\((\d+) (\d+)", lambda m: "ENDPTS=(%s %d" % (m.group(1), 10 ** 6 + 7), L[j]))
    yield "version", put(3, L[3].replace("V3000", rng.choice(["V4000", "v3000", "V3000x", "", "V3000 1", "V 3000"])))
    yield "too_few_lines", "\n".join(L[:rng.randint(0, len(L) - 2)])
    k = rng.randint(4, len(L) - 1)
    yield "line_deleted", "\n".join(L[:k] + L[k + 1:])
    yield "line_duplicated", "\n".join(L[:k] + [L[k]] + L[k:])
    yield "header_line_missing", "\n".join(L[1:])
    yield "header_line_extra", "\n".join([""] + L)
    yield "empty", rng.choice(["", "\n", "\n\n\n\n", " ", "\n\n\nV3000", "\n\n\nV2000", "\n\n\n V2000\n"])
    alphabet = " 0123456789-=.()*CHXM\n"
    t = list(base)
    for _ in range(rng.randint(1, 3)):
        p = rng.randrange(len(t))
        r = rng.random()
        if r < .4:
            t[p] = rng.choice(alphabet)
        elif r < .7:
            del t[p]
        else:
            t.insert(p, rng.choice(alphabet))
    yield "random_edit", "".join(t)


def malformed2000(mm, rng):
    base = render2000(mm, rng, charge_mode="lines")
    L = base.split("\n")
    def put(i, s):
        x = list(L); x[i] = s; return "\n".join(x)
    n = mm.n()
    nb = len(mm.all_bonds())
    iend = L.index("M  END")
    yield "missing_M_END", "\n".join(L[:iend])
    yield "M_END_misspelled", put(iend, rng.choice(["M END", "M  END ", " M  END", "M  end", "M  END.", "M   END"]))
    yield "counts_nonnumeric", put(3, rng.choice(["abc", " x  0  0  0  0  0  0  0  0  0999 V2000", "  1  y  0  0  0  0  0  0  0  0999 V2000", "  1  0  z  0  0  0  0  0  0  0999 V2000"])
                                   + ("" if rng.random() < .5 else " V2000"))
    yield "counts_too_many_atoms", put(3, "%3d" % (n + rng.randint(1, 3)) + L[3][3:])
    yield "counts_too_many_bonds", put(3, L[3][:3] + "%3d" % (nb + rng.randint(1, 4)) + L[3][6:])
    if n:
        yield "counts_too_few_atoms", put(3, "%3d" % (n - 1) + L[3][3:])
        j = 4 + rng.randrange(n)
        yield "unknown_element", put(j, L[j][:31] + rng.choice(["Xx ", "c  ", "R# ", "Q  ", "L  ", "   ", " C ", "CL ", "LP ", "A  "]) + L[j][34:])
        cf = rng.randint(0, 2)
        yield "bad_coordinate", put(j, L[j][:10 * cf] + rng.choice(["   abc    ", "  1.2.3   ", "    --1   ", "  1 2     ", "    1,5   ", "        - "]) + L[j][10 * cf + 10:])
        yield "atom_line_short", put(j, L[j][:rng.randint(0, 31)])
        yield "charge_code_garbage", put(j, L[j][:36] + rng.choice([" x ", "  8", " -1", " 99", "1 2"]) + L[j][39:])
    if nb:
        j = 4 + n + rng.randrange(nb)
        yield "bond_index_zero", put(j, ("  0" + L[j][3:]) if rng.random() < .5 else (L[j][:3] + "  0" + L[j][6:]))
        yield "bond_unknown_index", put(j, L[j][:3] + "%3d" % min(999, n + rng.randint(1, 5)) + L[j][6:])
        yield "bond_nonnumeric", put(j, L[j][:rng.choice([0, 3, 6])] + "  x" + L[j][rng.choice([3, 6, 9]):])
        yield "bond_line_short", put(j, L[j][:rng.randint(0, 8)])
        yield "bond_to_itself", put(j, L[j][:3] + L[j][:3] + L[j][6:])
    pl = [i for i, l in enumerate(L) if l[:6] in ("M  CHG", "M  RAD", "M  ISO")]
    if pl:
        j = rng.choice(pl)
        cnt = int(L[j][6:9])
        yield "prop_count_too_big", put(j, L[j][:6] + "%3d" % (cnt + rng.randint(1, 3)) + L[j][9:])
        yield "prop_count_small", put(j, L[j][:6] + "%3d" % (cnt - 1) + L[j][9:])
        yield "prop_atom_zero", put(j, L[j][:10] + "  0" + L[j][13:])
        yield "prop_atom_unknown", put(j, L[j][:10] + "%3d" % min(999, n + rng.randint(1, 9)) + L[j][13:])
        yield "prop_value_garbage", put(j, L[j][:14] + rng.choice([" x ", "1 1", "  -", "+ 1"]) + L[j][17:])
        yield "prop_count_garbage", put(j, L[j][:6] + rng.choice([" x ", "   ", "1 1"]) + L[j][9:])
        yield "prop_shifted_one_column", put(j, L[j][:9] + L[j][10:])
        # negative radical code / isotope mass is rejected, negative charge is legal
        yield "prop_negative_value:" + L[j][3:6], put(j, L[j][:14] + "%3d" % -rng.choice([1, 2, 3, 13]) + L[j][17:])
    yield "version", put(3, L[3].replace("V2000", rng.choice(["V1000", "v2000", "", "V2000 x", "V 2000"])))
    yield "too_few_lines", "\n".join(L[:rng.randint(0, len(L) - 2)])
    k = rng.randint(4, len(L) - 1)
    yield "line_deleted", "\n".join(L[:k] + L[k + 1:])
    yield "line_duplicated", "\n".join(L[:k] + [L[k]] + L[k:])
    yield "header_line_missing", "\n".join(L[1:])
    alphabet = " 0123456789-.CHXM\n"
    t = list(base)
    for _ in range(rng.randint(1, 3)):
        p = rng.randrange(len(t))
        r = rng.random()
        if r < .4:
            t[p] = rng.choice(alphabet)
        elif r < .7:
            del t[p]
        else:
            t.insert(p, rng.choice(alphabet))
    yield "random_edit", "".join(t)


def run_malformed(run, model, comp, rng, count):
    gen, v2 = (malformed3000, False) if comp == "K1" else (malformed2000, True)
    made = 0
    for mm in mm_stream(rng, 10 ** 9, v2, not v2, nmax=12):
        if v2 and not v2ok(mm):
            continue
        for name, text in gen(mm, rng):
            ok, io = correspond(run, model, comp, text, "malformed:" + name)
            run.count("%s_malformed:%s:%s" % (comp, name, io[0]))
            made += 1
        if made >= count:
            break
    return made


def run_corpus(run, model):
    # texts on which model and implementation once differed (kept; they run first)
    for f in sorted(glob.glob(os.path.join(common.VERIF, "corpus", "malformed", "*.mol"))):
        text = open(f, newline="").read()
        correspond(run, model, "K2" if "V2000" in "".join(text.split("\n")[3:4]) else "K1", text, "kept:" + os.path.basename(f), class_only=True)
    for f in gens.corpus_molfiles():
        correspond(run, model, "K1", open(f, newline="").read(), "corpus:" + os.path.basename(f))
    for f in sorted(glob.glob(os.path.join(common.REPO, "tests/molfiles_v2000/*/*.mol")) + glob.glob(os.path.join(common.REPO, "tests/molfiles_v2000/*.mol"))):
        correspond(run, model, "K2", open(f, newline="").read(), "corpus:" + os.path.basename(f))


# ===================================================================== K3: writer vs model; graphs with targeted line lengths
TARGET_LENGTHS = list(range(70, 75)) + list(range(141, 147)) + list(range(212, 218))
OCAML_MAX = 4 * 10 ** 18       # the driver reads labels / masses / bond types as OCaml ints


def fmt6(x):
    return "%.6f" % x


def coord_with_digits(rng, d, neg):
    """a float whose '%.6f' text has exactly d integer digits"""
    for _ in range(50):
        s = rng.choice("2345678") + "".join(rng.choice("0123456789") for _ in range(d - 1))
        if d <= 15 and rng.random() < .7:
            s += "." + "".join(rng.choice("0123456789") for _ in range(rng.randint(1, 6)))
        x = float(s)
        if d == 1 and rng.random() < .3:
            x = rng.choice([0.0, 0.5, 1.0, 9.9999994])
        if neg:
            x = -x
        if len(fmt6(x)) == d + 7 + (1 if neg else 0):
            return x
    raise RuntimeError("cannot build coordinate with %d digits" % d)


def atom_attrs_for_length(rng, L, label, model_safe=True):
    """node attributes such that the writer's atom line (without prefix) is exactly L characters"""
    for _ in range(200):
        sym = rng.choice(["C", "H", "N", "O", "Cl", "Br", "Hf", "Og", "U"])
        d = {"element_symbol": sym, "atomic_number": ZOF[sym], "partition": 0}
        tail = ""
        if rng.random() < .6:
            d["chg"] = rng.choice([-15, -3, -1, 1, 2, 15, 7, -10])
            tail += " CHG=%d" % d["chg"]
        if rng.random() < .4:
            d["rad"] = rng.randint(1, 3)
            tail += " RAD=%d" % d["rad"]
        if rng.random() < .5:
            md = rng.choice([1, 2, 3, 3, 9, 18]) if model_safe else rng.choice([1, 2, 3, 9, 18, 30, 60, 100])
            d["mass"] = int(rng.choice("123456789") + "".join(rng.choice("0123456789") for _ in range(md - 1)))
            tail += " MASS=%d" % d["mass"]
        negs = [rng.random() < .5 for _ in range(3)]
        fixed = len(str(label + 1)) + 1 + len(sym) + 3 * (1 + 7) + sum(negs) + 2 + len(tail)
        D = L - fixed
        if D < 3:
            continue
        a = rng.randint(1, D - 2)
        b = rng.randint(1, D - a - 1)
        parts = [a, b, D - a - b]
        rng.shuffle(parts)
        if max(parts) > 300:
            continue
        for key, dd, ng in zip(("x_coord", "y_coord", "z_coord"), parts, negs):
            d[key] = coord_with_digits(rng, dd, ng)
        line = "%d %s %s %s %s 0%s" % (label + 1, sym, fmt6(d["x_coord"]), fmt6(d["y_coord"]), fmt6(d["z_coord"]), tail)
        if len(line) == L:
            return d, line
    raise RuntimeError("no atom line of length %d for label %d" % (L, label))


def wrap_boundary_classes(content):
    """what the 71-character wrap separates: (class of char before, class of char after) per wrap"""
    def cls(c):
        return "blank" if c == " " else "digit" if c.isdigit() else "minus" if c == "-" else "dot" if c == "." else "eq" if c == "=" else "letter"
    out = []
    rest = content
    while len(rest) > 72:
        out.append((cls(rest[70]), cls(rest[71]), rest[60:71] + "|" + rest[71:80]))
        rest = rest[71:]
    return out


def length_graph(rng, lengths, model_safe=True, big_bonds=False):
    """nx graph with one atom per requested atom-line length, label gaps, bonds with any type"""
    g = nx.Graph()
    labels = []
    for L in lengths:
        tops = [9, 99, 99998, 10 ** 9, OCAML_MAX - 2] if model_safe else [9, 99998, 10 ** 12, 10 ** 30, 10 ** 70]
        top = rng.choice([t for t in tops if len(str(t)) <= max(1, L - 50)])
        lab = rng.randint(0, top)
        while lab in labels:
            lab = rng.randint(0, top)
        d, line = atom_attrs_for_length(rng, L, lab, model_safe)
        g.add_node(lab, **d)
        labels.append(lab)
    pairs = [(labels[i], labels[j]) for i in range(len(labels)) for j in range(i + 1, len(labels))]
    rng.shuffle(pairs)
    for u, v in pairs[:rng.randint(0, min(len(pairs), 6))]:
        if rng.random() < .5:
            u, v = v, u
        r = rng.random()
        if r < .15:
            g.add_edge(u, v)
        elif r < .7 or model_safe and not big_bonds:
            g.add_edge(u, v, bond_type=rng.choice([1, 2, 3, 4, 5, 8, 10, 12, 99, 10 ** 9] if r < .7 else [OCAML_MAX, 10 ** 17 + 3]))
        else:
            g.add_edge(u, v, bond_type=int(rng.choice("123456789") + rand_digits(rng, rng.randint(20, 210), lead=False)))
    return g


def enc_rmol(g):
    o = lambda v: "_" if v is None else str(v)
    out = [str(g.number_of_nodes())]
    for a, d in g.nodes(data=True):
        out += [str(a), str(d.get("atomic_number", 0)), o(d.get("mass")), o(d.get("rad")), str(d.get("partition", 0)), hx(d["element_symbol"]),
                o(d.get("chg")), hx(fmt6(d.get("x_coord", 0))), hx(fmt6(d.get("y_coord", 0))), hx(fmt6(d.get("z_coord", 0)))]
    out.append(str(g.number_of_edges()))
    for u, v, d in g.edges(data=True):
        out += [str(u), str(v), o(d.get("bond_type"))]
    return " ".join(out)


def graph_json(g):
    return {"nodes": [[a, dict(d)] for a, d in g.nodes(data=True)], "edges": [[u, v, dict(d)] for u, v, d in g.edges(data=True)]}


def graph_of_json(j):
    g = nx.Graph()
    for a, d in j["nodes"]:
        d = dict(d)
        if "invariant_code" in d:
            d["invariant_code"] = tuple(d["invariant_code"])
        g.add_node(a, **d)
    for u, v, d in j["edges"]:
        g.add_edge(u, v, **d)
    return g


def k3_graph(run, model, g, tag):
    c = run.comp("K3")
    c["cases"] += 1
    text = graph_to_molfile(g)
    line2 = text.split("\n")[1]
    ans = model.q("write " + hx(line2) + " " + enc_rmol(g))
    mt = unhx(ans[3:]) if ans.startswith("ok ") else ans
    # canonicalise before diffing: the three header lines are free text (program name, timestamp, comment) and a final
    # newline is immaterial; the counts line and the connection table are compared character by character
    def body(t):
        ls = t.split("\n")
        if ls and ls[-1] == "":
            ls = ls[:-1]
        return ls[3:]
    if body(mt) != body(text) or not ans.startswith("ok "):
        il, ml = text.split("\n"), mt.split("\n")
        first = next((i for i, (a, b) in enumerate(zip(il, ml)) if a != b), min(len(il), len(ml)))
        c["diffs"].append({"what": "molfile text differs at line %d" % first, "tag": tag, "graph": graph_json(g),
                           "impl": il[first:first + 3], "model": ml[first:first + 3]})
    return text


def k3_wrap(run, model, content, tag):
    c = run.comp("K3")
    c["cases"] += 1
    lines = []
    _writer._add_v30_line(lines, content)
    ans = model.q("wrap " + hx(content))
    ml = [unhx(h) for h in ans.split()[1:]] if ans.startswith("ok") else [ans]
    if ml != lines:
        c["diffs"].append({"what": "wrapping differs for a line of %d characters" % len(content), "tag": tag, "content": content,
                           "impl": lines, "model": ml})


def out_of_range_graph(rng):
    """values the writer's guards must drop: the correspondence covers the guards, the falsifier does not"""
    g = nx.Graph()
    for i in range(rng.randint(1, 5)):
        sym = rng.choice(["C", "N", "Cl", "H"])
        d = {"element_symbol": sym, "atomic_number": ZOF[sym], "partition": rng.randint(0, 3)}
        if rng.random() < .8:
            d["chg"] = rng.choice([0, 16, -16, 15, -15, 100, -1, 1])
        if rng.random() < .8:
            d["rad"] = rng.choice([0, 4, -1, 3, 1, 100])
        if rng.random() < .8:
            d["mass"] = rng.choice([0, -1, -13, 1, 13])
        for key in ("x_coord", "y_coord", "z_coord"):
            if rng.random() < .8:
                d[key] = rng.choice([0, 0.0, -0.0, 1, -1, 1.5, 2.5e-7, -4.9e-7, 5e-7, 1e-7, 123456.7890125, 1e22, -1e23, 0.1 + 0.2])
        g.add_node(i * rng.randint(1, 3) + (0 if i == 0 else g.number_of_nodes() * 3), **d)
    nodes = list(g.nodes)
    for _ in range(rng.randint(0, 4)):
        u, v = rng.choice(nodes), rng.choice(nodes)
        if u != v:
            g.add_edge(u, v, **({"bond_type": rng.choice([0, -1, 1, 2, 4, 17])} if rng.random() < .7 else {}))
    return g


def run_k3(run, model, rng, n_graphs):
    # every target length several times, in groups of 1..4 atoms per graph
    todo = []
    reps = max(1, n_graphs * 2 // len(TARGET_LENGTHS))
    for L in TARGET_LENGTHS:
        todo += [L] * reps
    todo += [rng.randint(56, 300) for _ in range(len(todo) // 3)]
    rng.shuffle(todo)
    while todo:
        k = rng.randint(1, 4)
        lens, todo = todo[:k], todo[k:]
        g = length_graph(rng, lens, model_safe=True)
        text = k3_graph(run, model, g, "lengths:%s" % lens)
        for L in lens:
            run.count("K3_atom_line_length:%d" % L)
    for _ in range(max(20, n_graphs // 4)):
        k3_graph(run, model, out_of_range_graph(rng), "guards")
    for am in gens.standard_stream(rng, "quick"):
        if am.n() > 60:
            continue
        g = mm_graph(mm_of_am(am, rng, v2ok=False))
        k3_graph(run, model, g, "stream")
    # wrapping of arbitrary (bond-like and other) lines at every length 0..300 and the target lengths many times
    for L in list(range(0, 301)) + TARGET_LENGTHS * 5 + [431, 432, 433, 1000]:
        kind = rng.random()
        if kind < .5:
            toks = []
            while len(" ".join(toks)) < L:
                toks.append(rand_digits(rng, rng.randint(1, 40)))
            content = " ".join(toks)[:L]
        else:
            content = "".join(rng.choice("0123456789 -=.CHG") for _ in range(L))
        k3_wrap(run, model, content, "wrap:%d" % L)
    # empty graph
    k3_graph(run, model, nx.Graph(), "empty")


def mm_graph(mm):
    """the graph a correct reader returns for mm (built directly, not through any reader)"""
    exp = expected(mm)
    g = nx.Graph()
    for i, d in enumerate(exp["atoms"]):
        d = dict(d)
        d["partition"] = 0
        d["invariant_code"] = (d["atomic_number"], d.get("mass", 0), d.get("rad", 0))
        g.add_node(i, **d)
    for t, u, v in mm.all_bonds():
        g.add_edge(u, v, bond_type=t)
    return g


# ===================================================================== falsifier helpers
def read_graph(text):
    """(graph | None, error string | None)"""
    try:
        return graph_from_molfile_text(text), None
    except Exception as e:
        return None, "%s: %s" % (type(e).__name__, str(e)[:160])


def fals_c07(mm, text):
    """list of violations of C07 for one rendering (empty = passes)"""
    g, err = read_graph(text)
    if err:
        return ["reader raised " + err]
    return diff_expected(g, expected(mm))


def fals_c08(mm, t2, t3):
    exp = expected(mm)
    out = []
    g2, e2 = read_graph(t2)
    g3, e3 = read_graph(t3)
    if e2:
        out.append("V2000: reader raised " + e2)
    if e3:
        out.append("V3000: reader raised " + e3)
    if g2 is not None:
        out += ["V2000: " + d for d in diff_expected(g2, exp)]
    if g3 is not None:
        out += ["V3000: " + d for d in diff_expected(g3, exp)]
    if g2 is not None and g3 is not None:
        s2, s3 = impl.tucan_of(g2), impl.tucan_of(g3)
        if s2 != s3:
            out.append("TUCAN strings differ: V2000 %s / V3000 %s" % (s2, s3))
    return out


def fals_c05_text(text):
    """C05 on the reader side: when the reader accepts `text` (at least one atom), the string the pipeline emits
    is a sentence of the grammar in canonical layout.
    -> (string | None, problems)"""
    import validator
    g, err = read_graph(text)
    if g is None or g.number_of_nodes() == 0:
        return None, []
    try:
        s = impl.tucan_of(g)
    except Exception as e:
        return None, ["pipeline raised %s: %s on a graph the reader returned" % (type(e).__name__, str(e)[:120])]
    counts = {}
    for _, d in g.nodes(data=True):
        counts[d["element_symbol"]] = counts.get(d["element_symbol"], 0) + 1
    labelled = sum(1 for _, d in g.nodes(data=True) if "mass" in d or "rad" in d)
    # judged by the independent validator only (C05 is about the emitted string; whether the library's own parser
    # accepts it again is C03's business)
    probs = validator.validate(s, counts, g.number_of_edges(), labelled)
    return s, probs


def mm_permute(mm, rng):
    """the same molecule listed in another atom order, bonds in another order and orientation"""
    n = mm.n()
    perm = list(range(n))
    rng.shuffle(perm)                 # atom i moves to position perm[i]
    atoms = [None] * n
    for i, a in enumerate(mm.atoms):
        atoms[perm[i]] = list(a)
    bonds = [[t, perm[u], perm[v]] if rng.random() < .5 else [t, perm[v], perm[u]] for t, u, v in mm.bonds]
    rng.shuffle(bonds)
    stars = [[t, perm[c], [perm[e] for e in rng.sample(es, len(es))]] for t, c, es in mm.stars]
    rng.shuffle(stars)
    return MM(atoms, bonds, stars, mm.family)


def wide_mm(rng, size):
    """a molecule whose atom numbers need three digits, with labels on atoms of every index width"""
    am = gens.deep(rng, size)
    am.zs = am.zs[:size]
    am.edges = [e for e in am.edges if e[0] < size and e[1] < size][:999]
    am.mass, am.rad = {}, {}
    for i in rng.sample(range(am.n()), min(am.n(), 12)):
        if rng.random() < .6:
            am.mass[i] = rng.choice([13, 14, 100, 999])
        else:
            am.rad[i] = rng.randint(1, 3)
    m = mm_of_am(am, rng, v2ok=True)
    for a in m.atoms:
        if abs(a[1]) > 15:
            a[1] = -15
    m.family = "wide"
    return m


def canonical_view(g):
    """what C04 compares: label -> (element, mass, radical, class), and the edge set"""
    c = impl.canonicalize_molecule(g)
    return (sorted((a, d["atomic_number"], d.get("mass", 0), d.get("rad", 0), d["partition"]) for a, d in c.nodes(data=True)),
            sorted(tuple(sorted(e)) for e in c.edges()))


def c01_descriptions(run, model, prop="C01"):
    """C01 (and, with prop="C04", C04) at the level of molfile descriptions: one molecule, several V2000 / V3000 texts that differ in
    atom numbering (for V3000 also: arbitrary index numbers, not ascending along the atom block), listing order of atoms and bonds and
    bond direction -> one string (C01) / one canonical labelled graph (C04)"""
    rng = run.sub_rng("c01/texts")
    sc = scale_of(run)
    t_end = time.time() + (45 if run.tier == "quick" else 600)
    small = []
    for mm in mm_stream(run.sub_rng("c01/mm"), 10 ** 9, v2ok=True, stars=False, nmax=30):
        mm2 = MM([[a[0], a[1] if abs(a[1]) <= 15 else 0] + a[2:] for a in mm.atoms], mm.bonds, mm.stars, mm.family)
        if v2ok(mm2) and mm2.n() >= 2:
            small.append(mm2)
        if len(small) >= 60 * sc:
            break
    wide = [wide_mm(rng, size) for size in ([120, 260] if run.tier == "quick" else [100, 101, 150, 260, 500, 999])]
    for mm in wide + small:
        if time.time() > t_end:
            run.notes.append("C01 descriptions: time budget reached")
            break
        run.count("C01_text_atoms:" + size_bucket(mm.n()))
        # C01 varies the numbering of atoms, the listing order of atoms and bonds and the direction of bonds -- nothing else:
        # all renderings of one group use the same format and the same (plain) spelling
        groups = [[("V3000", render3000(mm, rng))] + [("V3000 renumbered", render3000(mm_permute(mm, rng), rng)) for _ in range(2)]
                  + [("V3000 renumbered, index numbers not in listing order", render3000(mm_permute(mm, rng), rng, indices=True))]]
        if v2ok(mm):
            groups.append([("V2000", render2000(mm, rng, charge_mode="lines"))] +
                          [("V2000 renumbered", render2000(mm_permute(mm, rng), rng, charge_mode="lines")) for _ in range(2)])
        for texts in groups:
            strings = []
            for tag, text in texts:
                run.evaluations += 1
                correspond(run, model, "K2" if tag.startswith("V2000") else "K1", text, prop + ":" + tag)
                g, err = read_graph(text)
                if prop == "C04":
                    strings.append(canonical_view(g) if g is not None else "reader raised " + err)
                else:
                    strings.append(impl.tucan_of(g) if g is not None else "reader raised " + err)
            for (tag, text), s_ in zip(texts[1:], strings[1:]):
                if s_ != strings[0]:
                    run.falsifier_hits.append({"property": prop, "what": "two molfile descriptions of one molecule (%s vs %s: same spelling, other atom numbering / listing order / bond direction) give different %s" % (texts[0][0], tag, "canonical labelled graphs" if prop == "C04" else "strings"),
                                               "key": prop + ":text:" + tag, "case": {"kind": prop + "-text", "text": texts[0][1], "text_b": text},
                                               "extra": {"a": str(strings[0])[:300], "b": str(s_)[:300]}})
                    break
        texts = groups[0]
        if mm.n() >= 3:
            run.nontrivial.add(digest(texts[0][1]))


def mm_siblings(mm, rng):
    """molecules that differ from mm in exactly one isotope / radical statement (so they are different molecules)"""
    out = []
    idx = list(range(mm.n()))
    rng.shuffle(idx)
    for i in idx[:3]:
        a = mm.atoms[i]
        if a[0] in ("D", "T"):
            continue
        m2 = mm.copy()
        if a[3]:
            m2.atoms[i][3] = 0                      # isotope label dropped
        else:
            m2.atoms[i][3] = ZOF[a[0]] * 2 + 7       # isotope label added
        m2.family = "sibling:mass"
        out.append(m2)
        m3 = mm.copy()
        m3.atoms[i][2] = 0 if a[2] else 2            # radical dropped / added
        m3.family = "sibling:rad"
        out.append(m3)
    return out[:4]


def c02_descriptions(run, model):
    """C02 at the level of molfile descriptions: a molecule and a sibling that differs in one isotope or radical statement,
    both written with the SAME spelling choices (continuation cuts, blank runs, keyword order, extra keywords ...), must
    not get the same string"""
    rng = run.sub_rng("c02/texts")
    sc = scale_of(run)
    t_end = time.time() + (40 if run.tier == "quick" else 600)
    n = 0
    for mm in mm_stream(run.sub_rng("c02/mm"), 150 * sc, v2ok=True, stars=False, nmax=16):
        if time.time() > t_end:
            run.notes.append("C02 descriptions: time budget reached after %d molecules" % n)
            break
        n += 1
        kn3 = random_knobs3(rng)
        kn3.pop("iso_spelling", None)
        for fmt in ("V3000", "V2000"):
            if fmt == "V2000" and not v2ok(mm):
                continue
            seed = rng.getrandbits(32)
            def render(m):
                r = random.Random(seed)
                return render3000(m, r, **kn3) if fmt == "V3000" else render2000(m, r, **kn2)
            kn2 = random_knobs2(rng)
            base = render(mm)
            s0, e0 = tucan_of_text(base)
            run.evaluations += 1
            correspond(run, model, "K1" if fmt == "V3000" else "K2", base, "C02:" + fmt)
            if s0 is None:
                continue
            for sib in mm_siblings(mm, rng):
                if fmt == "V2000" and not v2ok(sib):
                    continue
                text = render(sib)
                s1, e1 = tucan_of_text(text)
                run.evaluations += 1
                run.count("C02_text:" + sib.family)
                if s1 is not None and s1 == s0:
                    run.falsifier_hits.append({"property": "C02", "what": "two molfiles (%s) that state different molecules (%s) get the same string" % (fmt, sib.family),
                                               "key": "C02:text:" + sib.family, "case": {"kind": "C02-text", "text": base, "text_b": text},
                                               "extra": {"string": s0[:300], "knobs": nondefault3(kn3) if fmt == "V3000" else sorted(kn2)}})
                if mm.n() >= 2:
                    run.nontrivial.add(digest(text))


def c05_reader_stream(run, model):
    """texts (well-formed spellings and the malformed streams of both formats) through reader -> canonicalize -> serialize"""
    rng = run.sub_rng("c05/texts")
    sc = scale_of(run)
    budget = (500 if run.tier == "quick" else 6000) * sc
    t_end = time.time() + (60 if run.tier == "quick" else 900)
    made = [0]

    def one(comp, text, tag):
        made[0] += 1
        run.evaluations += 1
        ok, io = correspond(run, model, comp, text, tag)
        run.count("C05_text:%s:%s" % (comp, io[0]))
        if io[0] != "ok":
            return
        s, probs = fals_c05_text(text)
        if s is not None and "/" in s and not s.endswith("/"):
            run.nontrivial.add(digest(s))
        if probs:
            run.falsifier_hits.append({"property": "C05", "what": "text accepted by the reader, emitted string not a canonical sentence [%s]: %s" % (tag, probs[0]),
                                       "key": "C05:text:" + tag.split(":")[-1],
                                       "case": {"kind": "C05-text", "text": text}, "extra": {"string": s, "problems": probs[:8]}})

    v3 = mm_stream(run.sub_rng("c05/mm3"), 10 ** 9, v2ok=False, stars=True, nmax=14)
    v2 = (m for m in mm_stream(run.sub_rng("c05/mm2"), 10 ** 9, v2ok=True, stars=False, nmax=14) if v2ok(m))
    while made[0] < budget and time.time() < t_end:
        mm = next(v3)
        one("K1", render3000(mm, rng, **random_knobs3(rng)), "render3000")
        for name, text in malformed3000(mm, rng):
            one("K1", text, "malformed3000:" + name)
        for name, text in repeated3000(mm, rng):
            one("K1", text, "repeated3000:" + name)
        mm = next(v2)
        one("K2", render2000(mm, rng, **random_knobs2(rng)), "render2000")
        for name, text in malformed2000(mm, rng):
            one("K2", text, "malformed2000:" + name)
    return made[0]


def sample(run, obj):
    if len(run.samples) < 6:
        run.samples.append(obj)


def size_bucket(n):
    return "1" if n <= 1 else "2-4" if n <= 4 else "5-12" if n <= 12 else "13-40" if n <= 40 else "41-200" if n <= 200 else ">200"


def directed3000():
    """hand-picked molecules for the V3000 keyword / default-value traps"""
    yield MM([["C", -1, 0, 0, "0", "0", "0"], ["O", 1, 2, 13, "1.5", "-2.25", "0"]], [[2, 0, 1]], family="directed")
    yield MM([["D", 0, 0, 0, "0", "0", "0"], ["O", 0, 0, 0, "1", "0", "0"], ["T", 0, 1, 0, "2", "0", "0"], ["H", 0, 0, 1, "3", "0", "0"]],
             [[1, 0, 1], [1, 1, 2], [1, 1, 3]], family="directed")
    yield MM([["He", 0, 0, 0, "0", "0", "0"]], [], family="directed")
    yield MM([["Cl", -1, 0, 37, "0", "0", "0"], ["Na", 1, 0, 0, "2", "2", "2"]], [], family="directed")
    yield MM([["C", 0, 0, 0, "0", "0", "0"], ["C", 0, 0, 0, "1", "0", "0"], ["C", 0, 0, 0, "2", "0", "0"], ["Fe", 2, 0, 56, "1", "1", "0"]],
             [[4, 0, 1], [4, 1, 2]], [[9, 3, [0, 1, 2]]], family="directed")


# ===================================================================== C07
def c07(run, model):
    rng = run.sub_rng("c07")
    sc = scale_of(run)
    t_end = time.time() + (75 if run.tier == "quick" else 900)
    run_corpus(run, model)
    run_malformed(run, model, "K1", run.sub_rng("c07/malformed"), 1500 * sc)

    def one(mm, kn, tag):
        text = render3000(mm, rng, **kn)
        run.evaluations += 1
        nd = nondefault3(kn)
        run.count("C07_knobs:" + (tag if len(nd) <= 1 else "combined"))
        for name in nd:
            run.count("C07_knob_used:" + name)
        probs = fals_c07(mm, text)
        if probs:
            run.falsifier_hits.append({"property": "C07", "what": "V3000 reading differs from the stated molecule under spelling [%s]: %s" % (",".join(nd) or "plain", probs[0]),
                                       "key": "C07:" + ("header_trap" if "header_trap" in nd else ",".join(nd) or "plain"),
                                       "case": {"kind": "C07", "text": text, "mm": mm.to_json(), "knobs": kn}, "extra": {"problems": probs[:8]}})
        correspond(run, model, "K1", text, "render3000:" + (",".join(nd) or "plain"))
        if mm.n() >= 2 and nd:
            run.nontrivial.add(digest(text))
        return text

    mms = list(directed3000()) + list(mm_stream(run.sub_rng("c07/mm"), 450 * sc, v2ok=False, stars=True))
    for i, mm in enumerate(mms):
        run.count("C07_atoms:" + size_bucket(mm.n()))
        run.count("C07_stars:%d" % len(mm.stars))
        one(mm, {}, "plain")
        for name in K3_SINGLE:
            if name == "empty_bond_block" and (mm.bonds or mm.stars):
                continue
            if name == "stars_mixed" and not mm.stars:
                continue
            one(mm, {name: K3[name][1]}, name)
        one(mm, {"atom_kw": 99}, "atom_kw")
        one(mm, {"cont": 1.0, "blanks": 3}, "combined")
        for _ in range(6):
            text = one(mm, random_knobs3(rng), "combined")
        if mm.n() >= 3:
            sample(run, {"mm": mm.to_json(), "text": text})
        if time.time() > t_end:
            run.notes.append("C07: time budget reached after %d of %d molecules" % (i + 1, len(mms)))
            break
    if TRAPS:
        for mm in mms[:4]:
            one(mm, {"header_trap": True}, "header_trap")
    # a large molecule and the empty molecule (correspondence only for the latter)
    big = mm_of_am(gens.deep(rng, 400), rng, v2ok=False, nstars=2)
    one(big, random_knobs3(rng), "combined")
    correspond(run, model, "K1", render3000(MM([], []), rng), "empty molecule")


# ===================================================================== C08
def c08(run, model):
    rng = run.sub_rng("c08")
    sc = scale_of(run)
    t_end = time.time() + (75 if run.tier == "quick" else 900)
    run_corpus(run, model)
    run_malformed(run, model, "K2", run.sub_rng("c08/malformed"), 1500 * sc)

    prev_text = [None]

    def one(mm, kn2, kn3, tag):
        t2 = render2000(mm, rng, **kn2)
        t3 = render3000(mm, rng, **kn3)
        run.evaluations += 1
        prior = None
        if run.evaluations % 3 == 0 and prev_text[0] and "M  END" in prev_text[0]:
            # what a reader returns for a file must not depend on a file it rejected before: the previous molecule's file,
            # cut off before "M  END", is read (and rejected) first
            prior = prev_text[0][:prev_text[0].index("M  END")].rstrip("\n")
            read_graph(prior)
            run.count("C08_after_rejected_read")
        if mm.has_labels():
            prev_text[0] = t2
        nd = sorted(k for k, v in kn2.items() if v != K2_DEFAULT[k])
        run.count("C08_knobs:" + (tag if len(nd) <= 1 else "combined"))
        for name in nd:
            run.count("C08_knob_used:" + name + ("=" + kn2[name] if name == "charge_mode" else ""))
        probs = fals_c08(mm, t2, t3)
        if probs:
            run.falsifier_hits.append({"property": "C08", "what": "V2000 / V3000 / stated molecule disagree under V2000 spelling [%s]: %s" % (",".join(nd) or "plain", probs[0]),
                                       "key": "C08:" + ("text_trap" if "text_trap" in nd else ",".join(nd) or "plain"),
                                       "case": {"kind": "C08", "text": t2, "text3000": t3, "mm": mm.to_json(), "knobs": kn2, "knobs3000": kn3, "prior_rejected_text": prior},
                                       "extra": {"problems": probs[:8]}})
        correspond(run, model, "K2", t2, "render2000:" + (",".join(nd) or "plain"))
        correspond(run, model, "K1", t3, "render3000(C08)")
        has_props = any(l[:2] in ("M ", "A ", "V ", "G ") and l != "M  END" for l in t2.splitlines()[4:]) or t2.splitlines()[3][6:9].strip() not in ("", "0")
        if mm.n() >= 2 and (mm.has_labels() or has_props):
            run.nontrivial.add(digest(t2))
        return t2

    def v2_stream(count):
        made = 0
        for mm in mm_stream(run.sub_rng("c08/mm"), 10 ** 9, v2ok=True, stars=True):
            mm2 = MM([[a[0], a[1] if abs(a[1]) <= 15 else 0] + a[2:] for a in mm.atoms], mm.bonds, mm.stars, mm.family)
            if v2ok(mm2):
                yield mm2
                made += 1
                if made >= count:
                    return

    directed = [m for m in directed3000()]
    # code-encodable molecules (all charges in -3..3 without radical, or doublet radical alone) so that the code path is exercised
    def codeable(mm):
        m = mm.copy()
        for a in m.atoms:
            if (a[1], a[2]) not in CODE_OF:
                a[1], a[2] = rng.choice([(1, 0), (-1, 0), (0, 2), (3, 0), (-3, 0), (0, 0), (2, 0), (-2, 0)])
        m.family += "+codeable"
        return m

    mms = directed + list(v2_stream(200 * sc))
    for i, mm in enumerate(mms):
        variants = [mm] + ([codeable(mm)] if i % 2 == 0 else [])
        for m in variants:
            run.count("C08_atoms:" + size_bucket(m.n()))
            run.count("C08_labels:" + ("yes" if m.has_labels() else "no"))
            one(m, {}, {}, "plain")
            for mode in ("codes", "lines"):
                one(m, {"charge_mode": mode}, {}, "charge_mode")
            for name in K2_SINGLE:
                one(m, {name: K2[name][1]}, {}, name)
            for _ in range(5):
                t2 = one(m, random_knobs2(rng), random_knobs3(rng), "combined")
            if m.n() >= 3 and m.has_labels():
                sample(run, {"mm": m.to_json(), "v2000": t2})
        if time.time() > t_end:
            run.notes.append("C08: time budget reached after %d of %d molecules" % (i + 1, len(mms)))
            break
    if TRAPS:
        for mm in mms[:6]:
            one(mm, {"text_trap": True, "charge_mode": "lines"}, {}, "text_trap")
    # three-digit atom numbers in every column position, 999 atoms
    for size in ([130, 999] if run.tier == "quick" else [100, 130, 500, 998, 999, 999]):
        am = gens.deep(rng, size)
        am.zs = am.zs[:size]
        am.edges = [e for e in am.edges if e[0] < size and e[1] < size][:999]
        for i in range(am.n()):
            if rng.random() < .2:
                am.mass[i] = rng.choice([13, 14, 100, 999])
            if rng.random() < .1:
                am.rad[i] = rng.randint(1, 3)
        m = mm_of_am(am, rng, v2ok=True)
        for a in m.atoms:
            if abs(a[1]) > 15:
                a[1] = -15
        run.count("C08_atoms:" + size_bucket(m.n()))
        one(m, {"charge_mode": "lines", "grouping": "random", "order": True}, {}, "combined")
        one(m, random_knobs2(rng), random_knobs3(rng), "combined")


# ===================================================================== C09
def mini_read3000(text):
    """Reader for well-formed V3000 connection tables as a writer may produce them, independent of /repo: returns
    (problems, atoms, bonds, wrapped). atoms: (index, symbol, x, y, z, props dict); bonds: (index, type, a, b); numbers as written.
    Tolerated because the format allows it: a final newline, runs of blanks, further key=value keywords on atom and bond lines,
    an atom-atom mapping number, further fields on the COUNTS line. Demanded: the 'M  V30 ' prefix on every CTAB line, the block
    keywords, the line limit, well-formed continuation."""
    probs = []
    lines = text.split("\n")
    if lines and lines[-1] == "":
        lines = lines[:-1]                      # the text may end with a newline
    for i, l in enumerate(lines):
        if len(l) > 79:
            probs.append("line %d has %d characters plus the newline (limit 80 including the newline)" % (i + 1, len(l)))
        if "\r" in l:
            probs.append("line %d contains a carriage return" % (i + 1))
    if len(lines) < 9:
        return probs + ["fewer than 9 lines"], [], [], 0
    if lines[3].split()[-1:] != ["V3000"]:
        probs.append("counts line is not a V3000 counts line")
    if lines[-1].rstrip(" ") != "M  END":
        probs.append("last line is not M  END")
    logical = []
    cur = None
    wrapped = 0
    for i, l in enumerate(lines[4:-1], 5):
        if not l.startswith(V30):
            probs.append("line %d does not start with the V30 prefix" % i)
            continue
        body = l[7:]
        cur = body if cur is None else cur + body
        if cur.endswith("-"):
            cur = cur[:-1]
            wrapped += 1
        else:
            logical.append(cur)
            cur = None
    if cur is not None:
        probs.append("continuation dash on the last V30 line")
    atoms, bonds = [], []
    try:
        toks = [l.split() for l in logical]
        if toks[0][:2] != ["BEGIN", "CTAB"] or toks[-1] != ["END", "CTAB"]:
            probs.append("CTAB keywords missing")
        c = toks[1]
        if c[0] != "COUNTS" or len(c) < 3:
            probs.append("bad counts line %r" % logical[1])
        na, nb = int(c[1]), int(c[2])
        if toks[2] != ["BEGIN", "ATOM"] or toks[3 + na] != ["END", "ATOM"]:
            probs.append("atom block keywords misplaced")
        for l, t in zip(logical[3:3 + na], toks[3:3 + na]):
            int(t[5])                                       # atom-atom mapping number
            props = {}
            for kv in t[6:]:
                key, _, val = kv.partition("=")
                if key in ("CHG", "RAD", "MASS"):
                    if key in props:
                        probs.append("atom line %r: property %s written twice" % (l, key))
                    props[key] = int(val)
            atoms.append((int(t[0]), t[1], t[2], t[3], t[4], props))
        rest = toks[4 + na:-1]
        if nb == 0:
            if rest and rest != [["BEGIN", "BOND"], ["END", "BOND"]]:
                probs.append("unexpected lines after the atom block: %r" % rest[:2])
        else:
            if rest[0] != ["BEGIN", "BOND"] or rest[-1] != ["END", "BOND"] or len(rest) != nb + 2:
                probs.append("bond block malformed")
            for t in rest[1:-1]:
                if len(t) < 4:
                    probs.append("bond line %r" % " ".join(t))
                bonds.append(tuple(int(x) for x in t[:4]))
    except (ValueError, IndexError) as e:
        probs.append("not well-formed: %s: %s" % (type(e).__name__, e))
    return probs, atoms, bonds, wrapped


def close6(a, b):
    return abs(a - b) <= 5e-7 * max(1.0, abs(a)) or fmt6(a) == fmt6(b)


def fals_c09_graph(g):
    """-> (problems, text, wrapped-line count) for one in-range molecule graph"""
    text = graph_to_molfile(g)
    probs, atoms, bonds, wrapped = mini_read3000(text)
    nodes = list(g.nodes(data=True))
    pos = {a: i for i, (a, _) in enumerate(nodes)}
    # the text states the molecule (independent reading)
    if len(atoms) != len(nodes):
        probs.append("file states %d atoms, graph has %d" % (len(atoms), len(nodes)))
    else:
        for (ix, sym, x, y, z, props), (a, d) in zip(atoms, nodes):
            want = {k: v for k, v in (("CHG", d.get("chg")), ("RAD", d.get("rad")), ("MASS", d.get("mass"))) if v}
            props = {k: v for k, v in props.items() if v != 0}      # an explicitly written default means "not set"
            # atoms are written in the graph's order; which index numbers the file uses is the writer's choice
            if sym != d["element_symbol"] or props != want:
                probs.append("atom %r written as %r" % (a, (ix, sym, props)))
            for s, key in ((x, "x_coord"), (y, "y_coord"), (z, "z_coord")):
                # "to six decimals": the written value agrees with the attribute to 1e-6 (how many digits are written is the writer's choice)
                if not re.fullmatch(r"[-+]?\d+(\.\d*)?", s) or not close6(float(d.get(key, 0)), float(Fraction(s))):
                    probs.append("atom %r %s %r written as %r" % (a, key, d.get(key, 0), s))
    edges = list(g.edges(data=True))
    # the same bonds with the same types: as a set of {a, b} pairs (order of the bond lines, their numbering and the direction
    # in which a bond is written are the writer's choice); atoms are identified by their position in the atom block
    ixpos = {ix: i for i, (ix, *_rest) in enumerate(atoms)}
    if len(ixpos) != len(atoms):
        probs.append("atom index written twice")
    try:
        gotb = sorted((t, min(ixpos[a_], ixpos[b_]), max(ixpos[a_], ixpos[b_])) for _, t, a_, b_ in bonds)
    except KeyError as e:
        gotb = None
        probs.append("bond line names an atom index that no atom line has: %s" % e)
    wantb = sorted((d.get("bond_type", 1), min(pos[u], pos[v]), max(pos[u], pos[v])) for u, v, d in edges)
    if gotb is not None and gotb != wantb:
        probs.append("bond lines %s, graph bonds %s" % ([b for b in gotb if b not in wantb][:3], [b for b in wantb if b not in gotb][:3]))
    if len(set(i for i, *_r in bonds)) != len(bonds):
        probs.append("bond index written twice")
    # reading back with the implementation
    g2, err = read_graph(text)
    if err:
        probs.append("reading the written molfile raised " + err)
        return probs, text, wrapped
    n2 = list(g2.nodes(data=True))
    if [a for a, _ in n2] != list(range(len(nodes))):
        probs.append("read-back node labels %s" % [a for a, _ in n2][:10])
    if len(n2) == len(nodes):
        for i, ((a, d), (_, d2)) in enumerate(zip(nodes, n2)):
            for key in ("element_symbol", "chg", "rad", "mass"):
                if d.get(key) != d2.get(key):
                    probs.append("atom at position %d: %s %r read back as %r" % (i, key, d.get(key), d2.get(key)))
            if "atomic_number" in d and d["atomic_number"] != d2.get("atomic_number"):
                probs.append("atom at position %d: atomic number %r read back as %r" % (i, d["atomic_number"], d2.get("atomic_number")))
            for key in ("x_coord", "y_coord", "z_coord"):
                if not close6(float(d.get(key, 0)), d2[key]):
                    probs.append("atom at position %d: %s %r read back as %r" % (i, key, d.get(key, 0), d2[key]))
    else:
        probs.append("read back %d atoms, graph has %d" % (len(n2), len(nodes)))
    b1 = sorted((min(pos[u], pos[v]), max(pos[u], pos[v]), d.get("bond_type", 1)) for u, v, d in edges)
    b2 = sorted((min(u, v), max(u, v), d.get("bond_type")) for u, v, d in g2.edges(data=True))
    if b1 != b2:
        probs.append("bonds read back differ: lost %s, new %s" % ([b for b in b1 if b not in b2][:4], [b for b in b2 if b not in b1][:4]))
    return probs, text, wrapped


def fals_c09_pipeline(s, calc=False):
    """string -> graph -> molfile -> graph -> string"""
    try:
        g = graph_from_tucan(s)
        text = graph_to_molfile(g, calc_coordinates=calc)
        bad = [l for l in text.split("\n") if len(l) > 79]
        g2 = graph_from_molfile_text(text)
        s2 = impl.tucan_of(g2)
    except Exception as e:
        return ["pipeline raised %s: %s" % (type(e).__name__, str(e)[:160])], None
    out = []
    if bad:
        out.append("molfile line longer than 79 characters")
    if s2 != s:
        out.append("pipeline returned another string: %s" % s2[:300])
    return out, text


def random_in_range_graph(rng):
    g = nx.Graph()
    n = rng.randint(1, 8)
    labels = rng.sample(range(0, rng.choice([n, 3 * n, 100000, 10 ** 12])), n) if rng.random() < .6 else list(range(n))
    specials = [0.0, -0.0, 5e-7, 4.9999999e-7, -5e-7, 1.5e-6, 2.5e-6, 0.1, 1 / 3, -2 / 3, 1e15 + 0.3, 123456.7890125, 2 ** 53 + 1.0, 1e22, 1e23, -1e23,
                1e100, -1e300, 1.7976931348623157e308, 5e-324, 2.2250738585072014e-308, 0.9999995, 0.99999949, 9.9999995, 99999.9999995, 1, -7, 0]
    for lab in labels:
        sym = rng.choice(ELEMENTS)
        d = {"element_symbol": sym, "atomic_number": ZOF[sym], "partition": 0}
        if rng.random() < .4:
            d["chg"] = rng.choice([c for c in range(-15, 16) if c])
        if rng.random() < .3:
            d["rad"] = rng.randint(1, 3)
        if rng.random() < .4:
            d["mass"] = rng.choice([1, 2, 3, 13, 250, 999, 1000, 10 ** 6, 10 ** 40 + 7])
        for key in ("x_coord", "y_coord", "z_coord"):
            r = rng.random()
            if r < .1:
                continue
            d[key] = rng.choice(specials) if r < .5 else rng.uniform(-1, 1) * 10 ** rng.randint(-8, 60)
        g.add_node(lab, **d)
    for _ in range(rng.randint(0, 2 * n)):
        u, v = rng.choice(labels), rng.choice(labels)
        if u != v:
            if rng.random() < .2:
                g.add_edge(u, v)
            else:
                g.add_edge(u, v, bond_type=rng.choice([1, 2, 3, 4, 5, 6, 7, 8, 9, 10, 12, 99, 10 ** 20]))
    return g


def c09(run, model):
    rng = run.sub_rng("c09")
    sc = scale_of(run)
    t_end = time.time() + (75 if run.tier == "quick" else 900)
    run_k3(run, model, run.sub_rng("c09/k3"), 250 * sc)

    def check_graph(g, tag):
        run.evaluations += 1
        probs, text, wrapped = fals_c09_graph(g)
        run.count("C09_graphs:" + tag)
        run.count("C09_wrapped_lines:%s" % ("0" if wrapped == 0 else "1" if wrapped == 1 else "2-3" if wrapped <= 3 else ">3"))
        if wrapped:
            run.nontrivial.add(digest([l for i, l in enumerate(text.split("\n")) if i != 1]))
            for l in text.split("\n"):
                pass
        if probs:
            run.falsifier_hits.append({"property": "C09", "what": "written molfile is not well-formed / does not read back as the same molecule (%s): %s" % (tag, probs[0]),
                                       "key": "C09:" + tag, "case": {"kind": "C09", "graph": graph_json(g), "text": text}, "extra": {"problems": probs[:8]}})
        return text, wrapped

    # atom lines of every targeted length, label gaps, huge labels / masses / bond types (bond lines reach the targets too)
    reps = 500 * sc
    for L in TARGET_LENGTHS:
        for r in range(reps):
            lens = [L] + [rng.choice(TARGET_LENGTHS + [rng.randint(60, 400)]) for _ in range(rng.randint(0, 2))]
            g = length_graph(rng, lens, model_safe=False, big_bonds=True)
            text, wrapped = check_graph(g, "targeted_atom_lines")
            for a, d in g.nodes(data=True):
                line = "%d %s %s %s %s 0" % (a + 1, d["element_symbol"], fmt6(d["x_coord"]), fmt6(d["y_coord"]), fmt6(d["z_coord"])) + \
                       "".join(" %s=%d" % (k.upper(), d[k]) for k in ("chg", "rad", "mass") if k in d)
                run.count("C09_atom_line_length:%s" % (len(line) if len(line) in TARGET_LENGTHS else "other"))
                for before, after, ctx in wrap_boundary_classes(line):
                    run.count("C09_wrap_between:%s|%s" % (before, after))
                    if before == "eq" or after == "eq" or (before == "letter" and after == "letter"):
                        run.count("C09_wrap_inside_keyword")
            if wrapped and r == 0:
                sample(run, {"graph": graph_json(g), "molfile_lines": text.split("\n")[4:12]})
    # bond lines of every targeted length
    for L in TARGET_LENGTHS:
        for r in range(max(2, reps // 2)):
            g = nx.Graph()
            D = L - 4                                   # "1 T a b": three numbers share L - 4 digits
            while True:
                d1 = rng.randint(1, D - 2)
                d2 = rng.randint(1, D - d1 - 1)
                parts = [d1, d2, D - d1 - d2]
                rng.shuffle(parts)
                bt, va, vb = (int(rng.choice("123456789") + rand_digits(rng, k - 1, lead=False)) for k in parts)
                if va != vb:
                    break
            la, lb = va - 1, vb - 1
            for lab in (la, lb):
                g.add_node(lab, element_symbol="C", atomic_number=6, partition=0, x_coord=0.0, y_coord=1.0, z_coord=-1.0)
            g.add_edge(la, lb, bond_type=bt)
            line = "1 %d %d %d" % (bt, la + 1, lb + 1)
            run.count("C09_bond_line_length:%s" % (len(line) if len(line) in TARGET_LENGTHS else "other"))
            for before, after, ctx in wrap_boundary_classes(line):
                run.count("C09_bond_wrap_between:%s|%s" % (before, after))
            check_graph(g, "targeted_bond_lines")
    for _ in range(10000 * sc):
        check_graph(random_in_range_graph(rng), "random_in_range")
        if time.time() > t_end:
            break
    # molecules of the shared stream, through the reader-shaped graph and through the TUCAN pipeline
    k = 0
    for am in gens.standard_stream(run.sub_rng("c09/stream"), run.tier):
        if am.n() > 150 or am.n() == 0:
            continue
        k += 1
        if k % 3 == 0:
            # isotope masses long enough to force one or several wraps
            for i in rng.sample(range(am.n()), min(am.n(), rng.randint(1, 3))):
                am.mass[i] = int(rng.choice("123456789") + rand_digits(rng, rng.choice([30, 45, 46, 47, 48, 49, 50, 100, 118, 119, 120, 121, 200]), lead=False))
        check_graph(mm_graph(mm_of_am(am, rng, v2ok=False)), "stream")
        s = impl.tucan_of(impl.graph_of(am))
        run.evaluations += 1
        probs, text = fals_c09_pipeline(s, calc=(k % 10 == 0 and am.n() <= 30))
        run.count("C09_pipeline:%s" % ("wrapped" if text and any(l.endswith("-") for l in text.split("\n")[4:]) else "plain"))
        if text and any(l.endswith("-") for l in text.split("\n")[4:]):
            run.nontrivial.add(digest(s))
        if probs:
            run.falsifier_hits.append({"property": "C09", "what": "string -> graph -> molfile -> graph -> string: " + probs[0], "key": "C09:pipeline",
                                       "case": {"kind": "C09-pipeline", "tucan": s, "calc": k % 10 == 0 and am.n() <= 30, "text": text}, "extra": {"problems": probs}})
        if time.time() > t_end + 30:
            run.notes.append("C09: time budget reached in the pipeline stream after %d molecules" % k)
            break


# ===================================================================== C06
def tucan_of_text(text):
    g, err = read_graph(text)
    if err:
        return None, err
    try:
        return impl.tucan_of(g), None
    except Exception as e:
        return None, "pipeline raised %s: %s" % (type(e).__name__, str(e)[:160])


def c06_variants(mm, rng, kb, kb2, traps=False):
    """yield (class name, text A, text B): renderings of one molecule differing in one class of non-identity data"""
    seed = rng.getrandbits(32)
    R = lambda: random.Random(seed)
    A = render3000(mm, R(), **kb)

    def with_atoms(f):
        m = mm.copy()
        for i, a in enumerate(m.atoms):
            f(i, a)
        return m

    def with_bonds(f):
        m = mm.copy()
        for b in m.bonds:
            b[0] = f(b[0])
        for s in m.stars:
            s[0] = f(s[0])
        return m

    v2 = v2ok(mm)
    # --- molecule-level non-identity data
    def newc(i, a):
        a[4:7] = [rand_coord(rng, v2), rand_coord(rng, v2), rand_coord(rng, v2)]
    m_coord = with_atoms(newc)
    m_zero = with_atoms(lambda i, a: a.__setitem__(slice(4, 7), ["0", "0", "0"]))
    m_bt = with_bonds(lambda t: rand_btype(rng, v2))
    m_arom = with_bonds(lambda t: 4)
    m_single = with_bonds(lambda t: 1)
    types = [b[0] for b in mm.bonds] + [s[0] for s in mm.stars]
    chgs = [a[1] for a in mm.atoms]
    rng.shuffle(types)
    rng.shuffle(chgs)
    m_res = mm.copy()
    for b, t in zip(m_res.bonds + m_res.stars, types):
        b[0] = t
    for a, c in zip(m_res.atoms, chgs):
        a[1] = c
    # alternate single/double along the bond list, flipped, with a charge pair moved (resonance-style)
    m_alt1 = mm.copy()
    m_alt2 = mm.copy()
    for j, (b1, b2) in enumerate(zip(m_alt1.bonds, m_alt2.bonds)):
        b1[0], b2[0] = 1 + j % 2, 2 - j % 2
    if mm.n() >= 2:
        m_alt1.atoms[0][1], m_alt1.atoms[-1][1] = 1, -1
        m_alt2.atoms[0][1], m_alt2.atoms[-1][1] = -1, 1
    m_chg = with_atoms(lambda i, a: a.__setitem__(1, rng.choice([0, 0, 1, -1, 2, -3, 15, -15]) if v2 else rng.choice([0, 1, -1, 7, -12, 15])))
    m_nochg = with_atoms(lambda i, a: a.__setitem__(1, 0))
    for name, m2 in (("coordinates", m_coord), ("coordinates", m_zero), ("bond_types", m_bt), ("bond_types:aromatic", m_arom),
                     ("bond_types:all_single", m_single), ("resonance:bond_orders_and_charges_permuted", m_res), ("charges", m_chg), ("charges:none", m_nochg)):
        yield name, A, render3000(m2, R(), **kb)
    yield "resonance:alternating_orders_flipped_charge_pair_moved", render3000(m_alt1, R(), **kb), render3000(m_alt2, R(), **kb)

    # --- spelling-level classes: toggle the knobs of one class
    def toggled(names):
        kn = dict(kb)
        for nm in names:
            cur = kn.get(nm, K3_DEFAULT[nm])
            kn[nm] = K3_DEFAULT[nm] if cur != K3_DEFAULT[nm] else K3[nm][1]
        return kn
    yield "header_lines", A, render3000(mm, R(), **toggled(["header"]))
    yield "header_lines", render3000(mm, random.Random(seed + 1), header=True), render3000(mm, random.Random(seed + 2), header=True)
    yield "index_values", A, render3000(mm, R(), **toggled(["indices"]))
    yield "index_values", render3000(mm, random.Random(seed + 1), indices=True), render3000(mm, random.Random(seed + 2), indices=True)
    yield "extra_keywords_blocks", A, render3000(mm, R(), **toggled(["atom_kw", "bond_kw", "blocks", "counts_extra", "ctab_name", "aamap"]))
    for nm in ("atom_kw", "bond_kw", "blocks", "counts_extra", "aamap"):
        yield "extra_keywords_blocks:" + nm, A, render3000(mm, R(), **toggled([nm]))
    yield "extra_keywords_blocks:all_atom_keywords", A, render3000(mm, R(), **dict(kb, atom_kw=99, bond_kw=5))
    yield "line_endings", A, render3000(mm, R(), **toggled(["crlf"]))
    yield "line_endings", A, render3000(mm, R(), **toggled(["crlf", "final_newline"]))
    yield "layout:blanks_continuation_order_defaults", A, render3000(mm, R(), **toggled(["blanks", "trailing", "cont", "prop_order", "defaults", "coord_spelling", "stars_mixed", "iso_spelling"]))
    if traps:
        yield "header_lines:header_trap", A, render3000(mm, R(), **dict(kb, header_trap=True))
    # --- V2000
    if v2:
        B = render2000(mm, R(), **kb2)
        yield "format:v2000_vs_v3000", A, B
        for name, m2 in (("v2000:coordinates", m_coord), ("v2000:bond_types", m_bt), ("v2000:bond_types:aromatic", m_arom), ("v2000:charges", m_chg),
                         ("v2000:resonance", m_res)):
            if v2ok(m2):
                yield name, B, render2000(m2, R(), **kb2)
        def tog2(names):
            kn = dict(kb2)
            for nm in names:
                cur = kn.get(nm, K2_DEFAULT[nm])
                kn[nm] = K2_DEFAULT[nm] if cur != K2_DEFAULT[nm] else K2[nm][1]
            return kn
        yield "v2000:header_lines", B, render2000(mm, R(), **tog2(["header"]))
        yield "v2000:other_fields", B, render2000(mm, R(), **tog2(["noise_fields"]))
        yield "v2000:unrelated_property_lines_atom_lists", B, render2000(mm, R(), **tog2(["unrelated", "atom_lists", "stext"]))
        yield "v2000:line_endings", B, render2000(mm, R(), **tog2(["crlf"]))
        yield "v2000:charge_encoding", render2000(mm, R(), **dict(kb2, charge_mode="codes")), render2000(mm, R(), **dict(kb2, charge_mode="lines", stale_codes=True))
        if traps:
            yield "v2000:unrelated_property_lines:text_trap", B, render2000(mm, R(), **dict(kb2, text_trap=True))


def fals_c06_pair(a, b, ident=None):
    sa, ea = tucan_of_text(a)
    sb, eb = tucan_of_text(b)
    out = []
    if ea:
        out.append("text A: " + ea)
    if eb:
        out.append("text B: " + eb)
    if not out and sa != sb:
        out.append("TUCAN strings differ: %s / %s" % (sa, sb))
    if not out and ident is not None and sa != ident:
        out.append("TUCAN string %s differs from the string of the bare identity data %s" % (sa, ident))
    return out


def c06(run, model):
    rng = run.sub_rng("c06")
    sc = scale_of(run)
    t_end = time.time() + (75 if run.tier == "quick" else 900)
    # three-digit atom numbers first (the numeric atom indices used in a file are non-identity data)
    mms = [wide_mm(rng, size) for size in ([120, 300] if run.tier == "quick" else [100, 101, 260, 999])]
    mms += list(directed3000()) + list(mm_stream(run.sub_rng("c06/mm"), 250 * sc, v2ok=False, stars=True))
    mms += [mm for mm in mm_stream(run.sub_rng("c06/mm2"), 400 * sc, v2ok=True, stars=True) if v2ok(mm)][:250 * sc]
    for i, mm in enumerate(mms):
        run.count("C06_atoms:" + size_bucket(mm.n()))
        ident = impl.tucan_of(impl.graph_of(am_of_mm(mm)))
        kb = random_knobs3(rng, .3) if i % 2 else {}
        kb2 = random_knobs2(rng, .3) if i % 2 else {}
        first = True
        for cls, a, b in c06_variants(mm, rng, kb, kb2, traps=TRAPS and (i < 3 or len(mms) - i <= 3)):
            run.evaluations += 1
            run.count("C06_class:" + cls.split(":")[0])
            if a != b and mm.n() >= 2 and mm.all_bonds():
                run.nontrivial.add(digest([a, b]))
            probs = fals_c06_pair(a, b, ident if first else None)
            if probs and first and "bare identity data" in probs[0]:
                cls = "identity_data:plain_rendering_vs_graph_built_from_elements_isotopes_radicals_bonds"
            first = False
            if probs:
                trap = cls.split(":")[-1] if cls.endswith("_trap") else None
                run.falsifier_hits.append({"property": "C06", "what": "TUCAN string changes with non-identity data, class [%s]: %s" % (cls, probs[0]),
                                           "key": "C06:" + (trap or cls), "case": {"kind": "C06", "class": cls, "text": a, "text_b": b, "mm": mm.to_json()},
                                           "extra": {"problems": probs, "identity_tucan": ident}})
            if i % 4 == 0:
                # the texts of this property also tie the readers' models
                l3 = b.splitlines()[3] if len(b.splitlines()) > 3 else ""
                correspond(run, model, "K2" if l3.rstrip().endswith("V2000") else "K1", b, "c06:" + cls)
        if mm.n() >= 4 and mm.all_bonds():
            sample(run, {"mm": mm.to_json(), "tucan": ident, "classes": "all of c06_variants"})
        if time.time() > t_end:
            run.notes.append("C06: time budget reached after %d of %d molecules" % (i + 1, len(mms)))
            break


# ===================================================================== replay
def replay_text(run, model, hit):
    """re-run the falsifier of a recorded hit; True if it still fails"""
    case = hit.get("case") or {}
    kind = case.get("kind")
    if kind == "C07":
        probs = fals_c07(MM.from_json(case["mm"]), case["text"])
    elif kind == "C08":
        if case.get("prior_rejected_text"):
            read_graph(case["prior_rejected_text"])
        probs = fals_c08(MM.from_json(case["mm"]), case["text"], case["text3000"])
    elif kind == "C09":
        probs, _, _ = fals_c09_graph(graph_of_json(case["graph"]))
    elif kind == "C09-pipeline":
        probs, _ = fals_c09_pipeline(case["tucan"], case.get("calc", False))
    elif kind == "C01-text":
        a, b = tucan_of_text(case["text"]), tucan_of_text(case["text_b"])
        probs = [] if (a == b and a[0] is not None) else ["strings differ: %s / %s" % (str(a)[:200], str(b)[:200])]
    elif kind == "C04-text":
        ga, gb = read_graph(case["text"]), read_graph(case["text_b"])
        va, vb = (canonical_view(ga[0]) if ga[0] is not None else ga[1]), (canonical_view(gb[0]) if gb[0] is not None else gb[1])
        probs = [] if (va == vb and ga[0] is not None) else ["canonical labelled graphs differ: %s / %s" % (str(va)[:200], str(vb)[:200])]
    elif kind == "C02-text":
        a, b = tucan_of_text(case["text"]), tucan_of_text(case["text_b"])
        probs = ["two different molecules, one string: %s" % str(a[0])[:200]] if (a[0] is not None and a[0] == b[0]) else []
    elif kind == "C05-text":
        _, probs = fals_c05_text(case["text"])
    elif kind == "C06":
        mm = MM.from_json(case["mm"])
        probs = fals_c06_pair(case["text"], case["text_b"], impl.tucan_of(impl.graph_of(am_of_mm(mm))))
    else:
        raise ValueError("hit has no replayable case: %r" % kind)
    for p in probs[:5]:
        print("  still failing:", p)
    return bool(probs)


# ===================================================================== self-test
def _selftest(tier="quick"):
    model = common.Model()
    rc = 0
    for name, fn in (("C06", c06), ("C07", c07), ("C08", c08), ("C09", c09)):
        run = common.Run(name, tier, int(os.environ.get("VERIF_SEED", "0") or 0))
        t0 = time.time()
        fn(run, model)
        print("%s tier=%s wall=%.1fs evaluations=%d nontrivial=%d samples=%d" % (name, tier, time.time() - t0, run.evaluations, len(run.nontrivial), len(run.samples)))
        for cname, c in sorted(run.components.items()):
            print("   component %s: cases=%d diffs=%d" % (cname, c["cases"], len(c["diffs"])))
            seen = {}
            for d in c["diffs"]:
                seen.setdefault(d.get("tag", "").split(":")[0] + ":" + d["what"][:60], []).append(d)
            for k, v in list(seen.items())[:8]:
                print("      DIFF x%d %s" % (len(v), k))
                print("         text: %r" % (v[0].get("text", v[0].get("content", ""))[:400],))
        seen = {}
        for h in run.falsifier_hits:
            seen.setdefault(h["key"], []).append(h)
        print("   falsifier hits: %d in %d classes" % (len(run.falsifier_hits), len(seen)))
        for k, v in seen.items():
            h = min(v, key=lambda h: len(h["case"].get("text") or ""))
            print("      HIT x%d %s: %s" % (len(v), k, h["what"][:300]))
            print("         smallest text: %r" % ((h["case"].get("text_b") or h["case"].get("text") or "")[:600],))
            print("         replay still fails: %s" % replay_text(run, model, h))
            rc = 1
        if run.notes:
            print("   notes:", run.notes)
        if "-v" in sys.argv:
            for k in sorted(run.hist):
                print("      %s %d" % (k, run.hist[k]))
    model.close()
    return rc


if __name__ == "__main__":
    sys.exit(_selftest("thorough" if "--thorough" in sys.argv else "quick"))
