"""Cross-check of the extraction step: the same model functions evaluated inside Coq (vm_compute) and by the
extracted OCaml driver on the same molecules must agree.  Thorough tier only (one coqc call)."""
import os, re, subprocess
import common, gens, impl
from common import enc_mol, unhx


def run_xcheck(run, model, n_cases=120):
    rng = run.sub_rng("xcheck")
    ams = []
    stream = gens.standard_stream(rng, "quick")
    for am in stream:
        if 1 <= am.n() <= 14:
            ams.append(am)
        if len(ams) >= n_cases:
            break
    def lit_opt(v):
        return "None" if v is None else "(Some (%d)%%Z)" % v
    cases = []
    for am in ams:
        atoms = "; ".join("(%d, %d, %s, %s)" % (i, z, lit_opt(am.mass.get(i)), lit_opt(am.rad.get(i))) for i, z in enumerate(am.zs))
        bonds = "; ".join("(%d, %d)" % (u, v) for u, v in am.edges)
        cases.append("mk [%s] [%s]" % (atoms, bonds))
    src = '''From Coq Require Import List NArith ZArith Ascii.
Require Import Base Mol Partition Canon Final Text Token Serialize Pipeline.
Import ListNotations.
Open Scope N_scope.
Definition mk (l : list (N * N * option Z * option Z)) (b : list (N * N)) : mol unit unit :=
  mkMol (map (fun q => match q with (lb, z, m, r) => mkAtom lb z m r 0 tt end) l) (map (fun e => (fst e, snd e, tt)) b).
Definition enc (m : mol unit unit) : list N :=
  match classes m with
  | None => [7000000]
  | Some r => map (@part unit) (atoms r) ++ [1000000] ++
              (match serialize r with None => [7000001] | Some s => map N_of_ascii s end) ++ [2000000]
  end.
Definition cases : list (mol unit unit) := [
%s ].
Eval vm_compute in flat_map enc cases.
''' % (";\n".join(cases))
    d = os.path.join(common.BUILD, "xcheck")
    os.makedirs(d, exist_ok=True)
    open(os.path.join(d, "XCases.v"), "w").write(src)
    rc, out = common.sh('timeout 900 coqc -Q %s/gen "" -Q %s/Model "" -Q %s "" %s/XCases.v 2>&1' % (common.COQ, common.COQ, d, d), timeout=1000)
    comp = run.comp("X-extraction")
    if rc != 0:
        comp["diffs"].append({"what": "coqc failed on the cross-check file", "log": out[-500:]})
        return
    nums = [int(x) for x in re.findall(r"\d+", out.split("=", 1)[1].rsplit(":", 1)[0])]
    # split per case at 2000000 (or single 7000000)
    per, cur = [], []
    for v in nums:
        if v == 2000000 or v == 7000000:
            per.append(cur + [v]); cur = []
        else:
            cur.append(v)
    for am, got in zip(ams, per):
        comp["cases"] += 1
        atoms_m = [(i, z, am.mass.get(i), am.rad.get(i), 0) for i, z in enumerate(am.zs)]
        a = model.q("classes " + enc_mol(atoms_m, list(am.edges)))
        if not a.startswith("ok "):
            exp = [7000000]
        else:
            parts = [int(x) for x in a.split()[1:]]
            ra = [(i, z, am.mass.get(i), am.rad.get(i), p) for (i, z), p in zip(enumerate(am.zs), parts)]
            sser = model.q("serialize " + enc_mol(ra, list(am.edges)))
            chars = [7000001] if not sser.startswith("ok ") else [ord(c) for c in unhx(sser[3:])]
            exp = parts + [1000000] + chars + [2000000]
        if got != exp:
            comp["diffs"].append({"what": "vm_compute and extracted driver disagree", "molecule": am.to_json(), "coq": got[:60], "driver": exp[:60]})
    if len(per) != len(ams):
        comp["diffs"].append({"what": "could not align Coq output with the cases", "cases": len(ams), "parsed": len(per)})


# ------------------------------------------------------------------ text-level functions: ref_parse, antlr_recognise, read_molfile
def _coq_string(s):
    return '"' + s.replace('"', '""') + '"'


def _printable(s):
    return all(c == "\n" or 32 <= ord(c) < 127 for c in s)


def run_xcheck_text(run, model, n_strings=150, n_files=40):
    """the same strings / molfile texts through vm_compute and through the extracted driver"""
    import misc_checks, text_checks as TC
    rng = run.sub_rng("xcheck-text")
    strings = list(misc_checks.HAND_TUCAN) + list(misc_checks.HAND_BAD)
    for am in gens.standard_stream(rng, "quick"):
        if 1 <= am.n() <= 12:
            s0 = impl.tucan_of(impl.graph_of(am))
            strings.append(s0)
            strings.append(misc_checks._mutate(s0, rng))
        if len(strings) >= n_strings:
            break
    strings = [x for x in dict.fromkeys(strings) if _printable(x) and "\n" not in x and len(x) < 300]
    texts = []
    for mm in TC.mm_stream(run.sub_rng("xcheck-mm"), n_files, v2ok=True, stars=False, nmax=8):
        texts.append(TC.render3000(mm, rng, **TC.random_knobs3(rng)))
        if TC.v2ok(mm):
            texts.append(TC.render2000(mm, rng, **TC.random_knobs2(rng)))
        for name, tx in list(TC.malformed3000(mm, rng))[:3]:
            texts.append(tx)
    texts = [x.replace("\r\n", "\n") for x in texts]
    texts = [x for x in dict.fromkeys(texts) if _printable(x) and "\r" not in x][:3 * n_files]
    src = """From Coq Require Import List NArith ZArith Ascii String.
Require Import Base Mol Text Token Parse Molfile V2000 AntlrItem AntlrExec.
Import ListNotations.
Open Scope N_scope.
Definition oz (o : option Z) : list N := match o with None => [900001] | Some v => [900002; Z.abs_N v; (if Z.ltb v 0 then 1 else 0)] end.
Definition encp (s : string) : list N :=
  (match antlr_recognise (t s) with AntlrAccept => 1 | AntlrSyntaxError => 2 | AntlrLexError => 3 end) ::
  (match ref_parse (t s) with
   | inl ELex => [11] | inl ESyntax => [12] | inl ESelfLoop => [13] | inl EBadIndex => [14] | inl EDupAttr => [15]
   | inr g => 20 :: N.of_nat (length (atoms g)) :: N.of_nat (length (bonds g)) ::
              flat_map (fun a => lbl a :: zn a :: oz (mass a) ++ oz (rad a)) (atoms g) ++ flat_map (fun b => [fst (fst b); snd (fst b)]) (bonds g)
   end) ++ [2000000].
Definition encm (s : string) : list N :=
  (match read_molfile (t s) with
   | inl EParser => [31] | inl EOther => [32]
   | inr g => 40 :: N.of_nat (length (atoms g)) :: N.of_nat (length (bonds g)) ::
              flat_map (fun a => lbl a :: zn a :: oz (mass a) ++ oz (rad a) ++ oz (p_chg (pay a))) (atoms g) ++
              flat_map (fun b => fst (fst b) :: snd (fst b) :: oz (Some (snd b))) (bonds g)
   end) ++ [2000000].
Eval vm_compute in flat_map encp [
%s ]%%string ++ [3000000] ++ flat_map encm [
%s ]%%string.
""" % (";\n".join(_coq_string(x) for x in strings), ";\n".join(_coq_string(x) for x in texts))
    d = os.path.join(common.BUILD, "xcheck")
    os.makedirs(d, exist_ok=True)
    open(os.path.join(d, "XText.v"), "w").write(src)
    rc, out = common.sh('timeout 1500 coqc -Q %s/gen "" -Q %s/Model "" -Q %s "" %s/XText.v 2>&1' % (common.COQ, common.COQ, d, d), timeout=1600)
    comp = run.comp("X-extraction")
    if rc != 0:
        comp["diffs"].append({"what": "coqc failed on the text cross-check file", "log": out[-800:]})
        return
    nums = [int(x) for x in re.findall(r"\d+", out.split("=", 1)[1].rsplit(":", 1)[0])]
    cut = nums.index(3000000)
    def split(ns):
        per, cur = [], []
        for v in ns:
            if v == 2000000:
                per.append(cur); cur = []
            else:
                cur.append(v)
        return per
    per_s, per_t = split(nums[:cut]), split(nums[cut + 1:])
    if len(per_s) != len(strings) or len(per_t) != len(texts):
        comp["diffs"].append({"what": "could not align Coq output with the text cases", "cases": [len(strings), len(texts)], "parsed": [len(per_s), len(per_t)]})
        return
    def oz(v):
        return [900001] if v is None else [900002, abs(v), 1 if v < 0 else 0]
    perr = {"lex": 11, "syntax": 12, "selfloop": 13, "badindex": 14, "dupattr": 15}
    for x, got in zip(strings, per_s):
        comp["cases"] += 1
        a = model.q("antlr " + common.hx(x)).split(" ")[0]
        exp = [{"accept": 1, "syntax": 2, "lex": 3}[a]]
        r = model.q("parse " + common.hx(x))
        if r.startswith("err "):
            exp.append(perr[r[4:]])
        else:
            atoms, bonds, _ = common.dec_mol(r.split()[1:])
            exp += [20, len(atoms), len(bonds)]
            for l, z, m, rd, _p in atoms:
                exp += [l, z] + oz(m) + oz(rd)
            for u, v in bonds:
                exp += [u, v]
        if got != exp:
            comp["diffs"].append({"what": "vm_compute and extracted driver disagree on a TUCAN string", "s": x, "coq": got[:60], "driver": exp[:60]})
    for x, got in zip(texts, per_t):
        comp["cases"] += 1
        mo = TC.model_read(model, x)
        if mo[0] == "parser":
            exp = [31]
        elif mo[0] == "other":
            exp = [32]
        elif mo[0] == "ok":
            ans = model.q("readmol " + common.hx(x))
            tk = ans.split()[1:]
            n = int(tk[0]); i = 1; exp_atoms = []
            o = lambda v: None if v == "_" else int(v)
            for _ in range(n):
                lbl, zn, mass, rad, part, sym, chg, xx, yy, zz = tk[i:i + 10]; i += 10
                exp_atoms += [int(lbl), int(zn)] + oz(o(mass)) + oz(o(rad)) + oz(o(chg))
            kb = int(tk[i]); i += 1; exp_b = []
            for _ in range(kb):
                exp_b += [int(tk[i]), int(tk[i + 1])] + oz(o(tk[i + 2])); i += 3
            exp = [40, n, kb] + exp_atoms + exp_b
        else:
            exp = ["driver error"]
        if got != exp:
            comp["diffs"].append({"what": "vm_compute and extracted driver disagree on a molfile text", "text": x[:400], "coq": got[:60], "driver": exp[:60]})
