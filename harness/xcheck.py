"""Cross-check of the extraction step: the same model functions evaluated inside Coq (vm_compute) and by the
extracted OCaml driver on the same molecules must agree.  Thorough tier only (one coqc call)."""
import os, re, subprocess
import common, gens, impl
from common import enc_mol, unhx


def run_xcheck(run, model, n_cases=120):
    rng = run.sub_rng("xcheck")
    ams = []
    stream = gens.standard_stream(rng, "quick")
    for am in stream:
        if 1 <= am.n() <= 14:
            ams.append(am)
        if len(ams) >= n_cases:
            break
    def lit_opt(v):
        return "None" if v is None else "(Some (%d)%%Z)" % v
    cases = []
    for am in ams:
        atoms = "; ".join("(%d, %d, %s, %s)" % (i, z, lit_opt(am.mass.get(i)), lit_opt(am.rad.get(i))) for i, z in enumerate(am.zs))
        bonds = "; ".join("(%d, %d)" % (u, v) for u, v in am.edges)
        cases.append("mk [%s] [%s]" % (atoms, bonds))
    src = '''From Coq Require Import List NArith ZArith Ascii.
Require Import Base Mol Partition Canon Final Text Token Serialize Pipeline.
Import ListNotations.
Open Scope N_scope.
Definition mk (l : list (N * N * option Z * option Z)) (b : list (N * N)) : mol unit unit :=
  mkMol (map (fun q => match q with (lb, z, m, r) => mkAtom lb z m r 0 tt end) l) (map (fun e => (fst e, snd e, tt)) b).
Definition enc (m : mol unit unit) : list N :=
  match classes m with
  | None => [7000000]
  | Some r => map (@part unit) (atoms r) ++ [1000000] ++
              (match serialize r with None => [7000001] | Some s => map N_of_ascii s end) ++ [2000000]
  end.
Definition cases : list (mol unit unit) := [
%s ].
Eval vm_compute in flat_map enc cases.
''' % (";\n".join(cases))
    d = os.path.join(common.BUILD, "xcheck")
    os.makedirs(d, exist_ok=True)
    open(os.path.join(d, "XCases.v"), "w").write(src)
    rc, out = common.sh('timeout 900 coqc -Q %s/gen "" -Q %s/Model "" -Q %s "" %s/XCases.v 2>&1' % (common.COQ, common.COQ, d, d), timeout=1000)
    comp = run.comp("X-extraction")
    if rc != 0:
        comp["diffs"].append({"what": "coqc failed on the cross-check file", "log": out[-500:]})
        return
    nums = [int(x) for x in re.findall(r"\d+", out.split("=", 1)[1].rsplit(":", 1)[0])]
    # split per case at 2000000 (or single 7000000)
    per, cur = [], []
    for v in nums:
        if v == 2000000 or v == 7000000:
            per.append(cur + [v]); cur = []
        else:
            cur.append(v)
    for am, got in zip(ams, per):
        comp["cases"] += 1
        atoms_m = [(i, z, am.mass.get(i), am.rad.get(i), 0) for i, z in enumerate(am.zs)]
        a = model.q("classes " + enc_mol(atoms_m, list(am.edges)))
        if not a.startswith("ok "):
            exp = [7000000]
        else:
            parts = [int(x) for x in a.split()[1:]]
            ra = [(i, z, am.mass.get(i), am.rad.get(i), p) for (i, z), p in zip(enumerate(am.zs), parts)]
            sser = model.q("serialize " + enc_mol(ra, list(am.edges)))
            chars = [7000001] if not sser.startswith("ok ") else [ord(c) for c in unhx(sser[3:])]
            exp = parts + [1000000] + chars + [2000000]
        if got != exp:
            comp["diffs"].append({"what": "vm_compute and extracted driver disagree", "molecule": am.to_json(), "coq": got[:60], "driver": exp[:60]})
    if len(per) != len(ams):
        comp["diffs"].append({"what": "could not align Coq output with the cases", "cases": len(ams), "parsed": len(per)})
