#!/bin/bash
# cross_matrix.sh: every seeded change x every check (quick tier), 16 checks in parallel per change. Writes /verif/.build/matrix.txt
cd /verif
OUT=/verif/.build/matrix.txt; : > $OUT
if ! git -C /repo diff --quiet; then echo "/repo dirty"; exit 2; fi
for d in seeded/C*-*; do
  git -C /repo apply /verif/$d/patch.diff || { echo "$d: patch failed" >> $OUT; continue; }
  mkdir -p .build/mx; rm -f .build/mx/*
  ./check --setup > /dev/null 2>&1
  for p in C01 C02 C03 C04 C05 C06 C07 C08 C09 C10 C11 C12 C13 C14 C15 C16; do
    ( timeout 1500 ./check $p --tier quick > .build/mx/$p.log 2>&1; echo "$p rc=$?" >> .build/mx/$p.log ) &
  done
  wait
  git -C /repo checkout -- .
  for p in C01 C02 C03 C04 C05 C06 C07 C08 C09 C10 C11 C12 C13 C14 C15 C16; do
    v=$(grep -E "^VIOLATION" .build/mx/$p.log | head -1 | sed 's/replay=.*replay\///')
    st=$(grep -E "^PASS|^FAIL" .build/mx/$p.log | cut -c1-4)
    echo "$(basename $d) $p ${st:-NONE} $v" >> $OUT
  done
done
echo done >> $OUT
