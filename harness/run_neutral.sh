#!/bin/bash
# run_neutral.sh <patch.diff> : run every check (quick) against a scratch copy of /repo HEAD with a behaviour-preserving patch applied,
# from a private copy of /verif (so that regenerated tables of parallel runs do not interfere). Prints the verdict lines.
set -u
patch="$1"; name=$(basename "$patch" .diff)
W=$(mktemp -d /tmp/verif-neutral-XXXXXX); S=$(mktemp -d /tmp/tucan-scratch-XXXXXX)
trap 'rm -rf "$W" "$S"' EXIT
rsync -a --exclude .git --exclude replay --exclude seeded /verif/ "$W/"
git -C /repo archive HEAD | tar -x -C "$S"
( cd "$S" && git init -q . && git apply "$patch" ) || { echo "$name: patch does not apply"; exit 2; }
cd "$W"
TUCAN_REPO="$S" timeout 7200 ./check --all 2>&1 | grep -E "VIOLATION|KNOWN-FINDING|^PASS|^FAIL" | cut -c1-260 | sed "s/^/$name: /"
/venv/bin/python - "$W" "$name" <<'PY'
import json,sys,glob,os
w,name=sys.argv[1:]
for f in sorted(glob.glob(os.path.join(w,"evidence","C*.json"))):
    d=json.load(open(f)); notes=[n for n in d["coverage"].get("notes",[]) if "budget" in n or "fallback" in n]
    fb=d["coverage"].get("generated_tables",{}).get("fallbacks")
    if notes or fb: print("%s: %s notes=%s fallbacks=%s"%(name,d["property_id"],notes[:1],fb))
PY
