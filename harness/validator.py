"""Independent validator of TUCAN strings (C05): regular expressions and counting only,
written from the text of tucan.ebnf; shares no code with the library (the element order
is read from the .ebnf file itself)."""
import os, re

_cache = {}


def _orders():
    if "o" in _cache:
        return _cache["o"]
    repo = os.environ.get("TUCAN_REPO", "/repo")
    rules = {}
    for line in open(os.path.join(repo, "tucan/parser/tucan.ebnf")):
        m = re.match(r"\s*([A-Za-z_]+)\s*::=\s*(.*)$", line)
        if m:
            rules[m.group(1)] = m.group(2).strip()
    sym = {}
    for k, v in rules.items():
        m = re.fullmatch(r'"([A-Z][a-z]?)"\s+count\?', v)
        if m:
            sym[k] = m.group(1)
    wc = [sym[x.rstrip("?")] for x in rules["with_carbon"].split()]
    nc = [sym[x.rstrip("?")] for x in rules["without_carbon"].split()]
    _cache["o"] = (wc, nc, set(sym.values()))
    return _cache["o"]


NUM = r"[1-9][0-9]*"


def validate(s, element_counts=None, n_bonds=None, labelled=None, bond_elements=None, label_elements=None, atomic_number=None):
    """Return a list of problems (empty = valid).  element_counts: {symbol: count} of the molecule;
    n_bonds: number of bonds; labelled: number of atoms carrying mass or rad.
    "Atom indices run 1..n in blocks of increasing atomic number": with atomic_number ({symbol: Z}, independent of the
    library), index i denotes the i-th atom of the formula's symbols expanded in order of increasing Z.  Read that way the
    tuples must join the same element pairs as the molecule's bonds (bond_elements: sorted list of sorted symbol pairs) and
    the attribute blocks must sit on the same elements with the same values (label_elements: sorted list of
    (symbol, mass or None, rad or None))."""
    wc, nc, symbols = _orders()
    probs = []
    parts = s.split("/")
    if len(parts) not in (2, 3):
        return ["not 2 or 3 slash-separated parts"]
    formula, tuples = parts[0], parts[1]
    attrs = parts[2] if len(parts) == 3 else None
    if attrs == "":
        probs.append("empty attribute part emitted")
    # ---- formula
    items = re.findall(r"([A-Z][a-z]?)([0-9]*)", formula)
    if "".join(a + b for a, b in items) != formula:
        probs.append("formula has characters outside symbol/count items")
    syms = [a for a, _ in items]
    for a, b in items:
        if a not in symbols:
            probs.append("unknown symbol " + a)
        if b != "" and (not re.fullmatch(NUM, b) or int(b) < 2):
            probs.append("bad count %r" % b)
    order = wc if (syms and syms[0] == "C") else nc
    try:
        idx = [order.index(x) for x in syms]
        if any(i >= j for i, j in zip(idx, idx[1:])):
            probs.append("formula not in Hill order")
    except ValueError:
        probs.append("symbol not allowed in this formula shape")
    counts = {a: (int(b) if b else 1) for a, b in items}
    if len(counts) != len(items):
        probs.append("symbol repeated")
    n = sum(counts.values())
    if element_counts is not None and counts != element_counts:
        probs.append("formula %r != element counts %r" % (counts, element_counts))
    # ---- tuples
    tl = re.findall(r"\((%s)-(%s)\)" % (NUM, NUM), tuples)
    if "".join("(%s-%s)" % t for t in tl) != tuples:
        probs.append("tuple part malformed")
    tl = [(int(a), int(b)) for a, b in tl]
    for a, b in tl:
        if not (1 <= a < b <= n):
            probs.append("tuple (%d-%d) not a<b within 1..%d" % (a, b, n))
    if any(x >= y for x, y in zip(tl, tl[1:])):
        probs.append("tuples not strictly ascending")
    if n_bonds is not None and len(tl) != n_bonds:
        probs.append("%d tuples for %d bonds" % (len(tl), n_bonds))
    # ---- attributes
    if attrs:
        bl = re.findall(r"\((%s):([a-z=0-9,]+)\)" % NUM, attrs)
        if "".join("(%s:%s)" % b for b in bl) != attrs:
            probs.append("attribute part malformed")
        idxs = [int(i) for i, _ in bl]
        if any(x >= y for x, y in zip(idxs, idxs[1:])):
            probs.append("attribute blocks not strictly ascending")
        for i, body in bl:
            if not (1 <= int(i) <= n):
                probs.append("attribute index out of range")
            props = body.split(",")
            keys = []
            for p in props:
                m = re.fullmatch(r"(mass|rad)=(%s)" % NUM, p)
                if not m:
                    probs.append("bad property %r" % p)
                else:
                    keys.append(m.group(1))
            if keys not in (["mass"], ["rad"], ["mass", "rad"]):
                probs.append("keys %r not in canonical order / repeated" % keys)
        if labelled is not None and len(bl) != labelled:
            probs.append("%d attribute blocks for %d labelled atoms" % (len(bl), labelled))
    elif labelled:
        probs.append("labelled atoms but no attribute part")
    # ---- blocks of increasing atomic number
    if atomic_number is not None and not probs and all(a in atomic_number for a in counts):
        block = [a for a in sorted(counts, key=lambda a: atomic_number[a]) for _ in range(counts[a])]
        if bond_elements is not None:
            got = sorted(tuple(sorted((block[a - 1], block[b - 1]))) for a, b in tl)
            if got != sorted(tuple(sorted(p)) for p in bond_elements):
                probs.append("indices are not in blocks of increasing atomic number: read that way the tuples join %r, the molecule's bonds join %r"
                             % (_short(got), _short(sorted(tuple(sorted(p)) for p in bond_elements))))
        if label_elements is not None:
            got = []
            if attrs:
                for i, body in re.findall(r"\((%s):([a-z=0-9,]+)\)" % NUM, attrs):
                    kv = dict(p.split("=") for p in body.split(","))
                    got.append((block[int(i) - 1], int(kv["mass"]) if "mass" in kv else None, int(kv["rad"]) if "rad" in kv else None))
            key = lambda t: (t[0], t[1] or 0, t[2] or 0)
            if sorted(got, key=key) != sorted((tuple(x) for x in label_elements), key=key):
                probs.append("indices are not in blocks of increasing atomic number: read that way the labels sit on %r, in the molecule on %r"
                             % (_short(sorted(got, key=key)), _short(sorted((tuple(x) for x in label_elements), key=key))))
    return probs


def _short(l, k=6):
    return l if len(l) <= k else l[:k] + ["... %d more" % (len(l) - k)]
