"""Molecule-level correspondences K4-K7 and the falsifiers of C01 C02 C03 C04 C05 C12 C13.

Falsifiers look at the implementation only (oracle = the property text); correspondences
compare the implementation with the extracted Coq model on the same input."""
import copy, itertools
import networkx as nx
from common import enc_mol, enc_pairs, dec_mol, unhx, hx
import impl
from impl import TRACER
from gens import AM, relist
import validator


def payload(i):
    # non-identity data that must be carried along and must not influence anything
    return {TRACER: i, "chg": (i % 3) - 1, "x_coord": float(i) * 1.5, "y_coord": -float(i), "z_coord": 0.25}


def snapshot(g):
    return (list(g.nodes), {a: copy.deepcopy(d) for a, d in g.nodes(data=True)},
            [(u, v, copy.deepcopy(d)) for u, v, d in g.edges(data=True)],
            {a: list(g.adj[a]) for a in g}, dict(g.graph))


def build(am, with_bond_types=True):
    g = impl.graph_of(am, payload)
    if with_bond_types:
        # some bonds carry a type, some carry no bond data at all (as graphs parsed from TUCAN strings do)
        mode = am.n() % 3
        for k, (u, v) in enumerate(g.edges):
            if mode == 0 or (mode == 1 and k % 2 == 0):
                # single, double, triple, aromatic, coordination (9), hydrogen bond (10), "any" (8): no bond type changes the constitution
                g.edges[u, v]["bond_type"] = (1, 2, 3, 9, 1, 4, 10, 2, 8)[(k + am.n()) % 9]
            if k % 4 == 1:
                g.edges[u, v]["cfg"] = 1 + k % 3        # bond data other than the type (stereo configuration) is carried as well
    return g


def scramble(g, rng):
    """Another description of the same labelled data as an nx.Graph: node labels renamed by a random
    injection into (possibly non-contiguous) integers, nodes inserted in an order unrelated to their
    labels, edges inserted in random order and orientation; every attribute carried."""
    nodes = list(g.nodes)
    n = len(nodes)
    pool = rng.sample(range(3 * n + 2), n) if rng.random() < .5 else rng.sample(range(n), n)
    ren = dict(zip(nodes, pool))
    order = nodes[:]
    rng.shuffle(order)
    h = nx.Graph()
    stale = rng.random() < .35
    for a in order:
        h.add_node(ren[a], **copy.deepcopy(g.nodes[a]))
        if stale:
            # class numbers left over from an earlier partitioning of other data (a canonical graph that was edited
            # or assembled from canonical pieces): the pipeline starts from the invariant codes, not from these
            h.nodes[ren[a]]["partition"] = rng.randrange(3)
    edges = list(g.edges(data=True))
    rng.shuffle(edges)
    for u, v, d in edges:
        if rng.random() < .5:
            u, v = v, u
        h.add_edge(ren[u], ren[v], **copy.deepcopy(d))
    return h


def classes_by_orig(c):
    return {d[TRACER]: d["partition"] for _, d in c.nodes(data=True)}


def am_json(am):
    return am.to_json()


def check_one(run, model, am, opts, nrel, rng, groups=None):
    """Run every requested observation on one abstract molecule. Returns dict of facts."""
    n = am.n()
    g = build(am)
    facts = {}
    if rng.random() < 0.4:
        # the same data as a graph whose labels are sparse / unrelated to the listing order (what
        # nx.relabel_nodes, a subgraph copy or a second canonicalization hand to the library)
        g = scramble(g, rng)
        facts["scrambled_base"] = True
        run.count("base:scrambled")
    if rng.random() < 0.15:
        # a frozen graph (nx.freeze) is a molecule graph like any other: structure read-only, attribute dictionaries shared
        g = nx.freeze(g)
        run.count("base:frozen")
    before = snapshot(g)
    lab_of = {d[TRACER]: a for a, d in g.nodes(data=True)}     # tracer (position in am) -> label in g
    tr_of = {a: d[TRACER] for a, d in g.nodes(data=True)}
    c = impl.canonicalize_molecule(g)
    if any(TRACER not in d for _, d in c.nodes(data=True)) or c.number_of_nodes() != n:
        run.falsifier_hits.append({"property": "C12", "what": "canonical graph has other atoms than the input (atoms lost, added or without attributes)",
                                   "molecule": am_json(am), "extra": {"labels_in": sorted(g.nodes), "labels_out": sorted(c.nodes)}})
        run.evaluations += 1
        return facts
    P = classes_by_orig(c)
    lam = {d[TRACER]: a for a, d in c.nodes(data=True)}
    run.evaluations += 1

    def hit(prop, what, extra=None):
        run.falsifier_hits.append({"property": prop, "what": what, "molecule": am_json(am), "extra": extra})

    def diff(comp, what, extra=None):
        run.comp(comp)["diffs"].append({"what": what, "molecule": am_json(am), "extra": extra})

    atoms_m, bonds_m = impl.to_model(g)

    # ---------------- K4: classes
    if "K4" in opts:
        run.comp("K4")["cases"] += 1
        ans = model.q("classes " + enc_mol(atoms_m, bonds_m))
        exp = "ok " + " ".join(str(P[tr_of[a]]) for a, *_ in atoms_m)
        if ans != exp:
            diff("K4", "partition classes differ", {"model": ans, "impl": exp})
        facts["rounds"] = model.q("rounds " + enc_mol(atoms_m, bonds_m))

    # ---------------- K5 / H1 / C12: renaming, nothing lost, input untouched
    if "K5" in opts or "C12" in opts:
        tgt = "C12"
        if sorted(lam.values()) != list(range(n)) or sorted(lam.keys()) != list(range(n)):
            hit(tgt, "canonical labels are not a bijection onto 0..n-1 (H1)", {"lam": lam})
        if snapshot(g) != before:
            hit(tgt, "canonicalize_molecule changed its argument")
        for a, d in c.nodes(data=True):
            o = d[TRACER]
            exp = dict(before[1][lab_of[o]]); got = dict(d)
            got.pop("partition", None); exp.pop("partition", None)
            # "every atom keeps all of its attributes": what the input atom carried is still there, unchanged
            # (attributes that canonicalization may add to its result are not the property's business)
            got = {k: v for k, v in got.items() if k in exp}
            if got != exp:
                hit(tgt, "attributes of an atom changed under canonicalization", {"orig": o, "got": str(got), "exp": str(exp)})
        # the whole bond data dictionary must be carried: an absent bond type stays absent
        eb = sorted((tuple(sorted((lam[tr_of[u]], lam[tr_of[v]]))), sorted(d.items())) for u, v, d in before[2])
        keys_of = {tuple(sorted((lam[tr_of[u]], lam[tr_of[v]]))): set(d) for u, v, d in before[2]}
        # what a bond carried is still there, and its bond type is what it was (an untyped bond stays untyped)
        ec = sorted((tuple(sorted((u, v))), sorted((k, x) for k, x in d.items() if k == "bond_type" or k in keys_of.get(tuple(sorted((u, v))), d)))
                    for u, v, d in c.edges(data=True))
        if eb != ec:
            hit(tgt, "bonds / bond data changed under canonicalization", {"exp": eb, "got": ec})
        if [lab_of[d[TRACER]] for _, d in c.nodes(data=True)] != before[0]:
            run.notes.append("node order of canonical graph differs from input order (allowed)")
        c2 = impl.canonicalize_molecule(g)
        if snapshot(c2)[:3] != snapshot(c)[:3]:
            hit(tgt, "second canonicalize call on the same object gives another result")
    if "K5" in opts:
        run.comp("K5")["cases"] += 1
        lam_lbl = sorted((lab_of[t_], cl) for t_, cl in lam.items())
        ans = model.q("canon " + enc_pairs(lam_lbl) + " " + enc_mol(atoms_m, bonds_m))
        ca, cb = impl.to_model(c)
        if ans.startswith("ok "):
            ma, mb, _ = dec_mol(ans.split()[1:])
            if sorted(ma) != sorted(ca) or sorted(tuple(sorted(e)) for e in mb) != sorted(tuple(sorted(e)) for e in cb):
                diff("K5", "canonical graph differs (given the implementation's labelling)", {"model": ans[:300]})
        else:
            diff("K5", "model failed", {"model": ans})

    # ---------------- K7 + C12 (serialize touches only scratch)
    s = None
    if opts & {"K7", "C01", "C02", "C03", "C05", "C12", "C11"}:
        csnap = snapshot(c)
        s = impl.serialize_molecule(c)
        facts["tucan"] = s
        if "C12" in opts:
            after = snapshot(c)
            # everything the graph carried before the call is still there with the same value; scratch attributes that the
            # serializer adds for its traversal are not chemically meaningful (repeatability is tested directly below)
            keep = lambda sn, ref: (sn[0], {a: {k: v for k, v in d.items() if k in ref[1].get(a, {})} for a, d in sn[1].items()}, sn[2], sn[3])
            if keep(after, csnap) != keep(csnap, csnap):
                hit("C12", "serialize_molecule altered an attribute of its argument")
            if any(d.get("explored") for _, d in c.nodes(data=True)):
                run.notes.append("serialize_molecule leaves its scratch flag set (allowed as long as repeated calls agree)")
            if impl.serialize_molecule(c) != s:
                hit("C12", "second serialize call on the same object gives another string")
        if "K7" in opts:
            run.comp("K7")["cases"] += 1
            ca, cb = impl.to_model(c)
            ans = model.q("serialize " + enc_mol(ca, cb))
            if ans != "ok " + hx(s):
                diff("K7", "serialization differs on the implementation's canonical graph",
                     {"model": unhx(ans[3:]) if ans.startswith("ok ") else ans, "impl": s})
                if groups is not None:
                    # difference-guided search: the molecule that the implementation's own parser reads from the emitted
                    # string joins the run's molecules (C02: if it gets the same string, it must be the same molecule)
                    try:
                        g_other = impl.graph_from_tucan(s)
                        s_other = impl.tucan_of(g_other)
                        other = am_of_graph(g_other)
                        other.family = "denoted-by-emitted-string"
                        groups.setdefault(s_other, []).append(other)
                        run.count("diff_guided_molecules")
                    except Exception:
                        pass
            ans2 = model.q("tucan " + enc_pairs(sorted((lab_of[t_], cl) for t_, cl in lam.items())) + " " + enc_mol(atoms_m, bonds_m))
            if ans2 != "ok " + hx(s):
                diff("K7", "model pipeline (classes, relabel by the implementation's labelling, serialize) differs",
                     {"model": unhx(ans2[3:]) if ans2.startswith("ok ") else ans2, "impl": s})

    # ---------------- C13 (equitable, automorphisms) on the implementation
    if "C13" in opts:
        cls_nb = {}
        for a, d in c.nodes(data=True):
            # element, isotope mass and radical state as the atom carries them (not the library's own invariant_code attribute)
            sig = ((d["atomic_number"], d.get("mass", 0), d.get("rad", 0)), tuple(sorted(c.nodes[b]["partition"] for b in c.neighbors(a))))
            if cls_nb.setdefault(d["partition"], sig) != sig:
                hit("C13", "partition is not equitable: one class, two (invariant, neighbour-class multiset) signatures",
                    {"class": d["partition"], "a": str(cls_nb[d["partition"]]), "b": str(sig)})
        if n <= 7:
            for p in impl.automorphisms(am):
                if any(P[i] != P[p[i]] for i in range(n)):
                    hit("C13", "automorphism maps an atom to another class", {"aut": list(p)})
                    break
            facts["auts"] = len(impl.automorphisms(am))
        vals = sorted(set(P.values()))
        if vals != list(range(len(vals))):
            run.notes.append("class values not contiguous")

    # ---------------- relistings: C01 C04 C13(label independence) K6
    if nrel and opts & {"C01", "C04", "C13", "K6"}:
        vc = impl.view(c)
        for k in range(nrel):
            am2, p = relist(am, rng)
            g2 = build(am2)
            if k % 2 == 1:
                # labels unrelated to the listing position (e.g. the result of nx.relabel_nodes)
                g2 = scramble(g2, rng)
            c2 = impl.canonicalize_molecule(g2)
            run.evaluations += 1
            if "K4" in opts and k % 2 == 1:
                # the model on a description whose labels are unrelated to the listing order
                a2, b2 = impl.to_model(g2)
                run.comp("K4")["cases"] += 1
                P2m = classes_by_orig(c2)
                ans = model.q("classes " + enc_mol(a2, b2))
                exp = "ok " + " ".join(str(P2m[g2.nodes[a][TRACER]]) for a, *_ in a2)
                if ans != exp:
                    diff("K4", "partition classes differ (labels unrelated to listing order)", {"model": ans, "impl": exp, "relisted": am_json(am2)})
            if "K6" in opts:
                run.comp("K6")["cases"] += 1
            if opts & {"C04", "K6"}:
                if impl.view(c2) != vc:
                    if "C04" in opts:
                        hit("C04", "canonical labelled graphs differ for two descriptions", {"perm": p, "relisted": am_json(am2)})
                    if "K6" in opts:
                        diff("K6", "bliss contract H2: canonical forms differ for colour-isomorphic inputs", {"perm": p})
            if "C13" in opts:
                P2 = classes_by_orig(c2)
                if any(P2[p[i]] != P[i] for i in range(n)):
                    hit("C13", "class of an atom depends on numbering/order", {"perm": p, "relisted": am_json(am2)})
            if "C01" in opts:
                s2 = impl.serialize_molecule(c2)
                if s2 != s:
                    hit("C01", "TUCAN strings differ for two descriptions of one molecule",
                        {"perm": p, "relisted": am_json(am2), "a": s, "b": s2})

    # ---------------- C03
    if "C03" in opts:
        try:
            g3 = impl.graph_from_tucan(s)
            if g3.number_of_nodes() != n or g3.number_of_edges() != len(set(tuple(sorted(e)) for e in am.edges)):
                hit("C03", "parsed graph has other atom/bond counts", {"tucan": s})
            elif not (impl.brute_isomorphic(am, am_of_graph(g3)) if n <= 6 else impl.isomorphic(g, g3)):
                hit("C03", "parsed graph is not isomorphic to the molecule", {"tucan": s})
            else:
                s3 = impl.tucan_of(g3)
                if s3 != s:
                    hit("C03", "string is not a fixed point of parse/canonicalize/serialize", {"tucan": s, "again": s3})
        except Exception as e:
            hit("C03", "parsing the emitted string failed: %s" % type(e).__name__, {"tucan": s, "err": str(e)[:200]})

    # ---------------- C05
    if "C05" in opts:
        counts = {}
        for z in am.zs:
            counts[impl.SYM[z]] = counts.get(impl.SYM[z], 0) + 1
        simple_edges = set(tuple(sorted(e)) for e in am.edges)
        probs = validator.validate(s, counts, len(simple_edges), len(set(am.mass) | set(am.rad)),
                                   bond_elements=[(impl.SYM[am.zs[u]], impl.SYM[am.zs[v]]) for u, v in simple_edges],
                                   label_elements=[(impl.SYM[am.zs[i]], am.mass.get(i), am.rad.get(i)) for i in sorted(set(am.mass) | set(am.rad))],
                                   atomic_number=impl.ZOF)
        if probs:
            hit("C05", "emitted string violates grammar/layout: " + "; ".join(probs[:3]), {"tucan": s})

    if groups is not None and s is not None and not am.family.startswith("cfi"):
        groups.setdefault(s, []).append(am)
    return facts


def am_of_graph(g):
    nodes = sorted(g.nodes)
    pos = {a: i for i, a in enumerate(nodes)}
    return AM([g.nodes[a]["atomic_number"] for a in nodes], [(pos[u], pos[v]) for u, v in g.edges],
              {pos[a]: g.nodes[a]["mass"] for a in nodes if "mass" in g.nodes[a]},
              {pos[a]: g.nodes[a]["rad"] for a in nodes if "rad" in g.nodes[a]})


def cheap_invariant(am):
    deg = [0] * am.n()
    for u, v in am.edges:
        deg[u] += 1; deg[v] += 1
    return tuple(sorted((am.zs[i], am.mass.get(i, 0), am.rad.get(i, 0), deg[i]) for i in range(am.n())))


def check_completeness(run, groups, exhaustive_label=None):
    """C02 (and C01 the other way): strings <-> isomorphism classes over everything this run saw."""
    def iso(a, b):
        if a.n() <= 6:
            return impl.brute_isomorphic(a, b)
        return impl.isomorphic(impl.graph_of(a), impl.graph_of(b))
    # same string => isomorphic
    for s, ams in groups.items():
        for other in ams[1:]:
            run.evaluations += 1
            if not iso(ams[0], other):
                run.falsifier_hits.append({"property": "C02", "what": "two non-isomorphic molecules share one TUCAN string",
                                           "molecule": ams[0].to_json(), "extra": {"other": other.to_json(), "tucan": s}})
    # different strings => non-isomorphic (bucketed by a cheap invariant)
    buckets = {}
    for s, ams in groups.items():
        buckets.setdefault(cheap_invariant(ams[0]), []).append((s, ams[0]))
    pairs = 0
    for b in buckets.values():
        for (s1, a1), (s2, a2) in itertools.combinations(b, 2):
            pairs += 1
            run.evaluations += 1
            if iso(a1, a2):
                run.falsifier_hits.append({"property": "C01", "what": "isomorphic molecules got different TUCAN strings",
                                           "molecule": a1.to_json(), "extra": {"other": a2.to_json(), "a": s1, "b": s2}})
    run.count("near_miss_pairs_compared", pairs)
    return pairs
