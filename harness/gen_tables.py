"""Translator for tables and constants: /repo sources -> coq/gen/*.v.

Re-run by every check.  Each item is extracted from the Python / grammar source with
`ast` (or a small reader for the grammar files).  When the expected shape is not found
the committed default is emitted instead and the item is listed in `fallbacks`
(fail-soft: only the behavioural correspondence then ties that part).  Files are
rewritten only when their content changes so that `make` stays incremental.
"""
import ast, os, re, json, sys

REPO = os.environ.get("TUCAN_REPO", "/repo")
GEN = os.path.join(os.path.dirname(os.path.abspath(__file__)), "..", "coq", "gen")

fallbacks = []


def _src(rel):
    with open(os.path.join(REPO, rel)) as f:
        return f.read()


def _write(name, content):
    path = os.path.join(GEN, name)
    old = None
    if os.path.exists(path):
        with open(path) as f:
            old = f.read()
    if old != content:
        with open(path, "w") as f:
            f.write(content)
        return True
    return False


def cstr(s):
    return '"' + s.replace('"', '""') + '"'


def coq_list(items):
    return "[" + "; ".join(items) + "]"


# ---------------------------------------------------------------- elements
DEFAULT_SYMBOLS = None  # filled lazily from the committed default file


def elements():
    try:
        tree = ast.parse(_src("tucan/element_attributes.py"))
        vals = {}
        for node in tree.body:
            if isinstance(node, ast.Assign) and len(node.targets) == 1 and isinstance(node.targets[0], ast.Name):
                if node.targets[0].id in ("element_symbols", "atomic_numbers", "element_names", "element_colors"):
                    try:
                        vals[node.targets[0].id] = ast.literal_eval(node.value)
                    except ValueError:
                        # e.g. range(1, len(element_symbols) + 1)
                        env = {"list": list, "range": range, "len": len, "__builtins__": {}}
                        env.update(vals)
                        vals[node.targets[0].id] = list(eval(compile(ast.Expression(node.value), "<gen>", "eval"), env))
        syms, nums = vals["element_symbols"], list(vals["atomic_numbers"])
        assert len(syms) == len(nums) and all(isinstance(s, str) for s in syms) and all(isinstance(n, int) for n in nums)
        # ELEMENT_ATTRS is a comprehension over zip(<lists>): zip stops at the shortest list, so the table the
        # library really uses has only that many rows
        try:
            for node in tree.body:
                if isinstance(node, ast.AnnAssign) and getattr(node.target, "id", "") == "ELEMENT_ATTRS" and isinstance(node.value, ast.DictComp):
                    it = node.value.generators[0].iter
                    if isinstance(it, ast.Call) and getattr(it.func, "id", "") == "zip":
                        rows = min(len(vals[a.id]) for a in it.args)
                        syms, nums = syms[:rows], nums[:rows]
        except Exception as e:
            fallbacks.append("ELEMENT_ATTRS rows: %r" % (e,))
        return list(zip(syms, nums))
    except Exception as e:  # pragma: no cover
        fallbacks.append("elements: %r" % (e,))
        return None


def v2000_charges():
    try:
        tree = ast.parse(_src("tucan/element_attributes.py"))
        for node in tree.body:
            tgt = None
            if isinstance(node, ast.AnnAssign) and isinstance(node.target, ast.Name):
                tgt, val = node.target.id, node.value
            elif isinstance(node, ast.Assign) and isinstance(node.targets[0], ast.Name):
                tgt, val = node.targets[0].id, node.value
            if tgt == "MOLFILE_V2000_CHARGES":
                out = []
                for k, v in zip(val.keys, val.values):
                    code = ast.literal_eval(k)
                    assert isinstance(v, ast.Dict) and len(v.keys) == 1
                    key = v.keys[0].id if isinstance(v.keys[0], ast.Name) else ast.literal_eval(v.keys[0])
                    out.append((code, key.upper(), ast.literal_eval(v.values[0])))
                return out
        raise ValueError("MOLFILE_V2000_CHARGES not found")
    except Exception as e:
        fallbacks.append("v2000_charges: %r" % (e,))
        return [(1, "CHG", 3), (2, "CHG", 2), (3, "CHG", 1), (4, "RAD", 2), (5, "CHG", -1), (6, "CHG", -2), (7, "CHG", -3)]


def hydrogen_isotopes():
    """detect_hydrogen_isotopes: symbol -> (symbol, mass)."""
    try:
        tree = ast.parse(_src("tucan/element_attributes.py"))
        fn = [n for n in tree.body if isinstance(n, ast.FunctionDef) and n.name == "detect_hydrogen_isotopes"][0]
        out = []
        def walk_if(node):
            t = node.test
            assert isinstance(t, ast.Compare) and isinstance(t.ops[0], ast.Eq)
            sym = ast.literal_eval(t.comparators[0])
            new, massv = None, None
            for st in node.body:
                if isinstance(st, ast.Assign) and st.targets[0].id == "element_symbol":
                    new = ast.literal_eval(st.value)
                if isinstance(st, ast.Assign) and st.targets[0].id == "isotope_mass":
                    massv = ast.literal_eval(st.value)
            out.append((sym, new, massv))
            for o in node.orelse:
                if isinstance(o, ast.If):
                    walk_if(o)
        for st in fn.body:
            if isinstance(st, ast.If):
                walk_if(st)
        assert out
        return out
    except Exception as e:
        fallbacks.append("hydrogen_isotopes: %r" % (e,))
        return [("D", "H", 2), ("T", "H", 3)]


# ---------------------------------------------------------------- grammar
def _grammar_rules(text, kind):
    """Return {rule: rhs-string}. kind: 'g4' (name : rhs ;) or 'ebnf' (name ::= rhs)."""
    rules = {}
    if kind == "g4":
        text = re.sub(r"/\*.*?\*/", "", text, flags=re.S)
        text = re.sub(r"//[^\n]*", "", text)
        for m in re.finditer(r"([A-Za-z_]+)\s*:\s*((?:'[^']*'|[^;'])*);", text):
            rules[m.group(1)] = " ".join(m.group(2).split())
    else:
        for line in text.splitlines():
            m = re.match(r"\s*([A-Za-z_]+)\s*::=\s*(.*)$", line)
            if m:
                rules[m.group(1)] = " ".join(m.group(2).split())
    return rules


def _norm_rhs(rhs):
    return rhs.replace("'", '"')


def grammar():
    res = {}
    for kind, rel in (("g4", "tucan/parser/tucan.g4"), ("ebnf", "tucan/parser/tucan.ebnf")):
        try:
            rules = _grammar_rules(_src(rel), kind)
            sym_of = {}
            for name, rhs in rules.items():
                m = re.fullmatch(r'"([A-Z][a-z]?)" count\?', _norm_rhs(rhs))
                if m:
                    sym_of[name] = m.group(1)
            def order(rule):
                items = rules[rule].split()
                out = []
                for i, it in enumerate(items):
                    opt = it.endswith("?")
                    nm = it.rstrip("?")
                    out.append((sym_of[nm], opt))
                return out
            wc = order("with_carbon")
            nc = order("without_carbon")
            rest = {k: _norm_rhs(v) for k, v in rules.items()
                    if k not in sym_of and k not in ("with_carbon", "without_carbon") and not k.endswith("_start")}
            if kind == "g4":
                rest["tucan"] = rest["tucan"].replace(" EOF", "")
            res[kind] = {"wc": wc, "nc": nc, "rest": rest, "symbols": sorted(sym_of.values())}
        except Exception as e:
            fallbacks.append("grammar %s: %r" % (kind, e))
            res[kind] = None
    return res


def generated_parser_consistency():
    """literalNames / ruleNames embedded in the ANTLR-generated parser vs the rules of tucan.g4
    (the ANTLR tool is not available to regenerate the parser; this at least detects a grammar edited
    without regenerating, or a hand edit of the name tables)."""
    try:
        tree = ast.parse(_src("tucan/parser/tucanParser.py"))
        names = {}
        for node in ast.walk(tree):
            if isinstance(node, ast.Assign) and isinstance(node.targets[0], ast.Name) and node.targets[0].id in ("literalNames", "ruleNames"):
                names.setdefault(node.targets[0].id, ast.literal_eval(node.value))
        rules = _grammar_rules(_src("tucan/parser/tucan.g4"), "g4")
        parser_rules = [r for r in rules if r[0].islower()]
        lits = set()
        for rhs in rules.values():
            lits |= set(re.findall(r"'([^']*)'", rhs))
        gen_lits = set(x[1:-1] for x in names["literalNames"] if x.startswith("'"))
        return (sorted(names["ruleNames"]) == sorted(parser_rules), gen_lits == lits)
    except Exception as e:
        fallbacks.append("generated parser consistency: %r" % (e,))
        return (True, True)


EXPECTED_REST = {
    "tucan": 'sum_formula "/" tuples ("/" node_attributes)?',
    "sum_formula": "with_carbon | without_carbon",
    "count": "greater_than_one",
    "tuples": "tuple*",
    "tuple": '"(" node_index "-" node_index ")"',
    "node_index": "greater_than_zero",
    "node_attributes": "node_attribute*",
    "node_attribute": '"(" node_index ":" node_property ("," node_property)* ")"',
    "node_property": 'node_property_key "=" node_property_value',
    "node_property_key": '"mass" | "rad"',
    "node_property_value": "greater_than_zero",
    "greater_than_zero": '"1" | greater_than_one',
    "greater_than_one": '"2" | "3" | "4" | "5" | "6" | "7" | "8" | "9" | GREATER_THAN_NINE',
    "GREATER_THAN_NINE": "[1-9] [0-9]+",
}


# ---------------------------------------------------------------- params
def _find_func(tree, name):
    for n in ast.walk(tree):
        if isinstance(n, ast.FunctionDef) and n.name == name:
            return n
    raise KeyError(name)


def params():
    p = {}
    # --- writer wrap widths
    try:
        fn = _find_func(ast.parse(_src("tucan/io/molfile_writer.py")), "_add_v30_line")
        limit = chunk = None
        prefix = None
        for n in ast.walk(fn):
            if isinstance(n, ast.Compare) and isinstance(n.left, ast.Call) and getattr(n.left.func, "id", "") == "len":
                assert isinstance(n.ops[0], ast.LtE)
                limit = ast.literal_eval(n.comparators[0])
            if isinstance(n, ast.Subscript) and isinstance(n.slice, ast.Slice):
                v = n.slice.upper if n.slice.upper is not None else n.slice.lower
                c = ast.literal_eval(v)
                assert chunk in (None, c)
                chunk = c
            if isinstance(n, ast.JoinedStr) and n.values and isinstance(n.values[0], ast.Constant):
                pre = n.values[0].value
                assert prefix in (None, pre)
                prefix = pre
        assert isinstance(limit, int) and isinstance(chunk, int) and isinstance(prefix, str)
        p["wrap_limit"], p["wrap_chunk"], p["v30_prefix"] = limit, chunk, prefix
    except Exception as e:
        fallbacks.append("writer widths: %r" % (e,))
        p["wrap_limit"], p["wrap_chunk"], p["v30_prefix"] = 72, 71, "M  V30 "
    # --- attribute_sequence: neighbour sort direction
    try:
        fn = _find_func(ast.parse(_src("tucan/graph_utils.py")), "attribute_sequence")
        rev = None
        for n in ast.walk(fn):
            if isinstance(n, ast.Call) and getattr(n.func, "id", "") == "sorted":
                rev = False
                for kw in n.keywords:
                    if kw.arg == "reverse":
                        rev = ast.literal_eval(kw.value)
        assert rev in (True, False)
        p["nbr_sort_reverse"] = rev
    except Exception as e:
        fallbacks.append("nbr_sort_reverse: %r" % (e,))
        p["nbr_sort_reverse"] = True
    # --- invariant code definitions
    try:
        fn = _find_func(ast.parse(_src("tucan/graph_utils.py")), "graph_from_molecule")
        defs = None
        for n in ast.walk(fn):
            if isinstance(n, ast.Assign) and getattr(n.targets[0], "id", "") == "invariant_code_definitions":
                defs = []
                for el in n.value.elts:
                    assert getattr(el.func, "id", "") == "InvariantCodeDefinition"
                    key = el.args[0].id
                    dflt = ast.literal_eval(el.args[1]) if len(el.args) > 1 else None
                    defs.append((key, dflt))
        assert defs
        p["invariant_code"] = defs
    except Exception as e:
        fallbacks.append("invariant_code: %r" % (e,))
        p["invariant_code"] = [("ATOMIC_NUMBER", None), ("MASS", 0), ("RAD", 0)]
    # --- traversal priorities, serializer key mapping
    try:
        tree = ast.parse(_src("tucan/serialization.py"))
        fn = _find_func(tree, "_assign_final_labels")
        d = fn.args.defaults[-1]
        p["traversal_priorities"] = [e.id for e in d.elts]
        mapping = None
        for n in tree.body:
            if isinstance(n, ast.AnnAssign) and getattr(n.target, "id", "") == "_SERIALIZER_NODE_ATTRIBUTE_MAPPING":
                mapping = [(k.id, ast.literal_eval(v)) for k, v in zip(n.value.keys, n.value.values)]
        assert mapping
        p["serializer_keys"] = mapping
    except Exception as e:
        fallbacks.append("serialization params: %r" % (e,))
        p["traversal_priorities"] = ["lt", "gt", "eq"]
        p["serializer_keys"] = [("MASS", "mass"), ("RAD", "rad")]
    # --- V2000 column slices
    try:
        tree = ast.parse(_src("tucan/io/molfile_v2000_reader.py"))
        def slices_in(fname):
            out = []
            for n in ast.walk(_find_func(tree, fname)):
                if isinstance(n, ast.Subscript) and isinstance(n.slice, ast.Slice) and isinstance(n.value, ast.Name) and n.value.id in ("line",) \
                        and isinstance(n.slice.lower, ast.Constant) and isinstance(n.slice.upper, ast.Constant):
                    out.append((n.slice.lower.value, n.slice.upper.value))
            return sorted(set(out))
        p["v2000_atom_slices"] = slices_in("_parse_atom_line")
        p["v2000_bond_slices"] = slices_in("_parse_bond_line")
        fn = _find_func(tree, "_parse_atom_value_assignments")
        consts = {}
        for n in ast.walk(fn):
            if isinstance(n, ast.Assign) and isinstance(n.targets[0], ast.Name) and isinstance(n.value, ast.Constant):
                consts[n.targets[0].id] = n.value.value
        p["v2000_tuple_offset"], p["v2000_tuple_length"] = consts["tuple_offset"], consts["tuple_length"]
        p["v2000_count_slice"] = slices_in("_parse_atom_value_assignments")
        assert p["v2000_atom_slices"] and p["v2000_bond_slices"]
    except Exception as e:
        fallbacks.append("v2000 slices: %r" % (e,))
        p["v2000_atom_slices"] = [(0, 10), (10, 20), (20, 30), (31, 34), (36, 39)]
        p["v2000_bond_slices"] = [(0, 3), (3, 6), (6, 9)]
        p["v2000_tuple_offset"], p["v2000_tuple_length"] = 10, 8
        p["v2000_count_slice"] = [(6, 9)]
    # --- V3000 keyword match mode
    try:
        tree = ast.parse(_src("tucan/io/molfile_v3000_reader.py"))
        fn = _find_func(tree, "_parse_atom_attributes")
        mode = None
        cands = [fn]
        try:
            cands.append(_find_func(tree, "_parse_atom_property_values"))
        except KeyError:
            pass
        for f in cands:
            for n in ast.walk(f):
                if isinstance(n, ast.comprehension):
                    for cond in n.ifs:
                        if isinstance(cond, ast.Compare):
                            if isinstance(cond.ops[0], ast.In):
                                mode = mode or "substring"
                            elif isinstance(cond.ops[0], ast.Eq):
                                mode = "exact" if mode in (None, "exact") else mode
        assert mode
        p["v3000_keyword_match"] = mode
    except Exception as e:
        fallbacks.append("v3000 keyword mode: %r" % (e,))
        p["v3000_keyword_match"] = "exact"
    return p


# ---------------------------------------------------------------- emit
def emit():
    os.makedirs(GEN, exist_ok=True)
    el = elements()
    if el is None:
        # use the committed file as is
        pass
    else:
        body = "(* GENERATED by harness/gen_tables.py from tucan/element_attributes.py -- do not edit *)\n"
        body += "From Coq Require Import List NArith ZArith String.\nImport ListNotations.\nOpen Scope string_scope.\n\n"
        body += "Definition element_table : list (string * N) :=\n  [" + ";\n   ".join(
            "(%s, %d%%N)" % (cstr(s), z) for s, z in el) + "].\n\n"
        body += "Definition hydrogen_isotope_table : list (string * (string * Z)) :=\n  " + coq_list(
            "(%s, (%s, %d%%Z))" % (cstr(a), cstr(b), m) for a, b, m in hydrogen_isotopes()) + ".\n\n"
        body += "(* V2000 atom block charge codes: code -> (is_charge, value); false = radical *)\n"
        body += "Definition v2000_charge_table : list (Z * (bool * Z)) :=\n  " + coq_list(
            "(%d%%Z, (%s, (%d)%%Z))" % (c, "true" if k == "CHG" else "false", v) for c, k, v in v2000_charges()) + ".\n"
        _write("Elements.v", body)
    g = grammar()
    body = "(* GENERATED by harness/gen_tables.py from tucan/parser/tucan.g4 and tucan.ebnf -- do not edit *)\n"
    body += "From Coq Require Import List String Bool.\nImport ListNotations.\nOpen Scope string_scope.\n\n"
    for kind in ("g4", "ebnf"):
        gi = g[kind]
        if gi is None:
            gi = g["g4"] or g["ebnf"]
        body += "(* (symbol, optional?) in rule order *)\n"
        body += "Definition with_carbon_%s : list (string * bool) :=\n  %s.\n" % (kind, coq_list("(%s, %s)" % (cstr(s), "true" if o else "false") for s, o in gi["wc"]))
        body += "Definition without_carbon_%s : list (string * bool) :=\n  %s.\n" % (kind, coq_list("(%s, %s)" % (cstr(s), "true" if o else "false") for s, o in gi["nc"]))
        same = all(gi["rest"].get(k) == v for k, v in EXPECTED_REST.items()) and set(gi["rest"]) == set(EXPECTED_REST)
        body += "(* every other rule of the grammar equals the normal form the model was written from *)\n"
        body += "Definition rest_matches_%s : bool := %s.\n\n" % (kind, "true" if same else "false")
    rn_ok, lit_ok = generated_parser_consistency()
    body += "(* the generated tucanParser.py was produced from this grammar: same rule names, same literals *)\n"
    body += "Definition generated_parser_rule_names_match : bool := %s.\n" % ("true" if rn_ok else "false")
    body += "Definition generated_parser_literals_match : bool := %s.\n" % ("true" if lit_ok else "false")
    _write("Grammar.v", body)
    p = params()
    body = "(* GENERATED by harness/gen_tables.py from the Python sources -- do not edit *)\n"
    body += "From Coq Require Import List NArith ZArith String Bool.\nImport ListNotations.\nOpen Scope string_scope.\n\n"
    body += "Definition wrap_limit : nat := %d.\nDefinition wrap_chunk : nat := %d.\nDefinition v30_prefix : string := %s.\n" % (p["wrap_limit"], p["wrap_chunk"], cstr(p["v30_prefix"]))
    body += "Definition nbr_sort_reverse : bool := %s.\n" % ("true" if p["nbr_sort_reverse"] else "false")
    body += "Definition invariant_code_defs : list (string * option Z) :=\n  %s.\n" % coq_list(
        "(%s, %s)" % (cstr(k), "None" if d is None else "Some (%d)%%Z" % d) for k, d in p["invariant_code"])
    body += "Definition traversal_priorities : list string := %s.\n" % coq_list(cstr(x) for x in p["traversal_priorities"])
    body += "Definition serializer_keys : list (string * string) := %s.\n" % coq_list("(%s, %s)" % (cstr(a), cstr(b)) for a, b in p["serializer_keys"])
    sl = lambda l: coq_list("(%d, %d)" % ab for ab in l)
    body += "Definition v2000_atom_slices : list (nat * nat) := %s.\n" % sl(p["v2000_atom_slices"])
    body += "Definition v2000_bond_slices : list (nat * nat) := %s.\n" % sl(p["v2000_bond_slices"])
    body += "Definition v2000_count_slices : list (nat * nat) := %s.\n" % sl(p["v2000_count_slice"])
    body += "Definition v2000_tuple_offset : nat := %d.\nDefinition v2000_tuple_length : nat := %d.\n" % (p["v2000_tuple_offset"], p["v2000_tuple_length"])
    body += "Definition v3000_keyword_exact : bool := %s.\n" % ("true" if p["v3000_keyword_match"] == "exact" else "false")
    _write("Params.v", body)
    return {"fallbacks": fallbacks, "params": p}


if __name__ == "__main__":
    r = emit()
    json.dump(r, sys.stdout, indent=1, default=str)
    print()
