#!/venv/bin/python
"""Entry point: ./check CXX [--tier quick|thorough] [--replay file] | --setup | --all"""
import argparse, json, os, sys, time, traceback

sys.path.insert(0, os.path.dirname(os.path.abspath(__file__)))
import common
from common import Run, Model, VERIF, EVIDENCE, REPLAY, TRUSTED_BASE


def load_props():
    out = {}
    for line in open(os.path.join(VERIF, "properties.jsonl")):
        d = json.loads(line)
        out[d["id"]] = d
    return out


def finalize(run, spec, obligations, discharged, props_log, build):
    """Verdict protocol (DESIGN 2.2): falsifier hit -> VIOLATION with replay; broken proof or
    correspondence without a failing input -> VIOLATION ... no-failing-input-found; else pass."""
    prop = run.prop
    os.makedirs(EVIDENCE, exist_ok=True)
    os.makedirs(REPLAY, exist_ok=True)
    known = [k for k in common.known_findings() if k.get("property") == prop and k.get("status") == "known"]
    hits = [h for h in run.falsifier_hits if h["property"] == prop]
    other_hits = [h for h in run.falsifier_hits if h["property"] != prop]
    new_hits = []
    for h in hits:
        k = next((k for k in known if k["key"] in (h.get("key") or h["what"])), None)
        if k:
            line = "KNOWN-FINDING: property=%s %s" % (prop, k["what"])
            if line not in run.known_lines:
                run.known_lines.append(line)
        else:
            new_hits.append(h)
    broken = list(run.broken)
    for nm in obligations:
        if nm not in discharged:
            broken.append("theorem " + nm + " (coq/Props/%s.v) does not check" % prop)
    if not obligations:
        broken.append("no proof obligations found for " + prop)
    for cname in spec.get("components", []):
        c = run.components.get(cname)
        if c and c["diffs"]:
            broken.append("correspondence %s: model and implementation differ on %d of %d cases" % (cname, len(c["diffs"]), c["cases"]))
    if not build.driver_ok:
        broken.append("model does not build / extract (see make log)")
    gate = common.grep_gate()
    if gate:
        broken.append("forbidden declaration in the Coq development: " + gate[0])
    violations = 0
    lines = []
    for l in run.known_lines:
        lines.append(l)
    if new_hits:
        violations = len(new_hits)
        h = new_hits[0]
        path = os.path.join(REPLAY, "%s-%s.json" % (prop, common.digest(h)))
        json.dump({"property": prop, "kind": "failing-input", "hit": h, "all_hits": new_hits[:20], "seed": run.seed, "tier": run.tier,
                   "how": "./check %s --replay %s" % (prop, path)}, open(path, "w"), indent=1, default=str)
        lines.append("VIOLATION property=%s replay=%s" % (prop, path))
    elif broken:
        violations = 1
        first_diff = None
        for cname in spec.get("components", []):
            c = run.components.get(cname)
            if c and c["diffs"]:
                first_diff = {"component": cname, "case": c["diffs"][0]}
                break
        path = os.path.join(REPLAY, "%s-broken-%s.json" % (prop, common.digest(broken)))
        json.dump({"property": prop, "kind": "no-failing-input-found", "broken": broken, "first_differing_case": first_diff,
                   "props_log_tail": props_log[-2000:], "make_failed": build.failed_files, "seed": run.seed, "tier": run.tier,
                   "falsifier_evaluations": run.evaluations}, open(path, "w"), indent=1, default=str)
        lines.append("VIOLATION property=%s replay=%s no-failing-input-found" % (prop, path))
    wall = time.time() - run.t0
    comps = {k: {"cases": v["cases"], "differences": len(v["diffs"])} for k, v in run.components.items()}
    ev = {
        "property_id": prop, "tier": run.tier, "seed": run.seed, "level": spec["level"],
        "coverage": {
            "obligations": max(len(obligations), 0), "discharged": len(discharged),
            "theorems": obligations, "theorems_discharged": discharged,
            "checker_cmd": "cd /verif/coq && make -k -j16 && coqc -Q gen '' -Q Model '' -Q Proofs '' -Q Props '' Props/%s.v  (Print Assumptions after each theorem)" % prop,
            "trusted_base": TRUSTED_BASE + spec.get("trusted_extra", []),
            "evaluations": run.evaluations, "distinct_nontrivial": len(run.nontrivial),
            "rule": spec.get("rule", ""),
            "samples": run.samples[:8] if run.samples else [{"note": "no sample recorded"}],
            "components": comps, "input_distribution": run.hist,
            "generated_tables": {"fallbacks": build.gen.get("fallbacks", []) if isinstance(build.gen, dict) else []},
            "broken": broken, "falsifier_hits": len(new_hits), "hits_on_other_properties": len(other_hits),
            "notes": sorted(set(run.notes))[:20],
            "explanation": spec.get("explanation", ""),
        },
        "assumptions": spec.get("assumptions", []),
        "wall_s": round(wall, 2), "violations": violations,
    }
    json.dump(ev, open(os.path.join(EVIDENCE, prop + ".json"), "w"), indent=1, default=str)
    for l in lines:
        print(l)
    print("%s %s tier=%s seed=%d evaluations=%d nontrivial=%d obligations=%d/%d components=%s wall=%.1fs" % (
        "FAIL" if violations else "PASS", prop, run.tier, run.seed, run.evaluations, len(run.nontrivial),
        len(discharged), len(obligations), json.dumps(comps), wall))
    return 1 if violations else 0


def main():
    ap = argparse.ArgumentParser()
    ap.add_argument("prop", nargs="?")
    ap.add_argument("--tier", default=os.environ.get("VERIF_TIER", "quick"))
    ap.add_argument("--setup", action="store_true")
    ap.add_argument("--replay")
    ap.add_argument("--all", action="store_true")
    args = ap.parse_args()
    if os.environ.get("VERIF_TIER") in ("quick", "thorough"):
        args.tier = os.environ["VERIF_TIER"]
    seed = int(os.environ.get("VERIF_SEED", "0") or 0)
    if args.setup:
        b = common.build()
        print(b.make_log[-3000:])
        print("setup: make_ok=%s driver_ok=%s failed=%s fallbacks=%s" % (b.make_ok, b.driver_ok, b.failed_files, b.gen.get("fallbacks")))
        sys.exit(0 if (b.make_ok and b.driver_ok) else 1)
    import props
    if args.all:
        rc = 0
        for p in sorted(props.SPECS):
            rc |= os.system("%s %s %s --tier %s" % (common.PY, os.path.abspath(__file__), p, args.tier)) and 1
        sys.exit(rc)
    prop = args.prop
    if prop not in props.SPECS:
        print("unknown or unclaimed property", prop)
        sys.exit(2)
    spec = props.SPECS[prop]
    b = common.build()
    run = Run(prop, args.tier, seed)
    model = Model() if b.driver_ok else None
    if args.replay:
        rp = json.load(open(args.replay))
        rc = props.replay(run, model, rp)
        sys.exit(rc)
    # escalation (DESIGN 2.2): a proof obligation that no longer checks, or source functions that changed since the
    # model was written, multiply the budget of correspondence and falsifier
    import fingerprint
    changed_src = fingerprint.changed()
    pre_obl, pre_dis, _, _ = common.check_props_file(prop)
    run.scale = 1
    if changed_src:
        run.scale = 3
        run.notes.append("source changed since the model was written (budget x3): " + ", ".join(changed_src[:6]))
    if not pre_obl or set(pre_obl) != set(pre_dis):
        run.scale = 3
        run.notes.append("proof obligations of %s do not all check (budget x3)" % prop)
    try:
        if model is not None:
            spec["fn"](run, model)
            diffs = any(run.components.get(c, {}).get("diffs") for c in spec.get("components", []))
            if diffs and not [h for h in run.falsifier_hits if h["property"] == prop] and run.scale == 1:
                # model and code disagree but the property was not seen to fail: search harder before reporting
                run.notes.append("correspondence differs without a failing input: second pass with budget x3")
                run.scale = 3
                run.salt = "/second-pass"
                spec["fn"](run, model)
        else:
            run.broken.append("model driver unavailable")
    except Exception as e:
        run.broken.append("check crashed: %s" % "".join(traceback.format_exception_only(type(e), e)).strip())
        traceback.print_exc()
    finally:
        if model:
            model.close()
    obligations, discharged, log, status = common.check_props_file(prop)
    if args.tier == "thorough" and model is not None:
        try:
            import xcheck
            m2 = Model()
            xcheck.run_xcheck(run, m2)
            xcheck.run_xcheck_text(run, m2)
            m2.close()
            if run.components.get("X-extraction", {}).get("diffs"):
                run.broken.append("extraction cross-check: vm_compute and the extracted driver disagree")
        except Exception as e:
            run.notes.append("extraction cross-check crashed: %s" % type(e).__name__)
    if args.tier == "thorough":
        # independent re-check of the compiled property file and everything it depends on
        rcc, outc = common.sh("timeout 3000 coqchk -silent -o -Q gen \"\" -Q Model \"\" -Q Proofs \"\" -Q Props \"\" %s 2>&1" % prop, cwd=common.COQ, timeout=3100)
        import re as _re
        m = _re.search(r"\* Axioms:\s*(.*?)\n\s*\n\* Constants", outc, flags=_re.S)
        axioms = (m.group(1).strip() if m else "coqchk output not understood")
        run.notes.append("coqchk -o: Axioms: " + axioms)
        if rcc != 0 or axioms != "<none>":
            run.broken.append("coqchk -o on Props/%s: rc=%d axioms=%s" % (prop, rcc, axioms[:200]))
    rc = finalize(run, spec, obligations, discharged, log, b)
    sys.exit(rc)


if __name__ == "__main__":
    main()
