"""Per-property checks: which correspondences tie the model, which falsifier runs, what counts as non-trivial."""
import json, os, itertools
import common, gens, impl, mol_checks
from gens import AM


def _mol_run(run, model, opts, nrel_quick, nrel_thorough, exhaustive=None, completeness=False, extra_stream=None):
    rng = run.sub_rng("molecules")
    quick = run.tier == "quick"
    nrel = nrel_quick if quick else nrel_thorough
    nrel *= getattr(run, "scale", 1)
    groups = {} if completeness else None
    seen = set()

    def one(am, nrel_here):
        facts = mol_checks.check_one(run, model, am, opts, nrel_here, rng, groups)
        run.count("family:" + am.family.split(":")[0])
        run.count("atoms:%s" % ("1" if am.n() == 1 else "2-4" if am.n() <= 4 else "5-12" if am.n() <= 12 else "13-40" if am.n() <= 40 else ">40"))
        r = facts.get("rounds", "")
        auts = facts.get("auts")
        if auts is None and 3 <= am.n() <= 6:
            auts = len(impl.automorphisms(am))
        nontriv = am.n() >= 3 and ((auts or 0) > 1 or (r.startswith("ok ") and int(r[3:]) >= 2) or am.n() > 7)
        if nontriv and am.key() not in seen:
            seen.add(am.key()); run.nontrivial.add(am.key())
        if len(run.samples) < 6 and am.n() >= 4 and "tucan" in facts:
            run.samples.append({"molecule": am.to_json(), "tucan": facts["tucan"], "relistings": nrel_here})
        return facts

    for am in gens.standard_stream(rng, run.tier):
        one(am, nrel)
    for am in gens.cfi_files(2 if quick else 8):
        one(am, 1 if quick else 3)
    if extra_stream:
        for am in extra_stream(rng):
            one(am, nrel)
    if exhaustive:
        nmax = exhaustive[0] if quick else exhaustive[1]
        cnt = 0
        for am in gens.exhaustive_small(nmax):
            one(am, 1 if am.n() >= 3 else 0)
            cnt += 1
        run.count("exhaustive_n<=%d" % nmax, cnt)
    if completeness:
        mol_checks.check_completeness(run, groups)
        run.count("distinct_strings", len(groups))


MOL_ASSUME = ["bliss contract: canonical_permutation returns a bijection (H1) and maps colour-isomorphic inputs to one labelled graph (H2); "
              "checked on every implementation call of this run, assumed beyond",
              "the Gallina model computes what the Python computes: checked by the listed correspondence components on this run's inputs"]


def c13(run, model):
    _mol_run(run, model, {"K4", "C13"}, 4, 12, exhaustive=(3, 4))


def c04(run, model):
    _mol_run(run, model, {"K4", "K5", "K6", "C04"}, 4, 12, exhaustive=(3, 4))


def c12(run, model):
    _mol_run(run, model, {"K5", "C12"}, 0, 0)


def c01(run, model):
    _mol_run(run, model, {"K4", "K5", "K6", "K7", "C01"}, 6, 20, exhaustive=(4, 5), completeness=True)


def c02(run, model):
    _mol_run(run, model, {"K5", "K7", "C02"}, 0, 0, exhaustive=(4, 5), completeness=True, extra_stream=near_misses)


def c03(run, model):
    _mol_run(run, model, {"K5", "K7", "C03"}, 0, 0, exhaustive=(3, 4))


def c05(run, model):
    _mol_run(run, model, {"K7", "C05"}, 0, 0, exhaustive=(3, 4))


def near_misses(rng):
    """pairs with equal formula and degree sequence that are not isomorphic, and label-moved variants"""
    sk = gens.SKELETONS
    for a, b in (("shrikhande", "rook4x4"), ("ring12", "ring6+ring6"), ("2xring4", "ring8"), ("prism3", "K33"), ("cube", "2xK4")):
        for name in (a, b):
            n, e = sk[name]
            yield AM([6] * n, e, {}, {}, "nearmiss:" + name)
            yield AM([6] * n, e, {0: 13}, {}, "nearmiss:" + name)
    # isotope moved to a non-equivalent atom
    n, e = gens.path(6)
    for i in range(6):
        yield AM([6] * 6, e, {i: 13}, {}, "nearmiss:path6-label")
    n, e = gens.comb(4)
    for i in range(8):
        yield AM([6] * 8, e, {}, {i: 2}, "nearmiss:comb4-rad")
    for am in gens.cfi_files(4):
        yield am


NOT_CLAIMED = {}

NOTE_MODEL = ("Trusted: Coq kernel; the hand-written model (tied by the named correspondence components, which are differential tests); "
              "gen_tables.py; ExtrOcamlBasic extraction + ocaml/driver.ml; bliss/igraph as an oracle with contract H1/H2 (assumed, tested on every call).")

SPECS = {
    "C13": dict(fn=c13, level="proof", components=["K4"], assumptions=MOL_ASSUME,
                claim="Theorems classes_label_independent / classes_respect_automorphisms (unbounded: every molecule, every relabelling, listing order, bond orientation, payload) "
                      "about the Gallina model of partition_molecule_by_attribute/refine_partitions; model tied to the code by K4 (classes compared atom by atom) on every run; "
                      "falsifier checks label independence, equitability and automorphism-respect on the implementation.",
                note=NOTE_MODEL, design_ref="DESIGN.md 4.13",
                rule="molecule stream of gens.standard_stream (symmetric skeletons with partial labels, random, multi-component, organic, element traps, deep, trees, CFI) "
                     "+ exhaustive small scope; per molecule: relistings compared atom by atom through a tracer attribute, equitability and brute-force automorphisms (n<=7). "
                     "non-trivial = distinct molecule with >= 3 atoms and (non-trivial automorphism group or >= 2 refinement rounds or > 7 atoms)"),
    "C04": dict(fn=c04, level="proof", components=["K4", "K5", "K6"], assumptions=MOL_ASSUME,
                claim="Theorem canonical_classes_edges_unique: for every labelling oracle meeting the canonical-form contract H2, two descriptions of one molecule get the same "
                      "label->class map and edge set (unbounded). The bliss contract itself is assumed and tested (K6 = the property on the implementation).",
                note=NOTE_MODEL, design_ref="DESIGN.md 4.4",
                rule="same stream; per molecule the views (label -> element, mass, radical, class; edge set) of the canonical graphs of several relistings are compared; non-trivial as for C13"),
    "C12": dict(fn=c12, level="proof", components=["K5"], assumptions=MOL_ASSUME,
                claim="Theorem canonicalize_is_renaming: for every oracle returning a bijection (H1) the canonical graph is the input under a one-to-one renaming onto 0..n-1 with every "
                      "payload and bond datum kept in place. Mutation/aliasing of Python objects cannot be exhibited by a pure model: decided by deep before/after comparison on the implementation.",
                note=NOTE_MODEL, design_ref="DESIGN.md 4.12",
                rule="same stream; deep before/after comparison of the argument object, tracer-based attribute and bond-data carrying, repeated calls; non-trivial as for C13"),
    "C01": dict(fn=c01, level="proof", components=["K4", "K5", "K6", "K7"], assumptions=MOL_ASSUME,
                claim="Theorem tucan_invariant: for every oracle meeting the bliss contract (H1, H2), any two descriptions of one molecule (renaming, listing orders, bond orientation, payload) "
                      "give the same string; proved through label independence of the refinement, uniqueness of the canonical view, and serialize_depends_on_view_only "
                      "(worklist traversal, sort by Z, Hill formula, tuples, attribute blocks read the graph only through sorted / order-independent views). Unbounded in size and relabelling.",
                note=NOTE_MODEL, design_ref="DESIGN.md 4.1",
                rule="same stream + exhaustive small scope grouped by string against brute-force isomorphism classes; strings of relistings compared byte for byte; non-trivial as for C13"),
    "C02": dict(fn=c02, level="proof", components=["K5", "K7"], assumptions=MOL_ASSUME,
                rule="same stream + near-miss families (cospectral / same degree sequence pairs, moved labels, CFI) + exhaustive small scope; all molecules of the run grouped by string and "
                     "compared with isomorphism (brute force n<=6, VF2 above) in both directions; non-trivial as for C13"),
    "C03": dict(fn=c03, level="proof", components=["K5", "K7"], assumptions=MOL_ASSUME,
                rule="same stream; parse(tucan(G)) compared with G by an independent matcher, counts, second-generation string; non-trivial as for C13"),
    "C05": dict(fn=c05, level="proof", components=["K7"], assumptions=MOL_ASSUME,
                rule="same stream; every emitted string judged by harness/validator.py (regex + counting from the EBNF text); non-trivial as for C13"),
}


import parse_checks
for _k, _v in parse_checks.SPECS.items():
    SPECS[_k] = dict(_v)
SPECS["C10"].update(
    claim="Theorems ref_parse_sound_complete / ref_parse_errors_typed / sem_accepts_iff / sem_graph_spec / lex_text_print: the executable reference reader accepts exactly the "
          "inductive transcription `Sentence` of the published EBNF (tables regenerated from tucan.g4 and tucan.ebnf, proved identical) plus the three semantic conditions, and returns the denoted graph. "
          "The ANTLR-generated recogniser is NOT modelled: the implementation is tied to the reference by K8 (differential: sentences, all single-token mutants of samples, raw-character mutants) only.",
    note=NOTE_MODEL + " For C10 the theorem is about the reference reader; the implementation inherits it only as far as K8 samples (ANTLR ATN interpreter is outside the model).",
    design_ref="DESIGN.md 4.10", replay=parse_checks.replay)
SPECS["C11"].update(replay=parse_checks.replay)


def replay(run, model, rp):
    """Re-run the falsifier on the recorded failing input."""
    spec = SPECS.get(rp.get("property"), {})
    if "replay" in spec:
        return spec["replay"](run, model, rp)
    hit = rp.get("hit")
    if not hit:
        print("replay file names no failing input: ", json.dumps(rp.get("broken")))
        return 1
    am = AM.from_json(hit["molecule"])
    prop = rp["property"]
    opts = {prop} | {"K5"}
    rng = run.sub_rng("replay")
    ex = hit.get("extra") or {}
    if "relisted" in ex:
        # compare exactly the two recorded descriptions
        g1 = mol_checks.build(am); g2 = mol_checks.build(AM.from_json(ex["relisted"]))
        s1, s2 = impl.tucan_of(g1), impl.tucan_of(g2)
        v1, v2 = impl.view(impl.canonicalize_molecule(g1)), impl.view(impl.canonicalize_molecule(g2))
        bad = (s1 != s2) if prop == "C01" else (v1 != v2)
        print("description A:", s1); print("description B:", s2)
        if bad:
            print("VIOLATION property=%s replay=%s" % (prop, "(replayed)"))
            return 1
        return 0
    mol_checks.check_one(run, model, am, opts, 8, rng, {})
    hits = [h for h in run.falsifier_hits if h["property"] == prop]
    for h in hits[:3]:
        print(json.dumps(h, default=str)[:600])
    if hits:
        print("VIOLATION property=%s replay=%s" % (prop, "(replayed)"))
        return 1
    print("not reproduced")
    return 0
